"""Conformance of the real linux/platform.c (threads, locks, condition variables) with the contract the deterministic scheduler
implements in its place (harness/platform/h_platform.c, real threads).  Part of every check whose conclusion rests on detsched."""
import os
from . import common as C

SRC = [os.path.join(C.VERIF, "harness/platform/h_platform.c"), "acquire-core-libs/src/acquire-core-platform/linux/platform.c"]


def run(ctx):
    exe, log = C.compile_harness("h_platform", SRC, san=False, extra_flags=["-pthread"], libs=["-Wl,--wrap=pthread_cond_wait", "-Wl,--wrap=pthread_timedjoin_np", "-Wl,--wrap=pthread_tryjoin_np", "-Wl,--wrap=pthread_clockjoin_np"])
    if not exe:
        ctx.corr_broken.append({"what": "platform conformance harness does not compile against the repository", "log": log[-2000:]})
        return
    rc, out, err = C.sh([exe], timeout=700)
    lines = [l for l in out.split("\n") if l]
    ctx.cov["platform_conformance"] = lines
    for l in lines:
        if l.startswith("ORACLE "):
            ctx.violation("oracle", "h_platform:%s" % l.split()[1],
                          "real platform.c breaks the contract the deterministic scheduler stands for: %s" % l,
                          {"harness": "h_platform", "how": "build harness/platform/h_platform.c with the repository's linux/platform.c and run it"})
    if rc != 0 and not any(l.startswith("ORACLE ") for l in lines):
        ctx.violation("crash", "h_platform:crash", "platform conformance harness ended with rc=%d: %s" % (rc, (out + err)[-400:]),
                      {"harness": "h_platform"})
