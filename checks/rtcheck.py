"""Generic body of the whole-runtime checks: Lean theorems over M1 + exploration of the real runtime with
implementation-side oracles + co-simulation with M1 (see checks/rtx.py)."""
import re

from . import common as C
from . import rtx, runtime as R

DRIVERS = ["acq_runtime"]

# per property: Lean module, audited theorems, scenario classes (quick subset first), which oracle kinds belong to it
TABLE = {
    "C04": {
        "module": "AcqVerif.Props.C04",
        "theorems": ["AcqVerif.C04.stored_is_a_prefix_of_the_camera_frames", "AcqVerif.C04.storage_gets_consecutive_committed_frames",
                     "AcqVerif.C04.committed_frames_are_the_camera_frames", "AcqVerif.C04.channel_used_within_its_rules",
                     "AcqVerif.C04.undisturbed_acquisition_is_complete", "AcqVerif.C04.stopped_undisturbed_acquisition_is_complete", "AcqVerif.Runtime.DStop.micro", "AcqVerif.Runtime.DEnd.micro", "AcqVerif.Runtime.DFin.micro",
                     "AcqVerif.Runtime.DUse.micro", "AcqVerif.Runtime.DLog.micro", "AcqVerif.Runtime.DId.micro"],
        "classes": ["single", "two", "mon", "slowmon", "restart", "delay", "abort", "stofault", "camempty", "avg1", "twofail", "camfault"],
        "kinds": ("stored-", "camera-delivered", "packet-", "never-returns", "CRASH"),
        "what": "a finite acquisition that is started and stopped hands storage exactly the camera's N frames, in order, with ids, hardware ids "
                "and pixel bytes unchanged (after an abort or a storage fault: a gap-free prefix), for one and two streams, wrapping rings, "
                "monitoring clients and write delays",
    },
    "C06": {
        "module": "AcqVerif.Props.C06",
        "theorems": ["AcqVerif.C06.monitor_consumes_the_stream_in_order", "AcqVerif.C06.mapped_region_is_the_next_bytes",
                     "AcqVerif.C06.flushed_monitor_has_nothing_unread", "AcqVerif.C06.fresh_monitor_sees_only_the_current_run",
                     "AcqVerif.C06.frames_of_the_current_run", "AcqVerif.C06.stop_flushes_a_registered_monitor", "AcqVerif.Runtime.DMon.micro"],
        "classes": ["mon", "slowmon", "holdmon", "abortmon", "latemon", "avgmon", "avg1", "camfaultmon", "switchmon"],
        "kinds": ("monitor-", "map-read-failed", "stored-", "camera-delivered", "never-returns", "CRASH"),
        "what": "a client that maps/unmaps (partially, slowly, holding regions across stop/abort, over several acquisitions) sees consecutive frame "
                "ids with the right pixels, nothing of a finished acquisition later, map/unmap keep succeeding, and storage is unaffected",
    },
    "C07": {
        "module": "AcqVerif.Props.C07",
        "theorems": ["AcqVerif.C07.stop_returns_armed_and_clean", "AcqVerif.C07.stop_has_joined", "AcqVerif.C07.start_over_finished_threads",
                     "AcqVerif.C07.idle_runtime_is_clean", "AcqVerif.C07.refusal_wakes_a_sleeping_source", "AcqVerif.C07.stop_never_waits_for_an_orphaned_sleeper",
                     "AcqVerif.Runtime.TInvAll.micro", "AcqVerif.Runtime.DWake.micro", "AcqVerif.Runtime.DStop.micro", "AcqVerif.Runtime.Reach.micro"],
        "classes": ["abort", "abortmon", "holdmon", "trig", "avgabort", "stofault", "restart", "reconf", "twofail", "trigfault", "avgf32", "avgabortmon", "drop2"],
        "kinds": ("still-running-after", "state-after", "never-returns", "stored-", "camera-delivered", "CRASH", "monitor-frame-not-from", "leftover-"),
        "what": "abort/stop from any moment (ring full, client holding data, trigger wait, averaging, finished) return, leave workers finished, devices "
                "stopped, runtime Armed, storage with a gap-free prefix, and the next acquisition complete",
    },
    "C08": {
        "module": "AcqVerif.Props.C08",
        "theorems": ["AcqVerif.C08.camera_stopped_once_per_start", "AcqVerif.C08.camera_started_only_when_armed", "AcqVerif.C08.camera_used_only_while_running",
                     "AcqVerif.C08.running_device_has_a_worker", "AcqVerif.C08.running_only_while_workers_alive", "AcqVerif.C08.not_running_after_workers_exit",
                     "AcqVerif.C08.unconfigured_stream_untouched", "AcqVerif.C08.start_while_running_refused"],
        "classes": ["api", "switchfail", "restart", "two", "camfault", "reconf", "stofault", "stopawait", "twofail", "drop2", "setfail", "avgf32poll", "incomplete", "stofaultpoll"],
        "kinds": ("device-", "state-", "still-running-after", "never-returns", "CRASH"),
        "what": "every device is opened/closed once, started only when armed, stopped once per start, used only between start and stop; "
                "Running reported only while workers are alive",
    },
    "C09": {
        "module": "AcqVerif.Props.C09",
        "theorems": ["AcqVerif.C09.nothing_appended_after_failed_append", "AcqVerif.C09.failed_storage_not_running",
                     "AcqVerif.C09.no_frame_call_after_failed_frame_call", "AcqVerif.C09.failed_camera_is_stopped", "AcqVerif.C09.one_stop_per_start",
                     "AcqVerif.C09.not_running_once_workers_exited", "AcqVerif.C09.returned_means_clean",
                     "AcqVerif.C09.faulty_run_stores_a_prefix", "AcqVerif.C09.acquisition_after_a_failure_is_complete"],
        "classes": ["stofault", "camfault", "avgfault", "trigfault", "twofail", "avgf32", "stopartial", "stofaultpoll"],
        "kinds": ("append-after-failed", "get_frame-after-failed", "still-running-after", "state-", "never-returns", "stored-", "camera-delivered",
                  "device-", "CRASH"),
        "what": "after a scripted camera/storage failure at any call index nothing more reaches the device, the camera is stopped, stop/abort return, "
                "the runtime stops reporting Running, and the next fault-free acquisition is complete",
    },
}


def relevant_for(prop):
    kinds = TABLE[prop]["kinds"]

    def rel(p):
        if p["kind"] == "crash":
            return True
        return any(k in p["msg"] or k in p["sig"] for k in kinds)
    return rel


def prove_all(ctx, parts):
    """kernel-check several property modules and add up the bookkeeping"""
    tot = {"obligations": 0, "discharged": 0, "axioms": {}, "property_theorems": [], "checker_cmd": []}
    for module, theorems, targets in parts:
        ctx.prove(module, theorems, extra_targets=targets)
        tot["obligations"] += ctx.cov.get("obligations", 0)
        tot["discharged"] += ctx.cov.get("discharged", 0)
        tot["axioms"].update(ctx.cov.get("axioms", {}))
        tot["property_theorems"] += ctx.cov.get("property_theorems", [])
        tot["checker_cmd"].append(ctx.cov.get("checker_cmd", ""))
    ctx.cov.update({k: v for k, v in tot.items() if k != "checker_cmd"})
    ctx.cov["checker_cmd"] = " ; ".join(tot["checker_cmd"])


def run(ctx):
    t = TABLE[ctx.prop]
    parts = [(t["module"], t["theorems"], DRIVERS)]
    m2 = None
    if ctx.prop == "C08":
        from . import c08m2 as m2
        parts.append((m2.MODULE, m2.THEOREMS, [m2.DRIVER]))
    prove_all(ctx, parts)
    from . import platconf
    platconf.run(ctx)        # the real platform.c keeps the contract detsched stands for (real threads)
    ex = rtx.Explorer(ctx)
    if not ex.build():
        return
    rel = relevant_for(ctx.prop)
    rtx.run_corpus(ctx, ex, ctx.prop, rel)
    if m2 is not None:
        m2.run_m2(ctx, ex)       # control plane: device open/close/set/start/stop per API call, model M2 vs the real runtime
    thorough = ctx.tier == "thorough"
    nscen, nsched = (40, 14) if thorough else (12, 7)
    rtx.explore(ctx, ex, t["classes"], nscen, nsched, rel)
    # systematic part: all schedules within `bound` deviations of the fair one, for a few scenarios of each class
    bound, budget, per_class = (2, 1500, 2) if thorough else (1, 260, 1)
    for cls in t["classes"]:
        for _ in range(per_class):
            sc = rtx.gen(ctx.rng, cls)
            rtx.enumerate_schedules(ctx, ex, sc, bound, budget, rel)
    if ctx.prop == "C07":
        # averaging switched off by a configure *during* the run, then abort / stop: only the "returns" half of the property is judged
        # here (what is stored in such a run is the subject of the known finding about configuring a running acquisition)
        only_returns = lambda p: p["kind"] == "crash" or "never-returns" in p["msg"] or "never-returns" in p["sig"]
        rtx.explore(ctx, ex, ["reconfavg"], 16 if thorough else 6, 8 if thorough else 5, only_returns)
    if ctx.prop == "C09":
        # the shipped storage devices themselves: a write that fails ends the acquisition, and the next fault-free acquisition with the
        # same device on the same path starts and is complete — every fault index x fault kind of the life cycle "retry-same-path",
        # real raw / tiff / tiff-json devices through the real HAL and platform layer (harness and model of C14 / C16)
        from . import storage_io as S
        keep = dict(ctx.cov)
        sexe, sdrv = S.build(ctx)
        if sexe:
            cases = S.exhaustive_fault_cases(sdrv, kinds=("raw", "tiff", "sxs"), only=("retry-same-path", "two-acq", "restart"))
            st = S.new_stats()
            problems = S.run_batch(sexe, sdrv, cases, st)
            S.report(ctx, sexe, sdrv, cases, problems, {"unowned-pwrite", "unowned-close", "unowned-flock", "descriptor-leak", "unreported-write-failure"}, crash_is_mine=True)
            keep["storage_devices_after_a_failed_write"] = {"cases": len(cases), "agree_with_storage_model": st.get("validated")}
        ctx.cov.clear(); ctx.cov.update(keep)
    ex.evidence()
    ctx.cov["rule"] += ". Property decided on the implementation by the oracles: " + t["what"]
    ctx.cov["exhaustive"] = False
    ctx.assumptions += R.ASSUMPTIONS
    ctx.assumptions.append("M1 covers one acquire_configure with fixed devices followed by the data-path calls; averaging, triggers, write delay, "
                           "device switching and shutdown are explored on the implementation only (classes outside COSIM_CLASSES)")


def replay(ctx, path):
    import json
    rp = json.load(open(path)).get("replay", {})
    if isinstance(rp, dict) and rp.get("harness") == "h_storage_io":
        from . import storage_io as S
        return S.replay_file(ctx, path, {"unowned-pwrite", "unowned-close", "unowned-flock", "descriptor-leak", "unreported-write-failure"}, True)
    if isinstance(rp, dict) and rp.get("harness") == "h_platform":
        from . import platconf
        platconf.run(ctx)
        return 1 if ctx.violations else 0
    return rtx.replay(ctx, path)
