"""C12 — device selection agrees with enumeration; bad input gives errors, not crashes.

Real code : device.manager.cpp + loader.c + driver.c (+ logger.c, linux/platform.c, props/device.c)
            compiled with harness/select/h_select.cpp (ASan+UBSan), loading the real
            libacquire-driver-common.so (built here from the working tree of ACQ_REPO) and mock
            driver libraries (harness/select/mock_driver.c) laid out next to the executable.
Model     : lean exe `acq_select` (lean/AcqVerif/Select/Model.lean, Regex.lean).
Extracted : lean/AcqVerif/Generated/DeviceTable.lean (the real common driver, executed).

Layer 1: the harness computes with its own std::regex / regex_match(icase) calls the verdicts of
the engine over the enumerated names and the check hands them to the model; everything else
(NUL rule, kind filter, enumeration order, first match, error paths) is the model's prediction.
Layer 2: patterns generated from the subset grammar are also decided by the Lean matcher alone.
"""
import json
import os
import re
import shutil
from concurrent.futures import ThreadPoolExecutor

from . import common as C

MODULE = "AcqVerif.Props.C12"
DRIVERS = ["acq_select"]
THEOREMS = [
    "AcqVerif.C12.C12_first_match",
    "AcqVerif.C12.C12_no_match_is_error",
    "AcqVerif.C12.C12_empty_pattern",
    "AcqVerif.C12.C12_nul_rule",
    "AcqVerif.C12.C12_bad_input_is_error",
    "AcqVerif.C12.C12_total",
    "AcqVerif.C12.C12_get_agrees",
    "AcqVerif.C12.C12_absent_driver",
    "AcqVerif.C12.C12_enumeration",
    "AcqVerif.C12.C12_open_agrees",
    "AcqVerif.C12.C12_common_table_open_agrees",
    "AcqVerif.C12.C12_common_driver_faithful",
    "AcqVerif.C12.C12_matcher_correct",
    "AcqVerif.C12.C12_whole_name_case_insensitive",
    "AcqVerif.C12.C12_select_regex",
]

HS = os.path.join(C.VERIF, "harness", "select")
GEN = os.path.join(C.LEAN, "AcqVerif", "Generated", "DeviceTable.lean")
PCG = "acquire-driver-common/src/simcams/3rdParty/pcg-c-basic-0.9"

LIBCOMMON_SRC = [
    "acquire-driver-common/src/basics.driver.c",
    "acquire-driver-common/src/simcams/simulated.camera.c",
    "acquire-driver-common/src/simcams/popcount.cpp",
    "acquire-driver-common/src/simcams/imfill.pattern.cpp",
    PCG + "/pcg_basic.c",
    "acquire-driver-common/src/storage/basic.storage.c",
    "acquire-driver-common/src/storage/raw.c",
    "acquire-driver-common/src/storage/side-by-side-tiff.cpp",
    "acquire-driver-common/src/storage/tiff.cpp",
    "acquire-driver-common/src/storage/trash.c",
    "acquire-core-libs/src/acquire-core-logger/logger.c",
    "acquire-core-libs/src/acquire-core-platform/linux/platform.c",
    "acquire-core-libs/src/acquire-device-properties/device/props/device.c",
    "acquire-core-libs/src/acquire-device-properties/device/props/components.c",
    "acquire-core-libs/src/acquire-device-properties/device/props/storage.c",
]
HARNESS_SRC = [
    os.path.join(HS, "h_select.cpp"),
    os.path.join(HS, "calls.c"),
    "acquire-core-libs/src/acquire-device-hal/device/hal/device.manager.cpp",
    "acquire-core-libs/src/acquire-device-hal/device/hal/loader.c",
    "acquire-core-libs/src/acquire-device-hal/device/hal/driver.c",
    "acquire-core-libs/src/acquire-core-logger/logger.c",
    "acquire-core-libs/src/acquire-core-platform/linux/platform.c",
    "acquire-core-libs/src/acquire-device-properties/device/props/device.c",
    "acquire-core-libs/src/acquire-device-hal/device/hal/camera.c",
    "acquire-core-libs/src/acquire-device-hal/device/hal/storage.c",
    "acquire-core-libs/src/acquire-device-properties/device/props/storage.c",
    "acquire-core-libs/src/acquire-device-properties/device/props/components.c",
]
MANAGER_CPP = "acquire-core-libs/src/acquire-device-hal/device/hal/device.manager.cpp"

# branches of the model the property is about (a case is non-trivial if it takes one of them)
INTERESTING = ("sel.hit-after-nonmatching-of-kind", "sel.miss-name", "sel.bad-regex", "sel.null-with-length",
               "+other-kind-matches", "+nul-padded", "+nul-embedded", "+nul-only", "sel.miss-no-such-kind",
               "sel.any-no-such-kind", "get.out-of-range", "getdrv.absent", "getdrv.out-of-range", "sel.hit-first-of-kind")
LABEL = re.compile(r" ~(\S+)$")
META = set(b"^$\\.*+?()[]{}|")


# ------------------------------------------------------------------ building
def slot_names():
    """the library names DeviceManagerV0::init loads, in order (read from the source)"""
    src = open(os.path.join(C.REPO, MANAGER_CPP), encoding="utf-8", errors="replace").read()
    return re.findall(r'driver_load\(\s*"([^"]+)"', src)


def build(ctx):
    """Build the common driver, the mocks, the extractor (and run it), prove, build the harness.
    Returns a dict of paths or None."""
    inc = [os.path.join(C.REPO, PCG), os.path.join(C.REPO, "acquire-driver-common/src")]
    with ThreadPoolExecutor(max_workers=4) as ex:
        f_lib = ex.submit(C.compile_harness, "select_libcommon", LIBCOMMON_SRC,
                          extra_flags=["-fPIC", "-mavx2"], libs=["-shared"], includes=inc)
        f_mock = ex.submit(C.compile_harness, "select_mock", [os.path.join(HS, "mock_driver.c")],
                           extra_flags=["-fPIC"], libs=["-shared"])
        f_noent = ex.submit(C.compile_harness, "select_mock_noentry", [os.path.join(HS, "mock_driver.c")],
                            extra_flags=["-fPIC"], libs=["-shared"], defines=["MOCK_NO_ENTRY"])
        f_unres = ex.submit(C.compile_harness, "select_mock_unresolved", [os.path.join(HS, "mock_driver.c")],
                            extra_flags=["-fPIC"], libs=["-shared"], defines=["MOCK_UNRESOLVED"])
        f_ext = ex.submit(C.compile_harness, "select_extract", [os.path.join(HS, "extract_devtable.c")])
        f_har = ex.submit(C.compile_harness, "h_select", HARNESS_SRC)
        lib, log_lib = f_lib.result()
        mock, log_mock = f_mock.result()
        noent, log_noent = f_noent.result()
        unres, log_unres = f_unres.result()
        ext, log_ext = f_ext.result()
        har, log_har = f_har.result()
    for what, p, log in (("libacquire-driver-common.so", lib, log_lib), ("mock driver", mock, log_mock),
                         ("mock driver without entry point", noent, log_noent), ("mock driver with an unresolved symbol", unres, log_unres), ("device table extractor", ext, log_ext)):
        if not p:
            ctx.corr_broken.append({"what": "%s does not build from %s" % (what, C.REPO), "log": log[-3000:]})
            return None
    # 1. regenerate the device table from the real driver
    rc, out, err = C.sh([ext, lib], timeout=60, env=C.SAN_ENV)
    if rc != 0 or "def rows" not in out:
        ctx.violation("crash", "extract_devtable:crash",
                      "running describe/open/describe/close over the indices of the real common driver failed (rc=%d): %s" % (rc, err[-1500:]),
                      {"harness": "extract_devtable", "cmd": [ext, lib]})
        return None
    os.makedirs(os.path.dirname(GEN), exist_ok=True)
    old = open(GEN).read() if os.path.exists(GEN) else None
    if old != out:
        with C.LakeLock():
            with open(GEN, "w") as f:
                f.write(out)
    ctx.cov["device_table_changed_this_run"] = old != out
    # implementation-side oracle on what the extractor just observed: an index at or beyond device_count is an error for describe and
    # open (the property's "out-of-range indices ... produce an error status"); gives the replay when the table theorem stops checking
    ncount = int(re.search(r"def deviceCount : Nat := (\d+)", out).group(1))
    for m in re.finditer(r"index := (\d+), descOk := (true|false).*?\n\s*openOk := (true|false)", out):
        i = int(m.group(1))
        if i >= ncount and (m.group(2) == "true" or m.group(3) == "true"):
            ctx.violation("oracle", "extract_devtable:out-of-range-index-accepted",
                          "the real common driver accepts the out-of-range index %d (device_count = %d): describe -> %s, open -> %s" % (
                              i, ncount, "Device_Ok" if m.group(2) == "true" else "Device_Err", "Device_Ok" if m.group(3) == "true" else "Device_Err"),
                          {"harness": "extract_devtable", "cmd": [ext, lib], "index": i})
    ctx.cov["out_of_range_indices_probed"] = sum(1 for m in re.finditer(r"index := (\d+),", out) if int(m.group(1)) >= ncount)
    # 2. prove
    ctx.prove(MODULE, THEOREMS, extra_targets=DRIVERS)
    if not os.path.exists(C.driver_path("acq_select")):
        ctx.corr_broken.append({"what": "model driver acq_select does not build"})
        return None
    # 3. harness
    if not har:
        ctx.corr_broken.append({"what": "harness h_select does not compile against %s" % C.REPO, "log": log_har[-3000:]})
        return None
    names = slot_names()
    if len(names) != 6:
        ctx.corr_broken.append({"what": "DeviceManagerV0::init no longer loads six driver libraries (model has six slots)", "found": names})
        return None
    return {"lib": lib, "mock": mock, "noentry": noent, "unresolved": unres, "harness": har, "names": names, "table": parse_table(out)}


def parse_table(text):
    """rows of the generated table: (index, descOk, kind, name bytes) for index < deviceCount"""
    n = int(re.search(r"def deviceCount : Nat := (\d+)", text).group(1))
    rows = []
    for m in re.finditer(r"index := (\d+), descOk := (true|false), deviceId := (\d+), kind := (\d+), name := \[([^\]]*)\]", text):
        i = int(m.group(1))
        if i < n:
            rows.append((int(m.group(4)), bytes(int(x) for x in m.group(5).split(",") if x.strip())))
    return rows


# ------------------------------------------------------------------ configurations
def hexs(b):
    return b.hex() if b else "-"


NAME_POOL = [b"raw", b"RAW", b"rawr", b"xraw", b"Raw ", b"tiff", b"Tiff", b"tiff-json", b"TIFF-JSON2", b"trash", b"TRASH", b"trash2",
             b"simulated: empty", b"Simulated: Radial Sin", b"simulated: uniform random", b"SIMULATED: UNIFORM RANDOM 2", b"random",
             b"a.b", b"a+b", b"(x)", b"[raw]", b"raw*", b"a|b", b"\\d", b"a", b"A", b"ab", b"aB", b"abc", b"zarr", b"Zarr", b"ZarrBlosc1ZstdByteShuffle",
             b"Hamamatsu C15440-20UP", b"hdcam 0", b"line\nbreak", b"cr\rname", b"tab\tname", b"\x80\xff\xfe", b"caf\xc3\xa9", b"a" * 255, b"Ab" * 100, b"%s%n%d", b"",
             b"-", b"^", b"$", b"x{2}", b"\\", b"]", b"0", b"9", b"_", b"  ", b"trash\x01"]


def gen_mock_devices(rng, rich):
    n = rng.choice([0, 1, 1, 2, 3, 4, 6] if rich else [0, 1, 2, 3])
    devs = []
    for _ in range(n):
        kind = rng.choice([1, 1, 1, 2, 2, 2, 3, 4, 0, 6, 5, 7])
        r = rng.random()
        if r < 0.75:
            name = rng.choice(NAME_POOL)
        elif r < 0.9:
            name = bytes(rng.choice(b"abcABC rw.-") for _ in range(rng.randrange(1, 12)))
        else:
            name = bytes(rng.randrange(1, 256) for _ in range(rng.randrange(1, 40)))
        devs.append((kind, name[:255]))
    return devs


def make_config(rng, present_mask, common, rich=True):
    """slots: list of (state, devices). state in common|absent|noentry|initfail|garbage|unresolved|mock (to the model, a library that cannot be loaded is absent)"""
    slots = [("common" if common else rng.choice(["absent", "absent", "garbage", "noentry", "initfail", "unresolved"]), [])]
    for s in range(1, 6):
        if present_mask >> (s - 1) & 1:
            slots.append(("mock", gen_mock_devices(rng, rich)))
        else:
            slots.append((rng.choice(["absent", "absent", "absent", "noentry", "initfail", "garbage", "unresolved"]), []))
    return slots


def config_lines(slots):
    out = ["cfg"]
    for i, (st, devs) in enumerate(slots):
        out.append("slot %d %s" % (i, st))
        for k, n in devs:
            out.append("dev %d %d %s" % (i, k, hexs(n)))
    return out


def layout(paths, slots, tag):
    """lay the configuration out on disk; returns the path of the harness executable inside it"""
    d = os.path.join(os.path.dirname(paths["harness"]), "cfg_%s" % tag)
    shutil.rmtree(d, ignore_errors=True)
    os.makedirs(d)
    exe = os.path.join(d, "h_select")
    os.link(paths["harness"], exe)
    for (st, devs), name in zip(slots, paths["names"]):
        so = os.path.join(d, "lib%s.so" % name)
        if st == "common":
            shutil.copyfile(paths["lib"], so)
        elif st == "mock" or st == "initfail":
            shutil.copyfile(paths["mock"], so)
            with open(so + ".devices", "w") as f:
                if st == "initfail":
                    f.write("initfail\n")
                for k, n in devs:
                    f.write("%d %s\n" % (k, hexs(n)))
        elif st == "noentry":
            shutil.copyfile(paths["noentry"], so)
        elif st == "unresolved":
            shutil.copyfile(paths["unresolved"], so)
        elif st == "garbage":
            with open(so, "wb") as f:
                f.write(b"\x7fELF this is not a shared object\n" * 3)
    return exe


def enumerated(paths, slots):
    """(kind, name) in enumeration order, as the check expects it (used only to aim the generators)"""
    out = []
    for st, devs in slots:
        if st == "common":
            out += paths["table"]
        elif st == "mock":
            out += devs
    return out


# ------------------------------------------------------------------ subset grammar (layer 2)
def printable(b):
    return all(32 <= c < 127 for c in b)


def esc_lit(c):
    ch = bytes([c])
    if c in META:
        return b"\\" + ch
    return ch


def esc_item(c):
    ch = bytes([c])
    if c in b"\\]^-[":
        return b"\\" + ch
    return ch


def render_item(it):
    if it[0] == "s":
        return esc_item(it[1])
    if it[0] == "r":
        return esc_item(it[1]) + b"-" + esc_item(it[2])
    return {"d": b"\\d", "w": b"\\w", "sp": b"\\s"}[it[0]]


def render(ast, rng):
    """-> (bytes, precedence) with 0 = alternation, 1 = concatenation, 2 = atom / quantified atom"""
    t = ast[0]
    if t == "eps":
        return rng.choice([b"()", b"(?:)"]), 2
    if t == "chr":
        return esc_lit(ast[1]), 2
    if t == "any":
        return b".", 2
    if t == "cls":
        neg, items = ast[1], ast[2]
        if not neg and len(items) == 1 and items[0][0] in ("d", "w", "sp") and rng.random() < 0.5:
            return render_item(items[0]), 2
        return b"[" + (b"^" if neg else b"") + b"".join(render_item(i) for i in items) + b"]", 2
    if t == "cat":
        a, pa = render(ast[1], rng)
        b, pb = render(ast[2], rng)
        if pa < 1:
            a = group(a, rng)
        if pb < 1:
            b = group(b, rng)
        return a + b, 1
    if t == "alt":
        a, _ = render(ast[1], rng)
        b, _ = render(ast[2], rng)
        return a + b"|" + b, 0
    a, pa = render(ast[1], rng)
    if pa < 2 or ast[1][0] in ("star", "plus", "opt"):
        a = group(a, rng)
    q = {"star": b"*", "plus": b"+", "opt": b"?"}[t]
    if rng.random() < 0.12:
        q += b"?"  # lazy form: same language
    return a + q, 2


def group(b, rng):
    return (b"(" if rng.random() < 0.6 else b"(?:") + b + b")"


def encode_item(it):
    if it[0] == "s":
        return "s:%d" % it[1]
    if it[0] == "r":
        return "r:%d:%d" % (it[1], it[2])
    return it[0]


def encode(ast):
    t = ast[0]
    if t in ("eps", "any"):
        return [t]
    if t == "chr":
        return ["chr:%d" % ast[1]]
    if t == "cls":
        return ["cls:" + ";".join(["1" if ast[1] else "0"] + [encode_item(i) for i in ast[2]])]
    if t in ("cat", "alt"):
        return [t] + encode(ast[1]) + encode(ast[2])
    return [t] + encode(ast[1])


def has_quant(ast):
    t = ast[0]
    if t in ("star", "plus", "opt"):
        return True
    if t in ("cat", "alt"):
        return has_quant(ast[1]) or has_quant(ast[2])
    return False


def cat_all(parts):
    if not parts:
        return ("eps",)
    out = parts[-1]
    for p in reversed(parts[:-1]):
        out = ("cat", p, out)
    return out


def flip(c, rng):
    if 65 <= c <= 90 and rng.random() < 0.5:
        return c + 32
    if 97 <= c <= 122 and rng.random() < 0.5:
        return c - 32
    return c


def class_for(c, rng, hit=True):
    """a character class that contains (hit) or does not contain c"""
    lc = c + 32 if 65 <= c <= 90 else c
    items = []
    k = rng.random()
    if k < 0.3 and (48 <= c <= 57 or 65 <= c <= 90 or 97 <= c <= 122):
        lo = max(48 if c <= 57 else (65 if c <= 90 else 97), c - rng.randrange(0, 4))
        hi = min(57 if c <= 57 else (90 if c <= 90 else 122), c + rng.randrange(0, 4))
        items.append(("r", lo, hi))
    elif k < 0.45 and (48 <= c <= 57 or 65 <= lc - 32 <= 90 or c == 95):
        items.append(("w",))
    elif k < 0.55 and 48 <= c <= 57:
        items.append(("d",))
    elif k < 0.65 and (c == 32 or 9 <= c <= 13):
        items.append(("sp",))
    else:
        items.append(("s", flip(c, rng)))
    for _ in range(rng.randrange(0, 3)):
        x = rng.choice(b"abcxyzABC019 _-.:")
        items.insert(rng.randrange(0, len(items) + 1), ("s", x))
    neg = False
    if not hit or rng.random() < 0.15:
        neg = True  # negated class containing c => miss; make it a hit again half of the time by removing c
        if hit:
            items = [("s", x) for x in b"\x7f~" if x != c] or [("s", 1)]
    return ("cls", neg, items)


def generalise(name, rng):
    """an AST built from a device name: mostly matches it (whole), sometimes a near miss"""
    parts = []
    i = 0
    n = len(name)
    miss_at = rng.randrange(0, n) if n and rng.random() < 0.3 else -1
    if n > 4 and rng.random() < 0.3:  # .* prefix or suffix
        cut = rng.randrange(1, n)
        if rng.random() < 0.5:
            parts.append(("star", ("any",)))
            i = cut
        else:
            n = cut
    while i < n:
        c = name[i]
        r = rng.random()
        if i == miss_at:
            parts.append(("chr", (c + 1) if c < 126 else 33))
        elif r < 0.55:
            parts.append(("chr", flip(c, rng)))
        elif r < 0.65:
            parts.append(("any",))
        elif r < 0.8:
            parts.append(class_for(c, rng))
        elif r < 0.86:
            parts.append((rng.choice(["plus", "star", "opt"]), ("chr", flip(c, rng))))
        elif r < 0.9:
            parts.append(("opt", ("chr", rng.choice(b"xyz"))))
            parts.append(("chr", c))
        elif r < 0.95 and i + 1 < n:
            parts.append(("alt", ("chr", rng.choice(b"qQ7")), ("cat", ("chr", flip(c, rng)), ("chr", flip(name[i + 1], rng)))))
            i += 1
        else:
            parts.append(("plus", class_for(c, rng)))
        i += 1
    if n < len(name):
        parts.append(("star", ("any",)))
    ast = cat_all(parts)
    if rng.random() < 0.15:
        other = ("chr", rng.choice(b"abc"))
        ast = ("alt", ast, other) if rng.random() < 0.5 else ("alt", other, ast)
    return ast


def random_ast(rng, alphabet, depth=3):
    r = rng.random()
    if depth == 0 or r < 0.3:
        k = rng.random()
        if k < 0.6:
            return ("chr", rng.choice(alphabet))
        if k < 0.75:
            return ("any",)
        if k < 0.95:
            return class_for(rng.choice(alphabet), rng, hit=rng.random() < 0.8)
        return ("eps",)
    if r < 0.6:
        return ("cat", random_ast(rng, alphabet, depth - 1), random_ast(rng, alphabet, depth - 1))
    if r < 0.75:
        return ("alt", random_ast(rng, alphabet, depth - 1), random_ast(rng, alphabet, depth - 1))
    inner = random_ast(rng, alphabet, min(depth - 1, 1))
    if has_quant(inner) or inner[0] == "alt":
        return inner  # never a quantifier on a quantified or ambiguous expression (exponential in libstdc++)
    return (rng.choice(["star", "plus", "opt"]), inner)


# ------------------------------------------------------------------ op generation
def exact_patterns(rng, devs):
    """literal selections of enumerated names (escaped), case-flipped, and near misses"""
    out = []
    for kind, name in devs:
        if not name or not printable(name):
            continue
        lit = b"".join(esc_lit(flip(c, rng)) for c in name)
        out.append((kind, lit))
        if len(lit) <= 255:
            other = rng.choice([1, 2, 3, 0])
            out.append((other, lit))
        if len(name) > 1:
            a = rng.randrange(0, len(name))
            b = rng.randrange(a + 1, len(name) + 1)
            sub = b"".join(esc_lit(c) for c in name[a:b])
            out.append((kind, sub))                       # substring: must not match unless whole
            out.append((kind, b".*" + sub + b".*"))
            out.append((kind, sub + b".*"))
            out.append((kind, b".*" + sub))
        out.append((kind, lit + b"x"))
        out.append((kind, lit + b"\x00"))
        out.append((kind, lit + b"\x00\x00\x00"))
        out.append((kind, lit + b"\x00x"))
        out.append((kind, lit[:len(lit) // 2] + b"\x00" + lit[len(lit) // 2:]))
        out.append((kind, name))                          # unescaped: metacharacters act
    return out


MALFORMED_FIXED = [
    b"[", b"]", b"[a", b"[a-", b"[z-a]", b"[]", b"[^]", b"[[:alpha:]]", b"[[:foo:]]", b"[[.a.]]", b"[[.xx.]]", b"[[=a=]]", b"[[=", b"[[.", b"[[:",
    b"(", b")", b"(a", b"a)", b"((a)", b"(?", b"(?:", b"(?=a)", b"(?!a)raw", b"(?<a>b)", b"(" * 100, b"(" * 127 + b")" * 127, b")" * 50,
    b"\\", b"a\\", b"\\x", b"\\x1", b"\\xg1", b"\\u12", b"\\u123g", b"\\c", b"\\ca", b"\\0", b"\\1", b"(a)\\2", b"\\9", b"\\99999999999", b"(a)\\1", b"\\b", b"\\B", b"\\k", b"\\p{L}", b"\\d\\w\\s\\D\\W\\S",
    b"*", b"+", b"?", b"*a", b"+a", b"?a", b"a{", b"a{1", b"a{1,", b"a{2,1}", b"a{,}", b"a{1,2", b"{", b"}", b"a{99999}", b"a{100001}", b"a{99999999999}", b"(a{1000}){1000}", b"a{1,99999}", b"|", b"||", b"a||b", b"^", b"$", b"^raw$", b"^$", b"$^",
    b"\x00", b"\x00\x00", b"\x00a", b"a\x00", b"a\x00b", b"\x00\x00a", b"\x00" * 255, b"raw\x00", b"raw\x00\x00", b"\x00raw", b"ra\x00w", b"[\x00", b"(\x00", b"[\x00]", b"\\\x00", b".*\x00", b"[a\x00", b"(a\x00",
    b"a" * 255, b"." * 255, b"(a)" * 85, b"[" * 255, b"\\" * 255, b"\\" * 254, b"a|" * 127, b"\xff" * 255, b"(?:" * 85, b"[a-z]" * 51, b".*" * 10, b"a?" * 20 + b"a" * 20,
    b"\x80", b"\xff", b"[\x80-\xff]", b"[\xff-\x80]", b"[a-\xff]", b"\xc3\xa9", b"caf\xc3\xa9", b"%s%s%s%n", b"%n", b"\n",
    # malformed AND full of printf conversions: whatever reports the error must not use the pattern as a format string
    b"(%s%s%s%s%s%s%s%s%s%s%s%s", b"[%n%n%n%n%n%n%n%n", b"(%p|%p|%p|%p", b"%s%s%s%s%s%s%s%s%s%s%s%s(", b"\\%s%s%s%s%s%s%s%s%n\\", b"a{2,1}%s%s%s%s%s%s%s%s%s%s",
    b"[z-a]%n%n%n%n%n%n", b"%1000000s(", b"(%*s%*s%*s%*s", b"%s" * 120 + b"[", b"*%s%s%s%s%s%s%s%s%s", b"(?%s%s%s%s%s%s%s%s%s%s%s", b"\r\n", b".*\n.*", b" ", b"\t",
]
# exponential for libstdc++'s backtracking matcher on a 25-character name: the watchdog fires (not a violation)
MALFORMED_SLOW = [b".**?c", b"a**", b"a+*", b"a?*", b"a*+", b".*+x", b"(a*)*b", b"(a|a)*b", b"(.*)*x", b"(.+)+x", b"(.*.*)*x", b".*.*.*.*.*.*.*.*x"]


def malformed_patterns(rng, n, devs, slow):
    out = list(MALFORMED_FIXED) + (list(MALFORMED_SLOW) if slow else [])
    alpha = b"[](){}\\|*+?.^$-,:=!a-zA09 \x00\n" + b"rawtifsh"
    names = [nm for _, nm in devs if nm] or [b"raw"]
    while len(out) < n:
        r = rng.random()
        if r < 0.35:
            L = rng.choice([1, 2, 3, 4, 5, 8, 13, 40, 254, 255])
            b = bytes(rng.choice(alpha) for _ in range(L))
        elif r < 0.5:
            L = rng.choice([1, 2, 7, 64, 255])
            b = bytes(rng.randrange(0, 256) for _ in range(L))
        elif r < 0.8:  # a valid-looking pattern around a device name, then one mutation
            nm = bytearray(rng.choice(names)[:60])
            k = rng.random()
            pos = rng.randrange(0, len(nm) + 1)
            ins = rng.choice([b"[", b"(", b")", b"\\", b"*", b"{", b"\x00", b"[^", b"(?", b"\\x", b"{2,1}", b"|", b"+?", b"\x00\x00", b"(%s%s%s%s%s%s%s%s", b"[%n%n%n%n"])
            b = bytes(nm[:pos]) + ins + bytes(nm[pos:])
            if k < 0.3:
                b = b + b"\x00" * rng.randrange(1, 4)
        else:
            nm = rng.choice(names)[:100]
            b = nm + b"\x00" * rng.randrange(1, 5) + (rng.choice([b"", b"x", b"["]) if rng.random() < 0.4 else b"")
        b = b[:255]
        # stacked quantifiers are exponential in libstdc++: keep them rare (the watchdog handles the rest)
        if re.search(rb"[*+?}][*+{]", b) and rng.random() < 0.9:
            continue
        out.append(b)
    return out


def gen_ops(rng, paths, slots, tier, light=False, slow=False):
    """-> list of (harness line, meta). meta: None or {'ast': [...]} for subset patterns"""
    devs = enumerated(paths, slots)
    n = len(devs)
    thorough = tier == "thorough"
    ops = [("count", None), ("nullself", None), ("getdrvnull", None)]
    for i in list(range(n)) + [n, n + 1, n + 255, 255, 256, 65535, 65536, 2 ** 31 - 1, 2 ** 31, 2 ** 32 - 2, 2 ** 32 - 1]:
        ops.append(("get %d" % i, None))
    for _ in range(4):
        ops.append(("get %d" % rng.randrange(0, 2 ** 32), None))
    for i in list(range(0, 9)) + [127, 128, 254, 255]:
        ops.append(("getdrv %d" % i, None))
    for i in list(range(n)) + [n, 2 ** 32 - 1]:
        ops.append(("open %d" % i, None))
        ops.append(("openh %d" % i, None))
    # through camera_open / storage_open, for the devices of real driver libraries (the common driver, also when it is loaded a second
    # time under an optional driver's name, i.e. with a driver id other than 0)
    base = 0
    for st, sd in slots:
        cnt = len(paths["table"]) if st == "common" else len(sd) if st == "mock" else 0
        if st == "common":
            for i in range(base, base + cnt):
                if devs[i][0] in (1, 2):
                    ops.append(("hopen %d" % i, None))
                    ops.append(("hopen2 %d" % i, None))
        base += cnt
    kinds_bad = [7, 8, 255, 256, 65536, 2 ** 31 - 1, 2 ** 31, 2 ** 32 - 1, rng.randrange(7, 2 ** 32)]
    for k in list(range(0, 7)) + kinds_bad:
        ops.append(("first %d" % k, None))
        ops.append(("default %d" % k, None))
        ops.append(("sel %d - 0" % k, None))
        ops.append(("sel %d NULL 0" % k, None))
    for k in (1, 2, rng.randrange(0, 2 ** 32)):
        for ln in (1, 5, 255, 2 ** 32, 2 ** 63):
            ops.append(("sel %d NULL %d" % (k, ln), None))
    if light:
        return ops
    # exact names, substrings, NUL variants
    ex = exact_patterns(rng, devs)
    rng.shuffle(ex)
    for kind, pat in ex[:(400 if thorough else 90)]:
        if len(pat) <= 255:
            ops.append(("sel %d %s %d" % (kind, hexs(pat), len(pat)), None))
    # subset grammar (layer 2)
    named = [(k, nm) for k, nm in devs if nm and printable(nm) and len(nm) <= 40]
    alphabet = sorted(set(b"".join(nm for _, nm in named)) | set(b"ab. -")) if named else list(b"ab. -")
    for j in range(300 if thorough else 70):
        if named and rng.random() < 0.7:
            kind, nm = rng.choice(named)
            ast = generalise(nm, rng)
            if rng.random() < 0.1:
                kind = rng.choice([1, 2, 3])
        else:
            kind = rng.choice([1, 2, 2, 1, 3, 0])
            ast = random_ast(rng, alphabet, rng.choice([1, 2, 3]))
        pat, _ = render(ast, rng)
        if 0 < len(pat) <= 255:
            ops.append(("sel %d %s %d" % (kind, hexs(pat), len(pat)), {"ast": ",".join(encode(ast))}))
    # malformed stream
    kinds = [1, 2, 1, 2, 3, 0, 6] + kinds_bad
    for pat in malformed_patterns(rng, 700 if thorough else 215, devs, slow):
        ops.append(("sel %d %s %d" % (rng.choice(kinds), hexs(pat), len(pat)), None))
    # history independence: a share of the selections is repeated after other selections in the same process (`selh`)
    extra = []
    for op, meta in ops:
        if op.startswith("sel ") and " NULL " not in op and rng.random() < 0.3:
            extra.append(("selh " + op[4:], meta))
    return ops + extra


# ------------------------------------------------------------------ running one configuration
def run_config(paths, slots, ops, tag, watchdog_ms=2000, timeout=900):
    """Run `ops` on the real code in configuration `slots`, then on the model. Returns a dict."""
    exe = layout(paths, slots, tag)
    cfg = config_lines(slots)
    script = cfg + ["init"] + [o for o, _ in ops] + ["destroy"]
    rc, impl, err = C.run_lines(exe, "\n".join(script) + "\n", timeout=timeout, args=["--watchdog-ms", str(watchdog_ms)])
    res = {"tag": tag, "slots": slots, "problems": [], "labels": [], "evaluations": 0, "validated": 0, "timeouts": 0,
           "inconclusive": 0, "l2": 0, "stderr_tail": err[-1500:], "rc": rc, "samples": []}
    # group implementation output: one result line per op, ORACLE lines attach to the previous op
    results, oracle = [], {}
    for ln in impl:
        if ln.startswith("ORACLE "):
            oracle.setdefault(len(results) - 1, []).append(ln)
        elif ln != "":
            results.append(ln)
    all_ops = [("init", None)] + ops + [("destroy", None)]
    if rc != 0 or len(results) != len(all_ops):
        k = min(len(results), len(all_ops) - 1)
        res["problems"].append(("crash", all_ops[k][0], "harness exited with %d after %d of %d result lines (at `%s`): %s" % (
            rc, len(results), len(all_ops), all_ops[k][0], err[-1500:])))
        all_ops = all_ops[:len(results)]
    # model script
    mscript = list(cfg)
    expect = []  # (op, impl text to compare, kind)
    for i, (op, meta) in enumerate(all_ops):
        r = results[i]
        for o in oracle.get(i, []):
            res["problems"].append(("oracle", op, o))
        if r.startswith("CRASH"):
            res["problems"].append(("crash", op, r))
            continue
        if r == "timeout":
            res["timeouts"] += 1
            continue
        if op.startswith("selh "):
            op = "sel " + op[5:]
        if op.startswith("openh "):     # the same open, after every other enumerated device was opened and closed in the same process
            op = "open " + op[6:]
        if op.startswith("hopen "):     # the same open, through camera_open / storage_open
            op = "open " + op[6:]
        if op.startswith("hopen2 "):    # ... after a second device manager was initialised and destroyed in the same process
            op = "open " + op[7:]
        if op.startswith("sel "):
            head, _, tail = r.partition(" | ")
            if tail.startswith("inconclusive"):
                res["inconclusive"] += 1
                if "timeout" not in tail:
                    res["problems"].append(("harness", op, "the harness's own regex evaluation died: " + r))
                continue
            m = re.match(r"re=(ok|bad) mv=(\S+)$", tail)
            if not m:
                res["problems"].append(("harness", op, "unparsable harness line: " + r))
                continue
            mscript.append("%s %s %s" % (op, m.group(1), m.group(2)))
            expect.append((op, head, "l1"))
            if meta and "ast" in meta:
                f = op.split()
                mscript.append("sel2 %s %s %s" % (f[1], f[2], meta["ast"]))
                expect.append((op + " ast=" + meta["ast"], r, "l2"))
                res["l2"] += 1
        else:
            mscript.append(op)
            expect.append((op, r, "op"))
    rc_m, model, err_m = C.run_lines(C.driver_path("acq_select"), "\n".join(mscript) + "\n", timeout=300)
    model = [l for l in model if l != ""]
    if rc_m != 0 or len(model) != len(expect):
        res["problems"].append(("model", "", "model driver rc=%d, %d lines for %d ops: %s" % (rc_m, len(model), len(expect), err_m[-500:])))
        return res
    for (op, want, kind), got in zip(expect, model):
        m = LABEL.search(got)
        lbl = m.group(1) if m else ""
        got = LABEL.sub("", got)
        res["labels"].append(lbl)
        res["evaluations"] += 1
        if got != want:
            res["problems"].append(("diff-" + kind, op, {"impl": want, "model": got}))
        else:
            res["validated"] += 1
    named = [(o, w) for (o, w, k) in expect if o.startswith("sel ") and k == "l1" and len(o.split()[2]) > 4]
    hits = [(o, w) for (o, w) in named if w.startswith("ok")]
    miss = [(o, w) for (o, w) in named if w.startswith("err")]
    res["samples"] = [{"configuration": describe_slots(slots)[:300], "op": o[:200], "impl": w[:200]} for (o, w) in hits[:2] + hits[-1:] + miss[:1] + miss[-2:]]
    return res


def rerun_single(paths, slots, op, meta, tag, want_kind):
    """does a single op still show a problem of `want_kind`?"""
    r = run_config(paths, slots, [(op, meta)], tag, timeout=120)
    return any(k == want_kind or (want_kind == "diff" and k.startswith("diff")) for k, _, _ in r["problems"])


def minimise_pattern(paths, slots, op, meta, kind, tag):
    """ddmin over the bytes of a `sel` pattern (only for impl-side problems; the AST is dropped)"""
    f = op.split()
    if f[0] != "sel" or f[2] in ("NULL", "-"):
        return op
    bs = list(bytes.fromhex(f[2]))

    def fails(xs):
        o = "sel %s %s %d" % (f[1], hexs(bytes(xs)), len(xs))
        return rerun_single(paths, slots, o, None, tag, kind)

    small = C.ddmin(bs, fails, max_runs=40)
    if small != bs and fails(small):
        return "sel %s %s %d" % (f[1], hexs(bytes(small)), len(small))
    return op


def minimise_slots(paths, slots, op, meta, kind, tag):
    """drop mock drivers / devices that are not needed for the problem"""
    cur = [list(s) for s in slots]
    for i in range(len(cur) - 1, -1, -1):
        if cur[i][0] in ("absent",):
            continue
        trial = [tuple(s) for s in cur]
        trial[i] = ("absent", [])
        # indices in get/open ops depend on the enumeration: only minimise for select-like ops
        if op.split()[0] in ("sel", "first", "default") and rerun_single(paths, trial, op, meta, tag, kind):
            cur[i] = ["absent", []]
    return [tuple(s) for s in cur]


# ------------------------------------------------------------------ the check
def plan_configs(ctx):
    rng = ctx.rng
    thorough = ctx.tier == "thorough"
    cfgs = []
    # corpus configurations first
    for f in C.corpus_files("C12"):
        try:
            j = json.load(open(f))
            cfgs.append(("corpus-" + os.path.basename(f), [tuple([s[0], [(k, bytes.fromhex(n) if n != "-" else b"") for k, n in s[1]]]) for s in j["slots"]],
                         [(o, None) for o in j["ops"]]))
        except Exception as e:  # a broken corpus file is a note, not a finding
            ctx.notes.append("corpus file %s unreadable: %s" % (f, e))
    masks = list(range(32)) if thorough else sorted(set([0, 31] + [rng.randrange(0, 32) for _ in range(4)]))
    for mask in masks:
        cfgs.append(("m%02d" % mask, make_config(rng, mask, True), None))
    # the real common driver loaded a second (and third) time under optional drivers' names: real devices with a driver id other than 0
    twice = make_config(rng, 0b00101, True)
    twice[2] = ("common", [])
    twice[5] = ("common", [])
    cfgs.append(("common-x3", twice, None))
    # without the common driver: every subset in thorough, a few in quick; ops are the light set + some patterns
    masks0 = list(range(32)) if thorough else sorted(set([0, 31, rng.randrange(0, 32)]))
    for mask in masks0:
        cfgs.append(("n%02d" % mask, make_config(rng, mask, False, rich=False), "light" if thorough and mask % 4 else None))
    return cfgs


def run(ctx):
    paths = build(ctx)
    if not paths:
        return
    rng = ctx.rng
    cfgs = plan_configs(ctx)
    jobs = []
    first = True
    for tag, slots, ops in cfgs:
        if ops is None or ops == "light":
            slow = (first or ctx.tier == "thorough") and ops is None
            ops = gen_ops(rng, paths, slots, ctx.tier, light=(ops == "light"), slow=slow)
            first = False
        jobs.append((tag, slots, ops))
    with ThreadPoolExecutor(max_workers=6) as ex:
        futs = [ex.submit(run_config, paths, slots, ops, tag) for tag, slots, ops in jobs]
        results = [f.result() for f in futs]
    branches = {}
    tot = {"evaluations": 0, "validated": 0, "timeouts": 0, "inconclusive": 0, "l2": 0}
    subsets = set()
    for (tag, slots, ops), r in zip(jobs, results):
        for k in tot:
            tot[k] += r[k]
        subsets.add(tuple(st == "mock" or st == "common" for st, _ in slots))
        for lbl in r["labels"]:
            branches[lbl] = branches.get(lbl, 0) + 1
        opmeta = dict(ops)
        for kind, op, det in r["problems"]:
            meta = opmeta.get(op.split(" ast=")[0])
            base_op = op.split(" ast=")[0]
            if kind in ("oracle", "crash"):
                okind = det.split()[1] if kind == "oracle" else "crash"
                sig = "h_select:%s:%s" % (okind, base_op.split()[0] if base_op else "run")
                if any(v["signature"] == sig for v in ctx.violations) or not base_op or base_op in ("init", "destroy"):
                    small_op, small_slots = base_op, slots
                else:
                    small_slots = minimise_slots(paths, slots, base_op, None, kind, "min")
                    small_op = minimise_pattern(paths, small_slots, base_op, None, kind, "min")
                ctx.violation(kind, sig,
                              "real device manager violates the property on `%s` (%s): %s" % (small_op, describe_slots(small_slots), det if isinstance(det, str) else json.dumps(det)),
                              {"harness": "h_select", "slots": slots_json(small_slots), "ops": [small_op]})
            elif kind.startswith("diff"):
                ctx.corr_broken.append({"what": "device.manager.cpp and the Lean model disagree (%s)" % ("layer 2: Lean matcher vs std::regex" if kind == "diff-l2" else "layer 1"),
                                        "slots": slots_json(slots), "op": op, "at": det})
            else:
                ctx.corr_broken.append({"what": kind, "op": op, "detail": det, "slots": slots_json(slots)})
        if len(ctx.violations) + len(ctx.corr_broken) > 6:
            break
    # distinct non-trivial cases: distinct (configuration, branch label) whose label is one the property is about
    n_dist = 0
    for (tag, slots, ops), r in zip(jobs, results):
        seen = set()
        for lbl in r["labels"]:
            if any(x in lbl for x in INTERESTING):
                seen.add(lbl)
        n_dist += len(seen)
    ctx.cov["evaluations"] = tot["evaluations"]
    ctx.cov["traces_validated_against_impl"] = tot["validated"]
    ctx.cov["distinct_nontrivial"] = n_dist
    ctx.cov["rule"] = ("cases = single API calls (count/get/get_driver/open/select_first/select_default/select) in %d configurations of driver libraries "
                       "(real common driver present or absent x subsets of 5 mock libraries, absent ones randomly missing / not a shared object / without entry point / failing init). "
                       "A case is non-trivial if the model labels it with a branch the property is about (%s); distinct = distinct (configuration, branch label) pairs."
                       % (len(jobs), ", ".join(INTERESTING)))
    ctx.cov["exhaustive"] = False
    ctx.cov["exhaustive_presence_subsets"] = len(subsets) == 64
    ctx.cov["model_branch_hits"] = dict(sorted(branches.items()))
    ctx.cov["configurations"] = len(jobs)
    ctx.cov["presence_subsets_of_six_libraries"] = len(subsets)
    ctx.cov["layer2_patterns_decided_by_lean_matcher"] = tot["l2"]
    ctx.cov["timeouts"] = tot["timeouts"]
    ctx.cov["inconclusive_own_regex"] = tot["inconclusive"]
    ctx.cov["samples"] = ([s for r in results[-3:] for s in r["samples"][:2]] + [s for r in results[:1] for s in r["samples"]])[:8]
    if tot["timeouts"] + tot["inconclusive"] > max(20, tot["evaluations"] // 20):
        ctx.notes.append("%d of %d calls hit the 2 s watchdog (dropped from the comparison): machine heavily loaded or many backtracking patterns"
                         % (tot["timeouts"] + tot["inconclusive"], tot["evaluations"]))
    ctx.assumptions += [
        "std::regex outside the layer-2 subset is exercised (its verdicts are inputs of the model), not modelled",
        "dlopen/dlsym: a library that is absent, not a shared object, lacks the entry point or fails to initialise is modelled as 'driver_load returns NULL' (checked on every run by the configurations)",
        "mock drivers are well behaved (describe(i) succeeds for i < count with device_id = i); drivers whose describe fails are outside C12's quantifier",
        "a watchdog expiry (libstdc++ backtracking) is not a violation: C12 says nothing about time; such cases are dropped and counted",
        "totality in the model is by construction (Lean functions are total); 'no crash' of the real code is what the forked-child runs observe",
    ]


def describe_slots(slots):
    return "drivers: " + ", ".join("%d=%s%s" % (i, st, ("[%s]" % ";".join("%d:%r" % (k, n[:20]) for k, n in devs)) if devs else "") for i, (st, devs) in enumerate(slots) if st != "absent")


def slots_json(slots):
    return [[st, [[k, hexs(n)] for k, n in devs]] for st, devs in slots]


def replay(ctx, path):
    """re-run a replay file on the current tree; exit code 1 if the problem is still there"""
    j = json.load(open(path))
    rp = j.get("replay", j)
    if "slots" not in rp:
        print("replay %s has no failing input (proof / correspondence failure): re-run `bin/check C12`" % path)
        return 1
    paths = build(ctx)
    if not paths:
        print("cannot build")
        return 1
    slots = [(s[0], [(k, bytes.fromhex(n) if n != "-" else b"") for k, n in s[1]]) for s in rp["slots"]]
    r = run_config(paths, slots, [(o, None) for o in rp["ops"]], "replay", timeout=120)
    bad = [p for p in r["problems"] if p[0] in ("oracle", "crash")]
    for p in r["problems"]:
        print("%s at `%s`: %s" % p)
    if r["stderr_tail"].strip():
        print(r["stderr_tail"])
    print("REPRODUCED" if bad else "not reproduced")
    return 1 if bad else 0
