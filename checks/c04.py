"""C04 -- see checks/rtcheck.py (table entry "C04") and lean/AcqVerif/Props/C04.lean."""
from . import rtcheck

MODULE = rtcheck.TABLE["C04"]["module"]
DRIVERS = rtcheck.DRIVERS
THEOREMS = rtcheck.TABLE["C04"]["theorems"]
run = rtcheck.run
replay = rtcheck.replay
