"""C15 — TIFF writers produce valid BigTIFF files that round-trip every frame.

Real code: storage/tiff.cpp + side-by-side-tiff.cpp (+ basic.storage.c, the HAL wrappers of
hal/storage.c, props/storage.c, linux/platform.c) compiled with harness/tiff/h_tiff.cpp
(ASan+UBSan), driven through the Storage vtable, writing real files under .build/tmp-tiff/.
Model: lean exe `acq_tiff` (lean/AcqVerif/Tiff/*).  The bytes of every produced file must be
the bytes the model predicts; the independent Lean reader `TiffRead.readTiff` (the reader of
the theorems) is run on the real files; and `tiff_oracle` below — plain Python, knows nothing
of the model — checks the text of the property on the real files.
"""
import json, os, re, shutil
from . import common as C

MODULE = "AcqVerif.Props.C15"
DRIVERS = ["acq_tiff"]
THEOREMS = [
    "AcqVerif.C15.C15_roundtrip",
    "AcqVerif.C15.C15_pages",
    "AcqVerif.C15.C15_description",
    "AcqVerif.C15.C15_description_parses",
    "AcqVerif.C15.C15_chain",
    "AcqVerif.C15.C15_layout_disjoint_in_file",
    "AcqVerif.C15.C15_packet_grouping",
    "AcqVerif.C15.C15_tiff_device",
    "AcqVerif.C15.C15_tiff_json_device",
]

HARNESS_SRC = [
    os.path.join(C.VERIF, "harness/tiff/h_tiff.cpp"),
    "acquire-driver-common/src/storage/tiff.cpp",
    "acquire-driver-common/src/storage/side-by-side-tiff.cpp",
    "acquire-driver-common/src/storage/basic.storage.c",
    "acquire-driver-common/src/storage/raw.c",
    "acquire-driver-common/src/storage/trash.c",
    "acquire-core-libs/src/acquire-device-hal/device/hal/storage.c",
    "acquire-core-libs/src/acquire-device-properties/device/props/storage.c",
    "acquire-core-libs/src/acquire-device-properties/device/props/components.c",
    "acquire-core-libs/src/acquire-core-logger/logger.c",
    "acquire-core-libs/src/acquire-core-platform/linux/platform.c",
]
EXTRACT_SRC = [
    os.path.join(C.VERIF, "harness/tiff/extract_tiff_constants.cpp"),
    "acquire-core-libs/src/acquire-device-properties/device/props/components.c",
    "acquire-core-libs/src/acquire-core-logger/logger.c",
    "acquire-core-libs/src/acquire-core-platform/linux/platform.c",
]
GENERATED = os.path.join(C.LEAN, "AcqVerif", "Generated", "TiffConstants.lean")
SCRATCH = os.path.join(C.BUILD, "tmp-tiff")
BPP = [1, 2, 1, 2, 4, 2, 2, 2]            # bytes per sample of SampleType 0..7 (property knowledge)
FMT = [1, 1, 2, 2, 3, 1, 1, 1]            # TIFF SampleFormat: 1 unsigned, 2 signed, 3 IEEE float
INTERESTING = ("app.first-meta", "app.later", "+multi", "stop.terminate", "destroy.running", "+clears-old",
               "start.ok-existing-file")
LABEL = re.compile(r" ~(\S+)$")


# ------------------------------------------------------------------ step 1: extractor
def regenerate(ctx):
    """constants, tag ids/types/counts, per-type tables and the tag order, from the current tiff.cpp"""
    exe, log = C.compile_harness("x_tiff", EXTRACT_SRC, defines=[
        "NO_UNIT_TESTS", 'TIFF_CPP="%s"' % os.path.join(C.REPO, "acquire-driver-common/src/storage/tiff.cpp")])
    if not exe:
        ctx.corr_broken.append({"what": "extractor harness/tiff/extract_tiff_constants.cpp does not compile against tiff.cpp "
                                        "(a name the model transcribes is gone or changed shape)", "log": log[-3000:]})
        return False
    rc, out, err = C.sh([exe, os.path.join(os.path.dirname(exe), "probe.tif")], timeout=60, env=C.SAN_ENV)
    if rc != 0 or "end AcqVerif.Tiff.K" not in out:
        ctx.corr_broken.append({"what": "extractor failed on the real tiff.cpp", "rc": rc, "stderr": err[-2000:]})
        return False
    old = open(GENERATED).read() if os.path.exists(GENERATED) else ""
    if old != out:
        with open(GENERATED, "w") as f:
            f.write(out)
        ctx.notes.append("Generated/TiffConstants.lean changed and was rewritten")
    ctx.cov["generated_constants_sha"] = C.sha(out)
    return True


def build(ctx):
    exe, log = C.compile_harness("h_tiff", HARNESS_SRC, defines=["NO_UNIT_TESTS"],
                                 includes=[os.path.join(C.REPO, "acquire-core-libs/src/acquire-device-hal/device/hal")])
    if not exe:
        ctx.corr_broken.append({"what": "harness h_tiff does not compile against the repository", "log": log[-3000:]})
        return None, None
    drv = C.driver_path("acq_tiff")
    if not os.path.exists(drv):
        ok, log, _ = C.lake_build(["acq_tiff"])
        if not ok:
            ctx.corr_broken.append({"what": "model driver acq_tiff does not build", "log": log[-2000:]})
            return None, None
    return exe, drv


# ------------------------------------------------------------------ generators
def gen_byte(seed, i):
    return (seed * 167 + i * i * 3 + i * 13 + (i >> 7)) & 0xFF


def frame_data(fr):
    w, h, ty, fid, hw, tsh, tsa, pad, seed = fr
    n = w * h * BPP[ty] + pad
    return bytes(gen_byte(seed, i) for i in range(n))


U64_EDGES = [0, 1, 9, 10, 255, 65535, 2 ** 32 - 1, 2 ** 32, 2 ** 63, 2 ** 64 - 1, 10 ** 19, 12345678901234567890]


def gen_u64(rng):
    r = rng.random()
    if r < 0.35:
        return rng.choice(U64_EDGES)
    if r < 0.7:
        return rng.randrange(0, 5000)
    return rng.randrange(0, 2 ** 64)


METAS = ['{}', '{"a":1}', '{"hello":"world"}', '{"k":[1,2,3],"n":{"x":null}}', '{"s":"\\u00e9 \\" }"}',
         '{"long":"' + "x" * 120 + '"}', '{ "spaced" : true }', '{"n":-1.5e3}',
         # user data is data: printf conversions in it must come out as they went in
         '{"laser":"50% duty"}', '{"fmt":"%s %d %n %%"}', '{"p":"100%"}', '{"%s%s%s%s":"%p%p"}', '{"w":"%5$s %*d %lu"}']


def gen_meta(rng):
    """(kind, bytes) : kind null | str"""
    r = rng.random()
    if r < 0.18:
        return "null", b""
    if r < 0.33:
        return "str", b""
    if r < 0.93:
        return "str", rng.choice(METAS).encode()
    return "str", rng.choice([b"{", b"x", b"[1]", b'{"a":1} ', b'"{}', b"}{"])   # refused by validate_json


def gen_scale(rng):
    r = rng.random()
    if r < 0.55:
        return 1000
    return rng.choice([0, 1, 999, 500, 1500, 2500, 6500, 429496000, 429497000, 4294967295999, 123456789, 65536000])


def gen_frame(rng, shape):
    w, h, ty = shape
    img = w * h * BPP[ty]
    pad = (-(96 + img)) % 8 + (8 if rng.random() < 0.15 else 0)
    return (w, h, ty, gen_u64(rng), gen_u64(rng), gen_u64(rng), gen_u64(rng), pad, rng.randrange(0, 1000))


def gen_shape(rng, big):
    ty = rng.randrange(8)
    r = rng.random()
    if r < 0.04:
        return (0, rng.randrange(0, 3), ty)
    if big:
        return (rng.randrange(1, 4), rng.randrange(1, 3), ty)
    return (rng.randrange(1, 10), rng.randrange(1, 8), ty)


def split_packets(rng, frames):
    out, i = [], 0
    while i < len(frames):
        k = rng.choice([1, 1, 2, 3, len(frames)]) if rng.random() < 0.8 else rng.randrange(1, len(frames) + 1)
        out.append(frames[i:i + k])
        i += k
        if rng.random() < 0.05:
            out.append([])
    return out


def gen_case(rng, nmax, kind=None):
    kind = kind or rng.choice(["tiff", "tiff-json"])
    ops = ["open %s" % kind]
    ncyc = rng.choice([1, 1, 1, 2, 2, 3])
    npaths = 0
    have_set = False
    for c in range(ncyc):
        if not have_set or rng.random() < 0.8:
            if npaths and rng.random() < 0.25:
                p = rng.randrange(npaths)
            else:
                p = npaths
                npaths += 1
            mk, meta = gen_meta(rng)
            if rng.random() < 0.08:
                which = "data" if kind == "tiff" or rng.random() < 0.6 else "meta"
                ops.append("prefill %d %s %d %d" % (p, which, rng.choice([1, 10, 16, 300, 2000]), rng.randrange(1000)))
            ops.append("set %d %d %s %s %d %d" % (p, rng.randrange(2), mk, meta.hex() or "-", gen_scale(rng), gen_scale(rng)))
            have_set = True
        ops.append("start")
        r = rng.random()
        n = rng.randrange(1, 13) if r < 0.8 or nmax <= 12 else (rng.randrange(13, 61) if r < 0.95 else rng.randrange(61, nmax + 1))
        n = min(n, nmax)
        if rng.random() < 0.03:
            n = 0
        shape = gen_shape(rng, n > 40)
        frames = []
        for i in range(n):
            if rng.random() < 0.1:
                shape = gen_shape(rng, n > 40)
            frames.append(gen_frame(rng, shape))
        for pk in split_packets(rng, frames):
            ops.append("append %d%s" % (len(pk), "".join(" " + " ".join(str(x) for x in fr) for fr in pk)))
        last = c == ncyc - 1
        if last and rng.random() < 0.3:
            ops += ["destroy", "dump"]
            return kind, ops
        ops += ["stop", "dump"]
    ops += ["destroy"]
    return kind, ops


# ------------------------------------------------------------------ the property oracle (implementation only)
def u(b, off, n):
    if off < 0 or off + n > len(b):
        raise IndexError(off)
    return int.from_bytes(b[off:off + n], "little")


def tiff_oracle(data, frames, meta, kind):
    """The text of C15 on one produced file.  `frames` = the frames the implementation accepted, `meta` =
    the user's metadata for this acquisition (bytes, b'' = none).  Returns a list of failure kinds."""
    bad = []
    n = len(data)
    if n < 16 or data[0:2] != b"II" or u(data, 2, 2) != 43 or u(data, 4, 2) != 8 or u(data, 6, 2) != 0:
        return ["not-a-little-endian-bigtiff-header"]
    regions = [(0, 16, "header")]
    pages = []
    off = u(data, 8, 8)
    seen = set()
    while off != 0:
        if off in seen:
            return bad + ["chain-cyclic"]
        seen.add(off)
        if off + 8 > n:
            return bad + ["chain-link-outside-file(last link %d, file size %d, directories visited %d of %d)" % (off, n, len(pages), len(frames))]
        nt = u(data, off, 8)
        if nt > 4096 or off + 8 + 20 * nt + 8 > n:
            return bad + ["directory-outside-file"]
        tags = {}
        for k in range(nt):
            e = off + 8 + 20 * k
            tag, typ, cnt = u(data, e, 2), u(data, e + 2, 2), u(data, e + 4, 8)
            tags.setdefault(tag, (typ, cnt, e + 12))
        regions.append((off, 8 + 20 * nt + 8, "ifd%d" % len(pages)))
        pages.append(tags)
        off = u(data, off + 8 + 20 * nt, 8)
        if len(pages) > len(frames) + 2:
            break
    if len(pages) != len(frames):
        bad.append("chain-has-%s-directories-than-frames" % ("more" if len(pages) > len(frames) else "fewer"))

    def scalar(tags, tag):
        if tag not in tags:
            return None
        typ, cnt, vo = tags[tag]
        size = {3: 2, 4: 4, 16: 8}.get(typ)
        return u(data, vo, size) if size and cnt == 1 else None

    for i, (tags, fr) in enumerate(zip(pages, frames)):
        w, h, ty = fr[0], fr[1], fr[2]
        pix = frame_data(fr)
        if scalar(tags, 256) != w or scalar(tags, 257) != h:
            bad.append("width-or-height-wrong")
        if scalar(tags, 258) != 8 * BPP[ty]:
            bad.append("bits-per-sample-wrong")
        if scalar(tags, 339) != FMT[ty]:
            bad.append("sample-format-wrong")
        so, sc = scalar(tags, 273), scalar(tags, 279)
        if so is None or sc is None or so + sc > n:
            bad.append("strip-outside-file")
        else:
            regions.append((so, sc, "strip%d" % i))
            img = w * h * BPP[ty]
            if sc < img or data[so:so + img] != pix[:img]:
                bad.append("strip-bytes-differ-from-frame-pixels")
        if 270 not in tags or tags[270][0] != 2:
            bad.append("no-description")
            continue
        typ, cnt, vo = tags[270]
        do = vo if cnt <= 8 else u(data, vo, 8)
        if do + cnt > n or cnt < 1:
            bad.append("description-outside-file")
            continue
        if cnt > 8:
            regions.append((do, cnt, "desc%d" % i))
        text = data[do:do + cnt]
        if text[-1:] != b"\0" or b"\0" in text[:-1]:
            bad.append("description-not-nul-terminated")
        try:
            obj = json.loads(text[:-1].decode("utf-8"))
        except Exception:
            bad.append("description-is-not-json")
            continue
        ts = obj.get("timestamps", {}) if isinstance(obj, dict) else {}
        if not isinstance(obj, dict) or obj.get("frame_id") != fr[3] or obj.get("hardware_frame_id") != fr[4] \
                or not isinstance(ts, dict) or ts.get("hardware") != fr[5] or ts.get("runtime") != fr[6]:
            bad.append("description-ids-or-timestamps-wrong")
        want_meta = meta if i == 0 else b""
        if want_meta:
            if "metadata" not in obj or obj["metadata"] != json.loads(want_meta.decode("utf-8")):
                bad.append("first-page-lacks-the-users-metadata")
        elif isinstance(obj, dict) and "metadata" in obj:
            bad.append("stale-or-unexpected-metadata-in-description(page %d: %s)" % (i, json.dumps(obj["metadata"])[:60]))
    regions.sort()
    for (a, la, na), (b, lb, nb) in zip(regions, regions[1:]):
        if a + la > b:
            bad.append("structures-overlap(%s,%s)" % (na, nb))
            break
    if any(a + l > n for a, l, _ in regions):
        bad.append("structure-outside-file")
    return bad


def parse_dump(line):
    """`dump p0.data 880 <hex> p0.meta absent ...` -> {label: bytes or None}"""
    t = line.split()
    files = {}
    i = 1
    while i < len(t):
        if i + 1 < len(t) and t[i + 1] == "absent":
            files[t[i]] = None
            i += 2
        else:
            files[t[i]] = b"" if t[i + 2] == "-" else bytes.fromhex(t[i + 2])
            i += 3
    return files


def parse_frames(tok):
    n = int(tok[1])
    v = [int(x) for x in tok[2:2 + 9 * n]]
    return [tuple(v[9 * i:9 * i + 9]) for i in range(n)]


def evaluate_case(kind, ops, impl):
    """Oracle on one case: (ops, implementation result lines) -> (failures, real data files with expectations).
    Expectations are derived from what the implementation ACCEPTED (its return codes), not from a model."""
    fails, produced = [], []
    cur, running, frames, cyc, finished = None, False, [], None, None
    prefilled = set()
    for op, res in zip(ops, impl):
        t = op.split()
        r = res.split()
        if not r or r[0] == "illformed":
            continue
        if t[0] == "prefill":
            prefilled.add((int(t[1]), t[2]))
        elif t[0] == "set" and r[:3] == ["set", "0", "armed"]:
            cur = {"path": int(t[1]), "meta": b"" if t[3] == "null" or t[4] == "-" else bytes.fromhex(t[4])}
        elif t[0] == "start" and r[:3] == ["start", "0", "running"]:
            running, frames, cyc = True, [], dict(cur)
        elif t[0] == "append" and running and r[:3] == ["append", "0", "running"]:
            frames += parse_frames(t)
        elif t[0] in ("stop", "destroy") and running:
            running, finished = False, (cyc, frames)
        elif t[0] == "dump" and finished:
            (cy, frs), finished = finished, None
            files = parse_dump(res)
            data = files.get("p%d.data" % cy["path"])
            if not frs:
                continue          # the property speaks of N >= 1
            if data is None:
                fails.append("no-file-produced")
                continue
            bad = tiff_oracle(data, frs, cy["meta"], kind)
            if kind == "tiff-json":
                m = files.get("p%d.meta" % cy["path"])
                if m is None or m != cy["meta"]:
                    bad.append("metadata.json-differs-from-the-users-metadata")
            fails += bad
            produced.append((data, frs, cy["meta"]))
    return fails, produced


# ------------------------------------------------------------------ running
SHORT_WRITES = [0]   # 0 = off; k = every pwrite of more than k bytes is cut to k (set per batch, kept for the re-runs that minimise a failure)


def run_pair(exe, drv, cases, tag, timeout=900):
    """cases: list of (kind, ops).  One process each for the real code and the model.
    Every other batch runs the real code under short writes (a legal kernel behaviour): same files expected."""
    lines, starts = [], []
    for i, (kind, ops) in enumerate(cases):
        starts.append(len(lines))
        lines.append("case %d" % i)
        lines += ops
    script = "\n".join(lines) + "\n"
    root = os.path.join(SCRATCH, tag)
    os.makedirs(root, exist_ok=True)
    env = dict(C.SAN_ENV)
    if SHORT_WRITES[0]:
        env["VERIF_SHORT_WRITES"] = str(SHORT_WRITES[0])
    rc_i, impl, err_i = C.run_lines(exe, script, timeout=timeout, args=[root], env=env)
    shutil.rmtree(root, ignore_errors=True)      # scratch files of this batch (the harness removes its case directories)
    rc_m, model, err_m = C.run_lines(drv, script, timeout=timeout)
    impl = [l for l in impl if l != ""]
    mod, labels = [], []
    for l in model:
        if l == "":
            continue
        m = LABEL.search(l)
        labels.append(m.group(1) if m else "")
        mod.append(LABEL.sub("", l))
    return {"starts": starts, "nlines": len(lines), "impl": impl, "model": mod, "labels": labels,
            "rc_i": rc_i, "err_i": err_i, "rc_m": rc_m, "err_m": err_m}


def case_slices(res, ncases):
    st = res["starts"] + [res["nlines"]]
    return [(st[i] + 1, st[i + 1]) for i in range(ncases)]     # skip the `case` line


def check_one(exe, drv, kind, ops, tag="min"):
    """-> dict(oracle=[...], diff=None|dict, crash=None|str)"""
    res = run_pair(exe, drv, [(kind, ops)], tag, timeout=120)
    out = {"oracle": [], "diff": None, "crash": None}
    if res["rc_i"] != 0:
        key = [l.strip() for l in res["err_i"].split("\n") if "ERROR: AddressSanitizer" in l or "runtime error" in l
               or l.startswith("SUMMARY") or "TIMEOUT" in l or (l.strip().startswith("#") and "/storage/" in l)]
        out["crash"] = "exit %s after %d result lines: %s" % (res["rc_i"], len(res["impl"]), " | ".join(key[:6]) or res["err_i"][-600:])
        return out
    impl = res["impl"][1:]
    out["oracle"], _ = evaluate_case(kind, ops, impl)
    d = C.first_diff(list(res["impl"]), list(res["model"]))
    if d is not None:
        out["diff"] = {"op": ops[d - 1] if 0 < d <= len(ops) else "?", "impl": (res["impl"][d] if d < len(res["impl"]) else "<eof>")[:600],
                       "model": (res["model"][d] if d < len(res["model"]) else "<eof>")[:600]}
    return out


def okind(msg):
    return msg.split("(")[0]


def minimise(exe, drv, kind, ops, pred):
    head, body = ops[:1], ops[1:]
    small = C.ddmin(body, lambda xs: pred(check_one(exe, drv, kind, head + xs)), max_runs=120)
    # shrink the frames of the remaining appends to one tiny frame each where the failure survives
    cur = head + small
    for i, op in enumerate(cur):
        t = op.split()
        if t[0] == "append" and int(t[1]) >= 1:
            for cand in ("append 1 1 1 0 1 2 3 4 7 0", "append 1 " + " ".join(t[2:11])):
                trial = cur[:i] + [cand] + cur[i + 1:]
                if trial != cur and pred(check_one(exe, drv, kind, trial)):
                    cur = trial
                    break
    return cur


def read_back(drv, files):
    """run the Lean reader of the theorems on REAL files; compare with what the oracle's inputs say"""
    script = "\n".join("read " + (d.hex() or "-") for d, _, _ in files) + "\n"
    rc, out, err = C.run_lines(drv, script, timeout=600)
    out = [l for l in out if l.strip()]
    bad = []
    for (data, frs, meta), line in zip(files, out):
        m = re.match(r"read (\d+) pages=(\d+) ", line)
        if not m or int(m.group(2)) != len(frs):
            bad.append({"what": "readTiff on the real file", "got": line[:200], "frames": len(frs)})
            continue
        pages = re.findall(r"\[ifd=(\d+) ntags=(\d+) w=(\d+) h=(\d+) bits=(\d+) fmt=(\d+) strip=(\d+)\+(\d+) desc=(\d+)\+(\d+) next=(\d+) pix=(\S+) text=(\S+) ids=(\S+) meta=(\S+)\]", line)
        if len(pages) != len(frs):
            bad.append({"what": "readTiff/parseDescription on the real file: a description did not parse", "got": line[:300]})
            continue
        for i, (pg, fr) in enumerate(zip(pages, frs)):
            pix = frame_data(fr)
            want = (fr[0], fr[1], 8 * BPP[fr[2]], FMT[fr[2]], pix.hex() or "-")
            got = (int(pg[2]), int(pg[3]), int(pg[4]), int(pg[5]), pg[11])
            text = bytes.fromhex(pg[12])
            want_meta = (meta.hex() if (i == 0 and meta) else "none")
            ok = got == want and text.endswith(b"\0") and pg[13] == "%d/%d/%d/%d" % (fr[3], fr[4], fr[6], fr[5]) and pg[14] == want_meta
            if ok:
                try:
                    o = json.loads(text[:-1])
                    ok = o["frame_id"] == fr[3] and o["timestamps"]["runtime"] == fr[6]
                except Exception:
                    ok = False
            if not ok:
                bad.append({"what": "readTiff page differs from the frame", "page": i, "got": got[:4], "want": want[:4]})
                break
    return len(out), bad


def explore(ctx, exe, drv):
    rng = ctx.rng
    thorough = ctx.tier == "thorough"
    ncases, nmax = (3000, 200) if thorough else (150, 12)
    cases = []
    for f in C.corpus_files("C15"):
        lines = [l.strip() for l in open(f) if l.strip() and not l.startswith("#")]
        if lines and lines[0].startswith("open "):
            cases.append((lines[0].split()[1], lines))
    ncorpus = len(cases)
    # systematic part: both kinds x 8 sample types x a few shapes, one and several frames
    for kind in ("tiff", "tiff-json"):
        for ty in range(8):
            for (w, h) in ((1, 1), (3, 2), (5, 7)):
                fr = [gen_frame(rng, (w, h, ty)) for _ in range(1 + (ty + w) % 3)]
                meta = (b'{"t":%d}' % ty).hex() if w > 1 else "-"
                ops = ["open %s" % kind, "set 0 %d str %s 1000 1000" % (ty % 2, meta), "start"]
                ops += ["append %d %s" % (len(fr), " ".join(" ".join(map(str, f)) for f in fr)), "stop", "dump", "destroy"]
                cases.append((kind, ops))
    while len(cases) < ncases + ncorpus:
        cases.append(gen_case(rng, nmax))
    stats = {"branches": {}, "distinct": set(), "files": 0, "frames": 0, "validated": 0, "readback": 0, "kinds": {}}
    samples = []
    B = 60 if thorough else 50
    for b0 in range(0, len(cases), B):
        batch = cases[b0:b0 + B]
        SHORT_WRITES[0] = [0, 7, 0, 100, 0, 1, 0, 4096][(b0 // B) % 8]
        res = run_pair(exe, drv, batch, "b%d" % (b0 // B))
        sl = case_slices(res, len(batch))
        crashed_at = None
        if res["rc_i"] != 0:
            crashed_at = max(0, len(res["impl"]) - 1)
        if res["rc_m"] != 0:
            ctx.corr_broken.append({"what": "model driver crashed", "stderr": res["err_m"][-800:]})
            break
        real_files = []
        for ci, (kind, ops) in enumerate(batch):
            lo, hi = sl[ci]
            impl, model, labels = res["impl"][lo:hi], res["model"][lo:hi], res["labels"][lo:hi]
            if crashed_at is not None and hi > crashed_at:
                r1 = check_one(exe, drv, kind, ops)
                if r1["crash"]:
                    small = minimise(exe, drv, kind, ops, lambda r: r["crash"] is not None)
                    ctx.violation("crash", "h_tiff:%s:crash" % kind, "real TIFF writer crashed / sanitizer report: %s" % r1["crash"][:700],
                                  {"harness": "h_tiff", "kind": kind, "script": small})
                break
            fails, produced = evaluate_case(kind, ops, impl)
            stats["files"] += len(produced)
            stats["frames"] += sum(len(p[1]) for p in produced)
            stats["kinds"][kind] = stats["kinds"].get(kind, 0) + 1
            for l in labels:
                for part in l.replace("+", " +").split():
                    stats["branches"][part] = stats["branches"].get(part, 0) + 1
            if any(any(x in l for x in INTERESTING) for l in labels):
                stats["distinct"].add(C.sha(kind + "|" + "|".join(sorted(set(labels))) + "|" + " ".join(ops)[:400]))
            d = C.first_diff(list(impl), list(model))
            for msg in fails[:2]:
                sig = "h_tiff:%s:%s" % (kind, okind(msg))
                if any(v["signature"] == sig for v in ctx.violations):
                    ctx.violation("oracle", sig, "", None)
                    continue
                k = okind(msg)
                small = minimise(exe, drv, kind, ops, lambda r: any(okind(m) == k for m in r["oracle"]))
                again = check_one(exe, drv, kind, small)
                ctx.violation("oracle", sig,
                              "real %s writer violates C15: %s on `%s`" % (kind, next((m for m in again["oracle"] if okind(m) == k), msg), "; ".join(x[:90] for x in small)),
                              {"harness": "h_tiff", "kind": kind, "script": small, "oracle": again["oracle"]})
            if d is not None and not fails:
                small = ops if ctx.corr_broken else minimise(exe, drv, kind, ops, lambda r: r["diff"] is not None and not r["oracle"])
                r1 = check_one(exe, drv, kind, small)
                ctx.corr_broken.append({"what": "real %s writer and the Lean model disagree (file bytes or returned states)" % kind,
                                        "script": small, "at": r1["diff"]})
            elif d is None:
                stats["validated"] += 1
                real_files += produced
            if len(samples) < 3 and produced:
                samples.append({"kind": kind, "ops": [o[:120] for o in ops[:8]], "file_bytes": len(produced[0][0]), "frames": len(produced[0][1])})
        if real_files:
            # the reader works on lists (it is the object of the proofs, not a fast parser): all small files, a few big ones
            small = [f for f in real_files if len(f[0]) <= 12000]
            big = [f for f in real_files if len(f[0]) > 12000][:1]
            nread, bad = read_back(drv, small + big)
            stats["readback"] += nread - len(bad)
            for b in bad[:1]:
                ctx.corr_broken.append({"what": "the Lean reader (readTiff of the theorems) does not recover the frames from a REAL file", "detail": b})
        if len(ctx.violations) + len(ctx.corr_broken) > 4:
            break
    ctx.cov["evaluations"] = stats["files"]
    ctx.cov["cases"] = len(cases)
    ctx.cov["frames_written"] = stats["frames"]
    ctx.cov["distinct_nontrivial"] = len(stats["distinct"])
    ctx.cov["traces_validated_against_impl"] = stats["validated"]
    ctx.cov["real_files_parsed_by_lean_reader"] = stats["readback"]
    ctx.cov["model_branch_hits"] = dict(sorted(stats["branches"].items()))
    ctx.cov["device_kinds"] = stats["kinds"]
    ctx.cov["exhaustive"] = False
    ctx.cov["rule"] = ("evaluations = real files produced by the real tiff / tiff-json devices (driven through the HAL wrappers and the Storage "
                       "vtable) whose every byte was compared with the model's file; cases = device life cycles: %d corpus, 48 systematic "
                       "(2 kinds x 8 sample types x 3 shapes), rest seeded random: 1-3 acquisitions per device, N<=%d frames, random packet "
                       "groupings incl. empty packets, metadata null/empty/valid/invalid, pixel scales incl. 0 and 32-bit overflow, "
                       "file:// prefix, path re-use and pre-existing files, stop or destroy-while-running. A case is non-trivial if it takes "
                       "a metadata-on-first-page, later-page, multi-frame-packet, terminate, destroy-while-running, metadata-clearing or "
                       "existing-file branch; distinct = distinct (kind, label set, script prefix)." % (ncorpus, nmax))
    ctx.cov["samples"] = samples
    return stats


def run(ctx):
    regenerate(ctx)
    ctx.prove(MODULE, THEOREMS, extra_targets=DRIVERS)
    ctx.assumptions += [
        "file_write succeeds and writes the whole buffer at the offset (short writes / errors: C14, C16); file_create does not truncate (modelled)",
        "realloc in StringSection::reserve and std::string copies succeed; file_is_writable / directory checks succeed",
        "pixel_scale_um = k/1000.0 converts to uint32_t by truncation (k/1000 < 2^32); negative / NaN scales are outside the model",
        "uri.nbytes = strlen+1, metadata is a C string without embedded NUL; tiff-json uri has no trailing '/'",
        "offsets < 2^64 (hypothesis of the theorems: total file size below 2^64)",
        "printf %llu = decimal digits (Nat.toDigits 10)",
    ]
    # a failing extractor is recorded above; the search for a failing input still runs (with the constants on disk)
    exe, drv = build(ctx)
    if not exe:
        return
    explore(ctx, exe, drv)
    keep = dict(ctx.cov)
    # the writers through the real HAL and the real platform layer with the system calls interposed (the harness of C14 / C16):
    # (a) files beyond 4 GiB — section offsets are 64-bit quantities; (b) life cycles without faults, incl. close while running,
    # restart and two acquisitions on one device: the composite tiff-json device drives its inner writer through another path than
    # the HAL does, and a writer that finalises a file twice shows as a write to, or a close of, a descriptor it no longer owns
    from . import storage_io as S
    sexe, sdrv = S.build(ctx)
    if sexe:
        S.large_file_runs(ctx, sexe, ("new tiff\nset p:bigt -\nstart\nbig 268435456 17\nstop\nclose\n",
                                       "new sxs\nset f:bigs -\nstart\nbig 1610612736 3\nbig 268435456 2\nstop\nclose\n",
                                       "new tiff\nset f:bigu {\"a\":1}\nstart\nbig 4294967304 1\nbig 1048576 3\nstop\nclose\n"), "tiff writer")
        stats = S.new_stats()
        cases = []
        for kind in ("tiff", "sxs"):
            cases += [h.case(tag=name) for name, h in S.base_histories(kind)]
            cases += [S.random_history(ctx.rng, kind, max_cycles=4, max_appends=4).case(tag="random") for _ in range(300 if ctx.tier == "thorough" else 40)]
        problems = S.run_batch(sexe, sdrv, cases, stats)
        S.report(ctx, sexe, sdrv, cases, problems, {"unowned-pwrite", "unowned-close", "unowned-flock", "descriptor-leak"}, crash_is_mine=True)
        keep["life_cycles_through_the_hal"] = {"cases": len(cases), "agree_with_storage_model": stats.get("validated"),
                                               "large_file_runs": ctx.cov.get("large_file_runs")}
    ctx.cov.update(keep)


def replay(ctx, path):
    obj = json.load(open(path))
    rp = obj.get("replay") or {}
    if rp.get("harness") == "h_storage_io":
        from . import storage_io as S
        return S.replay_file(ctx, path, {"unowned-pwrite", "unowned-close", "unowned-flock", "descriptor-leak"}, True)
    script = rp.get("script")
    if not script:
        print("replay file carries no script (proof/correspondence breakage only): %s" % json.dumps(obj)[:400])
        return 1
    exe, drv = build(ctx)
    if not exe:
        print("harness does not build")
        return 2
    r = check_one(exe, drv, rp.get("kind", script[0].split()[1]), script, tag="replay")
    print("script: %s" % "; ".join(s[:100] for s in script))
    print("oracle on the real code: %s" % (r["oracle"] or "no failure"))
    if r["crash"]:
        print("crash: %s" % r["crash"])
    if r["diff"]:
        print("model/implementation difference: %s" % json.dumps(r["diff"])[:500])
    return 1 if (r["oracle"] or r["crash"]) else 0
