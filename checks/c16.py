"""C16 — storage I/O failures are contained and reported; only owned descriptors are used."""
from . import common as C, storage_io as S

MODULE = "AcqVerif.Props.C16"
DRIVERS = ["acq_storage"]
THEOREMS = ["AcqVerif.C16.C16_total", "AcqVerif.C16.C16_file_write_bounded", "AcqVerif.C16.C16_owned_descriptors_only", "AcqVerif.C16.C16_every_prefix_disciplined", "AcqVerif.C16.ownRun_call_owned", "AcqVerif.C16.C16_never_started", "AcqVerif.C16.C16_failure_is_reported", "AcqVerif.C16.C16_write_failure_is_reported"]
ORACLES = {"unowned-pwrite", "unowned-close", "unowned-flock", "descriptor-leak", "unreported-write-failure"}
INTERESTING = ("fw.fail", "fw.zero3", "open.fail", "flock.fail", "close.fail", "mkdir.fail", "fw.short", "fw.zero")


def run(ctx):
    if THEOREMS:
        ctx.prove(MODULE, THEOREMS, extra_targets=DRIVERS)
    exe, drv = S.build(ctx)
    if not exe:
        return
    rng = ctx.rng
    thorough = ctx.tier == "thorough"
    stats = S.new_stats()
    batches = []
    corpus = S.load_corpus("C16")
    if corpus:
        batches.append(corpus)
    ex = S.exhaustive_fault_cases(drv)
    n_ex = len(ex)
    for i in range(0, len(ex), 1500):
        batches.append(ex[i:i + 1500])
    nrand = 6000 if thorough else 300
    rnd = []
    kinds = ["raw", "tiff", "sxs", "trash", "tiff", "sxs", "raw"]
    for k in range(nrand):
        kind = kinds[k % len(kinds)]
        h = S.random_history(rng, kind, max_cycles=4 if thorough else 3, max_appends=6 if thorough else 4)
        rnd.append(h.case(S.random_faults(rng, 12 * len(h.ops)), tag="random"))
    for i in range(0, len(rnd), 1500):
        batches.append(rnd[i:i + 1500])
    all_cases = []
    for b in batches:
        problems = S.run_batch(exe, drv, b, stats)
        S.report(ctx, exe, drv, b, problems, ORACLES, crash_is_mine=True)
        all_cases += b
        if len(ctx.corr_broken) > 6:
            break
    S.fill_cov(ctx, stats, all_cases, INTERESTING,
               "cases = life-cycle histories of one storage device (kinds raw, tiff, tiff-json, trash) through the real HAL, "
               "each with a fault script for open/flock/pwrite/close/mkdir: (a) the %d base histories per kind "
               "(open-close, set-only, one acquisition, close while running, restart, two acquisitions, misuse, bad metadata; "
               "<= 3 appends) x EVERY call index x {fail once, fail from there on; for pwrite also zero, short, three zeros, "
               "short+zero} = %d cases (exhaustive over the fault index), (b) %d seeded random histories with random fault scripts, "
               "(c) the corpus. Non-trivial = the model took at least one fault branch (failed/short/zero write, failed "
               "open/flock/close/mkdir); distinct = distinct (kind, branch set, history shape, fault script)."
               % (len(S.base_histories("raw")), n_ex, nrand))
    ctx.cov["exhaustive"] = False   # exhaustive over (fault index x fault kind) of the base histories only
    ctx.cov["exhaustive_fault_cases"] = n_ex
    ctx.assumptions += S.ASSUMPTIONS


def replay(ctx, path):
    return S.replay_file(ctx, path, ORACLES, True)
