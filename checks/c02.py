"""C02 — the writer is never given memory a reader still holds or has not consumed."""
from . import common as C, chan

MODULE = "AcqVerif.Props.C02"
DRIVERS = ["acq_chan"]
THEOREMS = ["AcqVerif.C02.%s" % t for t in (
    "write_region_in_buffer", "write_avoids_readers", "read_region_committed", "pending_write_disjoint",
    "mapped_reader_frame", "mapped_region_stable")] + ["AcqVerif.Channel.Inv.run"]

def run(ctx):
    ctx.prove(MODULE, THEOREMS, extra_targets=DRIVERS)
    ctx.assumptions += chan.ASSUMPTIONS
    chan.explore(ctx, chan.C02_ORACLES)


def replay(ctx, path):
    return chan.replay(ctx, path, chan.C02_ORACLES)
