"""C02 — the writer is never given memory a reader still holds or has not consumed."""
from . import common as C, chan

MODULE = "AcqVerif.Props.C02"
DRIVERS = ["acq_chan", "acq_conc", "AcqVerif.Props.ChanThreads", "AcqVerif.Channel.Refine"]
THEOREMS = ["AcqVerif.C02.%s" % t for t in (
    "write_region_in_buffer", "write_avoids_readers", "read_region_committed", "pending_write_disjoint",
    "mapped_reader_frame", "mapped_region_stable")] + ["AcqVerif.Channel.Inv.run"]

def run(ctx):
    chan.prove_with_lock_discipline(ctx, MODULE, THEOREMS, DRIVERS, threads=True)
    ctx.assumptions += chan.ASSUMPTIONS
    chan.explore(ctx, chan.C02_ORACLES)
    # a writer that has slept places its region against the readers as they are *after* the sleep (AcqVerif.ChanThreads; tie: detsched)
    from . import c03
    keep = dict(ctx.cov)
    c03.conc_part(ctx, ("write-overlaps-unconsumed",), 120 if ctx.tier == "thorough" else 24, 600 if ctx.tier == "thorough" else 150)
    keep["concurrent_part"] = ctx.cov.get("concurrent_part")
    ctx.cov.update(keep)
    # the same claim where a zero-copy consumer really sits: the monitoring client of the running pipeline holds a region
    # (also across a refused second acquire_map_read) while the source keeps writing; the harness checks that the held bytes
    # do not change, and the co-simulation with M1 that the refused call leaves every channel cursor alone
    from . import rtx
    ex = rtx.Explorer(ctx)
    if ex.build():
        keep = dict(ctx.cov)
        rel = lambda p: p["kind"] in ("crash", "diff") or "monitor-" in p["msg"] or "map-read-failed" in p["msg"] or "stored-" in p["msg"]
        rtx.explore(ctx, ex, ["remap", "remap", "holdmon", "slowmon", "avgtwo"], 24 if ctx.tier == "thorough" else 5, 10 if ctx.tier == "thorough" else 5, rel)
        ctx.cov.update(keep)
        ctx.cov["pipeline_runs"] = {"runs": ex.stats["runs"], "per_class": ex.stats["per_class"], "oracle_kinds_hit": ex.stats["oracle_kinds"],
                                    "cosim_runs": ex.stats["cosim_runs"], "cosim_agree": ex.stats["cosim_ok"], "decisions_compared": ex.stats["decisions"]}
        ctx.cov["rule"] = ctx.cov.get("rule", "") + ("; pipeline level: classes remap/holdmon/slowmon of checks/rtx.py (client holding a mapped region, incl. a refused "
                                                     "second map, while the source writes) with the oracle monitor-region-changed-while-mapped and co-simulation against M1")


def replay(ctx, path):
    import json
    r = json.load(open(path)).get("replay", {})
    if "scenario" in r:
        from . import c03
        return c03.replay(ctx, path)
    if "harness_input" in r:
        from . import rtx
        return rtx.replay(ctx, path)
    return chan.replay(ctx, path, chan.C02_ORACLES)
