"""Exploration + co-simulation engine shared by the whole-runtime checks (C04, C06, C07, C08, C09, C10).

Real code: acquire.c, source.c, filter.c, sink.c, channel.c, HAL, device manager, properties -- linked against the
deterministic scheduler (harness/detsched) and the mock driver (harness/runtime).  Model: M1 (lean exe `acq_runtime`).

A scenario = ring capacity + stream configurations + a client program (+ scripted device faults).  It is run under many
schedules; the harness' implementation-side oracles decide the property on what the devices and the client saw, and
(for the scenario classes M1 covers) every run is co-simulated with the model decision by decision.
"""
import json
import os
import re

from . import common as C
from . import runtime as R

DRIVER = "acq_runtime"
COSIM_CLASSES = ("single", "two", "mon", "latemon", "holdmon", "abort", "abortmon", "stofault", "camfault", "slowmon", "restart", "remap", "avg1", "camempty")


def sig_of(msg):
    """signature of an oracle message: kind with numbers stripped, plus the cause tag when the harness gives one"""
    k = R.oracle_kind(msg)
    m = re.search(r" cause=(\S+)", msg)
    return "rt:%s%s" % (k, (":" + m.group(1)) if m else "")


# --------------------------------------------------------------------------------------------- scenario generators
def _shape(rng):
    w = rng.choice([1, 3, 8, 5]); h = rng.choice([1, 2, 8, 7]); t = rng.choice([0, 1, 3])
    return w, h, t, R.frame_bytes(w, h, R.BPP[t])


def _ring(rng, fb, n):
    return rng.choice([fb * 2 + 16, fb * 2 + 8, fb * 3 + 8, int(fb * 1.3) + 8, fb * 4, fb * n + 8, fb * (n - 1) + 8 if n > 1 else fb + 8,
                       fb * 2 + 16, fb * 3])


def gen(rng, cls):
    """-> scenario dict. With key 'window' the scenario is in the form M1 understands (one configure, then the window)."""
    w, h, t, fb = _shape(rng)
    n = rng.choice([1, 2, 3, 5, 9, 17])
    ring = _ring(rng, fb, n)
    streams = [{"w": w, "h": h, "type": t, "n": n}, None]
    faults = []
    sc = {"cls": cls}
    if cls == "single":
        window = ["start", "stop"]
    elif cls == "restart":
        window = ["start", "stop", "start", "stop"] + (["reconfigure %d" % rng.choice([1, 4]), "start", "stop"] if rng.random() < .5 else [])
    elif cls == "two":
        streams[1] = {"w": rng.choice([1, 4]), "h": rng.choice([2, 3]), "type": rng.choice([0, 1]), "n": rng.choice([1, 4, 7])}
        ring = max(ring, R.frame_bytes(streams[1]["w"], streams[1]["h"], R.BPP[streams[1]["type"]]) + 16)
        window = ["start", "stop"]
    elif cls == "mon":
        window = ["start"]
        for _ in range(rng.randrange(0, 5)):
            window += ["map 0", rng.choice(["unmap 0 all", "unmap 0 1", "unmap 0 all"])]
        window += ["monwait 0", "stop", "start"]
        for _ in range(rng.randrange(0, 3)):
            window += ["map 0", rng.choice(["unmap 0 all", "unmap 0 1"])]
        window += ["monwait 0", "stop"]
    elif cls == "slowmon":
        # a monitor that holds regions for a while and consumes partially, but keeps going until the end
        window = ["start"]
        for _ in range(rng.randrange(1, 4)):
            window += ["map 0", "sleep %d" % rng.randrange(1, 9), rng.choice(["unmap 0 1", "unmap 0 all", "unmap 0 0"])]
        window += ["monwait 0", "stop"]
    elif cls == "latemon":
        # the client starts to monitor only in a later acquisition
        window = ["start", "stop", "start", "sleep %d" % rng.randrange(0, 10), "map 0", "unmap 0 all", "map 0", "unmap 0 all", "monwait 0", "stop"]
    elif cls == "holdmon":
        # stop / abort while the client holds a mapped region; frame count small enough for the ring (no stalled source)
        nn = max(1, min(n, (ring - 8) // fb - 1))
        streams[0]["n"] = nn
        window = ["start", "sleep %d" % rng.randrange(1, 12), "map 0", rng.choice(["stop", "abort"]), "unmap 0 all", "start", "map 0", "unmap 0 all", "monwait 0", "stop"]
    elif cls == "abort":
        streams[0]["n"] = rng.choice([5, 50, 1000])
        window = ["start", "sleep %d" % rng.randrange(0, 25), "abort", "reconfigure %d" % n, "start", "stop"]
    elif cls == "abortmon":
        streams[0]["n"] = 1000
        window = ["start", "sleep %d" % rng.randrange(1, 15), "map 0", "sleep %d" % rng.randrange(0, 15), "abort", "unmap 0 all",
                  "reconfigure %d" % n, "start", "map 0", "unmap 0 all", "monwait 0", "stop"]
    elif cls == "avg1":
        # frame_average_count = 1 (or an explicit 0) is "no averaging": the source must feed the sink directly, exactly as M1 says
        streams[0]["avg"] = rng.choice([1, 1, 0])
        mon = rng.choice([[], ["map 0", "unmap 0 all", "monwait 0"], ["sleep 5", "map 0", "unmap 0 1", "monwait 0"]])
        # (a client that has begun to monitor keeps consuming in a later acquisition too: see the known finding C07/stalled-monitor)
        window = ["start"] + mon + ["stop"] + rng.choice([[], ["start"] + (["monwait 0"] if mon else []) + ["stop"]])
    elif cls == "camempty":
        # the camera hands out an empty frame every k-th call: the source aborts that write and carries on
        faults = ["camempty %d" % rng.choice([2, 3])]
        window = ["start", "stop"] + rng.choice([[], ["start", "stop"]])
    elif cls == "remap":
        # C02 at pipeline level: the client holds a region while the source laps the ring, and (a usage error) asks for a second
        # map without unmapping: the call is refused and must leave the held region alone
        streams[0]["n"] = rng.choice([20, 60])
        window = ["start", "sleep %d" % rng.randrange(1, 12), "map 0"] + ["sleep %d" % rng.randrange(0, 9), "map 0"] * rng.choice([1, 1, 2]) + \
                 ["sleep %d" % rng.randrange(0, 25), rng.choice(["unmap 0 all", "unmap 0 1"]), "monwait 0", "stop"]
    elif cls == "reconf":
        # acquire_configure while the acquisition runs (it re-arms the storage, so the run is disturbed), then stop or abort,
        # then a regular acquisition
        streams[0]["n"] = rng.choice([5, 50, 1000])
        window = ["start", "sleep %d" % rng.randrange(0, 20), "reconfigure %d" % rng.choice([n, 1000, 3]), "sleep %d" % rng.randrange(0, 10),
                  rng.choice(["stop", "abort", "abort"]), "reconfigure %d" % n, "start", "stop"]
    elif cls == "stofault":
        faults = ["sto 2 %d%s" % (rng.randrange(0, 4), rng.choice(["", " p"]))]
        streams[0]["n"] = rng.choice([3, 10, 30])
        window = ["start", rng.choice(["stop", "abort", "sleep 30"]), "stop", "reconfigure %d" % n, "start", "stop"]
    elif cls == "camfaultmon":
        # C06: the camera fails in the middle of an acquisition while a client monitors: what the client is handed stays a sequence of
        # whole frames of this acquisition (the region the source had mapped for the failed frame is never committed)
        faults = ["cam 0 %d%s" % (rng.randrange(1, 6), rng.choice(["", " p"]))]
        streams[0]["n"] = rng.choice([8, 20, 30])
        window = ["start"] + ["map 0", rng.choice(["unmap 0 all", "unmap 0 1"])] * rng.randrange(1, 4) + ["monwait 0", "stop",
                  "reconfigure %d" % n, "start", "map 0", "unmap 0 all", "monwait 0", "stop"]
    elif cls == "camfault":
        faults = ["cam 0 %d%s" % (rng.randrange(0, 4), rng.choice(["", " p"]))]
        streams[0]["n"] = rng.choice([3, 10, 30])
        # without the re-configuration the camera stays un-armed after its failure and the next start takes acquire_start's error path
        window = ["start", rng.choice(["stop", "abort", "sleep 30"]), "stop", rng.choice(["reconfigure %d" % n, "reconfigure %d" % n, "sleep 1"]), "start", "stop"]
    else:
        return gen_prog(rng, cls)
    sc.update({"ring": ring, "streams": streams, "window": window, "faults": faults})
    return sc


def gen_prog(rng, cls):
    """scenario classes outside M1's vocabulary: free-form client programs for the harness only"""
    w, h, t, fb = _shape(rng)
    n = rng.choice([1, 2, 3, 5, 9, 17])
    ring = _ring(rng, fb, n)
    cfg0 = "cfg 0 cam=0 sto=2 w=%d h=%d type=%d n=%d" % (w, h, t, n)
    faults = []
    if cls == "trig":
        prog = [cfg0.replace(" n=", " trig=1 n="), "configure", "start"] + ["trigger 0", "sleep 2"] * rng.randrange(0, 4) + \
               ["abort", cfg0, "configure", "start", "stop"]
    elif cls == "avg":
        k = rng.choice([2, 2, 3, 4]); n2 = rng.choice([2, 4, 5, 8, 9, 13])
        fb32 = R.frame_bytes(w, h, 4)
        ring = rng.choice([max(fb, fb32) * 2 + 16, max(fb, fb32) * 3 + 8, max(fb, fb32) * 5, max(fb, fb32) * 2 + 8])
        prog = ["cfg 0 cam=0 sto=2 w=%d h=%d type=%d n=%d avg=%d" % (w, h, t, n2, k), "configure", "start", "stop"]
        if rng.random() < .4:
            prog += ["start", "stop"]
    elif cls == "avgmon":
        k = rng.choice([2, 3]); n2 = rng.choice([4, 6, 9])
        fb32 = R.frame_bytes(w, h, 4)
        ring = rng.choice([max(fb, fb32) * 3 + 8, max(fb, fb32) * 5])
        prog = ["cfg 0 cam=0 sto=2 w=%d h=%d type=%d n=%d avg=%d" % (w, h, t, n2, k), "configure", "start", "map 0", "unmap 0 all", "monwait 0", "stop"]
    elif cls == "avgabort":
        k = rng.choice([2, 3]); fb32 = R.frame_bytes(w, h, 4)
        ring = rng.choice([max(fb, fb32) * 2 + 16, max(fb, fb32) * 4])
        prog = ["cfg 0 cam=0 sto=2 w=%d h=%d type=%d n=1000 avg=%d" % (w, h, t, k), "configure", "start", "sleep %d" % rng.randrange(0, 30), "abort",
                "cfg 0 cam=0 sto=2 w=%d h=%d type=%d n=%d avg=%d" % (w, h, t, rng.choice([2, 4, 6]), k), "configure", "start", "stop"]
    elif cls == "avgtwo":
        # two streams, averaging on either or both (each stream's filter feeds its own sink)
        k0 = rng.choice([1, 2, 3]); k1 = rng.choice([2, 2, 3]) if k0 == 1 or rng.random() < .7 else 1
        w1, h1, t1 = rng.choice([1, 4]), rng.choice([2, 3]), rng.choice([0, 1])
        fbs = [fb, R.frame_bytes(w, h, 4), R.frame_bytes(w1, h1, R.BPP[t1]), R.frame_bytes(w1, h1, 4)]
        ring = rng.choice([max(fbs) * 2 + 16, max(fbs) * 3 + 8, max(fbs) * 5])
        prog = ["cfg 0 cam=0 sto=2 w=%d h=%d type=%d n=%d avg=%d" % (w, h, t, rng.choice([2, 4, 5, 9]), k0),
                "cfg 1 cam=1 sto=3 w=%d h=%d type=%d n=%d avg=%d" % (w1, h1, t1, rng.choice([2, 4, 6, 7]), k1), "configure", "start"] + \
               rng.choice([[], ["map 1", "unmap 1 all", "monwait 1"], ["map 0", "unmap 0 all", "monwait 0"]]) + ["stop"]
    elif cls == "twofail":
        # two streams; the start of the second one fails (its storage refuses to start, or its camera does) while the first one is
        # already running — free-running, waiting for a software trigger, or asleep on a small ring; acquire_start has to wind the first
        # one down and a later start has to give two complete acquisitions
        w1, h1, t1 = rng.choice([1, 4]), rng.choice([2, 3]), rng.choice([0, 1])
        ring = max(ring, R.frame_bytes(w1, h1, R.BPP[t1]) * 2 + 16)
        trig = rng.random() < .4
        n0, n1 = rng.choice([3, 5, 1000]), rng.choice([2, 4, 6])
        c0 = "cfg 0 cam=0 sto=2 w=%d h=%d type=%d n=%d" % (w, h, t, n0)
        c1 = "cfg 1 cam=1 sto=3 w=%d h=%d type=%d n=%d" % (w1, h1, t1, n1)
        faults = [rng.choice(["stostartfail 3 1", "stostartfail 3 1", "camstartfail 1 1"])]
        prog = [c0 + (" trig=1" if trig else ""), c1, "configure", "start", "state",
                "cfg 0 cam=0 sto=2 w=%d h=%d type=%d n=%d" % (w, h, t, rng.choice([2, 5])), c1, "configure", "start", "stop"] + \
               rng.choice([[], ["start", "stop"]])
    elif cls == "stopawait":
        # a storage that answers AwaitingConfiguration to stop(): the next start without a configure must be refused by the HAL
        faults = ["stostopawait 2"]
        prog = [cfg0, "configure", "start", "stop", "start"] + rng.choice([["stop"], ["abort"], []]) + [cfg0, "configure", "start", "stop"]
    elif cls == "avgf32":
        # averaging asked for a camera with float samples: the filter thread gives up at its first frame; stop and abort must still
        # return (the source may already sleep on the filter's full queue), and the next acquisition is a normal one
        fb4 = R.frame_bytes(w, h, 4)
        ring = rng.choice([fb4 * 2 + 16, fb4 * 3 + 8, fb4 * 6])
        prog = ["cfg 0 cam=0 sto=2 w=%d h=%d type=4 n=%d avg=%d" % (w, h, rng.choice([5, 1000]), rng.choice([2, 3])), "configure", "start",
                "sleep %d" % rng.randrange(0, 12), rng.choice(["abort", "stop"]), cfg0, "configure", "start", "stop"]
    elif cls == "avgfault":
        # averaging on and the storage fails: the filter's flush must end although its output is refused
        k = rng.choice([2, 3]); fb32 = R.frame_bytes(w, h, 4)
        ring = rng.choice([max(fb, fb32) * 2 + 16, max(fb, fb32) * 4])
        faults = ["sto 2 %d%s" % (rng.randrange(0, 3), rng.choice(["", " p"]))]
        prog = ["cfg 0 cam=0 sto=2 w=%d h=%d type=%d n=%d avg=%d" % (w, h, t, rng.choice([6, 12, 1000]), k), "configure", "start",
                rng.choice(["stop", "abort", "sleep 30"]), "stop", cfg0, "configure", "start", "stop"]
    elif cls == "trigfault":
        # software-triggered camera and a failing storage: the sink dies while the source waits for the next trigger; abort has to
        # fire the trigger to get the source out
        faults = ["sto 2 %d%s" % (rng.randrange(0, 3), rng.choice(["", " p"]))]
        prog = [cfg0.replace(" n=", " trig=1 n=").replace("n=%d" % n, "n=1000"), "configure", "start"] + ["trigger 0", "sleep 2"] * rng.randrange(1, 6) + \
               ["sleep %d" % rng.randrange(0, 10), "abort", cfg0, "configure", "start", "stop"]   # (stop would wait for triggers nobody fires)
    elif cls == "avgabortmon":
        # averaging on and a client that holds a region: the *filter* is the writer that sleeps on sink.in when abort arrives
        k = rng.choice([2, 3]); fb32 = R.frame_bytes(w, h, 4)
        ring = rng.choice([max(fb, fb32) * 2 + 16, max(fb, fb32) * 3 + 8])
        prog = ["cfg 0 cam=0 sto=2 w=%d h=%d type=%d n=1000 avg=%d" % (w, h, t, k), "configure", "start", "sleep %d" % rng.randrange(2, 12), "map 0",
                "sleep %d" % rng.randrange(8, 25), "abort", "unmap 0 all",
                "cfg 0 cam=0 sto=2 w=%d h=%d type=%d n=%d avg=%d" % (w, h, t, rng.choice([2, 4, 6]), k), "configure", "start", "map 0", "unmap 0 all", "monwait 0", "stop"]
    elif cls == "drop2":
        # two streams, then the second one is switched off by the next acquire_configure: it must stay off
        w1, h1, t1 = rng.choice([1, 4]), rng.choice([2, 3]), rng.choice([0, 1])
        ring = max(ring, R.frame_bytes(w1, h1, R.BPP[t1]) * 2 + 16)
        c0 = "cfg 0 cam=0 sto=2 w=%d h=%d type=%d n=%d" % (w, h, t, rng.choice([3, 5, 1000]))
        c1 = "cfg 1 cam=1 sto=3 w=%d h=%d type=%d n=%d" % (w1, h1, t1, rng.choice([4, 1000]))
        prog = [c0, c1, "configure", "start", "sleep %d" % rng.randrange(0, 12), rng.choice(["abort", "abort", "stop"]) if "n=1000" not in c0 + c1 else "abort",
                "cfg 0 cam=0 sto=2 w=%d h=%d type=%d n=%d" % (w, h, t, rng.choice([2, 5])), "cfg 1 cam=- sto=-", "configure", "start", "stop"] + \
               rng.choice([[], ["shutdown"]])
    elif cls == "delay":
        prog = [cfg0 + " delay=%d" % rng.choice([1, 3]), "configure", "start", "stop"]
    elif cls == "switchfail":
        # C08: a re-configuration switches stream 0 to another camera / storage whose open fails (busy, unplugged), then the client carries on
        which = rng.choice(["cam", "sto"])
        faults = ["%s %d 1" % (rng.choice(["openfail", "descfail"]), 4 if which == "cam" else 5)]
        other = "cfg 0 cam=%d sto=%d w=%d h=%d type=%d n=%d" % (4 if which == "cam" else 0, 5 if which == "sto" else 2, w, h, t, n)
        prog = [cfg0, "configure"] + rng.choice([[], ["start", "stop"], ["start", "abort"]]) + [other, "configure"] + \
               rng.choice([["start", "stop"], ["state"], ["start", "abort"], []]) + rng.choice([[cfg0, "configure", "start", "stop"], [other, "configure", "start", "stop"], []]) + \
               rng.choice([["shutdown"], []])
    elif cls == "avgf32poll":
        # C08: as avgf32, but the client lets the acquisition end by itself and polls the state instead of stopping at once
        fb4 = R.frame_bytes(w, h, 4)
        ring = rng.choice([fb4 * 2 + 16, fb4 * 3 + 8, fb4 * 6])
        prog = ["cfg 0 cam=0 sto=2 w=%d h=%d type=4 n=%d avg=%d" % (w, h, rng.choice([3, 5]), rng.choice([2, 3])), "configure", "start",
                "sleep %d" % rng.randrange(40, 80), "state", rng.choice(["abort", "stop"]), cfg0, "configure", "start", "stop"]
    elif cls == "incomplete":
        # C08 / C11: a storage device whose driver leaves an interface entry NULL: storage_open refuses it — one open, one close —
        # and the stream works with a complete device afterwards
        other = "cfg 0 cam=0 sto=5 w=%d h=%d type=%d n=%d" % (w, h, t, n)
        faults = ["stoincomplete 5"]
        prog = rng.choice([[other, "configure"], [cfg0, "configure", "start", "stop", other, "configure"]]) + \
               rng.choice([[cfg0, "configure", "start", "stop"], ["state"], [other, "configure"]]) + rng.choice([["shutdown"], []])
    elif cls == "stofaultpoll":
        # C09 / C08: the storage fails and the client only polls the state: once every worker has gone the runtime stops saying Running
        faults = ["sto 2 %d%s" % (rng.randrange(0, 4), rng.choice(["", " p"]))]
        prog = [cfg0.replace("n=%d" % n, "n=%d" % rng.choice([10, 30, 1000])), "configure", "start", "sleep %d" % rng.randrange(60, 120), "state",
                rng.choice(["stop", "abort"]), cfg0, "configure", "start", "stop"]
    elif cls == "switchmon":
        # C06: the client monitors, the acquisition is stopped, the stream gets another camera, the client monitors again: it is handed
        # frames of the new acquisition only
        other = "cfg 0 cam=4 sto=2 w=%d h=%d type=%d n=%d" % (w, h, t, rng.choice([2, 4, 7]))
        prog = [cfg0, "configure", "start", "map 0", "unmap 0 all", "monwait 0", "stop", other, "configure", "start",
                "map 0", "unmap 0 all", "monwait 0", "stop"] + rng.choice([[], [cfg0, "configure", "start", "map 0", "unmap 0 all", "monwait 0", "stop"]])
    elif cls == "reconfavg":
        # C07: averaging is switched off by an acquire_configure while the acquisition runs (the source asks the filter to drop its window
        # and waits for the acknowledgement), then abort / stop: they return whatever the window held at that moment
        k = rng.choice([2, 2, 3]); fb32 = R.frame_bytes(w, h, 4)
        ring = rng.choice([max(fb, fb32) * 3 + 8, max(fb, fb32) * 6])
        on = "cfg 0 cam=0 sto=2 w=%d h=%d type=%d n=1000 avg=%d" % (w, h, t, k)
        off = "cfg 0 cam=0 sto=2 w=%d h=%d type=%d n=1000" % (w, h, t)
        prog = [on, "configure", "start", "sleep %d" % rng.randrange(1, 14), off, "configure", "sleep %d" % rng.randrange(0, 10),
                rng.choice(["abort", "abort", "stop"]), cfg0, "configure", "start", "stop"]
    elif cls == "setfail":
        # C11 / C08: a re-configuration switches stream 0 to another storage that opens but rejects the settings; the stream must not
        # be left with a handle to a device that was closed on the way (the replacement is closed or kept, the old one is gone)
        other = "cfg 0 cam=0 sto=5 w=%d h=%d type=%d n=%d" % (w, h, t, n)
        faults = ["stosetfail 5 %d" % rng.choice([1, 1, 2])]
        prog = [cfg0, "configure"] + rng.choice([[], ["start", "stop"]]) + [other, "configure", "state"] + \
               rng.choice([[other, "configure", "start", "stop"], [cfg0, "configure", "start", "stop"], ["start", "stop"], []]) + rng.choice([["shutdown"], []])
    elif cls == "stopartial":
        # C09: the storage fails in the middle of a multi-frame packet and says how much it had taken (a transient fault): the failure
        # must still end the acquisition — nothing is offered to the device after a failed append
        faults = ["sto 2 %d" % rng.randrange(0, 3), "stoconsumed"]
        ring = fb * rng.choice([6, 9]) + 8
        prog = [cfg0.replace("n=%d" % n, "n=%d" % rng.choice([12, 30, 1000])) + " delay=%d" % rng.choice([2, 4]), "configure", "start",
                rng.choice(["stop", "abort", "sleep 40"]), "stop", cfg0, "configure", "start", "stop"]
    elif cls == "api":
        return gen_api(rng)
    else:
        raise ValueError(cls)
    return {"cls": cls, "ring": ring, "prog": prog, "faults": faults}


def gen_api(rng):
    """C08: client programs from the usage grammar of the public API (configure / start / trigger / monitor / stop / abort /
    start while running / re-configure with other devices / shutdown), devices chosen per stream.
    Well-formed: configure only while no acquisition is running; a finite acquisition is stopped or aborted before the
    next configure; every frame stays smaller than the ring."""
    w, h, t, fb = _shape(rng)
    ring = max(fb * 3 + 8, 400)
    prog = []
    # per-stream device pools are disjoint (a device is never handed to a stream while the other one still holds it)
    cams, stos = ([0, 4], [1]), ([2, 5], [3])
    running = False
    monitoring = False
    cur = [None, None]

    def cfg():
        c = [rng.choice(cams[0]), rng.choice(cams[1])]; s = [rng.choice(stos[0]), rng.choice(stos[1])]
        out = []
        for i in range(2):
            if i == 1 and rng.random() < .5:
                out.append("cfg 1 cam=- sto=-"); cur[1] = None
                continue
            n = rng.choice([1, 2, 4, 7])
            out.append("cfg %d cam=%d sto=%d w=%d h=%d type=%d n=%d" % (i, c[i], s[i], rng.choice([1, 2, 3]), rng.choice([1, 2]), rng.choice([0, 1]), n))
            cur[i] = (c[i], s[i])
        return out + ["configure"]

    prog += cfg()
    for _ in range(rng.randrange(2, 9)):
        if not running:
            op = rng.choice(["start", "start", "cfg", "state", "stop", "abort", "map 0", "trigger 0"])
        else:
            op = rng.choice(["stop", "stop", "abort", "state", "start", "map 0", "trigger 0", "waitidle", "sleep 3"])
        if op == "cfg":
            prog += cfg()
        elif op == "map 0":
            prog += ["map 0", "unmap 0 all"]
            monitoring = True
        else:
            # a client that has begun to monitor keeps consuming until the acquisition is over (see known finding C07/stalled-monitor)
            if op in ("stop", "waitidle", "start", "cfg") and monitoring and running:
                prog.append("monwait 0")
            prog.append(op)
        if op == "start":
            running = True
        elif op in ("stop", "abort"):
            running = False
    if running:
        end = rng.choice(["stop", "abort", "shutdown"])
        if monitoring and end != "abort":
            prog.append("monwait 0")
        prog.append(end)
    if rng.random() < .5 and prog[-1] != "shutdown":
        prog.append("shutdown")
    # sometimes a device is busy/unplugged: its next open fails (a re-configuration that switches to it must leave nothing dangling)
    faults = []
    if rng.random() < 0.35:
        faults = ["%s %d %d" % (rng.choice(["openfail", "openfail", "descfail"]), rng.choice([4, 5, 0, 2]), rng.choice([1, 1, 2]))]
    return {"cls": "api", "ring": ring, "prog": prog, "faults": faults}


def harness_scenario(sc):
    prog = R.harness_prog(sc) if "window" in sc else list(sc["prog"])
    return {"ring": sc["ring"], "prog": prog, "faults": sc.get("faults", []), "limit": sc.get("limit", 40000)}


def scenario_input(sc, runs, cosim):
    text = R.scenario_text(harness_scenario(sc), [])
    if cosim:
        text = text.replace("limit", "cosim %d\nlimit" % (2 if cosim == 2 else 1), 1)
    return text + "".join("run %s\n" % r for r in runs)


# --------------------------------------------------------------------------------------------------------- engine
class Explorer:
    def __init__(self, ctx, prop_oracles=None):
        self.ctx = ctx
        self.exe = None
        self.drv = None
        self.stats = {"runs": 0, "cosim_runs": 0, "cosim_ok": 0, "per_class": {}, "oracle_kinds": {}, "ends": {}, "wraps": {}, "ring_over_frame": {},
                      "decisions": 0}
        self.distinct = set()
        self.samples = []
        self.reported = set()

    def build(self):
        self.exe = R.build(self.ctx)
        if not self.exe:
            return False
        self.drv = C.driver_path(DRIVER)
        if not os.path.exists(self.drv):
            ok, log, failed = C.lake_build([DRIVER])
            if not ok:
                self.ctx.corr_broken.append({"what": "model driver acq_runtime does not build", "log": log[-2000:]})
                return False
        return True

    # -- one scenario under several schedules
    def run_scenario(self, sc, runs, cosim=None, timeout=300):
        if cosim is None:
            cosim = "window" in sc and sc["cls"] in COSIM_CLASSES
        rc, out, err = C.run_lines(self.exe, scenario_input(sc, runs, cosim), timeout=timeout)
        res = R.parse(out)
        for r in res:
            if r["end"] is None:
                r["end"] = "CRASH (no END line) " + err[-600:].replace("\n", " | ")
        if len(res) < len(runs):
            res.append({"spec": runs[len(res)], "lines": [], "oracle": [], "end": "CRASH harness died rc=%s %s" % (rc, err[-600:].replace("\n", " | ")),
                        "schedule": None, "acq": []})
        st = self.stats
        st["runs"] += len(res)
        pc = st["per_class"].setdefault(sc["cls"], 0)
        st["per_class"][sc["cls"]] = pc + len(res)
        problems = []
        for r in res:
            e = r["end"].split()[0] if r["end"] else "none"
            st["ends"][e] = st["ends"].get(e, 0) + 1
            self.distinct.add(C.sha(sc["cls"] + "|" + (r["schedule"] or r["spec"])))
            for m in r["oracle"]:
                k = sig_of(m)
                st["oracle_kinds"][k] = st["oracle_kinds"].get(k, 0) + 1
            if r["oracle"]:
                problems.append({"kind": "oracle", "sig": sig_of(r["oracle"][0]), "msg": r["oracle"][0], "run": r})
            elif not r["end"].startswith("ok"):
                problems.append({"kind": "crash", "sig": "rt:" + re.sub(r"\d+", "N", " ".join(r["end"].split()[:3])), "msg": r["end"][:300], "run": r})
        if cosim:
            problems += self.cosim(sc, res)
        return res, problems

    def cosim(self, sc, res):
        mtext = "\n".join(R.model_scenario(sc)) + "\n"
        cls_lines = []
        for r in res:
            cl = R.cosim_lines(r["lines"])
            cls_lines.append(cl)
            mtext += "run " + ",".join(map(str, R.decisions_of(cl))) + "\n"
        rc, mout, merr = C.run_lines(self.drv, mtext, timeout=300)
        mruns, cur = [], None
        for ln in mout:
            if ln == "RUN":
                cur = []
                mruns.append(cur)
            elif cur is not None and ln.startswith("G "):
                self.ghost(ln)
            elif cur is not None and ln and ln != "END":
                cur.append(ln)
        problems = []
        if rc != 0 or len(mruns) != len(res):
            return [{"kind": "diff", "sig": "cosim:model-driver", "msg": "model driver rc=%s runs=%d/%d %s" % (rc, len(mruns), len(res), merr[-300:]), "run": res[0] if res else None}]
        for r, cl, m in zip(res, cls_lines, mruns):
            self.stats["cosim_runs"] += 1
            self.stats["decisions"] += sum(1 for l in cl if l.startswith("D "))
            a, b = list(cl), list(m)
            if not r["end"].startswith("ok"):
                k = min(len(a), len(b))
                a, b = a[:k], b[:k]
            d = C.first_diff(a, b)
            if d is None:
                self.stats["cosim_ok"] += 1
                if cl:
                    last = [l for l in cl if l.startswith("S ")]
                    if last:
                        mm = re.search(r"K=\d+ \d+ (\d+) ", last[-1])
                        if mm:
                            wz = min(int(mm.group(1)), 9)
                            self.stats["wraps"][wz] = self.stats["wraps"].get(wz, 0) + 1
            else:
                problems.append({"kind": "diff", "sig": "cosim:" + sc["cls"], "run": r,
                                 "msg": "model and implementation disagree at line %d: impl `%s` model `%s`" % (
                                     d, a[d] if d < len(a) else "<eof>", b[d] if d < len(b) else "<eof>")})
        return problems

    def ghost(self, ln):
        """model-only line at the end of a co-simulated run: were the hypotheses of the data-path theorems met, and do their
        conclusions hold on this executed trace? (a self-check of the theorems' statements on real runs; also non-vacuity evidence)"""
        kv = dict(t.split("=") for t in ln.split()[2:])
        g = self.stats.setdefault("ghost", {"streams": 0, "prefix_hyps_met": 0, "prefix_holds": 0, "complete_hyps_met": 0, "complete_holds": 0,
                                            "monitor_fresh": 0, "contradictions": []})
        g["streams"] += 1
        if kv["misused"] == "0" and kv["clean"] == "1":   # scripted camera failures included (the theorems no longer exclude them)
            g["prefix_hyps_met"] += 1
            if kv["inorder"] == "1" and int(kv["log"]) <= int(kv["ncommit"]):
                g["prefix_holds"] += 1
            elif len(g["contradictions"]) < 3:
                g["contradictions"].append(ln)
            if kv["drained"] == "1" and kv["disturbed"] == "0":
                g["complete_hyps_met"] += 1
                if kv["log"] == kv["max"] and kv["inorder"] == "1":
                    g["complete_holds"] += 1
                elif len(g["contradictions"]) < 3:
                    g["contradictions"].append(ln)
        if kv["monfresh"] == "1":
            g["monitor_fresh"] += 1

    # -- reporting
    def report(self, sc, p, relevant=None):
        """turn a problem into a violation (oracle / crash) or a broken correspondence (diff)"""
        r = p["run"] or {}
        replay = {"scenario": sc, "run": (r.get("spec") or "").strip(), "schedule": r.get("schedule"),
                  "harness_input": scenario_input(sc, [(r.get("spec") or "random 1").strip()], False),
                  "how": "python3 bin/check %s --replay <this file>   (or: feed harness_input to .build/h_runtime/h_runtime)" % self.ctx.prop}
        if p["kind"] == "diff":
            if len(self.ctx.corr_broken) < 5:
                self.ctx.corr_broken.append({"what": p["msg"], "class": sc["cls"], "replay": replay})
            return
        if relevant is not None and not relevant(p):
            self.ctx.notes.append("oracle of another property fired in a %s scenario: %s" % (sc["cls"], p["msg"][:160]))
            return
        if p["sig"] in self.reported:
            # seen before in this check: count it, spend nothing more on it
            self.ctx.violation(p["kind"], p["sig"], p["msg"], replay)
            return
        # (the allowance bounds the cost of runs that really never end; a re-run that ends with the larger budget does not use it up —
        # with some seeds a dozen slow-but-fine runs of the `delay` class come before anything else)
        if "STEP-LIMIT" in p["sig"] and r.get("spec") and self.stats.get("step_limit_reruns_that_did_not_end", 0) < 6 and self.stats.get("step_limit_reruns", 0) < 200:
            self.stats["step_limit_reruns"] = self.stats.get("step_limit_reruns", 0) + 1
            # the step limit is a budget, not a verdict: a run that is slow in scheduler steps (write delays, long sleeps under an
            # unlucky schedule) but still moving is given eight times the budget before it is called a hang
            sc8 = dict(sc, limit=8 * sc.get("limit", 40000))
            rc, out, err = C.run_lines(self.exe, scenario_input(sc8, [r["spec"].strip()], False), timeout=600)
            res8 = R.parse(out)
            if res8 and res8[0]["end"] and res8[0]["end"].startswith("ok") and not res8[0]["oracle"]:
                self.stats["slow_runs_completed_with_a_larger_step_budget"] = self.stats.get("slow_runs_completed_with_a_larger_step_budget", 0) + 1
                return
            self.stats["step_limit_reruns_that_did_not_end"] = self.stats.get("step_limit_reruns_that_did_not_end", 0) + 1
        if p["sig"] not in self.reported:
            self.reported.add(p["sig"])
            small = self.shrink(sc, p)
            if small:
                sc2, r2 = small
                replay = {"scenario": sc2, "run": r2["spec"].strip(), "schedule": r2.get("schedule"),
                          "harness_input": scenario_input(sc2, [r2["spec"].strip()], False), "how": replay["how"]}
                p = dict(p, msg=r2["oracle"][0] if r2["oracle"] else r2["end"][:300])
        self.ctx.violation(p["kind"], p["sig"], "real runtime violates the property: %s  [class %s, program `%s`, ring %d, run %s]" % (
            p["msg"], sc["cls"], " ; ".join(replay["scenario"].get("window") or replay["scenario"].get("prog")), replay["scenario"]["ring"], replay["run"]), replay)

    def shrink(self, sc, p, budget=None):
        if budget is None:   # runs that do not end are expensive: shrink them less
            budget = 12 if ("never-returns" in p["sig"] or "CRASH" in p["sig"]) else 40
        """drop client operations while some schedule still shows the same signature"""
        key = "window" if "window" in sc else "prog"
        ops = list(sc[key])
        spec = p["run"]["spec"].strip()
        runs = [spec] + ["random %d" % (7919 * i + 13) for i in range(5)]
        best = [None]
        used = [0]

        def fails(xs):
            if used[0] >= budget:
                return False
            used[0] += 1
            sc2 = dict(sc)
            sc2[key] = list(xs)
            rc, out, err = C.run_lines(self.exe, scenario_input(sc2, runs, False), timeout=120)
            for r in R.parse(out):
                if r["end"] is None:
                    continue
                s = sig_of(r["oracle"][0]) if r["oracle"] else ("rt:" + re.sub(r"\d+", "N", " ".join(r["end"].split()[:3])) if not r["end"].startswith("ok") else None)
                if s == p["sig"]:
                    best[0] = (sc2, r)
                    return True
            return False

        try:
            C.ddmin(ops, fails, max_runs=budget)
        except Exception:
            pass
        return best[0]

    def evidence(self):
        cov = self.ctx.cov
        st = self.stats
        cov["evaluations"] = st["runs"]
        cov["distinct_nontrivial"] = len(self.distinct)
        cov["traces_validated_against_impl"] = st["cosim_ok"]
        cov["rule"] = ("a run = one scenario (ring, stream shapes, client program, scripted faults) under one schedule of the real runtime on the "
                       "deterministic scheduler; distinct = distinct (class, schedule) pairs; validated = runs whose every scheduler decision and "
                       "state digest agreed with the Lean model M1")
        cov["input_distribution"] = {"runs_per_class": st["per_class"], "run_endings": st["ends"], "oracle_kinds_hit": st["oracle_kinds"],
                                     "ring_laps_at_end_of_cosim_runs": st["wraps"], "scheduler_decisions_compared": st["decisions"],
                                     "cosim_runs": st["cosim_runs"]}
        cov["samples"] = self.samples[:6]
        if "enumerated" in st:
            cov["systematic_schedule_enumeration"] = st["enumerated"]
        if "ghost" in st:
            cov["theorem_hypotheses_in_cosimulated_runs"] = st["ghost"]
            if st["ghost"]["contradictions"]:
                self.ctx.corr_broken.append({"what": "an executed trace of the model contradicts a data-path theorem's statement", "lines": st["ghost"]["contradictions"]})


def explore(ctx, ex, classes, nscen, nsched, relevant=None, extra_runs=("explicit  fair",)):
    """`nscen` scenarios per class, each under `nsched` random schedules (+ the fair round-robin one)"""
    for cls in classes:
        unfinished = 0
        for i in range(nscen):
            if unfinished >= 6:
                # runs that never end cost a full step budget each (and, co-simulated, megabytes of trace): once a class has shown
                # half a dozen of them, they have been reported and the rest of the class adds nothing but time
                ex.stats.setdefault("classes_cut_short_after_repeated_hangs", []).append(cls)
                break
            sc = gen(ctx.rng, cls)
            runs = ["random %d" % ctx.rng.randrange(1 << 30) for _ in range(nsched)] + list(extra_runs)
            res, problems = ex.run_scenario(sc, runs)
            unfinished += sum(1 for r in res if not (r["end"] or "").startswith("ok"))
            if len(ex.samples) < 6 and i == 0:
                ex.samples.append({"class": cls, "ring": sc["ring"], "program": " ; ".join(harness_scenario(sc)["prog"])[:300], "faults": sc.get("faults", [])})
            for p in problems:
                ex.report(sc, p, relevant)


def enumerate_schedules(ctx, ex, sc, bound, budget, relevant=None):
    """systematic part: starting from the fair schedule of scenario `sc`, every schedule that deviates from it at up to `bound`
    scheduler decisions (at a deviation another enabled thread runs; afterwards the fair policy continues), at most `budget` runs.
    Every run goes through the oracles and (for M1's classes) the co-simulation like a random one."""
    cos = 2
    frontier = [([], 0)]
    done = 0
    stats = ex.stats.setdefault("enumerated", {"scenarios": 0, "runs": 0, "decisions_of_fair_run": [], "exhausted": 0, "bound": bound})
    stats["scenarios"] += 1
    exhausted = True
    while frontier:
        if done >= budget:
            exhausted = False
            break
        batch = frontier[:min(48, budget - done)]
        frontier = frontier[len(batch):]
        runs = ["explicit %s fair" % ",".join(map(str, p)) for p, _ in batch]
        cosim = cos if ("window" in sc and sc["cls"] in COSIM_CLASSES) else None
        text_mode = cosim if cosim else 2
        # run (Q lines are needed also for classes outside M1)
        if cosim:
            res, problems = ex.run_scenario(sc, runs, cosim=cosim)
        else:
            rc, out, err = C.run_lines(ex.exe, scenario_input(sc, runs, 2), timeout=300)
            res = R.parse(out)
            problems = []
            for r in res:
                if r["end"] is None:
                    r["end"] = "CRASH (no END line)"
                ex.stats["runs"] += 1
                if r["oracle"]:
                    problems.append({"kind": "oracle", "sig": sig_of(r["oracle"][0]), "msg": r["oracle"][0], "run": r})
                elif not r["end"].startswith("ok"):
                    problems.append({"kind": "crash", "sig": "rt:" + re.sub(r"\d+", "N", " ".join(r["end"].split()[:3])), "msg": r["end"][:300], "run": r})
        done += len(res)
        stats["runs"] += len(res)
        for p in problems:
            ex.report(sc, p, relevant)
        for (prefix, dev), r in zip(batch, res):
            dec = []
            for ln in r["lines"]:
                if ln.startswith("Q "):
                    t = ln.split()
                    dec.append((int(t[1]), [int(x) for x in t[2][3:].split(",") if x != ""]))
            if not prefix:
                stats["decisions_of_fair_run"].append(len(dec))
            if dev >= bound:
                continue
            if not (r["end"] or "").startswith("ok") or len(dec) > 6000:
                continue   # a run that hung / hit the step limit has been reported; its tens of thousands of decisions are not branched on
            chosen = [d[0] for d in dec]
            for i in range(len(prefix), len(dec)):
                for alt in dec[i][1]:
                    if alt != dec[i][0]:
                        frontier.append((chosen[:i] + [alt], dev + 1))
    if exhausted:
        stats["exhausted"] += 1


def run_corpus(ctx, ex, prop, relevant=None):
    """corpus entries: {scenario, runs}. They run first (minimised past failures, demonstrations of the known findings)."""
    n = 0
    for f in C.corpus_files(prop):
        if not f.endswith(".json"):
            continue
        ent = json.load(open(f))
        res, problems = ex.run_scenario(ent["scenario"], ent["runs"], cosim=ent.get("cosim"))
        n += 1
        for p in problems:
            ex.report(ent["scenario"], p, relevant)
    ctx.cov["corpus_entries"] = n


def replay(ctx, path):
    ex = Explorer(ctx)
    if not ex.build():
        print("harness does not build")
        return 2
    d = json.load(open(path))
    rp = d.get("replay", d)
    text = rp["harness_input"]
    rc, out, err = C.run_lines(ex.exe, text, timeout=300)
    bad = 0
    for ln in out:
        if ln.startswith(("API", "ORACLE", "END", "ACQ", "THREADS", "FLAGS")):
            print(ln)
        if ln.startswith("ORACLE") or (ln.startswith("END") and not ln.startswith("END ok")):
            bad = 1
    return bad


# ------------------------------------------------------------------------------ the running pipeline as part of another check
def pipeline_part(ctx, classes, nscen, nsched, rel, what):
    """run scenario classes of the whole runtime (detsched + mock driver, co-simulated with M1 where M1 covers the class) inside the
    check of a property whose own model is a single component: the component's callers — acquire.c, source.c, sink.c — are where a
    correct component is used wrongly.  `rel` selects the oracle messages that belong to the property."""
    ex = Explorer(ctx)
    if not ex.build():
        return None
    keep = dict(ctx.cov)
    explore(ctx, ex, classes, nscen, nsched, rel)
    ctx.cov.clear()
    ctx.cov.update(keep)
    ctx.cov["pipeline_runs"] = {"classes": classes, "runs": ex.stats["runs"], "per_class": ex.stats["per_class"], "oracle_kinds_hit": ex.stats["oracle_kinds"],
                                "cosim_runs": ex.stats["cosim_runs"], "cosim_agree": ex.stats["cosim_ok"], "decisions_compared": ex.stats["decisions"],
                                "what": what}
    return ex
