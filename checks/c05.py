"""C05 — frame packets are whole, exactly chained, 8-byte aligned frames.

Lean: frame-size arithmetic over constants and rounding expressions that are regenerated from
components.h/.c, source.c and filter.c on every run (extract/frameconst.py = the translator), and
channel theorems (every region handed out is 8-aligned and a concatenation of whole writes).
Tie: (1) the generated file; (2) h_frames: the real bytes_of_image / bytes_of_type and the rounding
expressions pasted verbatim from the source vs. the model driver `acq_frames` on a shape sweep;
(3) h_chan_seq in frame mode vs `acq_chan`, with an implementation-only oracle for alignment and
whole-frame regions.  (Packets of the running pipeline are checked again by the runtime checks.)
"""
import os, re, sys
from . import common as C, chan
sys.path.insert(0, os.path.join(C.VERIF, "extract"))

MODULE = "AcqVerif.Props.C05"
DRIVERS = ["acq_frames", "acq_chan", "acq_simcam", "acq_runtime", "acq_hal", "AcqVerif.Channel.Refine"]
THEOREMS = ["AcqVerif.C05.%s" % t for t in (
    "frame_size", "accumulator_size", "header_layout", "bytes_of_type_table", "regions_8_aligned", "regions_are_whole_writes")]


def regenerate(ctx):
    import frameconst as X
    path = os.path.join(C.LEAN, "AcqVerif", "Generated", "FrameConst.lean")
    try:
        text, vals, bot = X.extract(C.REPO, os.path.join(C.BUILD, "frameconst"))
    except Exception as ex:
        ctx.corr_broken.append({"what": "frame-constant / alignment-expression extractor failed on the current source", "error": str(ex)[:500]})
        return None
    if not os.path.exists(path) or open(path).read() != text:
        with open(path, "w") as f:
            f.write(text)
    ctx.cov["generated_constants"] = {"hdr": vals.get("hdr"), "bytes_of_type": bot}
    return True


def frames_harness(ctx):
    import frameconst as X
    try:
        _, sexpr = X.find_align(os.path.join(C.REPO, "acquire-video-runtime/src/runtime/source.c"), "nbytes_aligned")
        _, fexpr = X.find_align(os.path.join(C.REPO, "acquire-video-runtime/src/runtime/filter.c"), "bytes_of_accumulator")
    except Exception as ex:
        ctx.corr_broken.append({"what": "rounding expression not found", "error": str(ex)})
        return None
    tpl = open(os.path.join(C.VERIF, "harness/frames/h_frames.c.in")).read()
    os.makedirs(os.path.join(C.BUILD, "gen"), exist_ok=True)
    src = os.path.join(C.BUILD, "gen", "h_frames.c")
    open(src, "w").write(tpl.replace("@SOURCE_EXPR@", sexpr).replace("@FILTER_EXPR@", fexpr))
    exe, log = C.compile_harness("h_frames", [src, "acquire-core-libs/src/acquire-device-properties/device/props/components.c"],
                                 defines=["NO_UNIT_TESTS"])
    if not exe:
        ctx.corr_broken.append({"what": "h_frames does not compile", "log": log[-2000:]})
    return exe


def run(ctx):
    regenerate(ctx)
    chan.prove_with_lock_discipline(ctx, MODULE, THEOREMS, DRIVERS)
    ctx.assumptions += chan.ASSUMPTIONS + [
        "the ring buffer's base address is at least 8-aligned (malloc)",
        "the monitoring client consumes whole frames (a documented obligation of acquire_unmap_read's caller); the sink's consumption by size fields is covered by the runtime checks",
    ]
    exe = frames_harness(ctx)
    n_sizes = 0
    pads = {}
    if exe:
        rng = ctx.rng
        lines = ["consts"]
        thorough = ctx.tier == "thorough"
        dims = list(range(0, 68)) + [100, 255, 256, 1000, 1023, 4096, 8191, 8192]
        for w in dims:
            for h in (dims if thorough else [1, 2, 3, 5, 7, 8, 31, 64, 67, 1000]):
                for t in range(0, 11):
                    lines.append("size %d %d" % (w * h, t))
        for _ in range(20000 if thorough else 3000):
            lines.append("size %d %d" % (rng.randrange(0, 1 << rng.randrange(1, 40)), rng.randrange(0, 12)))
        for n in list(range(0, 300)) + [rng.randrange(0, 1 << 40) for _ in range(2000)]:
            lines.append("align %d" % n)
        script = "\n".join(lines) + "\n"
        rc_i, impl, err_i = C.run_lines(exe, script, timeout=300)
        rc_m, model, err_m = C.run_lines(C.driver_path("acq_frames"), script, timeout=300)
        model_clean = []
        for ln in model:
            m = chan.LABEL.search(ln)
            if m:
                pads[m.group(1)] = pads.get(m.group(1), 0) + 1
            model_clean.append(chan.LABEL.sub("", ln))
        if rc_i != 0:
            ctx.violation("crash", "h_frames:crash", "bytes_of_image / rounding harness crashed: %s" % err_i[-800:], {"harness": "h_frames"})
        d = C.first_diff(list(impl), model_clean)
        n_sizes = len(lines)
        if d is not None:
            ctx.corr_broken.append({"what": "frame-size model and the real code disagree", "input": lines[d] if d < len(lines) else "?",
                                    "impl": impl[d] if d < len(impl) else "<eof>", "model": model_clean[d] if d < len(model_clean) else "<eof>"})
        # implementation-only oracle on the sizes the real code computed
        for inp, out in zip(lines, impl):
            f = out.split()
            if inp.startswith("size") and len(f) == 4:
                img, fb = int(f[1]), int(f[2])
                if fb % 8 != 0 or fb < 96 + img or fb >= 96 + img + 8:
                    ctx.violation("oracle", "h_frames:frame-size-not-rounded-up-to-8",
                                  "real code: frame size %d for image bytes %d (%s)" % (fb, img, inp), {"harness": "h_frames", "input": inp})
                    break
    stats = chan.explore(ctx, chan.C05_ORACLES | chan.C01_ORACLES | chan.C02_ORACLES, frame_mode=True)
    # (c) the packets the pipeline really hands out: whole runtime on the deterministic scheduler, mock storage and monitoring
    # client check every packet / mapped region for 8-alignment and whole frames (write delay > 0 engages vfslice.c)
    from . import rtx
    ex = rtx.Explorer(ctx)
    if ex.build():
        def rel(p):
            return p["kind"] == "crash" or any(k in p["msg"] for k in ("packet-", "monitor-region-", "never-returns"))
        rtx.explore(ctx, ex, ["delay", "delay", "single", "mon", "camempty", "avgtwo", "avgtwo", "avgtwo"], 30 if ctx.tier == "thorough" else 5, 8 if ctx.tier == "thorough" else 4, rel)
        ctx.cov["pipeline_runs"] = {"runs": ex.stats["runs"], "per_class": ex.stats["per_class"], "oracle_kinds_hit": ex.stats["oracle_kinds"],
                                    "cosim_ok": ex.stats["cosim_ok"]}
        ctx.cov["evaluations"] += ex.stats["runs"]
    # (d) where the two halves of a frame header come from: source.c sizes the frame from camera_get_image_shape and copies the shape
    # that camera_get_frame reports into the header — they must be one and the same shape, strides included (the shipped cameras at
    # binning 1, 2, 4, 8; harness and model of C17, oracles frame-info-shape / frame-bytes / strides-do-not-match-dims)
    from . import c17
    keep = dict(ctx.cov)
    exes = c17.build_harnesses(ctx)
    sdrv = C.driver_path("acq_simcam")
    v = "plain" if "plain" in exes else (list(exes) or [None])[0]
    if v and os.path.exists(sdrv):
        cases = c17.corpus_cases() + c17.rebin_cases() + c17.random_cases(ctx.rng, 40 if ctx.tier == "thorough" else 8, False)
        cstats = {"branches": {}, "distinct": set(), "evaluations": 0, "ops": 0, "validated": 0, "tight": {}}
        problems = c17.run_cases(exes[v], sdrv, v, cases, cstats, timeout=300)
        mine = [p for p in problems if p[1] == "crash" or (p[1] == "oracle" and p[2]["msg"].split()[1] in ("frame-info-shape", "frame-bytes", "strides-do-not-match-dims"))]
        c17.report(ctx, exes[v], sdrv, v, cases, mine)
        keep["camera_header_shape_cases"] = {"cases": len(cases), "ops": cstats["ops"], "agree_with_camera_model": cstats["validated"]}
    # (e) between the sink and the device: storage_append hands the driver the caller's packet — the same bytes, nothing beyond them —
    # also when the driver takes only part of it (harness and model of C11; the mock driver consumes half of every packet and checks the
    # region it is offered)
    from . import c11
    hexe, hdrv = c11.build(ctx)
    if hexe:
        scripts = [["sopen 0", "sset 1 3", "sstart 3", "sappend 2 3", "sappend 2 3", "sstop 2", "sclose 0"],
                   ["sopen 0", "sset 1 3", "sappend 2 3", "sappend 1 3", "sappend 0 3", "sclose 0"],
                   ["sopen 0", "sset 1 2", "sstart 3", "sappend 2 2", "sappend 2 3", "sclose 0"]]
        hp = c11.run_batch(hexe, hdrv, scripts, c11.new_stats(), timeout=60)
        for ci, kind, det in hp:
            if kind in ("crash", "oracle"):
                ctx.violation(kind, "h_hal:%s" % (str(det.get("msg", kind)).split()[1] if isinstance(det, dict) and len(str(det.get("msg", "")).split()) > 1 else kind),
                              "real HAL storage_append: %s on `%s`" % (str(det)[:300], "; ".join(scripts[ci])),
                              {"harness": "h_hal", "script": ["new"] + scripts[ci]})
        keep["hal_append_packets"] = {"scripts": len(scripts), "problems": len([p for p in hp if p[1] in ("crash", "oracle")])}
    ctx.cov.clear(); ctx.cov.update(keep)
    ctx.cov["evaluations"] += n_sizes
    ctx.cov["size_cases"] = n_sizes
    ctx.cov["padding_residues_hit"] = pads
    ctx.cov["rule"] = ("(c) whole-pipeline runs (classes delay/single/mon/camempty/avgtwo of checks/rtx.py) whose every storage packet and monitor region is checked for alignment and whole frames; (a) %d shape/type size computations (w*h for w,h over 0..67 and larger edge values x sample types 0..10, plus random up to 2^40) through the real "
                       "bytes_of_image and the rounding expressions pasted from source.c/filter.c, vs the model; (b) " % n_sizes) + ctx.cov["rule"]


def replay(ctx, path):
    import json
    rp = json.load(open(path)).get("replay", {})
    if rp.get("harness") == "h_hal":
        from . import c11
        return c11.replay(ctx, path)
    if rp.get("harness") == "h_simcam_shape":
        from . import c17
        return c17.replay(ctx, path)
    if "harness_input" in rp:
        from . import rtx
        return rtx.replay(ctx, path)
    return chan.replay(ctx, path, chan.C05_ORACLES)
