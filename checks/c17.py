"""C17 — simulated cameras are memory-safe and honour the shape they report.

Real code: acquire-driver-common/src/simcams/{simulated.camera.c, bin2.avx2.c, bin2.plain.c,
imfill.pattern.cpp, popcount.cpp} (+ pcg_basic.c, components.c, logger.c, linux/platform.c),
compiled with harness/simcam_shape/h_simcam_shape.c under ASan+UBSan, once with -mavx2
(the repository's build: cmake/simd.cmake) and once without (bin2.plain.c).
Model: lean/AcqVerif/Simcam/Shape.lean, driver `acq_simcam`; theorems AcqVerif.Props.C17.

Three kinds of runs per build variant:
  * camera runs: configuration sweeps and set/start/get_frame/stop/set chains through the
    Camera vtable; every line (everything get/get_shape/get_meta return, the allocated sizes
    of both image buffers, the bytes stored into a canary-filled exact-size caller buffer) is
    compared with the model; ASan watches every renderer pass;
  * the same on small buffers with ASAN_OPTIONS=max_redzone=16, which makes ASan hand out
    blocks that are 16- but not 32-byte aligned, as glibc's realloc does for every large block;
  * tight-buffer runs: bin2 / im_fill_rand / im_fill_pattern on heap blocks of exactly the
    extent the model predicts (must be clean, also on a base that is only malloc-aligned)
    and one byte less (ASan must report): the extent formulas are exact.
"""
import json
import os
import re
import struct
import threading

from . import common as C

MODULE = "AcqVerif.Props.C17"
DRIVERS = ["acq_simcam", "acq_simconc"]
THEOREMS = [
    "AcqVerif.C17.C17_reported_shape_is_clamped_request",
    "AcqVerif.C17.C17_reported_shape_invariant",
    "AcqVerif.C17.C17_get_after_set",
    "AcqVerif.C17.C17_rejected_set_changes_nothing",
    "AcqVerif.C17.C17_accepted_binning",
    "AcqVerif.C17.C17_buffers_resized_on_every_set",
    "AcqVerif.C17.C17_all_extents_within_buffer",
    "AcqVerif.C17.C17_history_extents_within_buffer",
    "AcqVerif.C17.C17_frame_fills_exactly_bytes_of_image",
]

HDIR = os.path.join(C.VERIF, "harness/simcam_shape")
PCG_REL = "acquire-driver-common/src/simcams/3rdParty/pcg-c-basic-0.9"
LIBSRC = [
    "acquire-driver-common/src/simcams/imfill.pattern.cpp",
    "acquire-driver-common/src/simcams/popcount.cpp",
    PCG_REL + "/pcg_basic.c",
    "acquire-core-libs/src/acquire-core-platform/linux/platform.c",
    "acquire-core-libs/src/acquire-core-logger/logger.c",
    "acquire-core-libs/src/acquire-device-properties/device/props/components.c",
]
GENERATED = os.path.join(C.LEAN, "AcqVerif/Generated/SimcamConstants.lean")
VARIANTS = (("avx2", ["-mavx2"]), ("plain", []))
LABEL = re.compile(r" ~(\S+)$")
ALLOC = re.compile(r" A\[[^\]]*\]")
SHAPES = [1, 2, 3, 7, 8, 31, 32, 33, 63, 64, 65, 1000, 1023, 4096, 8191, 8192]
MAXDIM = 8192


def fbits(x):
    return struct.unpack("<I", struct.pack("<f", x))[0]


SAFE_EXPOSURES = [fbits(0.0), fbits(1.0), fbits(50.0), fbits(100.5), fbits(400.0)]
ODD_EXPOSURES = [fbits(1e6), fbits(-1.0), 0x7FC00000, 0xFFFFFFFF, fbits(3.0e9)]


# ------------------------------------------------------------------ building
def have_avx2():
    try:
        return "avx2" in open("/proc/cpuinfo").read()
    except OSError:
        return False


def regenerate(ctx):
    """Rewrite Generated/SimcamConstants.lean from the current sources."""
    pcg = os.path.join(C.REPO, PCG_REL)
    exe, log = C.compile_harness("c17_gen_constants", [os.path.join(HDIR, "gen_constants.c")] + LIBSRC,
                                 extra_flags=["-mavx2"], defines=["NO_UNIT_TESTS"], includes=[pcg], san=False)
    if not exe:
        ctx.corr_broken.append({"what": "constants generator does not compile against the repository", "log": log[-2000:]})
        return False
    rc, out, err = C.sh([exe], timeout=60)
    if rc != 0 or "namespace AcqVerif.Simcam.K" not in out:
        ctx.corr_broken.append({"what": "constants generator failed (a constant no longer has the shape the model assumes)",
                                "rc": rc, "stderr": err[-1500:]})
        return False
    old = open(GENERATED).read() if os.path.exists(GENERATED) else None
    if old != out:
        os.makedirs(os.path.dirname(GENERATED), exist_ok=True)
        with open(GENERATED, "w") as f:
            f.write(out)
        ctx.notes.append("Generated/SimcamConstants.lean changed and was rewritten")
    return True


def build_harnesses(ctx):
    pcg = os.path.join(C.REPO, PCG_REL)
    res = {}

    def one(v, fl):
        res[v] = C.compile_harness("h_simcam_shape_" + v, [os.path.join(HDIR, "h_simcam_shape.c")] + LIBSRC,
                                   extra_flags=fl, defines=["NO_UNIT_TESTS"], includes=[pcg])

    ths = [threading.Thread(target=one, args=(v, fl)) for v, fl in VARIANTS]
    for t in ths:
        t.start()
    for t in ths:
        t.join()
    exes = {}
    for v, _ in VARIANTS:
        exe, log = res[v]
        if not exe:
            ctx.corr_broken.append({"what": "harness h_simcam_shape (%s) does not compile against the repository" % v, "log": log[-3000:]})
        else:
            exes[v] = exe
    return exes


# ------------------------------------------------------------------ inputs
def trig(rng, wild):
    if not wild:
        return [0, 0, 0, 0]
    return [rng.randrange(2), rng.randrange(8), rng.randrange(2), rng.randrange(8)]


def set_line(rng, b, t, w, h, exposure=None, trigger=0, wild=True, ox=None, oy=None):
    e = rng.choice(SAFE_EXPOSURES) if exposure is None else exposure
    li = rng.getrandbits(32) if wild else 0
    rd = rng.randrange(4) if wild else 0
    offs = [0, 1, 5, 8191, 8192, 2 ** 32 - 1]
    ox = rng.choice(offs) if ox is None else ox
    oy = rng.choice(offs) if oy is None else oy
    tr = trig(rng, wild) + [trigger, rng.randrange(8) if wild else 0, rng.randrange(2) if wild else 0, rng.randrange(8) if wild else 0]
    tr += trig(rng, wild) + trig(rng, wild) + trig(rng, wild) + trig(rng, wild)
    return "set %d %d %d %d %d %d %d %d %d %s" % (e, li, rd, b, t, ox, oy, w, h, " ".join(map(str, tr)))


def clampdim(v, b):
    b = b or 1
    return max(1, min(v, MAXDIM // b))


def cost(b, t, w, h, kind):
    """rough number of bytes one rendered frame touches (budgeting only)"""
    b = b or 1
    px = (b * clampdim(w, b)) * (b * clampdim(h, b))
    bpp = [1, 2, 1, 2, 4, 2, 2, 2][t] if t < 8 else 1
    return px * bpp * (6 if kind == 1 else 1)


def chain(rng, kind, cfgs, budget, extras=True):
    """set/start/get_frame/stop/set chain over a list of configurations (b, t, w, h)."""
    ops = ["new %d" % kind]
    if extras:
        ops.append("obs")
    for i, (b, t, w, h) in enumerate(cfgs):
        trigger = 1 if (extras and rng.random() < 0.25) else 0
        ops.append(set_line(rng, b, t, w, h, trigger=trigger))
        ok = b in (0, 1, 2, 4, 8, 16, 32, 64, 128) and t < 8
        if ok and cost(b, t, w, h, kind) > budget:
            continue  # configured and observed, but too expensive to render in this tier
        ops.append("start")
        if extras and rng.random() < 0.3:
            ops.append("frame -1")
        ops.append("frame 0")
        if extras and rng.random() < 0.5:
            ops.append("frame %d" % rng.choice([1, 31, 64, 4096]))
        if trigger and ok and rng.random() < 0.6:
            # re-configuration of a started camera whose streamer is parked waiting for a software trigger: the next frame
            # must be rendered with the new geometry into the new buffers
            b2, t2 = rng.choice([1, 2, 4, 8]), rng.choice([0, 1, 2, 4, 5])
            w2, h2 = rng.choice([(1, 1), (3, 5), (16, 16), (33, 7), (max(1, w // 4), max(1, h // 4)), (min(512, w * 2), min(512, h * 2))])
            if cost(b2, t2, w2, h2, kind) <= budget:
                ops.append(set_line(rng, b2, t2, w2, h2, trigger=1, wild=False))
                ops.append("frame 0")
        if extras and rng.random() < 0.15:
            ops.append(set_line(rng, 2, 0, 4, 4))  # set while the streamer may be rendering: outside the quantifier, skipped identically
        ops.append("stop")
        if extras and rng.random() < 0.3:
            ops.append("frame 0")
        if extras and rng.random() < 0.25:
            ops.append(set_line(rng, rng.choice([3, 5, 6, 7, 12, 255]), t, w, h))
        if extras and rng.random() < 0.25:
            ops.append(set_line(rng, b, rng.choice([8, 9, 10, 1000]), w, h))
        if extras and rng.random() < 0.2:
            ops.append(set_line(rng, b, t, w, h, exposure=rng.choice(ODD_EXPOSURES)))
            ops.append(set_line(rng, b, t, w, h))
        if extras and rng.random() < 0.2:
            ops += ["start", "frame 0", "stop"]  # restart without re-configuration
    return ops


def systematic_cases(rng, thorough):
    """kind x binning x sample type x shapes, two or three configurations per chain."""
    cases = []
    types = list(range(8))
    bins = [1, 2, 4, 8]
    smalls = [1, 2, 3, 5, 8, 17, 33]
    budget = (1 << 24) if thorough else (1 << 21)
    k = 0
    reps = 3 if thorough else 1
    for rep in range(reps):
        for kind in (0, 1, 2):
            for b in bins:
                for t in types:
                    big = SHAPES[k % len(SHAPES)]
                    small = smalls[(k // 3) % len(smalls)]
                    w, h = (big, small) if k % 2 == 0 else (small, big)
                    if thorough and rep == 2:
                        w, h = SHAPES[k % len(SHAPES)], SHAPES[(k * 7 + 3) % len(SHAPES)]
                    b2 = bins[(k + 1 + k // 4) % 4]
                    t2 = types[(k * 3 + 1) % 8]
                    w2, h2 = SHAPES[(k * 5 + 2) % len(SHAPES)], smalls[(k + 2) % len(smalls)]
                    cfgs = [(b, t, w, h), (b2, t2, w2, h2)]
                    if k % 5 == 0:
                        cfgs.append((rng.choice([0, 16, 32, 64, 128]), t, rng.choice([1, 40, 64, 65, 600, 2 ** 32 - 1]), rng.choice([0, 2, 63, 64, 9000])))
                    cases.append((kind, chain(rng, kind, cfgs, budget)))
                    k += 1
    return cases


def random_cases(rng, n, thorough):
    cases = []
    budget = (1 << 23) if thorough else (1 << 20)
    for _ in range(n):
        kind = rng.choice([0, 0, 1, 2, 2, 3])
        cfgs = []
        for _ in range(rng.randrange(1, 5)):
            b = rng.choice([1, 2, 4, 8, 1, 2, 4, 8, 0, 16, 32, 64, 128, 3, 6])
            t = rng.choice([0, 1, 2, 3, 4, 5, 6, 7, 0, 1, 4, 8, 9])
            dim = lambda: rng.choice([rng.choice(SHAPES), rng.randrange(1, 130), rng.randrange(1, 9000), 0, 2 ** 32 - 1, rng.getrandbits(32)])
            w, h = dim(), dim()
            if rng.random() < 0.7:  # keep most of them cheap: one small axis
                if rng.random() < 0.5:
                    w = rng.randrange(1, 40)
                else:
                    h = rng.randrange(1, 40)
            cfgs.append((b, t, w, h))
        cases.append((kind, chain(rng, kind, cfgs, budget)))
    return cases


def small_cases(rng, n):
    """tiny images (a few bytes to a few kB) for the max_redzone=16 runs"""
    cases = []
    for i in range(n):
        kind = i % 3
        cfgs = []
        for _ in range(2):
            b = rng.choice([2, 4, 8, 2, 4, 16])
            cfgs.append((b, rng.randrange(8), rng.choice([1, 2, 3, 4, 5, 8, 9, 16, 17, 33]), rng.choice([1, 2, 3, 4, 7, 8, 12])))
        cases.append((kind, chain(rng, kind, cfgs, 1 << 20, extras=False)))
    return cases


def rebin_cases():
    """re-configurations that keep the reported shape and change only the binning (or only the sample type): the buffers hold the
    full-resolution image, so they must follow"""
    z = " ".join(["0"] * 24)
    cases = []
    for kind in (0, 1, 2):
        for (w, h) in ((64, 64), (33, 7), (17, 1)):
            for (b1, b2) in ((1, 2), (1, 8), (2, 4), (4, 1), (8, 2)):
                for (t1, t2) in ((0, 0), (1, 1), (0, 1)):
                    s1 = "set %d 0 0 %d %d 0 0 %d %d %s" % (fbits(1.0), b1, t1, w, h, z)
                    s2 = "set %d 0 0 %d %d 0 0 %d %d %s" % (fbits(1.0), b2, t2, w, h, z)
                    cases.append((kind, ["new %d" % kind, s1, "start", "frame 0", "stop", s2, "start", "frame 0", "stop"]))
                    cases.append((kind, ["new %d" % kind, s1, s2, "start", "frame 0", "frame 0", "stop"]))
    return cases


def big_cases():
    """the big shapes, once per sample type (thorough tier only): full resolution 8192 x 8192"""
    cases = []
    rng = None
    for t in range(8):
        kind = [0, 2, 0, 2, 0, 2, 0, 2][t]
        b = [1, 8, 2, 4, 1, 8, 2, 4][t]
        line = "set %d 0 0 %d %d 0 0 8192 8192 %s" % (fbits(1.0), b, t, " ".join(["0"] * 24))
        cases.append((kind, ["new %d" % kind, line, "start", "frame 0", "stop"]))
    # the Sin camera at full size once (u8), and at 4096 x 4096 f32
    z = " ".join(["0"] * 24)
    cases.append((1, ["new 1", "set %d 0 0 2 0 0 0 8192 8192 %s" % (fbits(1.0), z), "start", "frame 0", "stop"]))
    cases.append((1, ["new 1", "set %d 0 0 4 4 0 0 1024 1024 %s" % (fbits(1.0), z), "start", "frame 0", "stop"]))
    return cases


# ------------------------------------------------------------------ running
def split_impl(lines):
    ops, oracles = [], {}
    for ln in lines:
        if ln.startswith("ORACLE "):
            oracles.setdefault(len(ops) - 1, []).append(ln)
        elif ln != "":
            ops.append(ln)
    return ops, oracles


def run_cases(exe, drv, variant, cases, stats, asan_extra=None, no_alloc=False, timeout=600):
    """Run cases (kind, ops) through harness and model.  Returns a list of problems
    (case_index, kind, detail); a sanitizer abort ends the process, the remaining cases are run
    in a fresh one."""
    problems = []
    start = 0
    while start < len(cases):
        text, starts = ["variant %s" % variant], []
        for _, ops in cases[start:]:
            starts.append(len(text))
            text.extend(ops)
        script = "\n".join(text) + "\n"
        # no legitimate buffer of the simulated camera exceeds 8192*8192*2 bytes: refuse larger requests instead of letting a wrong
        # clamp take the machine down (realloc then returns NULL and simcam_set reports the failure -> a difference with the model)
        env = {"ASAN_OPTIONS": C.SAN_ENV["ASAN_OPTIONS"] + ":max_allocation_size_mb=1024:quarantine_size_mb=64"}
        if asan_extra:
            env["ASAN_OPTIONS"] += ":" + asan_extra
        rc_i, impl, err_i = C.run_lines(exe, script, timeout=timeout, env=env, args=(["--no-alloc"] if no_alloc else []))
        rc_m, model, err_m = C.run_lines(drv, script, timeout=timeout)
        impl_ops, oracle_at = split_impl(impl)
        model_ops, labels = [], []
        for ln in model:
            if ln == "":
                continue
            m = LABEL.search(ln)
            labels.append(m.group(1) if m else "")
            model_ops.append(LABEL.sub("", ln))
        if no_alloc:
            impl_ops = [ALLOC.sub("", x) for x in impl_ops]
            model_ops = [ALLOC.sub("", x) for x in model_ops]

        def case_of(line_no):
            ci = 0
            for j, s in enumerate(starts):
                if s <= line_no:
                    ci = j
            return ci

        if rc_m != 0:
            problems.append((start, "model-crash", err_m[-500:]))
        crashed_case = None
        if rc_i != 0:
            crashed_case = case_of(len(impl_ops))  # the op that produced no (complete) line
            if impl_ops and "|" not in impl_ops[-1] and not impl_ops[-1].startswith(("variant", "tight", "bad-op")):
                crashed_case = case_of(len(impl_ops) - 1)
                impl_ops = impl_ops[:-1]
            problems.append((start + crashed_case, "crash", {"rc": rc_i, "stderr": sanitize_report(err_i), "timeout": rc_i == -9}))
        upto = len(impl_ops) if rc_i != 0 else max(len(impl_ops), len(model_ops))
        d = C.first_diff(impl_ops[:upto], model_ops[:upto])
        if d is not None:
            ci = case_of(d)
            problems.append((start + ci, "diff", {"line": d - starts[ci], "impl": impl_ops[d] if d < len(impl_ops) else "<eof>",
                                                  "model": model_ops[d] if d < len(model_ops) else "<eof>"}))
        seen = set()
        for ln_no, msgs in oracle_at.items():
            ci = case_of(max(ln_no, 0))
            for msg in msgs:
                kind = msg.split()[1]
                if (ci, kind) in seen:
                    continue
                seen.add((ci, kind))
                problems.append((start + ci, "oracle", {"line": ln_no - starts[ci], "msg": msg}))
        # coverage
        ncases = len(cases) - start if crashed_case is None else crashed_case + 1
        for ci in range(ncases):
            lo = starts[ci]
            hi = starts[ci + 1] if ci + 1 < len(starts) else len(labels)
            ls = [l for l in labels[lo:hi] if l]
            for l in ls:
                stats["branches"][l] = stats["branches"].get(l, 0) + 1
            key = frozenset(ls)
            if any(interesting(l) for l in key):
                stats["distinct"].add(C.sha(variant + "|" + " ".join(sorted(key))))
            stats["evaluations"] += 1
            stats["ops"] += hi - lo
            if crashed_case is None or ci < crashed_case:
                if d is None or case_of(d) > ci:
                    stats["validated"] += 1
        if crashed_case is None:
            break
        start += crashed_case + 1
    return problems


def interesting(label):
    """branches the property is about: a rendered+copied frame with a binning cascade, clamping,
    re-sizing of the buffers, rejection"""
    if label.startswith("frame.ok") and ".p0." not in label:
        return True
    if label.startswith("set.ok") and (".xhi" in label or ".xlo" in label or ".yhi" in label or ".ylo" in label or ".resize" in label):
        return True
    return label.startswith(("set.bad", "frame.short"))


def sanitize_report(err):
    """the first sanitizer report, addresses and pids removed"""
    lines = [l for l in err.split("\n") if l.strip()]
    keep = []
    for l in lines:
        if "ERROR: AddressSanitizer" in l or "runtime error" in l or "SUMMARY" in l or re.match(r"\s+#[0-3] ", l) or "TIMEOUT" in l or "is located" in l:
            keep.append(re.sub(r"0x[0-9a-f]+", "0x..", re.sub(r"==\d+==", "", l)).strip())
        if len(keep) >= 9:
            break
    return keep or lines[-5:]


def crash_signature(rep):
    """harness + kind of report + function on top of the stack"""
    text = " ".join(rep["stderr"]) if isinstance(rep.get("stderr"), list) else str(rep)
    if rep.get("timeout"):
        return "timeout"
    kind = "crash"
    m = re.search(r"AddressSanitizer: (attempting double-free|[a-zA-Z\-]+)", text)
    if m:
        kind = m.group(1).replace("attempting ", "")
    elif "misaligned address" in text:
        kind = "misaligned-access"
    elif "runtime error" in text:
        kind = "ubsan"
    fn = re.search(r"#0 0x\.\. in (\S+)", text)
    fn2 = re.search(r"#1 0x\.\. in (\S+)", text)
    where = fn.group(1) if fn else ""
    if where.startswith("__interceptor") and fn2:
        where = fn2.group(1)
    if not where:
        m = re.search(r"([\w\.]+\.(?:c|cpp)):\d+", text)
        where = m.group(1) if m else "?"
    where = re.sub(r"<.*", "", where)  # template arguments (may contain blanks) are not part of the call site
    return "%s:%s" % (kind, where)


def single(exe, drv, variant, kind_ops, asan_extra, no_alloc):
    stats = {"branches": {}, "distinct": set(), "evaluations": 0, "ops": 0, "validated": 0}
    return run_cases(exe, drv, variant, [kind_ops], stats, asan_extra=asan_extra, no_alloc=no_alloc, timeout=120)


def minimise(exe, drv, variant, case, pred, asan_extra, no_alloc):
    kind, ops = case
    head, body = ops[0], ops[1:]

    def fails(xs):
        return any(pred(p) for p in single(exe, drv, variant, (kind, [head] + xs), asan_extra, no_alloc))

    small = C.ddmin(body, fails, max_runs=30)
    return [head] + small


def report(ctx, exe, drv, variant, cases, problems, asan_extra=None, no_alloc=False):
    for ci, kind, det in problems:
        case = cases[ci]
        if kind == "crash":
            sig = "h_simcam_shape:%s" % crash_signature(det)
            if any(v["signature"] == sig for v in ctx.violations):
                ctx.violation("crash", sig, "", None)
                continue
            ops = minimise(exe, drv, variant, case, lambda p: p[1] == "crash" and "h_simcam_shape:%s" % crash_signature(p[2]) == sig, asan_extra, no_alloc)
            ctx.violation("crash", sig,
                          "real simulated camera (%s build%s): %s on `%s`" % (variant, ", " + asan_extra if asan_extra else "", "; ".join(det["stderr"][:3]), "; ".join(short(o) for o in ops)),
                          {"harness": "h_simcam_shape", "variant": variant, "asan_extra": asan_extra, "no_alloc": no_alloc,
                           "script": ["variant %s" % variant] + ops, "report": det["stderr"]})
        elif kind == "oracle":
            ok = det["msg"].split()[1]
            sig = "h_simcam_shape:oracle:%s" % ok
            if any(v["signature"] == sig for v in ctx.violations):
                ctx.violation("oracle", sig, "", None)
                continue
            ops = minimise(exe, drv, variant, case, lambda p: p[1] == "oracle" and p[2]["msg"].split()[1] == ok, asan_extra, no_alloc)
            ctx.violation("oracle", sig, "real simulated camera (%s build) violates the property: %s on `%s`" % (variant, det["msg"], "; ".join(short(o) for o in ops)),
                          {"harness": "h_simcam_shape", "variant": variant, "asan_extra": asan_extra, "no_alloc": no_alloc,
                           "script": ["variant %s" % variant] + ops, "oracle": det["msg"]})
        elif kind == "diff":
            if len(ctx.corr_broken) < 3:
                ops = minimise(exe, drv, variant, case, lambda p: p[1] == "diff", asan_extra, no_alloc)
                again = [p for p in single(exe, drv, variant, (case[0], ops), asan_extra, no_alloc) if p[1] == "diff"]
                ctx.corr_broken.append({"what": "simulated.camera.c (%s build) and the Lean model disagree" % variant,
                                        "script": ["variant %s" % variant] + ops, "at": again[0][2] if again else det})
            else:
                ctx.corr_broken.append({"what": "model/implementation disagreement (%s)" % variant, "at": det})
        else:
            ctx.corr_broken.append({"what": kind, "detail": det})


def short(op):
    t = op.split()
    if t and t[0] == "set" and len(t) > 10:
        return "set exposure=%s binning=%s type=%s offset=%s,%s shape=%sx%s trigger=%s" % (t[1], t[4], t[5], t[6], t[7], t[8], t[9], t[14])
    return op


# ------------------------------------------------------------------ tight-buffer validation
def tight_pairs(rng, thorough):
    ws = [0, 1, 2, 3, 4, 5, 7, 8, 16, 31, 32, 33, 63, 64, 65, 95, 96, 97, 128, 130, 1000, 1023, 1024, 4096, 8192]
    hs = [0, 1, 2, 3, 4, 5, 6, 7, 8, 9, 16, 17, 33, 64]
    pairs = [(w, h) for w in ws for h in hs if w * h <= (1 << 20)]
    # dimensions the binning cascade really passes (even at every level)
    pairs += [(2 * a, 2 * b) for a in (1, 3, 17, 33, 100, 1023) for b in (1, 2, 5)]
    if not thorough:
        must = [(64, 64), (33, 2), (31, 3), (1, 1), (3, 1), (2, 2), (96, 4), (1000, 6), (0, 4), (5, 0), (8192, 8)]
        pairs = must + rng.sample(pairs, 70)
    else:
        pairs += [(rng.randrange(0, 300), rng.randrange(0, 40)) for _ in range(300)]
    return sorted(set(pairs))


def tight(ctx, exe, drv, variant, stats, thorough):
    rng = ctx.rng
    pairs = tight_pairs(rng, thorough)
    fills = []
    for t in range(8):
        for (w, h) in ([(1, 1), (3, 5), (32, 1), (33, 7)] + ([(rng.randrange(1, 200), rng.randrange(1, 30)) for _ in range(6)] if thorough else [(rng.randrange(1, 200), rng.randrange(1, 30))])):
            fills.append((0, t, w, h))
            fills.append((1, t, w, h))
    q = ["variant %s" % variant] + ["bin2 %d %d" % p for p in pairs] + ["fill %d %d %d %d" % f for f in fills]
    rc, out, err = C.run_lines(drv, "\n".join(q) + "\n", timeout=120)
    pred = {}
    for ln in out:
        m = re.match(r"(bin2 \d+ \d+|fill \d+ \d+ \d+ \d+) extent=(\d+) align=(\d+)", ln)
        if m:
            pred[m.group(1)] = (int(m.group(2)), int(m.group(3)))
    if rc != 0 or len(pred) != len(pairs) + len(fills):
        ctx.corr_broken.append({"what": "model driver failed on extent queries", "stderr": err[-500:]})
        return
    script, expect = ["variant %s" % variant], []
    for key, (e, a) in pred.items():
        offs = [0, 16, a] if key.startswith("bin2") else [0, 16 if 16 % a == 0 else a, a]
        for off in sorted(set(offs)):
            script.append("tight %s %d %d" % (key, e, off))
            expect.append((key, e, off, "clean"))
        if e > 0:
            # (offset 64 keeps the base 64-aligned and makes a 0-byte region a real, non-empty block)
            script.append("tight %s %d %d" % (key, e - 1, 64))
            expect.append((key, e - 1, 64, "asan"))
    rc, out, err = C.run_lines(exe, "\n".join(script) + "\n", timeout=900)
    got = [l for l in out if l.startswith("tight ")]
    if rc != 0 or len(got) != len(expect):
        ctx.corr_broken.append({"what": "tight-buffer run of h_simcam_shape (%s) failed" % variant, "rc": rc, "lines": len(got), "expected": len(expect), "stderr": err[-800:]})
        return
    for ln, (key, size, off, want) in zip(got, expect):
        verdict = ln.split("-> ")[1].strip()
        if want == "asan" and verdict.startswith("asan:"):
            verdict = "asan"  # any ASan report (a partially out-of-bounds 32-byte access is classed `unknown-crash`)
        stats["tight"][want + ("" if verdict == want else "!")] = stats["tight"].get(want + ("" if verdict == want else "!"), 0) + 1
        stats["evaluations"] += 1
        if verdict == want:
            stats["validated"] += 1
            continue
        what = {"what": "tight run", "variant": variant, "call": key, "buffer_bytes": size, "base_offset_from_64_aligned": off,
                "expected": want, "observed": verdict}
        if want == "clean" and off % 16 == 0 and verdict in ("ubsan:misaligned", "signal:11"):
            # a malloc-aligned buffer of sufficient size is exactly what the camera passes: genuine failure
            ctx.violation("crash", "h_simcam_shape:tight:%s:%s" % (key.split()[0], verdict),
                          "real %s (%s build) faults on a sufficiently large buffer whose base is %d mod 32 (what realloc guarantees is 16): %s" % (key.split()[0], variant, off % 32, ln),
                          {"harness": "h_simcam_shape", "variant": variant, "script": ["variant %s" % variant, "tight %s %d %d" % (key, size, off)], "observed": verdict})
        else:
            ctx.corr_broken.append(dict(what, what="extent/alignment predicted by the model is not exact for the real code"))


# ------------------------------------------------------------------ entry points
def corpus_cases():
    cases = []
    for f in C.corpus_files("C17"):
        lines = [l.strip() for l in open(f) if l.strip() and not l.startswith("#")]
        cur = None
        for l in lines:
            if l.startswith("variant"):
                continue
            if l.startswith("new "):
                cur = (int(l.split()[1]), [l])
                cases.append(cur)
            elif cur:
                cur[1].append(l)
    return cases


def threads_part(ctx, thorough):
    """memory safety while the streamer thread is alive: the real camera on the deterministic scheduler (C18's harness, ASan), kinds that
    really render (random, sin; empty with binning 2), the streamer parked at every one of its synchronisation points while the caller
    stops, restarts, re-arms the trigger — or closes the camera without stopping it first (the driver's close stops the streamer itself;
    acquire_configure reaches it when a live stream is given another camera).  Oracle: sanitizer reports and scheduler verdicts only
    (the frame protocol is C18's subject)."""
    from . import c18
    keep = dict(ctx.cov)
    exe, drv = c18.build(ctx)
    ctx.cov.clear(); ctx.cov.update(keep)
    if not exe:
        return
    rng = ctx.rng
    scripts = ["start,close", "start,get,close", "on,start,trig,close", "on,start,close", "start,stop,start,close", "start,get,get,stop,close",
               "on,start,trig,get,off,close", "close", "start,stop,close", "start,get,stop,start,get,close",
               "start,getsmall,close", "start,get,getsmall,off,start,get,stop,close", "on,start,trig,getsmall,on,start,stop,close"]
    cases, meta = [], []
    n = 0
    for a in scripts:
        for kind, binning in (("random", 1), ("sin", 1), ("empty", 2), ("random", 2)):
            nsched = 24 if thorough else 6
            for k in range(nsched):
                # schedule prefixes: k = 0 fair; otherwise random choices among caller (0) and streamers (1, 2, ..); entries naming a thread
                # that is not enabled fall back to the fair policy
                sched = [] if k == 0 else [rng.choice([0, 0, 1, 1, 1, 2]) for _ in range(rng.choice([6, 12, 24, 40]))]
                cid = "t%d" % n; n += 1
                cases.append("case %s A=%s B=- sched=%s policy=fair dfs=0 kind=%s bin=%d limit=6000" % (cid, a, ",".join(map(str, sched)) if sched else "-", kind, binning))
                meta.append((a, kind, binning))
    runs = c18.run_impl(exe, cases, timeout=300)
    bad = 0
    closes = 0
    for line, r in zip(cases, runs):
        closes += sum(1 for l in r.lines if l.startswith("r A close ok"))
        if r.terminal and not r.terminal.startswith(("DEADLOCK", "deadlock")) or (r.terminal and "CRASH" in r.terminal):
            pass
        for o in r.oracle:
            if "streamer-alive" in o:
                bad += 1
                ctx.violation("oracle", "h_simcam_conc:streamer-alive-after-stop", "real simulated camera behind the HAL: %s  [%s]" % (o, line),
                              {"harness": "h_simcam_conc", "case": line, "schedule": r.schedule})
        if r.terminal and ("CRASH" in r.terminal or "MISUSE" in r.terminal.upper() or "STEP" in r.terminal.upper() or "HANG" in r.terminal.upper() or "DEADLOCK" in r.terminal.upper()):
            bad += 1
            m = re.search(r"ERROR: \w+Sanitizer[^\n]*(?:\n\s+#\d[^\n]*){0,4}", r.terminal)
            what = m.group(0).replace("\n", " | ") if m else r.terminal
            kindsig = "crash" if "CRASH" in r.terminal else r.terminal.split()[0].lower()
            ctx.violation("crash", "h_simcam_conc:close-or-stop-under-threads:%s" % kindsig,
                          "real simulated camera with a live streamer thread: %s  [%s]" % (str(what)[:600], line),
                          {"harness": "h_simcam_conc", "case": line, "schedule": r.schedule})
    ctx.cov["threads_part"] = {"cases": len(cases), "closes_returned": closes, "bad": bad,
                               "rule": "scripts %s x kinds random/sin/empty+bin2/random+bin2 x schedule prefixes (fair + random); oracle = ASan/UBSan report, DEADLOCK/HANG/STEP-LIMIT/MISUSE of the scheduler" % scripts}


def run(ctx):
    thorough = ctx.tier == "thorough"
    regenerate(ctx)
    ctx.prove(MODULE, THEOREMS, extra_targets=DRIVERS)
    drv = C.driver_path("acq_simcam")
    if not os.path.exists(drv):
        ctx.corr_broken.append({"what": "model driver acq_simcam does not build"})
        return
    exes = build_harnesses(ctx)
    stats = {"branches": {}, "distinct": set(), "evaluations": 0, "ops": 0, "validated": 0, "tight": {}}
    rng = ctx.rng
    variants = [v for v, _ in VARIANTS if v in exes and (v != "avx2" or have_avx2())]
    if "avx2" not in variants:
        ctx.notes.append("AVX2 variant not run (CPU without AVX2 or build failure)")
    samples = []
    ncam = 0
    for v in variants:
        exe = exes[v]
        corpus = corpus_cases()
        sysc = systematic_cases(rng, thorough)
        rnd = random_cases(rng, 250 if thorough else 30, thorough)
        groups = [("corpus", corpus, None, False), ("rebin", rebin_cases(), None, False), ("sweep", sysc, None, False), ("random", rnd, None, False),
                  ("small-redzone", corpus + small_cases(rng, 60 if thorough else 18), "max_redzone=16", True)]
        if thorough:
            groups.append(("big", big_cases(), None, False))
        for name, cases, asan_extra, no_alloc in groups:
            if not cases:
                continue
            chunk = 1 if name == "big" else 40
            for i in range(0, len(cases), chunk):
                part = cases[i:i + chunk]
                problems = run_cases(exe, drv, v, part, stats, asan_extra=asan_extra, no_alloc=no_alloc, timeout=900 if thorough else 240)
                report(ctx, exe, drv, v, part, problems, asan_extra, no_alloc)
                ncam += len(part)
                if len(ctx.violations) + len(ctx.corr_broken) > (6 if thorough else 1):
                    break
            if not samples and name == "sweep":
                samples = [{"variant": v, "kind": cases[0][0], "ops": [short(o) for o in cases[0][1][:12]]}]
        tight(ctx, exe, drv, v, stats, thorough)
    ctx.cov["evaluations"] = stats["evaluations"]
    ctx.cov["distinct_nontrivial"] = len(stats["distinct"])
    ctx.cov["traces_validated_against_impl"] = stats["validated"]
    ctx.cov["rule"] = ("cases = (a) set/start/get_frame/stop/set chains through the Camera vtable of the real simulated camera, for each build "
                       "variant in %s: kind {Random,Sin,Empty,other} x binning {1,2,4,8 (+0,16..128, non powers of two)} x 8 sample types (+ unknown) x "
                       "shapes %s (+0, 2^32-1, random) x offsets x exposures, 2-4 configurations per chain, re-run on tiny images with "
                       "ASAN_OPTIONS=max_redzone=16 (16-but-not-32-byte aligned blocks)%s; every result line (get/get_shape/get_meta values, allocated size "
                       "of both buffers, bytes stored into the exact-size caller buffer) is compared with the model; (b) tight-buffer calls of "
                       "bin2 / im_fill_rand / im_fill_pattern on blocks of exactly the predicted extent (clean expected, also at base offsets 16 and `align`) "
                       "and one byte less (ASan report expected). A camera case is non-trivial if it delivers a frame through a binning cascade, or clamps, "
                       "re-sizes or rejects; distinct = distinct (variant, set of model branch labels)." % (variants, SHAPES, "; 8192x8192 full resolution once per sample type" if thorough else ""))
    threads_part(ctx, thorough)
    ctx.cov["exhaustive"] = False
    ctx.cov["model_branch_hits"] = dict(sorted(stats["branches"].items()))
    ctx.cov["tight_buffer_runs"] = stats["tight"]
    ctx.cov["camera_cases"] = ncam
    ctx.cov["operations_compared"] = stats["ops"]
    ctx.cov["variants"] = variants
    ctx.cov["samples"] = samples
    ctx.assumptions += [
        "pixel values are not modelled (AVX2 lane semantics, PRNG, sinf): only which bytes each renderer touches; the extent formulas are validated as exact against the real functions on tight heap buffers in this run",
        "realloc succeeds and returns blocks aligned to _Alignof(max_align_t) (=16); allocation failure paths of simcam_set are not modelled",
        "one streamer iteration and one camera call are atomic w.r.t. each other (a set while the streamer runs races with it in the real code; such histories are outside the quantifier and are skipped identically by harness and model); the thread protocol is C18's subject",
        "start before the first successful set is outside the quantifier (the buffers are NULL)",
        "uint32/size_t wrap-around is not modelled; the theorems show full-resolution dimensions never exceed 8192 so none occurs",
        "floats (exposure, line interval) are carried as bit patterns; simcam_get_meta's float arithmetic is on integers below 2^24 and therefore exact",
    ]


def replay(ctx, path):
    obj = json.load(open(path))
    rp = obj.get("replay") or {}
    if rp.get("harness") == "h_simcam_conc":
        from . import c18
        exe, drv = c18.build(ctx)
        if not exe:
            print("harness does not build"); return 1
        runs = c18.run_impl(exe, [rp["case"]], timeout=120)
        for r in runs:
            print(r.terminal or "ended normally")
            if r.terminal:
                print("VIOLATION property=C17 replay=%s" % path)
                return 1
        print("not reproduced on the current tree")
        return 0
    if not rp.get("script"):
        print("replay file has no script (proof/correspondence-only finding)")
        return 1
    variant = rp.get("variant", "avx2")
    exes = build_harnesses(ctx)
    if variant not in exes:
        print("harness does not build")
        return 1
    env = {}
    if rp.get("asan_extra"):
        env["ASAN_OPTIONS"] = C.SAN_ENV["ASAN_OPTIONS"] + ":" + rp["asan_extra"]
    rc, out, err = C.run_lines(exes[variant], "\n".join(rp["script"]) + "\n", timeout=300, env=env,
                               args=(["--no-alloc"] if rp.get("no_alloc") else []))
    oracles = [l for l in out if l.startswith("ORACLE ")]
    bad_tight = [l for l in out if l.startswith("tight ") and not l.endswith("-> clean")]
    for l in out[-6:]:
        print(l)
    if rc != 0:
        print("\n".join(sanitize_report(err)))
    failing = rc != 0 or bool(oracles) or bool(bad_tight)
    print("VIOLATION property=C17 replay=%s (reproduced)" % path if failing else "replay passes on this tree")
    return 1 if failing else 0
