"""C13 — StorageProperties copies are deep, complete and independent.

Real code: acquire-core-libs/src/acquire-device-properties/device/props/storage.c, compiled through
harness/props/wrap_storage.c (its malloc/realloc/free routed to a logging allocator) together with
harness/props/h_props.c (ASan+UBSan).  Model: lean exe `acq_props` (lean/AcqVerif/SProps/Model.lean).
Theorems: lean/AcqVerif/Props/C13.lean.

A case is an operation script over a pool of 3 objects, bracketed by `new` … `end`.
"""
import os, re
from . import common as C

MODULE = "AcqVerif.Props.C13"
DRIVERS = ["acq_props"]
THEOREMS = [
    "AcqVerif.C13.C13_copy_equal",
    "AcqVerif.C13.C13_independent",
    "AcqVerif.C13.C13_no_uaf_no_double_free_no_leak",
    "AcqVerif.C13.C13_terminated",
]

HARNESS = "h_props"
HARNESS_SRC = [os.path.join(C.VERIF, "harness/props/h_props.c"), os.path.join(C.VERIF, "harness/props/wrap_storage.c")]
# strlen must stay a call: gcc folds `strlen(p) > 0` into `*p`, which hides an over-read that
# unoptimised builds of the repository really perform
HARNESS_FLAGS = ["-fno-builtin-strlen"]
GENERATED = os.path.join(C.LEAN, "AcqVerif", "Generated", "SPropsConst.lean")
EXTRACTOR = os.path.join(C.VERIF, "extract", "sprops_const.c")
PROPS_INC = "acquire-core-libs/src/acquire-device-properties"

# model branches the theorems case-split on (a case is non-trivial if it takes at least one)
INTERESTING = ("cs.realloc", "cs.shrink", "cs.dst-ref", "cs.src-empty", "cs.unterminated", "cs.src-heap",
               "cp.dst-had-dims", "cp.src-has-dims", "cp.named-dims", "dim.replace-name", "ds.dims", "ds.ref-kept",
               "ddestroy.ok", "dinit.already")
LABEL = re.compile(r" ~(\S+)$")


# ---------------------------------------------------------------- step 1: constants extracted from the source
def regenerate(ctx):
    os.makedirs(C.BUILD, exist_ok=True)
    exe = os.path.join(C.BUILD, "sprops_const")
    rc, out, err = C.sh(["gcc", "-std=gnu11", "-I" + os.path.join(C.REPO, PROPS_INC), EXTRACTOR, "-o", exe], timeout=120)
    if rc != 0:
        ctx.corr_broken.append({"what": "constant extractor does not compile against props/storage.h", "log": (out + err)[-2000:]})
        return False
    rc, out, err = C.sh([exe], timeout=20)
    if rc != 0 or "sizeofStorageDimension" not in out:
        ctx.corr_broken.append({"what": "constant extractor failed", "log": (out + err)[-2000:]})
        return False
    old = open(GENERATED, encoding="utf-8").read() if os.path.exists(GENERATED) else ""
    if old != out:
        with open(GENERATED, "w", encoding="utf-8") as f:
            f.write(out)
        ctx.notes.append("Generated/SPropsConst.lean changed: " + " ".join(re.findall(r":= (\d+)", out)))
    return True


def build(ctx):
    exe, log = C.compile_harness(HARNESS, HARNESS_SRC, extra_flags=HARNESS_FLAGS)
    if not exe:
        ctx.corr_broken.append({"what": "harness h_props does not compile against /repo", "log": log[-3000:]})
        return None, None
    drv = C.driver_path("acq_props")
    if not os.path.exists(drv):
        ok, log, failed = C.lake_build(["acq_props"])
        if not ok:
            ctx.corr_broken.append({"what": "model driver acq_props does not build", "log": log[-2000:]})
            return None, None
    return exe, drv


# ---------------------------------------------------------------- generators
def hx(bs):
    return "x" + "".join("%02x" % b for b in bs)


STRINGS = ["-", "N3", "x", "x00", hx(b"a\0"), hx(b"a"), hx(b"ab\0"), hx(b"abc"), hx(b"a\0b\0"), hx(b"\0ab\0"),
           hx(b"out.zarr\0"), hx(b"{\"k\":1}\0"), hx(b"0123456789abcdef0123456789abcdef0123456789\0"), hx(bytes(range(1, 70)))]
NAMES = [hx(b"x\0"), hx(b"y\0"), hx(b"yy"), hx(b"t\0"), hx(b"channel\0"), hx(b"z"), hx(b"ab\0cd"),
         "-", "x", "x00", "N2", hx(b"\0x\0")]
REFS = [hx(b"ref\0"), hx(b"\0"), hx(b"a-longer-borrowed-string\0"), hx(b"nt"), "-", "x"]


def gen_random(rng, nops):
    ops = []
    st = lambda: rng.choice(STRINGS)
    for _ in range(nops):
        r = rng.random()
        o = rng.randrange(3)
        if r < 0.12:
            ops.append("init %d %d %s %s %d %d %d" % (o, rng.choice([0, 1, 7, 4294967295]), st(), st(), rng.randrange(4), rng.randrange(4),
                                                       rng.choice([0, 0, 1, 2, 3, 3, 5])))
        elif r < 0.22:
            ops.append("uri %d %s" % (o, st()))
        elif r < 0.29:
            ops.append("meta %d %s" % (o, st()))
        elif r < 0.36:
            ops.append("keys %d %s %s" % (o, st(), st()))
        elif r < 0.58:
            ops.append("dim %d %d %s %d %d %d %d" % (o, rng.choice([0, 0, 0, 1, 1, 2, 3, 4, 5, -1]), rng.choice(NAMES[:7]) if rng.random() < 0.8 else rng.choice(NAMES),
                                                      rng.choice([0, 1, 2, 3, 3, 4, 9]), rng.randrange(1, 2000), rng.randrange(1, 100), rng.randrange(0, 4)))
        elif r < 0.62:
            ops.append("ms %d %d" % (o, rng.randrange(2)))
        elif r < 0.84:
            s = rng.randrange(3)
            ops.append("copy %d %d" % (o, s if rng.random() < 0.03 else (o + 1 + rng.randrange(2)) % 3))
        elif r < 0.92:
            ops.append("destroy %d" % o)
        elif r < 0.95:
            ops.append("ref %d %d %s" % (o, rng.randrange(4), rng.choice(REFS[:3]) if rng.random() < 0.85 else rng.choice(REFS)))
        elif r < 0.98:
            ops.append("dinit %d %d" % (o, rng.choice([0, 1, 2, 4])))
        else:
            ops.append("ddestroy %d" % o)
    return ops


ALPHA_QUICK = [
    "init 0 1 %s - 1 2 1" % hx(b"a\0"),
    "init 1 2 - %s 3 4 0" % hx(b"{}\0"),
    "uri 0 %s" % hx(b"abc"),
    "uri 1 x",
    "keys 1 %s -" % hx(b"k\0"),
    "dinit 1 2",
    "dim 0 0 %s 0 1 1 1" % hx(b"x\0"),
    "dim 0 0 %s 1 2 2 2" % hx(b"yy"),
    "dim 1 1 %s 2 3 3 3" % hx(b"z\0"),
    "copy 0 1",
    "copy 1 0",
    "destroy 0",
    "destroy 1",
    "ref 1 0 %s" % hx(b"r\0"),
]
ALPHA_DEEP = [
    "init 0 1 %s - 1 2 1" % hx(b"a\0"),
    "dinit 1 2",
    "dim 0 0 %s 0 1 1 1" % hx(b"x\0"),
    "dim 1 1 %s 2 3 3 3" % hx(b"zz"),
    "uri 1 %s" % hx(b"abc"),
    "copy 0 1",
    "copy 1 0",
    "destroy 0",
    "destroy 1",
]


def gen_exhaustive(alphabet, depth):
    """every sequence over `alphabet` of length 1..depth, except those that call `init` on an object that
    certainly holds memory (ill-formed: such an operation is skipped, the script equals a shorter one)."""
    def holds_after(op, holds):
        t = op.split()
        h = dict(holds)
        if t[0] in ("init", "uri", "keys", "meta", "dinit", "copy"):
            h[t[1]] = True
        elif t[0] == "destroy":
            h[t[1]] = False
        return h

    def rec(prefix, holds, d):
        if prefix:
            yield prefix
        if d == 0:
            return
        for op in alphabet:
            t = op.split()
            if t[0] == "init" and holds.get(t[1]):
                continue
            yield from rec(prefix + [op], holds_after(op, holds), d - 1)

    yield from rec([], {}, depth)


# ---------------------------------------------------------------- running
def script_of(cases):
    return "".join("new\n" + "".join(op + "\n" for op in ops) + "end\n" for ops in cases)


def split_cases(lines):
    out = []
    for ln in lines:
        if ln.startswith("new"):
            out.append([])
        if out and ln != "":
            out[-1].append(ln)
    return out


def asan_signature(err):
    m = re.search(r"SUMMARY: (\w+): (\S+) (\S+)(?: in (\S+))?", err)
    if not m:
        m2 = re.search(r"runtime error: ([^\n]*)", err)
        return ("ubsan:" + m2.group(1)[:60]) if m2 else "crash"
    where = m.group(4) or os.path.basename(m.group(3))
    frames = re.findall(r"#\d+ 0x[0-9a-f]+ in (\S+) \S*storage\.c:(\d+)", err)
    site = frames[0][0] if frames else where
    return "%s:%s" % (m.group(2), site)


def oracle_kind(msg):
    t = msg.split()
    kind = t[1] if len(t) > 1 else msg
    op = [x for x in t if x.startswith("op=")]
    return kind + (":" + op[0][3:] if op else "")


def run_batch(exe, drv, cases, stats=None, timeout=900):
    """Runs the cases through implementation and model. Returns problems: (case index, kind, detail),
    kind in {'oracle','crash','diff','model-crash'}.  After a crash the remaining cases are re-run."""
    problems = []
    base = 0
    crashes = 0
    while base < len(cases):
        part = cases[base:]
        script = script_of(part)
        rc_i, impl, err_i = C.run_lines(exe, script, timeout=timeout)
        rc_m, model, err_m = C.run_lines(drv, script, timeout=timeout)
        ic = split_cases(impl)
        mc = split_cases(model)
        if rc_m != 0:
            problems.append((base, "model-crash", err_m[-500:]))
            return problems
        n_done = len(ic) if rc_i == 0 else max(len(ic) - 1, 0)
        for k in range(min(n_done, len(part))):
            il = [l for l in ic[k] if not l.startswith("ORACLE ")]
            orc = [l for l in ic[k] if l.startswith("ORACLE ")]
            ml, labels = [], []
            for l in mc[k] if k < len(mc) else []:
                m = LABEL.search(l)
                if m:
                    labels += m.group(1).split("+")
                ml.append(LABEL.sub("", l))
            for o in orc:
                problems.append((base + k, "oracle", o))
            d = C.first_diff(il, ml)
            if d is not None:
                problems.append((base + k, "diff", {"line": d, "impl": il[d] if d < len(il) else "<eof>",
                                                    "model": ml[d] if d < len(ml) else "<eof>"}))
            if stats is not None:
                stats["evaluations"] += 1
                stats["ops"] += len(part[k]) + 2
                if d is None:
                    stats["validated"] += 1
                for l in labels:
                    stats["branches"][l] = stats["branches"].get(l, 0) + 1
                key = set(labels)
                if key & set(INTERESTING):
                    stats["distinct"].add(C.sha(" ".join(sorted(key)) + "|" + ";".join(part[k])))
        if rc_i == 0:
            break
        # the implementation died inside case n_done
        ci = base + n_done
        if n_done < len(part):
            partial = [l for l in (ic[n_done] if n_done < len(ic) else []) if l.startswith("ORACLE ")]
            for o in partial:
                problems.append((ci, "oracle", o))
            problems.append((ci, "crash", {"rc": rc_i, "sig": asan_signature(err_i), "stderr": err_i[-1800:]}))
            if stats is not None:
                stats["evaluations"] += 1
        crashes += 1
        base = ci + 1
        if crashes >= 4:
            problems.append((min(base, len(cases) - 1), "gave-up", "implementation crashed in 4 cases of one batch; rest of the batch skipped"))
            break
    return problems


def fails_with(exe, drv, ops, kind, key):
    for _, k, det in run_batch(exe, drv, [ops], None, timeout=60):
        if k != kind:
            continue
        if kind == "oracle" and oracle_kind(det) == key:
            return True
        if kind == "crash" and det["sig"] == key:
            return True
        if kind == "diff":
            return True
    return False


def report(ctx, exe, drv, ops, kind, det, origin):
    if kind == "oracle":
        key = oracle_kind(det)
        sig = "h_props:oracle:%s" % key
        if any(v["signature"] == sig for v in ctx.violations):
            ctx.violation("oracle", sig, "", None)
            return
        small = C.ddmin(ops, lambda xs: fails_with(exe, drv, xs, "oracle", key), max_runs=120)
        ctx.violation("oracle", sig, "real props/storage.c violates C13: `%s` on script: %s" % (det, "; ".join(small)),
                      {"harness": HARNESS, "script": ["new"] + small + ["end"], "oracle": det, "found_in": origin})
    elif kind == "crash":
        key = det["sig"]
        sig = "h_props:sanitizer:%s" % key
        if any(v["signature"] == sig for v in ctx.violations):
            ctx.violation("crash", sig, "", None)
            return
        small = C.ddmin(ops, lambda xs: fails_with(exe, drv, xs, "crash", key), max_runs=120)
        ctx.violation("crash", sig, "real props/storage.c: sanitizer report %s on script: %s" % (key, "; ".join(small)),
                      {"harness": HARNESS, "script": ["new"] + small + ["end"], "stderr_tail": det["stderr"], "found_in": origin})
    elif kind == "diff":
        if len(ctx.corr_broken) < 3:
            small = C.ddmin(ops, lambda xs: fails_with(exe, drv, xs, "diff", None), max_runs=120)
            again = [p for p in run_batch(exe, drv, [small], None, timeout=60) if p[1] == "diff"]
            ctx.corr_broken.append({"what": "props/storage.c and the Lean model disagree", "script": ["new"] + small + ["end"],
                                    "at": again[0][2] if again else det, "found_in": origin})
    else:
        ctx.corr_broken.append({"what": kind, "detail": det, "found_in": origin})


def load_corpus():
    out = []
    for f in C.corpus_files("C13"):
        ops = [l.strip() for l in open(f) if l.strip() and not l.startswith("#")]
        ops = [l for l in ops if l not in ("new", "end")]
        out.append((os.path.basename(f), ops))
    return out


def explore(ctx):
    stats = {"branches": {}, "distinct": set(), "evaluations": 0, "ops": 0, "validated": 0}
    exe, drv = build(ctx)
    if not exe:
        return stats
    thorough = ctx.tier == "thorough"
    rng = ctx.rng
    # 0. corpus, one process per case (a crash in one does not hide the others)
    corpus = load_corpus()
    for name, ops in corpus:
        for ci, kind, det in run_batch(exe, drv, [ops], stats, timeout=60):
            report(ctx, exe, drv, ops, kind, det, "corpus/C13/" + name)
    # 1. exhaustive small scripts
    depth_a, depth_b = (4, 6) if thorough else (4, 5)
    ex = list(gen_exhaustive(ALPHA_QUICK, depth_a))
    ex_b = list(gen_exhaustive(ALPHA_DEEP, depth_b))
    stats["exhaustive_cases"] = len(ex) + len(ex_b)
    # 2. random scripts over 3 objects
    nrand = 20000 if thorough else 500
    rnd = [gen_random(rng, rng.choice([4, 8, 12, 20, 40])) for _ in range(nrand)]
    batches = []
    for pool, origin, size in ((rnd, "random", 250), (ex, "exhaustive(len<=%d,|alphabet|=%d)" % (depth_a, len(ALPHA_QUICK)), 20000),
                               (ex_b, "exhaustive(len<=%d,|alphabet|=%d)" % (depth_b, len(ALPHA_DEEP)), 20000)):
        for i in range(0, len(pool), size):
            batches.append((origin, pool[i:i + size]))
    samples = []
    for origin, b in batches:
        seen = set()
        for ci, kind, det in run_batch(exe, drv, b, stats):
            tag = (ci, kind, oracle_kind(det) if kind == "oracle" else "")
            if tag in seen:
                continue
            seen.add(tag)
            report(ctx, exe, drv, b[min(ci, len(b) - 1)], kind, det, origin)
        if len(samples) < 4 and b:
            samples.append({"origin": origin, "ops": b[len(b) // 2][:12]})
        if len(ctx.violations) + len(ctx.corr_broken) > 6:
            ctx.notes.append("exploration stopped early: enough failures to report")
            break
    ctx.violations = [v for v in ctx.violations if v["replay"] is not None]
    ctx.cov["evaluations"] = stats["evaluations"]
    ctx.cov["distinct_nontrivial"] = len(stats["distinct"])
    ctx.cov["traces_validated_against_impl"] = stats["validated"]
    ctx.cov["operations_compared"] = stats["ops"]
    ctx.cov["model_branch_hits"] = dict(sorted(stats["branches"].items()))
    ctx.cov["exhaustive"] = False
    ctx.cov["exhaustive_small_space_cases"] = stats.get("exhaustive_cases", 0)
    ctx.cov["rule"] = (
        "cases = operation scripts (`new` ops… `end`) for the real props/storage.c over a pool of 3 objects, each executed by "
        "the ASan/UBSan harness and by the compiled Lean model, canonical lines (return value, every field of every object, "
        "is_ref, nbytes, block ordinals and sizes, allocator event sequence) diffed: (a) corpus/C13, (b) every script of length "
        "<=%d over a %d-operation alphabet and of length <=%d over a %d-operation alphabet on 2 objects (%d cases, complete for "
        "those alphabets), (c) %d seeded random scripts of 4..40 operations on 3 objects with NULL / empty / unterminated / "
        "embedded-NUL / long strings, 0..5 dimensions, bad indices and kinds, borrowed (is_ref) strings. A case is non-trivial "
        "if the model takes at least one of the branches %s; distinct = distinct (branch set, script)."
        % (depth_a, len(ALPHA_QUICK), depth_b, len(ALPHA_DEEP), stats.get("exhaustive_cases", 0), nrand, list(INTERESTING)))
    ctx.cov["samples"] = samples
    return stats


def run(ctx):
    regenerate(ctx)
    ctx.prove(MODULE, THEOREMS, extra_targets=DRIVERS)
    explore(ctx)
    ctx.assumptions += [
        "malloc/realloc never fail (allocation failure is outside C13's quantifier); realloc always moves (the harness's does)",
        "caller memory (const char* arguments, is_ref strings) is modelled by value and is not modified during a call",
        "a script never calls storage_properties_init on an object that still owns memory, never copies an object onto itself, "
        "and a borrowed (is_ref) string is a terminated C string (Op.wf; the harness skips the same operations)",
        "size_t / uint32_t wrap-around is not modelled",
    ]


def replay(ctx, path):
    import json
    obj = json.load(open(path))
    rp = obj.get("replay") or {}
    script = rp.get("script")
    if not script:
        print("replay file has no script (kind=%s)" % obj.get("kind"))
        return 2
    ops = [l for l in script if l not in ("new", "end")]
    exe, drv = build(ctx)
    if not exe:
        print("cannot build harness: %s" % ctx.corr_broken)
        return 2
    bad = 0
    rc, out, err = C.run_lines(exe, script_of([ops]), timeout=60)
    for l in out:
        if l:
            print(l)
        if l.startswith("ORACLE "):
            bad = 1
    if rc != 0:
        print("implementation exited with %d: %s" % (rc, asan_signature(err)))
        print(err[-1500:])
        bad = 1
    print("REPRODUCED" if bad else "not reproduced (the real code satisfies the oracle on this script)")
    return 1 if bad else 0
