"""Correspondence + oracle for the channel (C01, C02, and the channel half of C05).

Real code: acquire-video-runtime/src/runtime/channel.c compiled with
harness/chan/h_chan_seq.c (ASan+UBSan).  Model: lean exe `acq_chan`.
"""
import os, re
from . import common as C

HARNESS_SRC = [os.path.join(C.VERIF, "harness/chan/h_chan_seq.c"), "acquire-video-runtime/src/runtime/channel.c"]
INTERESTING = ("w.wrap", "w.wrap-reset", "w.block-full", "w.block-behind-tail", "w.block-nofit", "w.fit-before-tail",
               "r.lapchange-data", "r.lapchange-empty", "r.old-lap-rest", "u.partial", "u.full+roll", "u.partial+roll",
               "w.refused", "c.refused", "w.free-wrap")


ASSUMPTIONS = [
    "channel operations are atomic (each body of channel.c runs under the channel lock; discharged for the real code by C03's lock-discipline check)",
    "size_t / lap-counter overflow is not modelled (needs 2^64 bytes or laps)",
    "usage rules of the API (Op.wf): one writer alternating map/(commit|abort); a reader maps only when unmapped; at most 8 readers. Ill-formed operations are skipped identically by harness and model",
    "the producer writes only inside the region it was handed (the model marks the whole region as overwritten at map time)",
]


def build(ctx):
    ok, log, failed = C.lake_build(["acq_chan"])
    if not ok:
        ctx.corr_broken.append({"what": "model driver acq_chan does not build", "log": log[-2000:]})
        return None, None
    exe, log = C.compile_harness("h_chan_seq", HARNESS_SRC, defines=["memset=h_memset"])
    if not exe:
        ctx.corr_broken.append({"what": "harness h_chan_seq does not compile against /repo", "log": log[-3000:]})
        return None, None
    return exe, C.driver_path("acq_chan")


THREAD_THEOREMS = ["AcqVerif.ChanThreads.%s" % t for t in (
    "every_schedule_is_a_history", "consumed_is_stream", "status_stays_ok", "write_region_in_buffer", "woken_body_is_step")] + [
    "AcqVerif.Channel.CReach.inv"]


def prove_with_lock_discipline(ctx, module, theorems, drivers, threads=False):
    """the sequential channel model treats one API call as one atomic step; that is only true of a channel.c in which every access
    to the shared fields happens under the channel's lock — checked on the source as it is now (extract/syncskel.py regenerates
    Generated/SyncSkeleton.lean, the theorem is re-checked by the kernel)"""
    from . import syncskel, rtcheck, chantr
    syncskel.regenerate(ctx)
    chantr.regenerate(ctx)     # Generated/ChannelC.lean: channel.c as it is now, translated; the model must compute the same (kernel-checked)
    rtcheck.prove_all(ctx, [(module, theorems, drivers), (chantr.MODULE, chantr.THEOREMS, []),
                            ("AcqVerif.Props.LockDiscipline", ["AcqVerif.LockDiscipline.lock_discipline_of_source"], [])] + (
                            [("AcqVerif.Props.ChanThreads", THREAD_THEOREMS, ["acq_conc"])] if threads else []))


# ---------------------------------------------------------------- generators
def wf_ops(cap, st, sizes, nmax_readers):
    """well-formed next operations for the abstract usage state st=(pending, nreaders, mappedflags)"""
    pending, nr, mapped = st
    ops = []
    if pending:
        ops += [("wcommit", (False, nr, mapped)), ("wabort", (False, nr, mapped))]
    else:
        ops += [("wcommit", (False, nr, mapped))]
    if True:
        for n in sizes:
            ops.append(("wmap %d" % n, None))  # outcome decides pending
    if nr < nmax_readers:
        ops.append(("join", None))
    for i in range(nr):
        if mapped[i]:
            for k in (0, 1, 99):
                ops.append(("runmap %d %d" % (i, k), (pending, nr, mapped[:i] + (False,) + mapped[i + 1:])))
        else:
            ops.append(("rmap %d" % i, None))
    return ops


def exhaustive_scripts(cap, depth, max_readers, with_accept):
    """All well-formed op sequences up to `depth`, as a prefix tree walked by DFS.  Because the usage
    state depends on outcomes (a map may fail), the tree is generated over-approximately: ops that turn
    out ill-formed at run time are still executed identically by both sides and excluded only from the
    well-formedness-conditioned oracle (the harness knows the real state)."""
    sizes = sorted(set([1, 2, cap - 1, cap // 2 + 1]) & set(range(1, cap)))
    if not sizes:
        sizes = [1]
    alphabet = ["wmap %d" % n for n in sizes] + ["wcommit", "wabort", "join"]
    for i in range(max_readers):
        alphabet += ["rmap %d" % i, "runmap %d 1" % i, "runmap %d 99" % i]
    if with_accept:
        alphabet += ["accept 0", "accept 1"]
    return alphabet


def gen_exhaustive(cap, depth, max_readers, with_accept):
    """yield scripts (lists of ops). Pruned: wcommit/wabort only right after some wmap not yet closed,
    rmap/runmap only for joined readers, alternate map/unmap per reader (by the usage state under the
    optimistic assumption that maps succeed)."""
    sizes = sorted(set([1, 2, cap - 1, cap // 2 + 1]) & set(range(1, cap))) or [1]

    def rec(prefix, pending, nr, mapped, d):
        if d == 0:
            yield prefix
            return
        cands = []
        if pending:
            cands += [("wcommit", False, nr, mapped), ("wabort", False, nr, mapped)]
            # mapping again without ending the write (what source.c does after a failed camera_get_frame)
            cands += [("wmap %d" % n, True, nr, mapped) for n in sizes[:1] + sizes[-1:]]
        else:
            cands.append(("wcommit", False, nr, mapped))   # an unmap with nothing mapped (after an abort, a commit, a refused commit)
            for n in sizes:
                cands.append(("wmap %d" % n, True, nr, mapped))
        if nr < max_readers:
            cands.append(("join", pending, nr + 1, mapped + (True,)))
        for i in range(nr):
            if mapped[i]:
                for k in (1, 99):
                    cands.append(("runmap %d %d" % (i, k), pending, nr, mapped[:i] + (False,) + mapped[i + 1:]))
            else:
                cands.append(("rmap %d" % i, pending, nr, mapped[:i] + (True,) + mapped[i + 1:]))
        if with_accept and d >= 2:
            cands += [("accept 0", pending, nr, mapped), ("accept 1", pending, nr, mapped)]
        for op, p, n_, m in cands:
            yield from rec(prefix + [op], p, n_, m, d - 1)

    yield from rec([], False, 0, (), depth)


BIG_CAPS = [(1 << 31) + (1 << 20), (1 << 32) + 4096, (1 << 32) + (1 << 31), 3 << 31, (1 << 33) + 8]
BIG_SIZES = [1 << 20, 1 << 30, 1 << 31, (1 << 31) + 1, 1 << 32, (1 << 32) + 4096, (1 << 32) - 1]


def gen_random(rng, cap, nops, nreaders_max, frame_mode=False, big=False):
    ops = []
    nr = 0
    pending = False
    mapped = []
    # a few "interesting" sizes relative to the capacity
    pool = [1, 2, 3, cap // 2, cap // 2 + 1, cap // 3, cap - 1, cap - 2, max(1, cap // 4)]
    if big:  # sizes and consumed counts on either side of 2^31 and 2^32
        pool += BIG_SIZES + [cap - (1 << 31), cap - (1 << 20)]
    pool = [n for n in pool if 1 <= n < cap] or [1]
    if frame_mode:
        pool = sorted(set(8 * max(1, n // 8) for n in pool if n >= 8)) or [8]
    join_at = sorted(rng.randrange(0, max(1, nops // 2)) for _ in range(nreaders_max))
    slow = rng.random() < 0.3
    for t in range(nops):
        if nr < nreaders_max and t >= join_at[nr]:
            ops.append("join"); nr += 1; mapped.append(True); continue
        r = rng.random()
        if r < 0.42:
            if pending and rng.random() < 0.93:
                ops.append("wcommit" if rng.random() < 0.85 else "wabort"); pending = False
            elif not pending and rng.random() < 0.06:
                ops.append("wcommit")
            else:
                n = rng.choice(pool) if rng.random() < 0.7 else rng.randrange(1, max(2, cap))
                if frame_mode:
                    n = 8 * max(1, n // 8)
                if rng.random() < 0.02:
                    n = cap + rng.randrange(0, 3)
                ops.append("wmap %d" % n); pending = True
        elif r < 0.95 and nr:
            i = rng.randrange(nr)
            if slow and i == 0 and rng.random() < 0.6:
                continue
            if mapped[i]:
                k = rng.choice([0, 1, 2, 3, cap, cap, cap, cap, rng.randrange(0, cap + 1)])
                if big and rng.random() < 0.5:
                    k = rng.choice([x for x in BIG_SIZES if x < cap])
                if frame_mode:
                    k = rng.choice([0, 8, 16, cap, cap, cap])
                ops.append("runmap %d %d" % (i, k)); mapped[i] = False
            else:
                ops.append("rmap %d" % i); mapped[i] = True
        elif r < 0.97:
            ops.append("accept %d" % rng.randrange(2))
        elif r < 0.975 and nr:
            i = rng.randrange(nr)
            ops.append("rmap %d" % i)  # possibly while mapped: usage error, still compared
            mapped[i] = True
        else:
            ops.append("accept 1")
    return ops


def gen_frames(rng, cap, nops, nreaders_max):
    """C05: every write is a frame (multiple of 8); readers consume up to frame boundaries.
    mode A: one frame size F, readers consume j*F or everything; mode B: mixed sizes, readers consume 0 or everything."""
    ops, nr, pending, mapped = [], 0, False, []
    uniform = rng.random() < 0.6
    sizes = [8 * k for k in range(1, max(2, cap // 8)) if 8 * k < cap] or [8]
    F = rng.choice(sizes[: max(1, len(sizes) // 2)])
    join_at = sorted(rng.randrange(0, max(1, nops // 2)) for _ in range(nreaders_max))
    for t in range(nops):
        if nr < nreaders_max and t >= join_at[nr]:
            ops.append("join"); nr += 1; mapped.append(True); continue
        r = rng.random()
        if r < 0.45:
            if pending and rng.random() < 0.95:
                ops.append("wcommit" if rng.random() < 0.9 else "wabort"); pending = False
            else:
                ops.append("wmap %d" % (F if uniform else rng.choice(sizes))); pending = True
        elif nr:
            i = rng.randrange(nr)
            if mapped[i]:
                k = rng.choice([0, F, 2 * F, cap, cap]) if uniform else rng.choice([0, cap, cap])
                ops.append("runmap %d %d" % (i, k)); mapped[i] = False
            else:
                ops.append("rmap %d" % i); mapped[i] = True
    return ops


# ---------------------------------------------------------------- running
LABEL = re.compile(r" ~(\S+)$")


def run_batch(ctx, exe, drv, cases, stats, oracle_filter=None, timeout=600):
    """cases: list of (cap, ops). Runs all of them in one process pair. Returns list of
    (case_index, kind, detail) problems: kind in {'diff','oracle','crash'}."""
    text = []
    starts = []
    for cap, ops in cases:
        starts.append(len(text))
        text.append("new %d" % cap)
        text.extend(ops)
    script = ("framemode 1\n" if stats.get("frame_mode") else "") + "\n".join(text) + "\n"
    rc_i, impl, err_i = C.run_lines(exe, script, timeout=timeout)
    rc_m, model, err_m = C.run_lines(drv, script, timeout=timeout)
    problems = []
    # split impl output into op lines and oracle lines
    impl_ops, oracle_at = [], {}
    for ln in impl:
        if ln.startswith("ORACLE "):
            oracle_at.setdefault(len(impl_ops) - 1, []).append(ln)
        elif ln != "":
            impl_ops.append(ln)
    model_ops, labels = [], []
    for ln in model:
        if ln == "":
            continue
        m = LABEL.search(ln)
        labels.append(m.group(1) if m else "")
        model_ops.append(LABEL.sub("", ln))

    def case_of(line_no):
        lo, hi = 0, len(starts) - 1
        while lo < hi:
            mid = (lo + hi + 1) // 2
            if starts[mid] <= line_no:
                lo = mid
            else:
                hi = mid - 1
        return lo

    if rc_i != 0:
        ci = case_of(max(0, len(impl_ops) - 1)) if impl_ops else 0
        problems.append((ci, "crash", "implementation exited with %d after %d result lines: %s" % (rc_i, len(impl_ops), err_i[-1500:])))
    if rc_m != 0:
        problems.append((0, "model-crash", err_m[-500:]))
    d = C.first_diff(impl_ops, model_ops)
    seen_cases = set()
    if d is not None and rc_i == 0:
        ci = case_of(d)
        problems.append((ci, "diff", {"line": d - starts[ci], "impl": impl_ops[d] if d < len(impl_ops) else "<eof>",
                                      "model": model_ops[d] if d < len(model_ops) else "<eof>"}))
    for ln_no, msgs in oracle_at.items():
        ci = case_of(max(ln_no, 0))
        if ci in seen_cases:
            continue
        seen_cases.add(ci)
        problems.append((ci, "oracle", {"line": ln_no - starts[ci], "msg": msgs[0]}))
    # coverage
    for ci, (cap, ops) in enumerate(cases):
        lo = starts[ci]
        hi = starts[ci + 1] if ci + 1 < len(starts) else len(labels)
        ls = labels[lo:hi]
        for l in ls:
            stats["branches"][l] = stats["branches"].get(l, 0) + 1
        key = frozenset(ls)
        if key & set(INTERESTING):
            stats["distinct"].add(C.sha("%d|" % cap + " ".join(sorted(key)) + "|" + " ".join(ops[:40])))
    stats["evaluations"] += len(cases)
    stats["ops"] += len(text)
    if d is None and rc_i == 0 and rc_m == 0:
        stats["validated"] += len(cases)
    return problems


FRAME_MODE_SHRINK = [False]


def single_fails(exe, drv, cap, ops, kind, needle=None):
    stats = {"branches": {}, "distinct": set(), "evaluations": 0, "ops": 0, "validated": 0, "frame_mode": FRAME_MODE_SHRINK[0]}
    pr = run_batch(None, exe, drv, [(cap, ops)], stats, timeout=60)
    for _, k, det in pr:
        if k == kind:
            if needle is None or (isinstance(det, dict) and needle in str(det.get("msg", ""))) or (isinstance(det, str) and needle in det):
                return True
    return False


def oracle_kind(msg):
    return msg.split()[1] if msg.startswith("ORACLE ") and len(msg.split()) > 1 else msg


# which oracle messages belong to which property
C01_ORACLES = {"empty-but-not-drained", "reader-status-not-ok", "read-bytes-not-next-in-stream", "read-region-beyond-committed",
               "join-not-at-write-boundary", "read-region-outside-buffer", "read-region-negative"}
C05_ORACLES = {"frame-write-misaligned", "frame-region-misaligned", "frame-region-not-whole-frames"}
C02_ORACLES = {"write-region-outside-buffer", "write-region-overlaps-mapped-reader", "write-region-overlaps-unconsumed",
               "mapped-region-changed", "read-region-outside-buffer", "read-region-beyond-committed", "lock-depth"}


def explore(ctx, oracles, frame_mode=False):
    exe, drv = build(ctx)
    stats = {"branches": {}, "distinct": set(), "evaluations": 0, "ops": 0, "validated": 0, "frame_mode": frame_mode}
    if not exe:
        return stats
    rng = ctx.rng
    thorough = ctx.tier == "thorough"
    FRAME_MODE_SHRINK[0] = frame_mode
    batches = []
    # 0. corpus first
    corpus = []
    for f in C.corpus_files("chan-frames" if frame_mode else "chan"):
        lines = [l.strip() for l in open(f) if l.strip() and not l.startswith("#")]
        if lines and lines[0].startswith("new "):
            corpus.append((int(lines[0].split()[1]), lines[1:]))
    if corpus:
        batches.append(corpus)
    # 1. exhaustive small space
    depth = 8 if thorough else 6
    ex = []
    for cap in (() if frame_mode else (2, 3, 4, 5)):
        for ops in gen_exhaustive(cap, depth, 2 if cap > 2 else 1, with_accept=False):
            ex.append((cap, ops))
    for cap in (() if frame_mode else (3, 4)):
        for ops in gen_exhaustive(cap, depth - 1, 1, with_accept=True):
            ex.append((cap, ops))
    stats["exhaustive_cases"] = len(ex)
    for i in range(0, len(ex), 20000):
        batches.append(ex[i:i + 20000])
    # 2. random long histories
    nrand = 6000 if thorough else 400
    rnd = []
    caps = [2, 3, 5, 8, 16, 33, 64, 1024] if not frame_mode else [24, 32, 64, 72, 136, 336, 1024]
    for k in range(nrand):
        cap = caps[k % len(caps)]
        nr = 1 + (k // len(caps)) % 8
        if frame_mode:
            rnd.append((cap, gen_frames(rng, cap, rng.choice([300, 600, 1500] if thorough else [300, 400]), nr)))
        else:
            rnd.append((cap, gen_random(rng, cap, rng.choice([300, 600, 1500] if thorough else [300, 400]), nr, frame_mode)))
    for i in range(0, len(rnd), 200):
        batches.append(rnd[i:i + 200])
    # 3. rings of several GiB (address space only): offsets, lengths and bookmark distances beyond 2^31 and 2^32
    nbig = 0 if frame_mode else (1200 if thorough else 160)
    bigs = []
    for k in range(nbig):
        cap = BIG_CAPS[k % len(BIG_CAPS)]
        bigs.append((cap, gen_random(rng, cap, rng.choice([60, 150, 300]), 1 + (k // len(BIG_CAPS)) % 4, big=True)))
    for i in range(0, len(bigs), 200):
        batches.append(bigs[i:i + 200])
    stats["big_cases"] = nbig
    # 4. many laps: the lap counters are compared for equal / next lap only, so a counter narrower than size_t goes wrong when it rolls
    #    over — one long history on a 3-byte ring with more than 2^16 laps (one lap per write), two readers, partial consumption now and then
    if not frame_mode:
        laps = ["join", "join", "runmap 0 0", "runmap 1 0"]
        for i in range(140000 if thorough else 70000):
            laps += ["wmap 2", "wcommit", "rmap 0", "runmap 0 %d" % (1 if i % 977 == 0 else 99), "rmap 1", "runmap 1 99"]
            if i % 977 == 0:
                laps += ["rmap 0", "runmap 0 99"]
        batches.append([(3, laps)])
        stats["lap_run_ops"] = len(laps)
    samples = []
    for b in batches:
        problems = run_batch(ctx, exe, drv, b, stats)
        for ci, kind, det in problems:
            cap, ops = b[ci]
            if kind == "oracle":
                ok = oracle_kind(det["msg"])
                if ok not in oracles:
                    continue
                if any(v["signature"] == "h_chan_seq:%s" % ok for v in ctx.violations):
                    small = ops
                else:
                    small = C.ddmin(ops, lambda xs: single_fails(exe, drv, cap, xs, "oracle", ok), max_runs=150)
                ctx.violation("oracle", "h_chan_seq:%s" % ok,
                              "real channel.c violates the property: %s on `new %d; %s`" % (det["msg"], cap, "; ".join(small)),
                              {"harness": "h_chan_seq", "script": ["new %d" % cap] + small})
            elif kind == "crash":
                ctx.violation("crash", "h_chan_seq:crash", "real channel.c crashed / sanitizer report: %s" % det,
                              {"harness": "h_chan_seq", "script": ["new %d" % cap] + ops})
            elif kind == "diff":
                small = ops if ctx.corr_broken else C.ddmin(ops, lambda xs: single_fails(exe, drv, cap, xs, "diff"), max_runs=150)
                ctx.corr_broken.append({"what": "channel.c and the Lean model disagree", "script": ["new %d" % cap] + small, "at": det})
            else:
                ctx.corr_broken.append({"what": kind, "detail": det})
        if not samples and b:
            samples = [{"cap": b[0][0], "ops": b[0][1][:30]}, {"cap": b[-1][0], "ops": b[-1][1][:30]}]
        if len(ctx.violations) + len(ctx.corr_broken) > 3:
            break
    if ctx.corr_broken and not ctx.violations and not thorough:
        # directed search: the model and the code disagree but no oracle fired yet -> look harder for a failing input
        extra = []
        # (a) continuations of the minimised diverging histories: the state in which code and model part ways, followed by every
        #     reader reading on and the writer writing on in random order (ill-formed steps are skipped identically by both sides)
        for cb in [c for c in ctx.corr_broken if c.get("script")][:3]:
            cap0 = int(cb["script"][0].split()[1])
            base = cb["script"][1:]
            nr0 = sum(1 for o in base if o == "join")
            sizes = [n for n in ([1, 2, cap0 // 3, cap0 // 2, cap0 - 1] + (BIG_SIZES if cap0 > (1 << 24) else [])) if 1 <= n < cap0] or [1]
            for k in range(400):
                suf = []
                if k % 2 == 0:
                    suf.append("wcommit")
                for _ in range(rng.choice([2, 4, 8, 16])):
                    r = rng.random()
                    if r < 0.3:
                        suf += ["wmap %d" % rng.choice(sizes), "wcommit"]
                    elif nr0:
                        i = rng.randrange(nr0)
                        suf += ["rmap %d" % i] if rng.random() < 0.5 else ["runmap %d %d" % (i, rng.choice([0, 1, cap0, cap0]))]
                extra.append((cap0, base + suf))
        # (b) fresh random histories
        for k in range(3000):
            cap = caps[k % len(caps)]
            extra.append((cap, gen_random(rng, cap, rng.choice([300, 600, 1500]), 1 + (k // len(caps)) % 8, frame_mode)))
        for i in range(0, len(extra), 500):
            for ci, kind, det in run_batch(ctx, exe, drv, extra[i:i + 500], stats):
                cap, ops = extra[i:i + 500][ci]
                if kind == "oracle" and oracle_kind(det["msg"]) in oracles:
                    okd = oracle_kind(det["msg"])
                    small = C.ddmin(ops, lambda xs: single_fails(exe, drv, cap, xs, "oracle", okd), max_runs=150)
                    ctx.violation("oracle", "h_chan_seq:%s" % okd,
                                  "real channel.c violates the property: %s on `new %d; %s`" % (det["msg"], cap, "; ".join(small)),
                                  {"harness": "h_chan_seq", "script": ["new %d" % cap] + small})
                elif kind == "crash":
                    ctx.violation("crash", "h_chan_seq:crash", "real channel.c crashed / sanitizer report: %s" % det,
                                  {"harness": "h_chan_seq", "script": ["new %d" % cap] + ops})
            if ctx.violations:
                break
        ctx.notes.append("directed search after a broken correspondence: %d extra random histories" % len(extra))
    ctx.cov["evaluations"] = stats["evaluations"]
    ctx.cov["distinct_nontrivial"] = len(stats["distinct"])
    ctx.cov["traces_validated_against_impl"] = stats["validated"]
    ctx.cov["rule"] = ("cases = operation scripts for channel.c: (a) every well-formed sequence up to length %d over "
                       "{wmap n, wcommit, wabort, join, rmap i, runmap i k[, accept b]} for cap 2..5 and <=2 readers (%d cases, exhaustive), "
                       "(b) %d seeded random histories of 300+ ops for caps %s with 1..8 readers, (b') %d histories on rings of 2..8 GiB "
                       "(address space only; write sizes, consumed counts and bookmark distances on both sides of 2^31 and 2^32; interval oracles), (b'') one history of more than 2^16 laps on a 3-byte ring, (c) the corpus. A case is "
                       "non-trivial if it takes at least one wrap / lap-change / roll-over / blocking / refusal branch; distinct = distinct "
                       "(cap, branch set, first 40 ops)." % (depth, stats.get("exhaustive_cases", 0), nrand, caps, stats.get("big_cases", 0)))
    ctx.cov["exhaustive"] = False
    ctx.cov["model_branch_hits"] = dict(sorted(stats["branches"].items()))
    ctx.cov["operations_compared"] = stats["ops"]
    ctx.cov["samples"] = samples + ctx.cov.get("samples", [])
    return stats


def replay(ctx, path, oracles):
    """re-run a recorded script on the real channel.c; exit 1 iff the violation reproduces"""
    import json
    rep = json.load(open(path))
    script = rep.get("replay", {}).get("script")
    if not script:
        print("replay file names no concrete input (%s)" % rep.get("kind"))
        return 1
    exe, drv = build(ctx)
    if not exe:
        print("harness does not build"); return 1
    cap = int(script[0].split()[1])
    stats = {"branches": {}, "distinct": set(), "evaluations": 0, "ops": 0, "validated": 0}
    problems = run_batch(ctx, exe, drv, [(cap, script[1:])], stats, timeout=60)
    bad = [p for p in problems if p[1] in ("oracle", "crash")]
    for _, kind, det in problems:
        print(kind, det)
    if bad:
        print("VIOLATION property=%s replay=%s" % (ctx.prop, path))
        return 1
    print("not reproduced on the current tree")
    return 0
