"""C18 -- simulated cameras deliver fresh, increasing, trigger-gated frames.

Real code: simulated.camera.c + HAL camera.c linked against harness/detsched (the deterministic
scheduler that replaces linux/platform.c), driven by harness/simcam_conc/h_simcam_conc.c.
Model: lean exe `acq_simconc` (AcqVerif.SimConc.Model); theorems in AcqVerif.Props.C18.

A case = two caller scripts (A, B) + a schedule.  For every scenario all schedules with at most P
pre-emptions are enumerated statelessly (the harness prints the enabled set at every decision, the
check extends prefixes); every run is co-simulated with the model step by step (same decision
sequence => same lines), and the property oracle of the harness looks at what a client sees.
"""
import json
import os
import re

from . import common as C

MODULE = "AcqVerif.Props.C18"
DRIVERS = ["acq_simconc", "AcqVerif.Props.SimcamLock"]
THEOREMS = [
    "AcqVerif.C18.ids_strictly_increase",
    "AcqVerif.C18.ids_count_generated_frames",
    "AcqVerif.C18.trigger_gated",
    "AcqVerif.C18.no_frame_before_first_trigger",
    "AcqVerif.C18.no_lost_wakeup_frame_call",
    "AcqVerif.C18.no_lost_wakeup_streamer_on_stop",
    "AcqVerif.C18.stop_join_measure",
    "AcqVerif.C18.stop_streamer_progress",
    "AcqVerif.C18.stop_unblocks_frame_call",
    "AcqVerif.C18.set_off_race",
]

HARNESS_SRC = [
    os.path.join(C.VERIF, "harness/simcam_conc/h_simcam_conc.c"),
    os.path.join(C.VERIF, "harness/detsched/detsched.c"),
    "acquire-core-libs/src/acquire-device-hal/device/hal/camera.c",
    "acquire-core-libs/src/acquire-device-properties/device/props/components.c",
    "acquire-driver-common/src/simcams/3rdParty/pcg-c-basic-0.9/pcg_basic.c",
    "acquire-driver-common/src/simcams/popcount.cpp",
    "acquire-driver-common/src/simcams/imfill.pattern.cpp",
]
OPS = ("on", "off", "start", "stop", "trig", "get")
VOLUNTARY = ("sleep", "yield")
LABEL = re.compile(r" ~(\S+)$")
# model branches the theorems case-split on
INTERESTING = ("getAsleep", "asleepT", "stopJoin", "trigLock.stop", "trigLock.setoff", ">getWait", ">waitT", "lock2", "idle.start>startCreate")

SCENARIOS = [
    # (A, B) -- A always ends with stop, so a blocked call at the end of a run is a violation
    ("on,start,trig,stop,start,stop", "get,get"),
    ("on,start,stop,start,stop", "get"),
    ("on,start,trig,trig,stop", "get,get"),
    ("start,stop", "get,get"),
    ("on,start,stop", "get"),
    ("on,start,off,stop", "get"),
    ("start,on,trig,stop", "get"),
    ("on,start,trig,get,stop", "-"),
    ("on,start,trig,stop", "get,stop"),
    ("off,on,off,on,start,stop", "get"),
    ("on,start,stop,start,trig,stop", "get,trig"),
    ("start,stop,start,stop", "get,get,get"),
    ("start,get,get,stop", "-"),
    ("on,start,trig,get,trig,get,stop", "-"),
    ("on,start,trig,stop", "trig,get,get"),
    ("start,stop", "get,stop,get"),
    ("on,start,trig,stop,start,stop", "get,get,get,get"),
    ("on,off,on,start,stop", "get,get,get,get"),
    ("on,start,stop,start,get,stop", "-"),     # on the repaired code the frame call waits for ever (NOTE, not a violation)
]


def build(ctx):
    incs = [os.path.join(C.VERIF, "harness/detsched"),
            os.path.join(C.REPO, "acquire-driver-common/src/simcams/3rdParty/pcg-c-basic-0.9")]
    exe, log = C.compile_harness("h_simcam_conc", HARNESS_SRC, includes=incs)
    if not exe:
        ctx.corr_broken.append({"what": "harness h_simcam_conc does not compile against the repository", "log": log[-3000:]})
        return None, None
    # the scheduler's own self-test (mutual exclusion, lost-wake-up toy, replay determinism, DFS helper, HANG oracle)
    st, log2 = C.compile_harness("detsched_selftest", [os.path.join(C.VERIF, "harness/detsched/selftest.c"),
                                                       os.path.join(C.VERIF, "harness/detsched/detsched.c")], includes=incs[:1])
    if not st:
        ctx.corr_broken.append({"what": "detsched self-test does not compile", "log": log2[-2000:]})
        return None, None
    rc, out, err = C.sh([st, "all"], timeout=180, env=C.SAN_ENV)
    ctx.cov["detsched_selftest"] = out.strip().split("\n")[-1] if out.strip() else "no output"
    if rc != 0 or "SELFTEST OK" not in out:
        ctx.corr_broken.append({"what": "detsched self-test failed", "log": (out + err)[-2000:]})
        return None, None
    drv = C.driver_path("acq_simconc")
    if not os.path.exists(drv):
        ok, log, failed = C.lake_build(["acq_simconc"])
        if not ok:
            ctx.corr_broken.append({"what": "model driver acq_simconc does not build", "log": log[-2000:]})
            return None, None
    return exe, drv


# ------------------------------------------------------------------ running
def case_line(cid, a, b, sched, dfs=True):
    return "case %s A=%s B=%s sched=%s policy=fair dfs=%d" % (cid, a or "-", b or "-", ",".join(map(str, sched)) if sched else "-", 1 if dfs else 0)


class Run:
    __slots__ = ("cid", "lines", "decisions", "oracle", "notes", "terminal", "schedule", "complete")

    def __init__(self, cid):
        self.cid = cid
        self.lines = []      # comparable lines (steps, results, end)
        self.decisions = []  # (prev, prevkind, chosen, [enabled])
        self.oracle = []
        self.notes = []
        self.terminal = None
        self.schedule = None
        self.complete = False


DEC = re.compile(r"DS-DECISION step=(\d+) prev=(-?\d+) prevkind=(\S+) chosen=(\d+) enabled=(\S*)")


def parse_impl(text):
    runs, cur = [], None
    for ln in text.split("\n"):
        if not ln:
            continue
        if ln.startswith("case "):
            cur = Run(ln[5:])
            runs.append(cur)
            cur.lines.append(ln)
        elif cur is None:
            continue
        elif ln.startswith("DS-DECISION"):
            m = DEC.match(ln)
            if m:
                cur.decisions.append((int(m.group(2)), m.group(3), int(m.group(4)), [int(x) for x in m.group(5).split(",") if x]))
        elif ln.startswith("ORACLE "):
            cur.oracle.append(ln)
        elif ln.startswith("NOTE "):
            cur.notes.append(ln)
        elif ln.startswith("DETSCHED-SCHEDULE"):
            cur.schedule = ln.split(" ", 1)[1].strip() if " " in ln else ""
        elif ln.startswith("DETSCHED-THREAD"):
            pass
        elif ln.startswith("DETSCHED "):
            m = re.match(r"DETSCHED (\S+) steps=\d+ schedule=(\S*)", ln)
            if m:
                cur.terminal = m.group(1)
                cur.schedule = m.group(2)
        elif ln.startswith("deviations"):
            cur.complete = True
        elif ln.startswith(("deadlock ", "hang ", "step-limit ", "misuse ")):
            if ln.startswith("deadlock "):
                cur.lines.append(ln)
        else:
            cur.lines.append(ln)
    return runs


def run_impl(exe, cases, timeout=120):
    """cases: list of case lines. Returns list of Run (same order). A terminal result ends the
    process; the remaining cases are run in a fresh one."""
    out_runs = []
    todo = list(cases)
    guard = 0
    while todo and guard < 10000:
        guard += 1
        rc, out, err = C.sh([exe], input="\n".join(todo) + "\n", timeout=timeout, env=C.SAN_ENV)
        runs = parse_impl(out)
        if not runs:
            r = Run(todo[0].split()[1])
            r.terminal = "CRASH rc=%s %s" % (rc, err[-800:])
            runs = [r]
        last = runs[-1]
        if rc != 0 and last.terminal is None and not last.complete:
            last.terminal = "CRASH rc=%s %s" % (rc, err[-1500:])
        out_runs.extend(runs)
        todo = todo[len(runs):]
        if rc == 0 and todo and len(runs) == 0:
            break
    return out_runs


def run_model(drv, cases, timeout=120):
    rc, out, err = C.sh([drv], input="\n".join(cases) + "\n", timeout=timeout)
    res, cur = [], None
    for ln in out.split("\n"):
        if not ln:
            continue
        if ln.startswith("case "):
            cur = ([], [])
            res.append(cur)
            cur[0].append(ln)
            continue
        if cur is None:
            continue
        m = LABEL.search(ln)
        if m:
            cur[1].append(m.group(1))
        cur[0].append(LABEL.sub("", ln))
    return rc, res, err


def cost(prev, pk, en, choice):
    """0 if `choice` is what a schedule without pre-emptions does at this decision, else 1.
    The thread that ran last keeps running while it is enabled; if it parked at a voluntary yield
    (clock_sleep_ms / between two calls) the next enabled thread in cyclic order takes over; if it
    is blocked or has finished, every choice is free.  (= detsched's FAIR policy.)"""
    if prev < 0 or prev not in en:
        return 0
    if pk in VOLUNTARY:
        later = [t for t in en if t > prev]
        dflt = min(later) if later else min(en)
        return 0 if choice == dflt else 1
    return 0 if choice == prev else 1


def preemption_flags(decisions):
    return [cost(prev, pk, en, chosen) for (prev, pk, chosen, en) in decisions]


class Stats:
    def __init__(self):
        self.runs = 0
        self.steps = 0
        self.validated = 0
        self.branches = {}
        self.distinct = set()
        self.scen = []
        self.notes = {}
        self.samples = []


def explore_scenario(ctx, exe, drv, a, b, bound, budget, stats, stop_on_problem=True):
    """all schedules of (a, b) with at most `bound` pre-emptions (at most `budget` runs).
    Returns (problems, exhaustive, nruns); problem = dict(kind, run, detail)."""
    problems = []
    frontier = [[]]
    nruns = 0
    exhaustive = True
    while frontier:
        if nruns >= budget:
            exhaustive = False
            break
        batch = frontier[:min(len(frontier), 1500, budget - nruns)]
        frontier = frontier[len(batch):]
        lines = [case_line("s%d" % (nruns + i), a, b, p) for i, p in enumerate(batch)]
        runs = run_impl(exe, lines)
        nruns += len(runs)
        mcases = []
        for r, p in zip(runs, batch):
            sched = r.schedule if r.schedule is not None else ",".join(str(d[2]) for d in r.decisions)
            mcases.append("case %s A=%s B=%s sched=%s" % (r.cid.split()[0], a or "-", b or "-", sched or "-"))
        rc_m, mres, err_m = run_model(drv, mcases)
        if rc_m != 0 or len(mres) != len(runs):
            problems.append({"kind": "model-crash", "detail": (err_m or "")[-500:] + " cases=%d results=%d" % (len(runs), len(mres))})
            break
        for (r, p), (mlines, labels) in zip(zip(runs, batch), mres):
            stats.runs += 1
            stats.steps += len(r.decisions)
            for l in labels:
                l2 = l[2:]  # role-agnostic
                stats.branches[l2] = stats.branches.get(l2, 0) + 1
            if any(any(k in l for k in INTERESTING) for l in labels):
                stats.distinct.add(C.sha("%s|%s|%s" % (a, b, " ".join(sorted(set(labels))))))
            for n in r.notes:
                k = n.split()[1]
                stats.notes[k] = stats.notes.get(k, 0) + 1
            sched = [d[2] for d in r.decisions]
            if r.oracle:
                problems.append({"kind": "oracle", "a": a, "b": b, "sched": sched, "msg": r.oracle[0], "terminal": r.terminal})
            elif r.terminal and r.terminal.startswith("CRASH"):
                problems.append({"kind": "crash", "a": a, "b": b, "sched": sched, "msg": r.terminal})
            impl_lines = r.lines
            model_lines = mlines
            if r.terminal and r.terminal not in ("DEADLOCK",):
                # HANG / STEP-LIMIT / MISUSE / CRASH: compare the common prefix only
                k = min(len(impl_lines), len(model_lines))
                if model_lines and model_lines[-1].startswith(("end ", "deadlock ")):
                    k = min(k, len(model_lines) - 1)
                impl_lines, model_lines = impl_lines[:k], model_lines[:k]
            d = C.first_diff(list(impl_lines), list(model_lines))
            if d is not None:
                problems.append({"kind": "diff", "a": a, "b": b, "sched": sched, "line": d,
                                 "impl": impl_lines[d] if d < len(impl_lines) else "<eof>",
                                 "model": model_lines[d] if d < len(model_lines) else "<eof>"})
            else:
                stats.validated += 1
            # extend
            if r.terminal and r.terminal.startswith("CRASH"):
                continue
            flags = preemption_flags(r.decisions)
            cum = 0
            for i, (prev, pk, chosen, en) in enumerate(r.decisions):
                if i >= len(p):
                    for alt in en:
                        if alt == chosen:
                            continue
                        if cum + cost(prev, pk, en, alt) <= bound:
                            frontier.append(sched[:i] + [alt])
                cum += flags[i]
        if stop_on_problem and any(p["kind"] in ("oracle", "crash", "model-crash") for p in problems):
            exhaustive = False
            break
        if sum(1 for p in problems if p["kind"] == "diff") > 200:
            exhaustive = False
            break
    return problems, exhaustive, nruns


# --------------------------------------------------------------- generators
def random_script(rng, nmax):
    """two scripts with at most nmax operations in total; A ends with stop; A's frame calls only
    where they cannot block for ever (un-gated run, or a trigger issued since the last frame call);
    B never starts the camera."""
    n = rng.randrange(3, nmax + 1)
    nb = rng.randrange(0, min(4, n - 1))
    na = n - nb - 1
    a, b = [], []
    enable, running, gated, trig_since = False, False, False, False
    b_gets = nb > 0
    for _ in range(na):
        cand = ["on", "off", "trig"]
        cand += ["stop", "trig"] if running else ["start", "start"]
        if running and not b_gets and (not gated and not enable or trig_since):
            cand += ["get", "get"]
        op = rng.choice(cand)
        if op == "on":
            enable = True
        elif op == "off":
            enable = False
            gated = False
        elif op == "start":
            running, gated, trig_since = True, enable, False
        elif op == "stop":
            running = False
        elif op == "trig":
            trig_since = running
        elif op == "get":
            trig_since = False
        a.append(op)
    a.append("stop")
    for _ in range(nb):
        b.append(rng.choice(["get", "get", "get", "trig", "stop", "on", "off"]))
    return ",".join(a), (",".join(b) if b else "-")


def directed_from_diff(p):
    """scripts derived from a point of disagreement: the history up to each start, followed by a frame
    call (is a frame handed out that the property forbids?) and the closing stop"""
    a = p["a"].split(",") if p["a"] != "-" else []
    out = []
    for i, op in enumerate(a):
        if op == "start":
            out.append((",".join(a[:i + 1] + ["get", "stop"]), "-"))
            out.append((",".join(a[:i + 1] + ["stop"]), "get,get,get,get"))
    return out


# ------------------------------------------------------------------ shrink
def find_violation(exe, drv, a, b, bound, budget, kind):
    st = Stats()
    pr, _, _ = explore_scenario(None, exe, drv, a, b, bound, budget, st)
    for p in pr:
        if p["kind"] == "oracle" and p["msg"].split()[1] == kind:
            return p
    return None


def minimise(exe, drv, prob, bound):
    kind = prob["msg"].split()[1]
    a = prob["a"].split(",") if prob["a"] != "-" else []
    b = prob["b"].split(",") if prob["b"] != "-" else []
    items = [("a", x) for x in a] + [("b", x) for x in b]
    best = {"p": prob}

    def fails(xs):
        aa = ",".join(x for w, x in xs if w == "a") or "-"
        bb = ",".join(x for w, x in xs if w == "b") or "-"
        if not aa.endswith("stop"):
            return False
        p = find_violation(exe, drv, aa, bb, bound, 400, kind)
        if p:
            best["p"] = p
            return True
        return False

    C.ddmin(items, fails, max_runs=60)
    return best["p"]


def report(ctx, exe, drv, prob, bound):
    kind = prob["msg"].split()[1]
    sig = "h_simcam_conc:%s" % kind
    if any(v["signature"] == sig for v in ctx.violations):
        small = prob
    else:
        small = minimise(exe, drv, prob, bound)
    line = case_line("replay", small["a"], small["b"], small["sched"], dfs=False)
    ctx.violation("oracle", sig,
                  "real simulated.camera.c violates the property: %s on `%s`" % (small["msg"], line),
                  {"harness": "h_simcam_conc", "case": line, "oracle": small["msg"], "terminal": small.get("terminal")})


# --------------------------------------------------------------------- run
def corpus_cases():
    out = []
    for f in C.corpus_files("C18"):
        for l in open(f):
            l = l.strip()
            if l.startswith("case "):
                toks = dict(t.split("=", 1) for t in l.split() if "=" in t)
                out.append((toks.get("A", "-"), toks.get("B", "-"), [int(x) for x in toks.get("sched", "-").split(",") if x.strip("-").isdigit()] if toks.get("sched", "-") != "-" else []))
    return out


def regenerate_lock_table(ctx):
    """Generated/SimcamSync.lean: every access to the camera object's fields with the lock state, from the source as it is now
    (extract/simskel.py); the interleaving model's step granularity is sound only under the lock discipline proved over this table"""
    import sys
    sys.path.insert(0, os.path.join(C.VERIF, "extract"))
    import simskel as X
    path = os.path.join(C.LEAN, "AcqVerif", "Generated", "SimcamSync.lean")
    try:
        w, entry = X.extract(C.REPO)
        text = X.lean_source(w, entry)
    except Exception as ex:   # fail closed
        ctx.corr_broken.append({"what": "lock-discipline extractor could not analyse simulated.camera.c", "error": str(ex)[:500]})
        return False
    old = open(path).read() if os.path.exists(path) else None
    if old != text:
        with C.LakeLock():
            with open(path, "w") as f:
                f.write(text)
    ctx.cov["simcam_lock_table"] = {"accesses": text.count("\n  (\""), "entry_functions": entry, "changed_this_run": old != text}
    return True


def run(ctx):
    regenerate_lock_table(ctx)
    from . import rtcheck
    rtcheck.prove_all(ctx, [(MODULE, THEOREMS, DRIVERS),
                            ("AcqVerif.Props.SimcamLock", ["AcqVerif.SimcamLock.unlocked_accesses_are_the_known_ones",
                                                           "AcqVerif.SimcamLock.frame_state_is_guarded", "AcqVerif.SimcamLock.waits_hold_the_lock"], [])])
    from . import platconf
    platconf.run(ctx)        # the real platform.c keeps the contract detsched stands for (join waits for every joiner, notify_all wakes all, ...)
    exe, drv = build(ctx)
    stats = Stats()
    if not exe:
        return
    thorough = ctx.tier == "thorough"
    bound = 3 if thorough else 2
    budget = 9000 if thorough else 2500
    scen = [(a, b, budget) for a, b in SCENARIOS]
    nrand = 50 if thorough else 14
    for _ in range(nrand):
        a, b = random_script(ctx.rng, 11 if thorough else 8)
        scen.append((a, b, budget // 2))
    all_exhaustive = True
    directed = []
    # corpus first: the recorded schedule, then the scenario's enumeration
    for a, b, sched in corpus_cases():
        runs = run_impl(exe, [case_line("corpus", a, b, sched, dfs=False)])
        for r in runs:
            stats.runs += 1
            if r.oracle:
                report(ctx, exe, drv, {"kind": "oracle", "a": a, "b": b, "sched": sched, "msg": r.oracle[0], "terminal": r.terminal}, bound)
        scen.insert(0, (a, b, budget // 2))
    for a, b, bud in scen:
        if len(ctx.violations) > 3 or len(ctx.corr_broken) > 12:
            all_exhaustive = False
            break
        problems, exhaustive, nruns = explore_scenario(ctx, exe, drv, a, b, bound, bud, stats)
        stats.scen.append({"A": a, "B": b, "schedules": nruns, "all_with_le_%d_preemptions" % bound: exhaustive})
        all_exhaustive = all_exhaustive and exhaustive
        seen_diff = False
        for p in problems:
            if p["kind"] == "oracle":
                report(ctx, exe, drv, p, bound)
            elif p["kind"] == "crash":
                ctx.violation("crash", "h_simcam_conc:crash", "simulated.camera.c crashed / sanitizer report: %s" % p["msg"][-600:],
                              {"harness": "h_simcam_conc", "case": case_line("replay", p["a"], p["b"], p["sched"], dfs=False)})
            elif p["kind"] == "diff" and not seen_diff:
                seen_diff = True
                directed.extend(directed_from_diff(p))
                ctx.corr_broken.append({"what": "simulated.camera.c on detsched and the Lean model disagree",
                                        "case": case_line("replay", p["a"], p["b"], p["sched"], dfs=False),
                                        "line": p["line"], "impl": p["impl"], "model": p["model"]})
            elif p["kind"] == "model-crash":
                ctx.corr_broken.append({"what": "model driver failed", "detail": p["detail"]})
    # directed search: the model and the code disagreed and the oracle has not failed yet
    tried = set()
    for a, b in directed:
        if ctx.violations or (a, b) in tried or len(tried) > 12:
            break
        tried.add((a, b))
        problems, _, _ = explore_scenario(ctx, exe, drv, a, b, bound, 600, stats)
        for p in problems:
            if p["kind"] == "oracle":
                report(ctx, exe, drv, p, bound)
    ctx.cov["evaluations"] = stats.runs
    ctx.cov["distinct_nontrivial"] = len(stats.distinct)
    ctx.cov["traces_validated_against_impl"] = stats.validated
    ctx.cov["scheduler_steps_compared"] = stats.steps
    ctx.cov["rule"] = ("case = (caller scripts A,B of <= %d operations in total over {on,off,start,stop,trig,get}, schedule); for each of %d scenarios "
                       "(%d hand-made + %d seeded random) every schedule with <= %d pre-emptions is run (budget %d runs per scenario; `schedules`/exhaustive flag per "
                       "scenario below) on the real code under detsched and through the model with the same decision list; every line (thread, yield point, "
                       "shared fields, parking point and enabledness of all threads, call results) is compared. A case is non-trivial if it takes a sleeping / "
                       "waking / stop / restart / internal-trigger branch; distinct = distinct (scripts, set of model branches)." % (
                           11 if thorough else 8, len(scen), len(SCENARIOS), nrand, bound, budget))
    ctx.cov["exhaustive"] = bool(all_exhaustive)
    ctx.cov["scenarios"] = stats.scen
    ctx.cov["model_branch_hits"] = dict(sorted(stats.branches.items()))
    ctx.cov["harness_notes"] = stats.notes
    ctx.cov["samples"] = [{"A": s["A"], "B": s["B"], "schedules": s["schedules"]} for s in stats.scen[:3]]
    ctx.cov["trusted_base"] = ctx.cov["trusted_base"] + [
        "harness/detsched implements mutex / condition-variable / join semantics faithfully (self-test harness/detsched/selftest.c)",
        "atomicity: a step is what a thread does between two synchronisation calls; plain loads/stores of the flag bytes are sequentially consistent",
    ]
    ctx.assumptions += [
        "model is of the repaired simcam_start (fixes/18-simcam-start-clears-stale-trigger.patch)",
        "callers: two threads; `start` only while the HAL state is not Running and the other caller is between two calls (ill-formed otherwise, skipped on both sides)",
        "simcam_set never fails (binning 1, small shape), camera kind Empty (rendering is a no-op)",
        "virtual time: clock_sleep_ms is a pure yield",
        "fairness of the OS scheduler for the 'stop returns' conclusion; the theorems give the invariants and the measure",
    ]
    if stats.notes.get("frame-call-blocked-without-stop"):
        ctx.notes.append("frame calls blocked without a stop (not a violation of C18; e.g. simcam_set switching the trigger off races with the streamer, or no trigger is issued): %d runs" % stats.notes["frame-call-blocked-without-stop"])


def replay(ctx, path):
    obj = json.load(open(path))
    rep = obj.get("replay", obj)
    exe, drv = build(ctx)
    if not exe:
        print("cannot build the harness")
        return 2
    line = rep["case"]
    runs = run_impl(exe, [line])
    bad = 0
    for r in runs:
        for l in r.lines:
            print(l)
        for o in r.oracle:
            print(o)
            bad = 1
        if r.terminal:
            print("terminal: %s schedule=%s" % (r.terminal, r.schedule))
    print("REPRODUCED" if bad else "not reproduced")
    return 1 if bad else 0
