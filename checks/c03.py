"""C03 — a blocked writer always resumes when space is released or writes are refused.

Lean: interleaving model of channel.c at synchronisation-call granularity
(AcqVerif.Channel.Conc) with the no-lost-wake-up invariant and progress lemmas.
Tie: (1) the lock-discipline extractor (extract/syncskel.py) regenerates
Generated/SyncSkeleton.lean from channel.c on every run; (2) the real channel.c is
run on the deterministic scheduler (harness/detsched) on generated scenarios x
enumerated schedules and co-simulated step by step with the model (`acq_conc`).
Oracle (implementation only): at DEADLOCK, a writer asleep in channel_write_map
although next_write() admits its request or writes are refused.
"""
import os, re, subprocess, sys
from . import common as C, chan

MODULE = "AcqVerif.Props.C03"
DRIVERS = ["acq_conc", "acq_chan", "AcqVerif.Channel.Refine"]
THEOREMS = ["AcqVerif.C03.%s" % t for t in (
    "no_lost_wakeup", "notifier_wakes_all", "lock_held_only_at_wait_entry", "not_stuck_while_admissible",
    "refusal_returns_null", "space_when_drained", "woken_writer_returns", "reader_drains_in_three_reads")] + [
    "AcqVerif.LockDiscipline.lock_discipline_of_source"]

EAGER = ("create", "join", "exit")


def build(ctx):
    ok, log, failed = C.lake_build(["acq_conc", "acq_chan"])   # (the executables only: a proof module that no longer checks is reported by prove)
    if not ok:
        ctx.corr_broken.append({"what": "model drivers do not build", "log": log[-2000:]})
        return None
    exe, log = C.compile_harness(
        "h_chan_conc",
        [os.path.join(C.VERIF, "harness/chan/h_chan_conc.c"), os.path.join(C.VERIF, "harness/detsched/detsched.c")],
        includes=[os.path.join(C.VERIF, "harness/detsched")], san=False)
    if not exe:
        ctx.corr_broken.append({"what": "harness h_chan_conc does not compile against /repo", "log": log[-3000:]})
        return None
    return exe


# ------------------------------------------------------------------ scenarios
def wf_prefix(rng, cap, nops, nreaders):
    """a well-formed, non-blocking set-up history: generated blindly, then filtered through the
    sequential model (ill-formed and blocking operations change nothing and are dropped)."""
    ops = chan.gen_random(rng, cap, nops, nreaders)
    ops = [o for o in ops if not o.startswith("accept")]
    script = "new %d\n" % cap + "\n".join(ops) + "\n"
    rc, out, err = C.run_lines(C.driver_path("acq_chan"), script, timeout=60)
    keep = []
    lines = [l for l in out if l]
    state = None
    for op, res in zip(ops, lines[1:]):
        if res.startswith("illformed") or res.startswith("block") or res.startswith("null"):
            continue
        keep.append(op)
        state = res
    return keep, state


def parse_state(line):
    """digest of acq_chan: `<out> | head high cycle mapped acc n [holds] | [rds] | total ~label`"""
    m = re.search(r"\| (\d+) (\d+) (\d+) (\d+) (\d) (\d+) \[([^\]]*)\] \| \[([^\]]*)\]", line)
    if not m:
        return None
    head, high, cycle, mapped, acc, n = map(int, m.groups()[:6])
    rds = [tuple(map(int, r.split(":"))) for r in m.group(8).split()] if m.group(8) else []
    return {"head": head, "high": high, "cycle": cycle, "mapped": mapped, "n": n, "rds": rds}


def gen_scenarios(rng, count, thorough):
    scen = []
    tries = 0
    while len(scen) < count and tries < count * 20:
        tries += 1
        cap = rng.choice([4, 8, 16, 16, 24])
        nr = rng.choice([1, 1, 2, 2, 3] if thorough else [1, 1, 2])
        pre, state = wf_prefix(rng, cap, rng.choice([10, 25, 60]), nr)
        st = parse_state(state) if state else None
        if not st or st["n"] == 0:
            continue
        pending = st["mapped"] != st["head"]
        if pending:
            pre.append(rng.choice(["wcommit", "wabort"]))
        # writer: a request likely to block
        n = rng.choice([cap - 1, cap - 1, cap // 2, cap // 2 + 1, max(1, cap - 2), rng.randrange(1, cap)])
        threads = ["wmap %d ; wcommit" % n]
        kind = rng.choice(["R", "A", "RA", "RR", "R2", "AR"])
        rds = st["rds"]
        def reader_prog(i, rounds):
            mapped = rds[i][4] == 1
            prog = []
            for _ in range(rounds):
                if not mapped:
                    prog.append("rmap %d" % i)
                prog.append("runmap %d %d" % (i, rng.choice([99, 99, 99, 1, 3])))
                mapped = False
            return " ; ".join(prog)
        if "R" in kind:
            threads.append(reader_prog(0, 2 if kind == "R2" else 1))
        if kind == "RR" and len(rds) > 1:
            threads.append(reader_prog(1, 1))
        if "A" in kind:
            threads.append(rng.choice(["accept 0", "accept 0", "accept 0 ; accept 1"]))
        scen.append({"cap": cap, "pre": pre, "threads": threads})
    return scen


def scenario_text(sc):
    return "cap %d\n" % sc["cap"] + "".join("pre %s\n" % p for p in sc["pre"]) + "".join("thread %s\n" % t for t in sc["threads"])


def parse_runs(out_lines):
    """split harness output into runs; each run = dict(lines=[...], decisions=[(tid,kind,pending)], end=str)"""
    runs, cur = [], None
    for ln in out_lines:
        if ln == "RUN":
            cur = {"lines": [], "dec": [], "end": None, "oracle": []}
            runs.append(cur)
            continue
        if cur is None:
            continue
        if ln.startswith("D "):
            parts = ln.split()
            cur["dec"].append([int(parts[1]), parts[2], None])
            if parts[1] != "0":
                cur["lines"].append(ln)
        elif ln.startswith("P"):
            pend = {}
            for tok in ln.split()[1:]:
                t, k, e = tok.split(":")
                pend[int(t)] = (k, e == "1")
            if cur["dec"]:
                cur["dec"][-1][2] = pend
        elif ln.startswith("R ") or ln.startswith("F "):
            cur["lines"].append(ln)
        elif ln.startswith("END"):
            cur["end"] = ln
            cur["lines"].append(ln)
        elif ln.startswith("ORACLE"):
            cur["oracle"].append(ln)
    return runs


def run_harness(exe, sc, prefixes, timeout=300):
    text = scenario_text(sc) + "".join("run %s\n" % ",".join(map(str, p)) for p in prefixes)
    rc, out, err = C.run_lines(exe, text, timeout=timeout)
    return parse_runs(out), rc, err


def enumerate_schedules(exe, sc, max_runs):
    """stateless DFS over the scheduler's decisions; START/CREATE/JOIN/EXIT steps are taken eagerly
    (they commute with everything), all other enabled worker steps are branched on."""
    done, seen = [], set()
    frontier = [[]]
    nruns = 0
    truncated = False
    while frontier and nruns < max_runs:
        batch, frontier = frontier[:64], frontier[64:]
        runs, rc, err = run_harness(exe, sc, batch)
        nruns += len(batch)
        for prefix, run in zip(batch, runs):
            dec = run["dec"]
            tids = [d[0] for d in dec]
            canonical = True
            for j in range(len(prefix), len(dec)):
                pend = dec[j][2] or {}
                en = [t for t, (k, e) in pend.items() if e]
                eager = [t for t in en if pend[t][0] in EAGER]
                if eager:
                    want = min(eager)
                    if tids[j] != want:
                        frontier.append(tids[:j] + [want])
                        canonical = False
                        break
                else:
                    for alt in en:
                        if alt != tids[j]:
                            key = tuple(tids[:j] + [alt])
                            if key not in seen:
                                seen.add(key)
                                frontier.append(list(key))
            if canonical:
                done.append(run)
    if frontier:
        truncated = True
    return done, nruns, truncated


def model_runs(sc, runs):
    text = scenario_text(sc)
    for r in runs:
        text += "run %s\n" % ",".join(str(d[0]) for d in r["dec"] if d[0] != 0)
    rc, out, err = C.run_lines(C.driver_path("acq_conc"), text, timeout=300)
    res, cur = [], None
    for ln in out:
        if ln == "RUN":
            cur = []
            res.append(cur)
        elif cur is not None and ln:
            cur.append(ln)
    return res


def explore_scenarios(ctx, exe, scen, max_runs, ncorpus, oracle_kinds):
    """enumerate the schedules of every scenario on the real channel.c, co-simulate each run with the concurrent model and
    evaluate the implementation-side oracles named in oracle_kinds"""
    total_runs = validated = nontrivial = exhaustive_scen = 0
    kinds = {}
    distinct = set()
    samples = []
    for sc in scen:
        runs, nruns, truncated = enumerate_schedules(exe, sc, max_runs)
        total_runs += nruns
        if not truncated:
            exhaustive_scen += 1
        models = model_runs(sc, runs)
        for r, m in zip(runs, models + [None] * (len(runs) - len(models))):
            for d in r["dec"]:
                if d[0] != 0:
                    kinds[d[1]] = kinds.get(d[1], 0) + 1
            sched = [d[0] for d in r["dec"]]
            hits = [o for o in r["oracle"] if len(o.split()) > 1 and o.split()[1] in oracle_kinds]
            if hits:
                ctx.violation("oracle", "h_chan_conc:%s" % hits[0].split()[1],
                              "real channel.c: %s under schedule %s of scenario %s" % (hits[0], sched, sc),
                              {"harness": "h_chan_conc", "scenario": sc, "schedule": sched})
            elif r["end"] and ("CRASH" in r["end"] or "MISUSE" in r["end"] or "STEP-LIMIT" in r["end"]):
                ctx.violation("crash", "h_chan_conc:%s" % r["end"].split()[1],
                              "real channel.c under detsched ended with %s, schedule %s, scenario %s" % (r["end"], sched, sc),
                              {"harness": "h_chan_conc", "scenario": sc, "schedule": sched})
            if m is None:
                ctx.corr_broken.append({"what": "model produced no run", "scenario": sc})
                continue
            d = C.first_diff(list(r["lines"]), list(m))
            if d is None:
                validated += 1
            elif len(ctx.corr_broken) < 5:
                ctx.corr_broken.append({"what": "channel.c under detsched and the concurrent model disagree", "scenario": sc,
                                        "schedule": sched, "line": d,
                                        "impl": r["lines"][d] if d < len(r["lines"]) else "<eof>",
                                        "model": m[d] if d < len(m) else "<eof>"})
            ks = set(x[1] for x in r["dec"] if x[0] != 0)
            if "wait" in ks or "reacq" in ks:
                nontrivial += 1
                distinct.add(C.sha(str(sc) + str(sched)))
        if len(samples) < 3 and runs:
            samples.append({"scenario": sc, "schedule": [d[0] for d in runs[0]["dec"]], "end": runs[0]["end"]})
        if (len(ctx.violations) > 3 or len(ctx.corr_broken) > 3) and scen.index(sc) >= ncorpus:
            break
    return {"total_runs": total_runs, "validated": validated, "nontrivial": nontrivial, "exhaustive_scen": exhaustive_scen,
            "kinds": kinds, "distinct": distinct, "samples": samples}


def gen_overtake(rng, count):
    """C01/C02 under concurrency: two or three readers, the writer blocks for lack of space, and while it sleeps the reader that
    was furthest behind overtakes another one — the writer has to size its region against the reader that is slowest *now*."""
    scen = []
    for _ in range(count):
        cap = rng.choice([8, 10, 16, 24])
        nr = rng.choice([2, 2, 3])
        W = rng.randrange(cap // 2 + 1, cap)            # committed bytes, one write
        slow = rng.randrange(nr)                          # consumes nothing before the writer blocks, then everything
        pre = ["join"] * nr + ["runmap %d 0" % i for i in range(nr)] + ["wmap %d" % W, "wcommit"] + ["rmap %d" % i for i in range(nr)]
        part = {}
        for i in range(nr):
            if i != slow:
                part[i] = rng.randrange(1, W)
                pre.append("runmap %d %d" % (i, part[i]))
        b = min(part.values())
        lo = max(cap - W, b) + 1                          # fits neither behind the data nor in front of the slowest other reader
        n = rng.randrange(lo, W + 1) if lo <= W else rng.randrange(1, cap)
        threads = ["wmap %d ; wcommit" % n, "runmap %d 99" % slow]
        if rng.random() < 0.5:
            j = min(part, key=part.get)
            threads.append("rmap %d ; runmap %d 99" % (j, j))
        scen.append({"cap": cap, "pre": pre, "threads": threads})
    return scen


def conc_part(ctx, oracle_kinds, nscen, max_runs):
    """the concurrent part of the C01 / C02 checks (their sequential model assumes atomic calls; what a writer does after it has
    slept is outside that model): directed + general scenarios on detsched, co-simulated with the concurrent model"""
    exe = build(ctx)
    if not exe:
        return
    scen = []
    for f in C.corpus_files("chan-conc"):
        sc = {"cap": 16, "pre": [], "threads": []}
        for l in open(f):
            l = l.strip()
            if l.startswith("cap "): sc["cap"] = int(l[4:])
            elif l.startswith("pre "): sc["pre"].append(l[4:])
            elif l.startswith("thread "): sc["threads"].append(l[7:])
        scen.append(sc)
    ncorpus = len(scen)
    scen += gen_overtake(ctx.rng, nscen) + gen_scenarios(ctx.rng, nscen // 2, True)
    st = explore_scenarios(ctx, exe, scen, max_runs, ncorpus, oracle_kinds)
    ctx.cov["concurrent_part"] = {"scenarios": len(scen), "runs": st["total_runs"], "agree_with_concurrent_model": st["validated"],
                                  "writer_slept_in": st["nontrivial"], "scenarios_enumerated_completely": st["exhaustive_scen"],
                                  "rule": "readers overtake each other while the writer sleeps (directed) + C03's general scenarios; schedules by stateless DFS; "
                                          "oracle: a region handed to the writer covers no unconsumed byte of any registered reader"}


def run(ctx):
    from . import syncskel, chantr, rtcheck
    syncskel.regenerate(ctx)
    chantr.regenerate(ctx)
    rtcheck.prove_all(ctx, [(MODULE, THEOREMS, DRIVERS), (chantr.MODULE, chantr.THEOREMS, [])])
    ctx.assumptions += chan.ASSUMPTIONS + [
        "detsched implements mutex/condition-variable semantics faithfully; a step = everything a thread does between two synchronisation calls; sequential consistency of plain loads/stores",
        "fairness of the OS scheduler for every 'eventually' conclusion (the theorems give bounded progress once the enabled thread is scheduled)",
        "a reader handle is used by one thread at a time; one writer thread",
    ]
    from . import platconf
    platconf.run(ctx)        # the real platform.c keeps the contract detsched stands for: notify_all wakes every waiter, join waits, ...
    exe = build(ctx)
    if not exe:
        return
    thorough = ctx.tier == "thorough"
    nscen = 400 if thorough else 60
    max_runs = 1500 if thorough else 220
    scen = []
    # corpus scenarios first
    for f in C.corpus_files("C03"):
        sc = {"cap": 16, "pre": [], "threads": []}
        for l in open(f):
            l = l.strip()
            if l.startswith("cap "): sc["cap"] = int(l[4:])
            elif l.startswith("pre "): sc["pre"].append(l[4:])
            elif l.startswith("thread "): sc["threads"].append(l[7:])
        scen.append(sc)
    ncorpus = len(scen)
    scen += gen_scenarios(ctx.rng, nscen, thorough)
    st = explore_scenarios(ctx, exe, scen, max_runs, ncorpus, ("lost-wakeup",))
    total_runs, validated, nontrivial, exhaustive_scen = st["total_runs"], st["validated"], st["nontrivial"], st["exhaustive_scen"]
    kinds, distinct, samples = st["kinds"], st["distinct"], st["samples"]
    ctx.cov["evaluations"] = total_runs
    ctx.cov["distinct_nontrivial"] = len(distinct)
    ctx.cov["traces_validated_against_impl"] = validated
    ctx.cov["rule"] = ("cases = (ring state from a well-formed set-up history) x (writer blocks on n) x (readers unmap / read; controller refuses or "
                       "re-accepts writes) x schedules enumerated by stateless DFS over detsched decisions (START/CREATE/JOIN taken eagerly; up to %d runs per "
                       "scenario; %d of %d scenarios enumerated completely). Non-trivial = the writer actually reached condition_variable_wait in that "
                       "schedule; distinct = distinct (scenario, schedule)." % (max_runs, exhaustive_scen, len(scen)))
    ctx.cov["samples"] = samples
    ctx.cov["scenarios"] = len(scen)
    ctx.cov["scheduler_step_kinds"] = kinds
    ctx.cov["exhaustive"] = False
    # the same claim where the writer really sleeps: the source of the running pipeline on a full ring, released by the readers or by
    # the refusal that acquire_abort / the sink's error path issue (and that nobody may withdraw before the source has been joined)
    from . import rtx
    ex = rtx.Explorer(ctx)
    if ex.build():
        keep = dict(ctx.cov)
        # (a monitor that has stopped consuming keeps the writer waiting legitimately — "once the readers have consumed enough" —
        # which is C07's known finding about acquire_stop, not a C03 matter)
        rel = lambda p: p["kind"] in ("crash", "diff") or (("never-returns" in p["msg"] or "never-returns" in p["sig"]) and "stalled-monitor" not in p["sig"])
        rtx.explore(ctx, ex, ["abort", "abortmon", "stofault", "avgabortmon"], 20 if thorough else 4, 10 if thorough else 5, rel)
        ctx.cov.update(keep)
        ctx.cov["pipeline_runs"] = {"runs": ex.stats["runs"], "per_class": ex.stats["per_class"], "ends": ex.stats["ends"],
                                    "cosim_runs": ex.stats["cosim_runs"], "cosim_agree": ex.stats["cosim_ok"], "decisions_compared": ex.stats["decisions"]}
        ctx.cov["rule"] += ("; pipeline level: classes abort/abortmon/stofault/avgabortmon of checks/rtx.py (source asleep on a full ring when abort, a "
                            "storage failure or stop arrives) with the HANG/DEADLOCK/STEP-LIMIT oracle and co-simulation against M1")


def replay(ctx, path):
    import json
    rep = json.load(open(path))
    r = rep.get("replay", {})
    if "harness_input" in r:
        from . import rtx
        return rtx.replay(ctx, path)
    if "scenario" not in r:
        print("replay file names no concrete input (%s)" % rep.get("kind"))
        return 1
    exe = build(ctx)
    if not exe:
        print("harness does not build"); return 1
    runs, rc, err = run_harness(exe, r["scenario"], [r["schedule"]])
    for run_ in runs:
        for ln in run_["lines"][-6:]:
            print(ln)
        for o in run_["oracle"]:
            print(o)
        if run_["oracle"] or (run_["end"] and any(k in run_["end"] for k in ("CRASH", "MISUSE", "STEP-LIMIT"))):
            print("VIOLATION property=%s replay=%s" % (ctx.prop, path))
            return 1
    print("not reproduced on the current tree")
    return 0
