"""C14 — raw files contain exactly the appended frames, byte for byte."""
from . import common as C, storage_io as S

MODULE = "AcqVerif.Props.C14"
DRIVERS = ["acq_storage", "acq_runtime"]
THEOREMS = ["AcqVerif.C14.fileWrite_ok", "AcqVerif.C14.C14_contents", "AcqVerif.C14.C14_contents_short_writes", "AcqVerif.C14.C14_grouping", "AcqVerif.C14.C14_uri"]
ORACLES = {"raw-file-differs", "opened-path-differs"}
INTERESTING = ("fw.short", "fw.zero", "uri.file", "pkt.2", "pkt.3", "fw.fail", "fw.zero3")


def run(ctx):
    if THEOREMS:
        ctx.prove(MODULE, THEOREMS, extra_targets=DRIVERS)
    exe, drv = S.build(ctx)
    if not exe:
        return
    rng = ctx.rng
    S.IGNORE_UNOWNED[0] = True
    thorough = ctx.tier == "thorough"
    stats = S.new_stats()
    batches = []
    corpus = S.load_corpus("C14")
    if corpus:
        batches.append(corpus)
    n = 10000 if thorough else 320
    # the named life cycles first (one acquisition, close while running, restart, two acquisitions, start while running / misuse, ...)
    batches.append([h.case(tag=name) for name, h in S.base_histories("raw")])
    cases = [S.random_history(rng, "raw", max_cycles=4, max_appends=5).case(tag="random") for _ in range(n)]
    calls = S.model_calls(drv, cases)
    for k, c in enumerate(cases):
        mode = k % 4
        if mode in (1, 2):
            c.faults = S.short_write_faults(rng, calls[k], rng.choice([0.15, 0.4, 0.8]))   # short-write patterns only
        elif mode == 3:
            c.faults = S.short_write_faults(rng, calls[k], 0.2) + S.random_faults(rng, len(calls[k]))  # hard failures too
    for i in range(0, len(cases), 2000):
        batches.append(cases[i:i + 2000])
    all_cases = []
    for b in batches:
        problems = S.run_batch(exe, drv, b, stats, ignore_unowned=True)
        S.report(ctx, exe, drv, b, problems, ORACLES, crash_is_mine=False)
        all_cases += b
        if len(ctx.corr_broken) > 6:
            break
    S.fill_cov(ctx, stats, all_cases, INTERESTING,
               "cases = histories of 1-4 set/start/append*/stop cycles on ONE raw device through the real HAL and the real "
               "linux/platform.c: %d seeded random histories (URIs plain and file://, names that begin like the scheme, fresh and "
               "re-used paths; 0-8 frames per packet, frame sizes 96+{0..300} bytes), a quarter without faults, half with "
               "short/zero-write scripts only, a quarter with hard failures as well; plus the corpus. After every operation the "
               "file's length and FNV hash are compared with the model's file system, and the harness compares the file with the "
               "packets it appended. Non-trivial = a short or zero write, a file:// URI or a multi-frame packet occurred; "
               "distinct = distinct (branch set, history shape, fault script)." % n)
    ctx.cov["exhaustive"] = False
    ctx.assumptions += S.ASSUMPTIONS
    # an acquisition beyond 4 GiB (microscopy data is that large): the model's offsets are unbounded naturals, the writer's are a
    # C integer type — 17 appends of one 256 MiB frame and 3 of a 1.5 GiB frame, with the writes intercepted (nothing is stored):
    # every write must be aimed at the number of bytes appended so far
    S.large_file_runs(ctx, exe, ("new raw\nset f:big -\nstart\nbig 268435456 17\nstop\nclose\n",
                                  "new raw\nset p:big2 -\nstart\nbig 1610612736 3\nbig 268435456 2\nstop\nclose\n"), "raw writer")


    # the device writes what it is handed *while* it is handed it: in the running pipeline the sink gives the raw device a region of
    # the ring and must keep it mapped until storage_append has returned — otherwise the producer overwrites the bytes being written
    # (small rings, slow storage: every append is a scheduling point of the deterministic scheduler, and M1 fixes the order of
    # channel_read_map / storage_append / channel_read_unmap decision by decision)
    from . import rtx
    thorough = ctx.tier == "thorough"
    rel = lambda p: p["kind"] in ("crash", "diff") or "stored-" in p["msg"] or "packet-" in p["msg"]
    rtx.pipeline_part(ctx, ["single", "delay", "two", "slowmon"], 30 if thorough else 6, 8 if thorough else 4, rel,
                      "bytes handed to storage_append stay as they are until it returns (stored frames = camera frames, in order, pixel for pixel)")


def replay(ctx, path):
    import json
    if "harness_input" in json.load(open(path)).get("replay", {}):
        from . import rtx
        return rtx.replay(ctx, path)
    return S.replay_file(ctx, path, ORACLES, False)
