"""Shared driver for the whole-runtime harness h_runtime (real acquire.c & friends on detsched + mock driver)."""
import os, re
from . import common as C

RT = "acquire-video-runtime/src/runtime/"
HAL = "acquire-core-libs/src/acquire-device-hal/device/hal/"
PROPS = "acquire-core-libs/src/acquire-device-properties/device/props/"
SOURCES = [os.path.join(C.VERIF, "harness/runtime/h_runtime.c"), os.path.join(C.VERIF, "harness/runtime/mockdrv.c"),
           os.path.join(C.VERIF, "harness/detsched/detsched.c")] + \
          [RT + f for f in ("source.c", "sink.c", "filter.c", "vfslice.c", "frame_iterator.c", "throttler.c", "channel.c")] + \
          [HAL + f for f in ("camera.c", "storage.c", "driver.c", "device.manager.cpp")] + \
          [PROPS + f for f in ("components.c", "device.c", "storage.c")] + \
          ["acquire-core-libs/src/acquire-core-logger/logger.c"]

ASSUMPTIONS = [
    "detsched implements the platform API's mutex/condvar/event/thread semantics faithfully; a step = everything a thread does between two yield points (synchronisation calls, clock sleeps, mock-driver entries); plain loads/stores of the flag bytes are sequentially consistent",
    "the mock driver stands for camera/storage drivers that obey their own contract (get_frame fills the buffer it is given, append consumes the packet); faults are the scripted ones",
    "ring capacity is overridden through a wrapper translation unit (acquire.c hard-wires 1 GiB); virtual time",
    "fairness of the OS scheduler for every 'returns' conclusion: HANG = some thread blocked while the state digest is unchanged for K rounds in which every enabled thread ran",
]


def build(ctx, name="h_runtime"):
    exe, log = C.compile_harness(
        name, SOURCES, includes=[os.path.join(C.VERIF, "harness/detsched"), os.path.join(C.VERIF, "harness/runtime"),
                                 os.path.join(C.VERIF, "harness/wrap"), os.path.join(C.REPO, "acquire-video-runtime/src")],
        defines=["NO_UNIT_TESTS", "driver_load=verif_driver_load"], cxx=True)
    if not exe:
        ctx.corr_broken.append({"what": "runtime harness does not compile against /repo", "log": log[-3000:]})
    return exe


def scenario_text(sc, runs):
    lines = ["reset", "ring %d" % sc["ring"], "limit %d" % sc.get("limit", 60000), "hang %d" % sc.get("hang", 6)]
    for f in sc.get("faults", []):
        lines.append(f if f.startswith("cam") and not f.startswith("cam ") else "fault " + f if f.split()[0] in ("cam", "sto") else f)
    lines.append("prog " + " ; ".join(sc["prog"]))
    for r in runs:
        lines.append("run " + r)
    return "\n".join(lines) + "\n"


def parse(out_lines):
    runs, cur = [], None
    for ln in out_lines:
        if ln.startswith("RUN "):
            cur = {"spec": ln[4:], "lines": [], "oracle": [], "end": None, "schedule": None, "acq": []}
            runs.append(cur)
        elif cur is None:
            continue
        elif ln.startswith("ORACLE "):
            cur["oracle"].append(ln[7:])
        elif ln.startswith("END "):
            cur["end"] = ln[4:]
        elif ln.startswith("DETSCHED-SCHEDULE"):
            cur["schedule"] = ln.split(None, 1)[1] if " " in ln else ""
        elif ln.startswith("ACQ "):
            cur["acq"].append(ln)
            cur["lines"].append(ln)
        elif ln:
            cur["lines"].append(ln)
    return runs


def run(exe, sc, runs, timeout=600):
    rc, out, err = C.run_lines(exe, scenario_text(sc, runs), timeout=timeout)
    res = parse(out)
    for r in res:
        if r["end"] is None:
            r["end"] = "CRASH (no END line) " + err[-400:].replace("\n", " | ")
    return res


def frame_bytes(w, h, bpp):
    return 8 * ((96 + w * h * bpp + 7) // 8)


BPP = {0: 1, 1: 2, 2: 1, 3: 2, 5: 2, 6: 2, 7: 2}


def oracle_kind(msg):
    """signature of an oracle message: its first token with numbers stripped"""
    return re.sub(r"\d+", "N", msg.split()[0])


# ---------------------------------------------------------------------------------- co-simulation with the Lean model M1
STATE_NAMES = {"Closed": "0", "AwaitingConfiguration": "1", "Armed": "2", "Running": "3"}


def model_scenario(sc):
    """translate a harness scenario (one configure, then a window of data-path ops) into the model driver's input"""
    lines = ["ring %d" % sc["ring"]]
    faults = sc.get("faults", [])
    for s, cfg in enumerate(sc["streams"]):
        if cfg is None:
            continue
        extra = ""
        for f in faults:
            t = f.split()
            if t[0] == "cam" and int(t[1]) == s:
                extra += " camfail=%s%s" % (t[2], "p" if len(t) > 3 else "")
            if t[0] == "sto" and int(t[1]) == s + 2:
                extra += " stofail=%s%s" % (t[2], "p" if len(t) > 3 else "")
            if t[0] == "camempty":
                extra += " camempty=%s" % t[1]
        lines.append("stream %d F=%d n=%d w=%d h=%d type=%d%s" % (s, frame_bytes(cfg["w"], cfg["h"], BPP[cfg["type"]]), cfg["n"],
                                                                  cfg["w"], cfg["h"], cfg["type"], extra))
    ops = []
    for op in sc["window"]:
        if op.startswith("reconfigure"):
            t = op.split()
            ops.append("configure %s %s" % (t[1], t[2] if len(t) > 2 else "0"))
        else:
            ops.append(op)
    lines.append("prog " + " ; ".join(ops))
    return lines


def _opts(cfg):
    """options M1 does not know because they must not matter: frame_average_count 0 and 1 both mean "no averaging" """
    return (" avg=%d" % cfg["avg"]) if "avg" in cfg else ""


def harness_prog(sc):
    prog = []
    for s, cfg in enumerate(sc["streams"]):
        if cfg is not None:
            prog.append("cfg %d cam=%d sto=%d w=%d h=%d type=%d n=%d" % (s, s, s + 2, cfg["w"], cfg["h"], cfg["type"], cfg["n"]) + _opts(cfg))
    prog += ["configure", "window"]
    for op in sc["window"]:
        if op.startswith("reconfigure"):
            t = op.split()
            ns = [int(t[1]), int(t[2]) if len(t) > 2 else 0]
            for s, cfg in enumerate(sc["streams"]):
                if cfg is not None:
                    prog.append("cfg %d cam=%d sto=%d w=%d h=%d type=%d n=%d" % (s, s, s + 2, cfg["w"], cfg["h"], cfg["type"], ns[s]) + _opts(cfg))
            prog.append("configure")
        else:
            prog.append(op)
    return prog + ["endwindow"]


def cosim_lines(raw_lines):
    """the comparable part of a harness run: D/S lines and API/DRV lines inside the window"""
    out, inside = [], False
    for ln in raw_lines:
        if ln == "WINDOW":
            inside = True
            continue
        if ln == "ENDWINDOW":
            inside = "last"
            continue
        if not inside:
            continue
        if inside == "last":
            if ln.startswith("S "):
                out.append(ln)
            inside = False
            continue
        if ln.startswith(("D ", "S ", "API ", "DRV ")):
            ln = re.sub(r" n=\d+$", "", ln)
            out.append(ln)
    return out


def decisions_of(lines):
    return [int(l.split()[1]) for l in lines if l.startswith("D ")]
