"""Shared driver for the whole-runtime harness h_runtime (real acquire.c & friends on detsched + mock driver)."""
import os, re
from . import common as C

RT = "acquire-video-runtime/src/runtime/"
HAL = "acquire-core-libs/src/acquire-device-hal/device/hal/"
PROPS = "acquire-core-libs/src/acquire-device-properties/device/props/"
SOURCES = [os.path.join(C.VERIF, "harness/runtime/h_runtime.c"), os.path.join(C.VERIF, "harness/runtime/mockdrv.c"),
           os.path.join(C.VERIF, "harness/detsched/detsched.c")] + \
          [RT + f for f in ("source.c", "sink.c", "filter.c", "vfslice.c", "frame_iterator.c", "throttler.c", "channel.c")] + \
          [HAL + f for f in ("camera.c", "storage.c", "driver.c", "device.manager.cpp")] + \
          [PROPS + f for f in ("components.c", "device.c", "storage.c")] + \
          ["acquire-core-libs/src/acquire-core-logger/logger.c"]

ASSUMPTIONS = [
    "detsched implements the platform API's mutex/condvar/event/thread semantics faithfully; a step = everything a thread does between two yield points (synchronisation calls, clock sleeps, mock-driver entries); plain loads/stores of the flag bytes are sequentially consistent",
    "the mock driver stands for camera/storage drivers that obey their own contract (get_frame fills the buffer it is given, append consumes the packet); faults are the scripted ones",
    "ring capacity is overridden through a wrapper translation unit (acquire.c hard-wires 1 GiB); virtual time",
    "fairness of the OS scheduler for every 'returns' conclusion: HANG = some thread blocked while the state digest is unchanged for K rounds in which every enabled thread ran",
]


def build(ctx, name="h_runtime"):
    exe, log = C.compile_harness(
        name, SOURCES, includes=[os.path.join(C.VERIF, "harness/detsched"), os.path.join(C.VERIF, "harness/runtime"),
                                 os.path.join(C.VERIF, "harness/wrap"), os.path.join(C.REPO, "acquire-video-runtime/src")],
        defines=["NO_UNIT_TESTS", "driver_load=verif_driver_load"], cxx=True)
    if not exe:
        ctx.corr_broken.append({"what": "runtime harness does not compile against /repo", "log": log[-3000:]})
    return exe


def scenario_text(sc, runs):
    lines = ["reset", "ring %d" % sc["ring"], "limit %d" % sc.get("limit", 60000), "hang %d" % sc.get("hang", 6)]
    for f in sc.get("faults", []):
        lines.append(f if f.startswith("cam") and not f.startswith("cam ") else "fault " + f if f.split()[0] in ("cam", "sto") else f)
    lines.append("prog " + " ; ".join(sc["prog"]))
    for r in runs:
        lines.append("run " + r)
    return "\n".join(lines) + "\n"


def parse(out_lines):
    runs, cur = [], None
    for ln in out_lines:
        if ln.startswith("RUN "):
            cur = {"spec": ln[4:], "lines": [], "oracle": [], "end": None, "schedule": None, "acq": []}
            runs.append(cur)
        elif cur is None:
            continue
        elif ln.startswith("ORACLE "):
            cur["oracle"].append(ln[7:])
        elif ln.startswith("END "):
            cur["end"] = ln[4:]
        elif ln.startswith("DETSCHED-SCHEDULE"):
            cur["schedule"] = ln.split(None, 1)[1] if " " in ln else ""
        elif ln.startswith("ACQ "):
            cur["acq"].append(ln)
            cur["lines"].append(ln)
        elif ln:
            cur["lines"].append(ln)
    return runs


def run(exe, sc, runs, timeout=600):
    rc, out, err = C.run_lines(exe, scenario_text(sc, runs), timeout=timeout)
    res = parse(out)
    for r in res:
        if r["end"] is None:
            r["end"] = "CRASH (no END line) " + err[-400:].replace("\n", " | ")
    return res


def frame_bytes(w, h, bpp):
    return 8 * ((96 + w * h * bpp + 7) // 8)


BPP = {0: 1, 1: 2, 2: 1, 3: 2, 5: 2, 6: 2, 7: 2}


def oracle_kind(msg):
    """signature of an oracle message: its first token with numbers stripped"""
    return re.sub(r"\d+", "N", msg.split()[0])
