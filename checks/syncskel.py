"""Regenerate lean/AcqVerif/Generated/SyncSkeleton.lean from the current channel.c (extract/syncskel.py)."""
import os, sys
from . import common as C
sys.path.insert(0, os.path.join(C.VERIF, "extract"))


def regenerate(ctx):
    import syncskel as X
    path = os.path.join(C.LEAN, "AcqVerif", "Generated", "SyncSkeleton.lean")
    try:
        w, public = X.extract(C.REPO)
        text = X.lean_source(w, public)
    except Exception as ex:  # fail closed: an AST shape the extractor does not understand breaks the tie
        ctx.corr_broken.append({"what": "lock-discipline extractor could not analyse channel.c", "error": str(ex)[:500]})
        return False
    old = open(path).read() if os.path.exists(path) else None
    if old != text:
        os.makedirs(os.path.dirname(path), exist_ok=True)
        with open(path, "w") as f:
            f.write(text)
    ctx.cov["sync_skeleton"] = {"accesses": len(w.acc), "waits": len(w.waits), "notifies": len(w.notifies), "functions": public}
    return True
