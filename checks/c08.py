"""C08 -- see checks/rtcheck.py (table entry "C08") and lean/AcqVerif/Props/C08.lean."""
from . import rtcheck

MODULE = rtcheck.TABLE["C08"]["module"]
DRIVERS = rtcheck.DRIVERS
THEOREMS = rtcheck.TABLE["C08"]["theorems"]
run = rtcheck.run
replay = rtcheck.replay
