"""Shared machinery of C14 and C16: harness h_storage_io (real storage devices + real
linux/platform.c with interposed system calls) versus the Lean model driver `acq_storage`."""
import atexit, os, re, shutil, struct
from . import common as C

HARNESS_SRC = [
    os.path.join(C.VERIF, "harness/storage_io/h_storage_io.c"),
    os.path.join(C.VERIF, "harness/storage_io/hal_storage_wrap.c"),
    "acquire-core-libs/src/acquire-device-hal/device/hal/driver.c",
    "acquire-driver-common/src/basics.driver.c",
    "acquire-driver-common/src/storage/basic.storage.c",
    "acquire-driver-common/src/storage/raw.c",
    "acquire-driver-common/src/storage/tiff.cpp",
    "acquire-driver-common/src/storage/side-by-side-tiff.cpp",
    "acquire-driver-common/src/storage/trash.c",
    "acquire-core-libs/src/acquire-core-platform/linux/platform.c",
    "acquire-core-libs/src/acquire-core-logger/logger.c",
    "acquire-core-libs/src/acquire-device-properties/device/props/storage.c",
    "acquire-core-libs/src/acquire-device-properties/device/props/components.c",
    "acquire-core-libs/src/acquire-device-properties/device/props/device.c",
]

# ---------------------------------------------------------------- frames
# struct VideoFrame layout; verified against the harness (`--layout`) on every run.
LAYOUT = {"sizeof": 96, "bytes_of_frame": 0, "width": 12, "height": 16, "type": 56, "frame_id": 64,
          "hardware_frame_id": 72, "ts_hardware": 80, "ts_acq_thread": 88}


def payload(fid, n):
    return bytes(((fid * 131 + i * 7 + (i >> 3)) ^ 0x5A) & 0xFF for i in range(n))


def frame_bytes(nimg, fid, pad_bytes_of_frame=None):
    """one VideoFrame: 96-byte header + nimg payload bytes (u8 image nimg x 1)."""
    h = bytearray(96)
    struct.pack_into("<Q", h, 0, 96 + nimg if pad_bytes_of_frame is None else pad_bytes_of_frame)
    struct.pack_into("<IIII", h, 8, 1, max(nimg, 1), 1, 1)            # channels, width, height, planes
    struct.pack_into("<qqqq", h, 24, 1, 1, max(nimg, 1), max(nimg, 1))  # strides
    struct.pack_into("<I", h, 56, 0)                                   # SampleType_u8
    struct.pack_into("<QQQQ", h, 64, fid, fid + 1000, 7 * fid + 3, 5 * fid + 11)
    return bytes(h) + payload(fid, nimg)


def desc_len(fid, meta, first):
    """strlen+1 of the ImageDescription tiff.cpp formats for this frame (what the strings write carries)."""
    s = '{"frame_id":%d,"hardware_frame_id":%d,"timestamps":{"runtime":%d,"hardware":%d}' % (
        fid, fid + 1000, 5 * fid + 11, 7 * fid + 3)
    if first and meta and meta != "-":
        s += ',"metadata":%s' % meta
    return len(s + "}") + 1


# ---------------------------------------------------------------- build
def build(ctx):
    ok, log, failed = C.lake_build(["acq_storage"])
    if not ok:
        ctx.corr_broken.append({"what": "model driver acq_storage does not build", "log": log[-2000:]})
        return None, None
    # one build directory per run: several checks (C14, C16, tiers, seeds) may run at the same time
    name = "h_storage_io_%s_%d" % (ctx.prop.lower(), os.getpid())
    atexit.register(shutil.rmtree, os.path.join(C.BUILD, name), True)
    exe, log = C.compile_harness(name, HARNESS_SRC, extra_flags=["-DNO_UNIT_TESTS"])
    if not exe:
        ctx.corr_broken.append({"what": "harness h_storage_io does not compile against the repository", "log": log[-3000:]})
        return None, None
    rc, out, err = C.sh([exe, "--layout"], timeout=20, env=C.SAN_ENV)
    got = dict((k, int(v)) for k, v in re.findall(r"(\w+)=(\d+)", out))
    if got != LAYOUT:
        ctx.corr_broken.append({"what": "struct VideoFrame layout differs from the one the generator and the model assume",
                                "expected": LAYOUT, "got": got})
        return None, None
    return exe, C.driver_path("acq_storage")


# ---------------------------------------------------------------- cases
class Case:
    """one device life: kind, fault tokens, operations (strings in the line protocol, without `new`/`faults`)"""

    def __init__(self, kind, ops, faults=(), tag=""):
        self.kind, self.ops, self.faults, self.tag = kind, list(ops), list(faults), tag

    def lines(self):
        out = ["new %s" % self.kind]
        if self.faults:
            out.append("faults " + " ".join(self.faults))
        return out + self.ops

    def with_ops(self, ops):
        return Case(self.kind, ops, self.faults, self.tag)


def append_op(kind, frames, meta):
    """frames: list of (nimg, fid).  For the TIFF kinds the token L=a/b,... gives, per frame, the size of the string
    section if the frame is the first of its file (the description then carries the metadata) / otherwise."""
    if not frames:
        return "append -"
    toks = [frame_bytes(n, fid).hex() for n, fid in frames]
    if kind in ("tiff", "sxs"):
        toks.append("L=" + ",".join("%d/%d" % (desc_len(fid, meta, True), desc_len(fid, meta, False)) for n, fid in frames))
    return "append " + " ".join(toks)


LABEL = re.compile(r" ~(\S+)$")
PW_OFF = re.compile(r"pwrite\(([^,]+),\d+,")


UNOWNED = re.compile(r" ?\b(?:close|pwrite|flock)\(![^)]*\)=\w+")


def canon(line, kind, ignore_unowned=False):
    line = line.rstrip()
    if kind != "raw":
        line = PW_OFF.sub(r"pwrite(\1,*,", line)   # TIFF offsets are property C15's subject
    if ignore_unowned:
        line = UNOWNED.sub("", line).replace("|  |", "| |").replace("| |", "|  |")
    return line


def split_cases(lines):
    """split an output stream into per-case line lists (a case starts at a line beginning with 'new ')"""
    cases, cur = [], None
    for ln in lines:
        if ln.startswith("new "):
            cur = []
            cases.append(cur)
        if cur is not None and ln != "":
            cur.append(ln)
    return cases


def run_batch(exe, drv, cases, stats, timeout=600, ignore_unowned=False):
    """Runs the cases through the real code and the model.  Returns a list of problems
    (case_index, kind, detail) with kind in {'oracle','crash','timeout','diff','model-crash'}."""
    script = "\n".join("\n".join(c.lines()) for c in cases) + "\n"
    tmp = os.path.join(C.BUILD, "tmp-storage")
    os.makedirs(tmp, exist_ok=True)
    rc_i, impl, err_i = C.run_lines(exe, script, timeout=timeout, args=[tmp, "10000"])
    rc_m, model, err_m = C.run_lines(drv, script, timeout=timeout)
    problems = []
    if rc_m != 0:
        problems.append((0, "model-crash", err_m[-800:]))
    if rc_i != 0:
        problems.append((0, "harness-failed", "exit %d: %s" % (rc_i, err_i[-800:])))
    ic, mc = split_cases(impl), split_cases(model)
    for ci, c in enumerate(cases):
        il = ic[ci] if ci < len(ic) else []
        ml = mc[ci] if ci < len(mc) else []
        ops_i, crashed = [], None
        oracles = []
        for ln in il:
            if ln.startswith("ORACLE "):
                oracles.append((len(ops_i) - 1, ln))
            elif ln.startswith("CRASH") or ln.startswith("TIMEOUT"):
                crashed = ln
            else:
                ops_i.append(canon(ln, c.kind, ignore_unowned))
        ops_m, labels = [], []
        for ln in ml:
            m = LABEL.search(ln)
            labels.append(m.group(1).split("+") if m else [])
            ops_m.append(canon(LABEL.sub("", ln), c.kind))
        for lno, msg in oracles:
            problems.append((ci, "oracle", {"line": lno, "msg": msg, "op": ops_i[lno] if 0 <= lno < len(ops_i) else ""}))
        if crashed:
            problems.append((ci, "timeout" if crashed.startswith("TIMEOUT") else "crash",
                             {"line": len(ops_i), "msg": crashed, "last": ops_i[-1] if ops_i else ""}))
        else:
            d = C.first_diff(list(ops_i), list(ops_m))
            if d is not None:
                problems.append((ci, "diff", {"line": d, "impl": ops_i[d] if d < len(ops_i) else "<eof>",
                                              "model": ops_m[d] if d < len(ops_m) else "<eof>"}))
            else:
                stats["validated"] += 1
        flat = set(l for ls in labels for l in ls)
        for ls in labels:
            for l in ls:
                stats["branches"][l] = stats["branches"].get(l, 0) + 1
        stats["evaluations"] += 1
        stats["ops"] += len(ops_m)
        stats["labels_of_case"].append(flat)
    return problems


def new_stats():
    return {"branches": {}, "evaluations": 0, "ops": 0, "validated": 0, "labels_of_case": []}


def oracle_kind(msg):
    p = msg.split()
    return p[1] if len(p) > 1 else msg


IGNORE_UNOWNED = [False]   # C14 sets this: calls on descriptors the device does not own are C16's subject


def single_problem(exe, drv, case, want):
    """does `case` alone still show a problem for which want(kind, detail) is true?"""
    st = new_stats()
    for _, k, det in run_batch(exe, drv, [case], st, timeout=60, ignore_unowned=IGNORE_UNOWNED[0]):
        if want(k, det):
            return True
    return False


def minimise(exe, drv, case, want, max_runs=60):
    ops = C.ddmin(case.ops, lambda xs: single_problem(exe, drv, case.with_ops(xs), want), max_runs=max_runs)
    small = case.with_ops(ops)
    # drop fault tokens that are not needed
    if len(small.faults) > 1:
        fl = C.ddmin(small.faults, lambda fs: single_problem(exe, drv, Case(small.kind, small.ops, fs), want), max_runs=20)
        small = Case(small.kind, small.ops, fl, small.tag)
    return small


def report(ctx, exe, drv, batch, problems, my_oracles, crash_is_mine):
    """turn problems into violations / broken correspondence.  my_oracles: oracle kinds of this property."""
    for ci, kind, det in problems:
        case = batch[ci] if ci < len(batch) else None
        if kind == "oracle":
            ok = oracle_kind(det["msg"])
            if ok not in my_oracles:
                continue
            sig = "h_storage_io:%s:%s" % (ok, case.kind)
            if any(v["signature"] == sig for v in ctx.violations):
                ctx.violation("oracle", sig, "", None)
                continue
            small = minimise(exe, drv, case, lambda k, d: k == "oracle" and oracle_kind(d["msg"]) == ok)
            ctx.violation("oracle", sig, "real %s device violates the property: %s ; minimised history: %s" % (
                case.kind, det["msg"], " ; ".join(small.lines())), {"harness": "h_storage_io", "script": small.lines()})
        elif kind in ("crash", "timeout"):
            if not crash_is_mine:
                continue
            sig = "h_storage_io:%s:%s" % (kind, case.kind)
            if any(v["signature"] == sig for v in ctx.violations):
                ctx.violation(kind, sig, "", None)
                continue
            small = minimise(exe, drv, case, lambda k, d: k == kind, max_runs=40)
            ctx.violation(kind, sig, "real %s device %s (%s) after `%s` ; minimised history: %s" % (
                case.kind, "crashes" if kind == "crash" else "hangs", det["msg"], det["last"], " ; ".join(small.lines())),
                {"harness": "h_storage_io", "script": small.lines()})
        elif kind == "diff":
            if len(ctx.corr_broken) < 4:
                small = case if ctx.corr_broken else minimise(exe, drv, case, lambda k, d: k == "diff", max_runs=40)
                ctx.corr_broken.append({"what": "storage devices and the Lean model disagree (%s)" % case.kind,
                                        "script": small.lines(), "at": det})
            else:
                ctx.corr_broken.append({"what": "disagreement", "kind": case.kind})
        else:
            ctx.corr_broken.append({"what": kind, "detail": det})


def replay_file(ctx, path, my_oracles, crash_is_mine):
    import json
    obj = json.load(open(path))
    script = obj.get("replay", obj).get("script") if isinstance(obj.get("replay", obj), dict) else None
    if not script:
        print("no script in replay file")
        return 2
    exe, drv = build(ctx)
    if not exe:
        print("cannot build harness")
        return 2
    tmp = os.path.join(C.BUILD, "tmp-storage")
    os.makedirs(tmp, exist_ok=True)
    large = bool(obj.get("replay", {}).get("large")) if isinstance(obj.get("replay"), dict) else False
    rc, out, err = C.run_lines(exe, "\n".join(script) + "\n", timeout=300 if large else 120, args=[tmp, "60000" if large else "10000"])
    bad = 0
    for ln in out:
        print(ln[:300])
        if ln.startswith("ORACLE ") and (my_oracles is None or oracle_kind(ln) in my_oracles):
            bad = 1
        if large and ln.startswith("big err"):
            bad = 1
        if crash_is_mine and (ln.startswith("CRASH") or ln.startswith("TIMEOUT")):
            bad = 1
    if err.strip():
        print(err[-1500:])
    print("VIOLATION reproduced" if bad else "no violation on this tree")
    return bad


# ---------------------------------------------------------------- histories
class Hist:
    """builder of a history for one device kind; keeps track of frame ids / frames-in-file for the description lengths"""

    def __init__(self, kind, meta="-"):
        self.kind, self.meta, self.ops = kind, meta, []
        self.fid = 0
        self.in_file = 0
        self.eff = "-"     # metadata the TIFF writers hold (the last valid one that was set)

    def set(self, uri, meta=None):
        m = self.meta if meta is None else meta
        if len(m) >= 2 and m[0] == "{" and m[-1] == "}":
            self.eff = m
        self.ops.append("set %s %s" % (uri, m))
        return self

    def start(self):
        self.ops.append("start")
        self.in_file = 0
        return self

    def stop(self):
        self.ops.append("stop")
        return self

    def close(self):
        self.ops.append("close")
        return self

    def append(self, sizes):
        frames = []
        for n in sizes:
            frames.append((n, self.fid))
            self.fid += 1
        self.ops.append(append_op(self.kind, frames, self.eff))
        self.in_file += len(frames)
        return self

    def case(self, faults=(), tag=""):
        return Case(self.kind, self.ops, faults, tag)


def base_histories(kind):
    """the life cycles property C16 names, with at most 3 appends each"""
    sz = (lambda *xs: list(xs)) if kind == "raw" else (lambda *xs: [8 * ((x + 7) // 8) for x in xs])
    u1, u2 = ("p:a", "f:b") if kind != "sxs" else ("p:da", "f:db")
    hs = []
    hs.append(("open-close", Hist(kind).close()))
    hs.append(("set-only", Hist(kind).set(u1).close()))
    hs.append(("set-twice", Hist(kind).set(u1).set(u2).close()))
    hs.append(("one-acq", Hist(kind).set(u1).start().append(sz(8)).stop().close()))
    hs.append(("close-running", Hist(kind, '{"a":1}').set(u2).start().append(sz(8, 3)).append(sz(16)).close()))
    hs.append(("restart", Hist(kind).set(u1).start().stop().start().append(sz(5)).stop().close()))
    hs.append(("two-acq", Hist(kind, '{"k":[1,2]}').set(u1).start().append(sz(8)).append(sz(0, 24)).stop()
               .set(u2).start().append(sz(8)).close()))
    hs.append(("misuse", Hist(kind).start().set(u1).start().start().append(sz(8)).stop().stop().append(sz(8)).close()))
    # an acquisition, then another one with the same device on the same path (after a failed write: the device must have let go of the file)
    hs.append(("retry-same-path", Hist(kind, '{"r":1}').set(u1).start().append(sz(8)).append(sz(16)).stop().set(u1).start().append(sz(8, 8)).stop().close()))
    # a start in the middle of an acquisition is refused and must leave the file being written alone
    hs.append(("start-while-running", Hist(kind).set(u1).start().append(sz(8)).start().append(sz(16, 3)).stop().close()))
    hs.append(("bad-meta", Hist(kind, "{x").set(u1).start().set(u1, "-").start().append(sz(8)).close()))
    return hs


CALL = re.compile(r"\b(open|flock|pwrite|close|mkdir)\(")


def calls_of(model_case_lines):
    out = []
    for ln in model_case_lines:
        body = LABEL.sub("", ln)
        out += CALL.findall(body.split(" | ", 1)[1] if " | " in body else "")
    return out


def fault_variants(i, ty):
    vs = [["%d=F" % i], ["from=%d" % i]]
    if ty == "pwrite":
        vs += [["%d=Z" % i], ["%d=S1" % i], ["%d=Z" % i, "%d=Z" % (i + 1), "%d=Z" % (i + 2)], ["%d=S3" % i, "%d=Z" % (i + 1)]]
    return vs


def model_calls(drv, cases):
    """system calls (kinds, in order) the model issues for each case as it stands"""
    script = "\n".join("\n".join(c.lines()) for c in cases) + "\n"
    rc, out, err = C.run_lines(drv, script, timeout=300)
    per = split_cases(out)
    return [calls_of(per[i]) if i < len(per) else [] for i in range(len(cases))]


def short_write_faults(rng, calls, density):
    """short / zero outcomes placed on pwrite calls (indices of the fault-free run)"""
    toks = []
    idx = [i for i, ty in enumerate(calls) if ty == "pwrite"]
    shift = 0
    for i in idx:
        if rng.random() < density:
            r = rng.random()
            if r < 0.55:
                toks.append("%d=S%d" % (i + shift, rng.choice([1, 2, 7, 50, 95, 96, 97, 150, rng.randint(1, 400)])))
                shift += 1
            elif r < 0.8:
                toks.append("%d=Z" % (i + shift))
                shift += 1
            elif r < 0.93:
                toks += ["%d=Z" % (i + shift), "%d=S%d" % (i + shift + 1, rng.choice([1, 3, 96])), "%d=Z" % (i + shift + 2)]
                shift += 3
            else:
                toks += ["%d=Z" % (i + shift), "%d=Z" % (i + shift + 1), "%d=Z" % (i + shift + 2)]
                shift += 2
    return toks


def exhaustive_fault_cases(drv, kinds=("raw", "tiff", "sxs", "trash"), only=None):
    """every fault index x fault kind of every base history (or of those named in `only`) of every device kind"""
    bases = []
    for k in kinds:
        for tag, h in base_histories(k):
            if only is None or tag in only:
                bases.append(h.case(tag="%s/%s" % (k, tag)))
    script = "\n".join("\n".join(c.lines()) for c in bases) + "\n"
    rc, out, err = C.run_lines(drv, script, timeout=120)
    per = split_cases(out)
    cases = list(bases)
    for c, lines in zip(bases, per):
        for i, ty in enumerate(calls_of(lines)):
            for fv in fault_variants(i, ty):
                cases.append(Case(c.kind, c.ops, fv, c.tag + "@" + ",".join(fv)))
    return cases


def random_history(rng, kind, max_cycles=3, max_appends=4, reuse_paths=True):
    meta = rng.choice(["-", "-", '{"a":1}', '{"name":"x","v":[1,2,3]}'])
    h = Hist(kind, meta)
    names = []
    ncyc = rng.randint(1, max_cycles)
    for c in range(ncyc):
        r = rng.random()
        if r < 0.75 or not names:
            nm = ("d%d" if kind == "sxs" else "n%d") % len(names)
            if rng.random() < 0.15 and kind != "sxs":
                nm = rng.choice(["file:x%d", "file%d", "fil%d.e", "file:/".replace("/", "_") + "%d"]) % len(names)
            names.append(nm)
            h.set(("f:" if rng.random() < 0.5 else "p:") + nm)
        elif reuse_paths and r < 0.85:
            h.set(("f:" if rng.random() < 0.5 else "p:") + rng.choice(names))
        if rng.random() < 0.93:
            h.start()
        for a in range(rng.randint(0, max_appends)):
            nf = rng.choice([1, 1, 2, 3, 0]) if rng.random() < 0.9 else rng.randint(4, 8)
            if kind == "raw":
                sizes = [rng.choice([0, 1, 3, 8, 13, 16, 64, 200, rng.randint(0, 300)]) for _ in range(nf)]
            else:
                sizes = [8 * rng.choice([0, 1, 2, 3, 8, 25]) for _ in range(nf)]
            h.append(sizes)
        if rng.random() < 0.8:
            h.stop()
    h.close()
    return h


def random_faults(rng, ncalls, short_only=False):
    toks = []
    n = rng.choice([0, 1, 1, 2, 3, 5]) if not short_only else rng.choice([1, 2, 3, 5, 8])
    used = set()
    for _ in range(n):
        i = rng.randrange(0, max(1, ncalls + 2))
        if i in used:
            continue
        used.add(i)
        r = rng.random()
        if short_only:
            toks.append("%d=%s" % (i, rng.choice(["S1", "S2", "S7", "S50", "S97", "Z", "S%d" % rng.randint(1, 400)])))
        elif r < 0.4:
            toks.append("%d=F" % i)
        elif r < 0.6:
            toks.append("%d=Z" % i)
        elif r < 0.9:
            toks.append("%d=S%d" % (i, rng.choice([1, 2, 5, 17, 100])))
        else:
            toks += ["%d=Z" % i, "%d=Z" % (i + 1), "%d=Z" % (i + 2)]
    if not short_only and rng.random() < 0.2:
        toks.append("from=%d" % rng.randrange(0, max(1, ncalls + 1)))
    return toks


# ---------------------------------------------------------------- corpus, coverage
def load_corpus(prop):
    """corpus/<prop>/*.txt: line-protocol scripts (one or more cases each)"""
    cases = []
    for f in C.corpus_files(prop):
        if not f.endswith(".txt"):
            continue
        cur = None
        for l in open(f):
            l = l.strip()
            if not l or l.startswith("#"):
                continue
            if l.startswith("new "):
                cur = Case(l.split()[1], [], [], tag="corpus/" + os.path.basename(f))
                cases.append(cur)
            elif cur is not None and l.startswith("faults "):
                cur.faults += l.split()[1:]
            elif cur is not None:
                cur.ops.append(l)
    return cases


def shape(case):
    return " ".join(o.split()[0] + (str(len([t for t in o.split()[1:] if not t.startswith("L=")])) if o.startswith("append") else "")
                    for o in case.ops)


def fill_cov(ctx, stats, cases, interesting, rule):
    distinct = set()
    for c, labels in zip(cases, stats["labels_of_case"]):
        if labels & set(interesting):
            distinct.add(C.sha("%s|%s|%s|%s" % (c.kind, " ".join(sorted(labels)), shape(c), " ".join(c.faults))))
    ctx.cov["evaluations"] = stats["evaluations"]
    ctx.cov["distinct_nontrivial"] = len(distinct)
    ctx.cov["traces_validated_against_impl"] = stats["validated"]
    ctx.cov["rule"] = rule
    ctx.cov["model_branch_hits"] = dict(sorted(stats["branches"].items()))
    ctx.cov["operations_compared"] = stats["ops"]
    ss = []
    for c in (cases[:1] + cases[len(cases) // 2:len(cases) // 2 + 1] + cases[-1:]):
        ss.append({"kind": c.kind, "faults": c.faults, "ops": [o[:80] for o in c.ops[:12]], "tag": c.tag})
    ctx.cov["samples"] = ss


ASSUMPTIONS = [
    "kernel modelled, not verified: open returns a descriptor that is not open (or fails), pwrite writes a prefix of the "
    "buffer (possibly empty) or fails, close always releases the descriptor, flock/mkdir succeed or fail",
    "access(path, W_OK) on an existing path succeeds (the harness creates writable files); the parent directory of every "
    "URI exists and is writable",
    "size_t / off_t overflow of offsets and lengths is not modelled",
    "histories: no call after close, no `set` while the HAL state is Running (skipped identically by model and harness; "
    "the HAL does not guard set — life-cycle discipline of the runtime is property C08's subject)",
    "TIFF writers: only the I/O skeleton (which call, which descriptor, how many bytes, how the result steers control) is "
    "modelled here; offsets and contents of TIFF structures belong to C15",
    "the write-after-free of storage_close (C11) is masked in this harness by exempting that one function from ASan",
]


# ---------------------------------------------------------------- files beyond 4 GiB
def large_file_runs(ctx, exe, scripts, what):
    """acquisitions beyond 4 GiB with the writes intercepted (nothing is stored): the model's offsets are unbounded naturals, the
    writers' are C integer types.  raw: every write is aimed at the number of bytes appended so far; tiff kinds: every section is
    laid out right behind the previous one (8-aligned) and only an 8-byte link is ever patched inside earlier data."""
    tmp = os.path.join(C.BUILD, "tmp-storage")
    for script in scripts:
        rc, out, err = C.run_lines(exe, script, timeout=180, args=[tmp, "60000"])
        bad = [l for l in out if l.startswith("ORACLE") or l.startswith("CRASH") or l.startswith("big err")]
        okl = [l for l in out if l.startswith("big ok")]
        ctx.cov.setdefault("large_file_runs", []).append({"script": script.split("\n")[0:5], "result": (bad or okl or out[-2:])[:3]})
        if rc != 0 and not bad:
            bad = ["CRASH rc=%d %s" % (rc, err[-300:])]
        if bad or not okl:
            if any("skipped-no-memory" in l for l in out):
                ctx.notes.append("large-file run skipped: no memory for the packet")
                continue
            ctx.violation("oracle", "h_storage_io:" + (bad[0].split()[1] if bad and len(bad[0].split()) > 1 else "large-file-run-failed"),
                          ("%s beyond 4 GiB: %s" % (what, bad[0] if bad else " | ".join(out[-3:])))[:300],
                          {"harness": "h_storage_io", "large": True, "script": [l for l in script.split("\n") if l],
                           "how": "feed the script to .build/<tag>/h_storage_io*/h_storage_io* <tmpdir> 60000"})
