"""Shared machinery of C14 and C16: harness h_storage_io (real storage devices + real
linux/platform.c with interposed system calls) versus the Lean model driver `acq_storage`."""
import os, re, struct
from . import common as C

HARNESS_SRC = [
    os.path.join(C.VERIF, "harness/storage_io/h_storage_io.c"),
    os.path.join(C.VERIF, "harness/storage_io/hal_storage_wrap.c"),
    "acquire-core-libs/src/acquire-device-hal/device/hal/driver.c",
    "acquire-driver-common/src/basics.driver.c",
    "acquire-driver-common/src/storage/basic.storage.c",
    "acquire-driver-common/src/storage/raw.c",
    "acquire-driver-common/src/storage/tiff.cpp",
    "acquire-driver-common/src/storage/side-by-side-tiff.cpp",
    "acquire-driver-common/src/storage/trash.c",
    "acquire-core-libs/src/acquire-core-platform/linux/platform.c",
    "acquire-core-libs/src/acquire-core-logger/logger.c",
    "acquire-core-libs/src/acquire-device-properties/device/props/storage.c",
    "acquire-core-libs/src/acquire-device-properties/device/props/components.c",
    "acquire-core-libs/src/acquire-device-properties/device/props/device.c",
]

# ---------------------------------------------------------------- frames
# struct VideoFrame layout; verified against the harness (`--layout`) on every run.
LAYOUT = {"sizeof": 96, "bytes_of_frame": 0, "width": 12, "height": 16, "type": 56, "frame_id": 64,
          "hardware_frame_id": 72, "ts_hardware": 80, "ts_acq_thread": 88}


def payload(fid, n):
    return bytes(((fid * 131 + i * 7 + (i >> 3)) ^ 0x5A) & 0xFF for i in range(n))


def frame_bytes(nimg, fid, pad_bytes_of_frame=None):
    """one VideoFrame: 96-byte header + nimg payload bytes (u8 image nimg x 1)."""
    h = bytearray(96)
    struct.pack_into("<Q", h, 0, 96 + nimg if pad_bytes_of_frame is None else pad_bytes_of_frame)
    struct.pack_into("<IIII", h, 8, 1, max(nimg, 1), 1, 1)            # channels, width, height, planes
    struct.pack_into("<qqqq", h, 24, 1, 1, max(nimg, 1), max(nimg, 1))  # strides
    struct.pack_into("<I", h, 56, 0)                                   # SampleType_u8
    struct.pack_into("<QQQQ", h, 64, fid, fid + 1000, 7 * fid + 3, 5 * fid + 11)
    return bytes(h) + payload(fid, nimg)


def desc_len(fid, meta, first):
    """strlen+1 of the ImageDescription tiff.cpp formats for this frame (what the strings write carries)."""
    s = '{"frame_id":%d,"hardware_frame_id":%d,"timestamps":{"runtime":%d,"hardware":%d}' % (
        fid, fid + 1000, 5 * fid + 11, 7 * fid + 3)
    if first and meta and meta != "-":
        s += ',"metadata":%s' % meta
    return len(s + "}") + 1
