"""Shared machinery of the /verif checks (python3, standard library only).

A check for property P does, in this order:
  1. regenerate Lean sources that are extracted from /repo (property specific),
  2. build the Lean modules of P with lake (kernel check), audit axioms + forbidden words,
  3. build the harness from /repo's *current working tree*,
  4. run corpus + generated cases through the real code and through the compiled
     Lean model driver, diff the canonical outputs, evaluate the property oracle,
  5. decide: VIOLATION (with replay) / KNOWN-FINDING / ok, and
  6. write evidence/<P>.json.

The repository root comes from ACQ_REPO (default /repo); it is only overridden
by bin/selftest and while developing against scratch worktrees.
"""
import fcntl
import hashlib
import json
import os
import random
import re
import shutil
import subprocess
import sys
import time

VERIF = os.path.dirname(os.path.dirname(os.path.abspath(__file__)))
REPO = os.environ.get("ACQ_REPO", "/repo")
LEAN = os.path.join(VERIF, "lean")
BUILD = os.path.join(VERIF, ".build")
REPLAYS = os.path.join(VERIF, "replays")
EVIDENCE = os.path.join(VERIF, "evidence")
ALLOWED_AXIOMS = {"propext", "Classical.choice", "Quot.sound"}
FORBIDDEN = re.compile(r"\bsorry\b|\badmit\b|^\s*axiom\s|native_decide|bv_decide|implemented_by|\bunsafe\s|maxHeartbeats\s+0\b")

TRUSTED_BASE = [
    "Lean 4.33.0 kernel (lake build; leanchecker re-check in the thorough tier)",
    "axioms reported by #print axioms: subset of {propext, Classical.choice, Quot.sound}; no native_decide, no bv_decide, no sorry",
    "hand-written Lean model tied to the C by the correspondence check of this run (differential testing; reach = its generators)",
    "C compiler + sanitizers used to build the harness from /repo's working tree",
]

# include paths of the repository, used by every harness
INC = [
    "acquire-video-runtime/src",
    "acquire-video-runtime/include",
    "acquire-core-libs/src/acquire-core-platform/linux",
    "acquire-core-libs/src/acquire-core-logger",
    "acquire-core-libs/src/acquire-device-properties",
    "acquire-core-libs/src/acquire-device-kit",
    "acquire-core-libs/src/acquire-device-hal",
    "acquire-driver-common/src",
]
SAN = ["-O1", "-g", "-fsanitize=address,undefined", "-fno-sanitize-recover=all", "-fno-omit-frame-pointer"]
SAN_ENV = {"ASAN_OPTIONS": "detect_leaks=0:abort_on_error=0:allocator_may_return_null=1", "UBSAN_OPTIONS": "print_stacktrace=1"}


def sh(cmd, timeout=600, cwd=None, input=None, env=None):
    """Run a command under a watchdog. Returns (rc, stdout, stderr); rc=-9 on timeout."""
    e = dict(os.environ)
    if env:
        e.update(env)
    try:
        p = subprocess.run(cmd, cwd=cwd, input=input, capture_output=True, text=True,
                           timeout=timeout, env=e, errors="replace")
        return p.returncode, p.stdout, p.stderr
    except subprocess.TimeoutExpired as ex:
        out = ex.stdout.decode(errors="replace") if isinstance(ex.stdout, bytes) else (ex.stdout or "")
        err = ex.stderr.decode(errors="replace") if isinstance(ex.stderr, bytes) else (ex.stderr or "")
        return -9, out, err + "\nTIMEOUT"


class LakeLock:
    """lake invocations on the one project are serialised (several checks may run at once)."""

    def __enter__(self):
        os.makedirs(BUILD, exist_ok=True)
        self.f = open(os.path.join(BUILD, "lake.lock"), "w")
        fcntl.flock(self.f, fcntl.LOCK_EX)
        return self

    def __exit__(self, *a):
        fcntl.flock(self.f, fcntl.LOCK_UN)
        self.f.close()


def lake_build(targets, timeout=3000):
    """Build lake targets. Returns (ok, log, failed_modules)."""
    with LakeLock():
        rc, out, err = sh(["lake", "build"] + list(targets), cwd=LEAN, timeout=timeout)
    log = out + err
    failed = re.findall(r"^✖ \[\d+/\d+\] (?:Building|Built) (\S+)", log, flags=re.M)
    failed += re.findall(r"^- (AcqVerif\.\S+)$", log, flags=re.M)
    return rc == 0, log, sorted(set(failed))


def module_path(mod):
    return os.path.join(LEAN, *mod.split(".")) + ".lean"


def import_closure(mod):
    """AcqVerif.* / Driver.* modules reachable from `mod` through imports."""
    seen, todo = [], [mod]
    while todo:
        m = todo.pop()
        if m in seen:
            continue
        p = module_path(m)
        if not os.path.exists(p):
            continue
        seen.append(m)
        for line in open(p, encoding="utf-8"):
            mm = re.match(r"\s*(?:public\s+)?import\s+(\S+)", line)
            if mm and (mm.group(1).startswith("AcqVerif") or mm.group(1).startswith("Driver")):
                todo.append(mm.group(1))
    return seen


def strip_comments(text):
    text = re.sub(r"/-.*?-/", lambda m: "\n" * m.group(0).count("\n"), text, flags=re.S)
    return re.sub(r"--.*", "", text)


def count_theorems(mods):
    n = 0
    for m in mods:
        t = strip_comments(open(module_path(m), encoding="utf-8").read())
        n += len(re.findall(r"^\s*(?:private\s+|protected\s+)?(?:theorem|lemma)\s", t, flags=re.M))
        n += len(re.findall(r"^\s*example\s*[:(\[{]", t, flags=re.M))
    return n


def forbidden_hits(mods):
    hits = []
    for m in mods:
        t = strip_comments(open(module_path(m), encoding="utf-8").read())
        for i, line in enumerate(t.split("\n"), 1):
            if FORBIDDEN.search(line):
                hits.append("%s:%d: %s" % (m, i, line.strip()))
    return hits


def print_axioms(module, theorems, tag):
    """#print axioms for each theorem. Returns {name: [axioms]} ; a missing theorem maps to None."""
    os.makedirs(os.path.join(BUILD, "audit"), exist_ok=True)
    path = os.path.join(BUILD, "audit", "Audit_%s.lean" % tag)
    with open(path, "w") as f:
        f.write("import %s\n" % module)
        for t in theorems:
            f.write("#print axioms %s\n" % t)
    with LakeLock():
        rc, out, err = sh(["lake", "env", "lean", path], cwd=LEAN, timeout=900)
    text = out + err
    res = {}
    for t in theorems:
        m = re.search(r"'%s' depends on axioms: \[([^\]]*)\]" % re.escape(t), text, flags=re.S)
        if m:
            res[t] = [a.strip() for a in m.group(1).replace("\n", " ").split(",") if a.strip()]
        elif re.search(r"'%s' does not depend on any axioms" % re.escape(t), text):
            res[t] = []
        else:
            res[t] = None
    return res, text


def compile_harness(name, sources, extra_flags=(), cxx=False, libs=(), defines=(), timeout=600, san=True, includes=()):
    """Compile `sources` (absolute paths; repo files given relative to REPO) into BUILD/<name>/<name>.
    Always recompiles: the working tree of REPO may have changed."""
    # one build directory per (check, harness): two checks that run at the same time do not pull the executable from under each other
    tag = os.environ.get("ACQ_BUILD_TAG", "")
    outdir = os.path.join(BUILD, tag, name) if tag else os.path.join(BUILD, name)
    shutil.rmtree(outdir, ignore_errors=True)
    os.makedirs(outdir)
    incs = ["-I" + os.path.join(REPO, i) for i in INC] + ["-I" + i for i in includes]
    flags = (SAN if san else ["-O1", "-g"]) + ["-D" + d for d in defines] + list(extra_flags)
    objs, procs = [], []
    for i, s in enumerate(sources):
        src = s if os.path.isabs(s) else os.path.join(REPO, s)
        obj = os.path.join(outdir, "%02d_%s.o" % (i, os.path.basename(src).replace(".", "_")))
        is_cxx = src.endswith((".cpp", ".cc", ".cxx"))
        cc = ["g++", "-std=c++20"] if is_cxx else ["gcc", "-std=gnu11"]
        procs.append((src, subprocess.Popen(cc + flags + incs + ["-c", src, "-o", obj],
                                            stdout=subprocess.PIPE, stderr=subprocess.STDOUT, text=True)))
        objs.append(obj)
        cxx = cxx or is_cxx
    log = ""
    ok = True
    for src, p in procs:
        try:
            o, _ = p.communicate(timeout=timeout)
        except subprocess.TimeoutExpired:
            p.kill()
            o = "TIMEOUT compiling " + src
        if p.returncode != 0:
            ok = False
            log += "== %s\n%s\n" % (src, o)
    exe = os.path.join(outdir, name)
    if ok:
        rc, o, e = sh(["g++" if cxx else "gcc"] + (SAN if san else []) + objs + ["-o", exe, "-lpthread", "-ldl", "-lm"] + list(libs), timeout=timeout)
        if rc != 0:
            ok = False
            log += o + e
    return (exe if ok else None), log


def driver_path(name):
    return os.path.join(LEAN, ".lake", "build", "bin", name)


def run_lines(exe, text, timeout=300, env=None, args=()):
    e = dict(SAN_ENV)
    if env:
        e.update(env)
    rc, out, err = sh([exe] + list(args), input=text, timeout=timeout, env=e)
    return rc, out.split("\n"), err


def first_diff(a, b):
    """index of the first differing line of two line lists (None if equal up to trailing blanks)."""
    while a and a[-1] == "":
        a = a[:-1]
    while b and b[-1] == "":
        b = b[:-1]
    for i in range(max(len(a), len(b))):
        x = a[i] if i < len(a) else "<eof>"
        y = b[i] if i < len(b) else "<eof>"
        if x != y:
            return i
    return None


def ddmin(items, fails, max_runs=400):
    """delta debugging on a list: smallest sublist (order kept) for which fails() is true."""
    runs = [0]

    def test(xs):
        runs[0] += 1
        return runs[0] <= max_runs and fails(xs)

    n = 2
    cur = list(items)
    while len(cur) >= 2:
        chunk = max(1, len(cur) // n)
        reduced = False
        for i in range(0, len(cur), chunk):
            cand = cur[:i] + cur[i + chunk:]
            if cand and test(cand):
                cur = cand
                n = max(n - 1, 2)
                reduced = True
                break
        if not reduced:
            if chunk == 1:
                break
            n = min(len(cur), n * 2)
        if runs[0] > max_runs:
            break
    return cur


class Ctx:
    def __init__(self, prop, tier, seed):
        self.prop = prop
        self.tier = tier
        self.seed = seed
        self.rng = random.Random("%s/%d" % (prop, seed))
        self.t0 = time.time()
        self.violations = []     # dicts: kind, signature, what, replay(obj)
        self.known_hits = []
        self.cov = {
            "obligations": 0, "discharged": 0, "checker_cmd": "", "trusted_base": list(TRUSTED_BASE),
            "evaluations": 0, "distinct_nontrivial": 0, "rule": "", "samples": [],
            "traces_validated_against_impl": 0,
        }
        self.assumptions = []
        self.proof_broken = []
        self.corr_broken = []
        self.notes = []
        kf = os.path.join(VERIF, "known_findings.json")
        self.kf = json.load(open(kf)) if os.path.exists(kf) else {"known": [], "fixed": []}
        os.makedirs(REPLAYS, exist_ok=True)
        os.makedirs(EVIDENCE, exist_ok=True)
        os.makedirs(BUILD, exist_ok=True)

    # ---- Lean side -----------------------------------------------------
    def prove(self, module, theorems, extra_targets=(), leanchecker=None):
        """Kernel-check `module` (and its imports), audit the listed property theorems."""
        mods = import_closure(module)
        self.cov["obligations"] = count_theorems(mods)
        self.cov["checker_cmd"] = "cd lean && lake build %s %s && lake env lean <#print axioms of %d property theorems>" % (
            module, " ".join(extra_targets), len(theorems))
        ok, log, failed = lake_build([module] + list(extra_targets))
        if not ok:
            self.proof_broken.append({"module": module, "failed_modules": failed, "log_tail": log[-3000:]})
            good = [m for m in mods if m not in failed and not any(f in import_closure(m) for f in failed)]
            self.cov["discharged"] = count_theorems(good)
            return False
        hits = forbidden_hits(mods)
        if hits:
            self.proof_broken.append({"module": module, "forbidden": hits})
        ax, text = print_axioms(module, theorems, self.prop)
        bad = {t: a for t, a in ax.items() if a is None or not set(a) <= ALLOWED_AXIOMS}
        self.cov["axioms"] = {t: a for t, a in ax.items()}
        if bad:
            self.proof_broken.append({"module": module, "axiom_audit": bad, "log_tail": text[-2000:]})
        if leanchecker is None:
            leanchecker = self.tier == "thorough"
        if leanchecker and not self.proof_broken:
            with LakeLock():
                rc, out, err = sh(["lake", "env", "leanchecker", module], cwd=LEAN, timeout=1800)
            self.cov["leanchecker"] = "ok" if rc == 0 else "FAILED"
            if rc != 0:
                self.proof_broken.append({"module": module, "leanchecker": (out + err)[-2000:]})
        self.cov["discharged"] = self.cov["obligations"] if not self.proof_broken else 0
        self.cov["property_theorems"] = list(theorems)
        return not self.proof_broken

    # ---- findings --------------------------------------------------------
    def violation(self, kind, signature, what, replay):
        """Record a violation found on the implementation (kind = 'oracle' | 'crash' | ...)."""
        for v in self.violations:
            if v["signature"] == signature:
                v["count"] += 1
                return
        self.violations.append({"kind": kind, "signature": signature, "what": what, "replay": replay, "count": 1})

    def write_replay(self, name, obj):
        path = os.path.join(REPLAYS, "%s-%s.json" % (self.prop, name))
        with open(path, "w") as f:
            json.dump(obj, f, indent=1, default=str)
        return path

    def finish(self):
        """Decide, print, write evidence, return the exit code."""
        rc = 0
        known = [k for k in self.kf.get("known", []) if k.get("property") == self.prop]
        n_new = 0
        for i, v in enumerate(self.violations):
            match = [k for k in known if k.get("signature") == v["signature"]]
            if match:
                print("KNOWN-FINDING: property=%s %s" % (self.prop, match[0].get("description", v["what"])))
                self.known_hits.append(v["signature"])
                continue
            n_new += 1
            path = self.write_replay("%d" % i, {"property": self.prop, "kind": v["kind"], "signature": v["signature"],
                                              "what": v["what"], "replay": v["replay"], "seed": self.seed, "tier": self.tier})
            print("VIOLATION property=%s replay=%s" % (self.prop, path))
            print("  " + v["what"])
            rc = 1
        if (self.proof_broken or self.corr_broken) and n_new == 0:
            # the property is no longer shown to hold, and the search found no failing input
            path = self.write_replay("unproved", {
                "property": self.prop, "kind": "no-failing-input-found",
                "proof_obligations_that_no_longer_check": self.proof_broken,
                "correspondence_that_no_longer_checks": self.corr_broken,
                "seed": self.seed, "tier": self.tier})
            print("VIOLATION property=%s replay=%s no-failing-input-found" % (self.prop, path))
            rc = 1
        elif self.proof_broken or self.corr_broken:
            for b in self.proof_broken:
                print("  proof obligation no longer checks: %s" % json.dumps(b)[:400])
            for b in self.corr_broken[:3]:
                print("  correspondence no longer checks: %s" % json.dumps(b)[:400])
        ev = {
            "property_id": self.prop, "tier": self.tier, "seed": self.seed, "level": "proof",
            "coverage": self.cov, "assumptions": self.assumptions, "wall_s": round(time.time() - self.t0, 2),
            "violations": n_new + (1 if rc and n_new == 0 else 0),
            "known_findings_hit": self.known_hits,
            "proof_broken": self.proof_broken, "correspondence_broken": self.corr_broken[:5], "notes": self.notes,
        }
        with open(os.path.join(EVIDENCE, "%s.json" % self.prop), "w") as f:
            json.dump(ev, f, indent=1, default=str)
        if REPO != "/repo" and os.path.isdir(os.path.join(VERIF, ".git")):
            # a run against a scratch worktree regenerated the translated / extracted Lean files from *that* tree: put the committed
            # ones (generated from /repo) back, so that nothing derived from a modified tree is ever committed
            with LakeLock():
                sh(["git", "-C", VERIF, "checkout", "--", "lean/AcqVerif/Generated"], timeout=60)
        if rc == 0:
            print("ok property=%s tier=%s seed=%d obligations=%d discharged=%d evaluations=%d wall=%.1fs" % (
                self.prop, self.tier, self.seed, self.cov["obligations"], self.cov["discharged"],
                self.cov["evaluations"], time.time() - self.t0))
        return rc


def corpus_files(prop):
    d = os.path.join(VERIF, "corpus", prop)
    if not os.path.isdir(d):
        return []
    return [os.path.join(d, f) for f in sorted(os.listdir(d))]


def sha(text):
    return hashlib.sha1(text.encode()).hexdigest()[:12]
