"""Translator tie for channel.c: regenerate lean/AcqVerif/Generated/ChannelC.lean from the current source (extract/c2lean.py)
and have the kernel re-check that the hand-written model computes what the translated functions compute (Channel/Translated.lean)."""
import os, sys
from . import common as C
sys.path.insert(0, os.path.join(C.VERIF, "extract"))

MODULE = "AcqVerif.Channel.Refine"
THEOREMS = ["AcqVerif.Channel.Translated.%s" % t for t in (
    "cursor_cmp_gt", "reader_min_spec", "get_available_byte_count_eq", "next_write_eq", "channel_write_map_eq",
    "channel_write_unmap_eq", "channel_abort_write_eq", "channel_accept_writes_eq", "reader_initialize_eq",
    "channel_read_map_eq", "channel_read_map_notifies_iff", "channel_read_unmap_eq")] + [
    "AcqVerif.Channel.Refine.%s" % t for t in ("refine_step", "refine_run", "refine_history", "write_region_in_buffer", "read_map_translated",
                                               "write_avoids_mapped_readers", "status_stays_ok", "handle_ids", "cursors_in_bounds", "bookmarks_behind_writer",
                                               "model_region_avoids_pending", "mapped_regions_avoid_pending_write")]
NEEDED = ("cursor_cmp", "reader_min", "next_write", "get_available_byte_count", "reader_initialize", "channel_write_map",
          "channel_write_unmap", "channel_abort_write", "channel_accept_writes", "channel_read_map", "channel_read_unmap")


def regenerate(ctx):
    import c2lean as X
    path = os.path.join(C.LEAN, "AcqVerif", "Generated", "ChannelC.lean")
    try:
        text, tr = X.generate(C.REPO)
    except Exception as ex:   # fail closed: source the translator cannot read breaks the tie
        ctx.corr_broken.append({"what": "C-to-Lean translator could not read channel.c", "error": str(ex)[:500]})
        return False
    missing = [f for f in NEEDED if f not in tr.done]
    if missing:
        ctx.corr_broken.append({"what": "C-to-Lean translator cannot express functions of channel.c that the equivalence theorems are about",
                                "functions": {f: tr.failed.get(f, "not found") for f in missing}})
    old = open(path).read() if os.path.exists(path) else None
    if old != text:
        with C.LakeLock():
            with open(path, "w") as f:
                f.write(text)
    ctx.cov["translated_from_source"] = {"functions": list(tr.done), "untranslated": tr.failed, "changed_this_run": old != text,
                                         "lean_lines": text.count("\n")}
    return True
