"""C11 - HAL wrappers enforce the device protocol and never touch a closed device.

Real code: acquire-device-hal/device/hal/{camera.c,storage.c,driver.c} (+ logger.c, props/device.c)
compiled with harness/hal/h_hal.c (ASan+UBSan; scripted recording mock driver whose close frees the
device).  Model: lean exe `acq_hal` (lean/AcqVerif/Hal/Model.lean).  Theorems: AcqVerif.Props.C11.
"""
import collections
import json
import os
import re
import threading

from . import common as C

MODULE = "AcqVerif.Props.C11"
DRIVERS = ["acq_hal", "acq_runtime"]
THEOREMS = [
    "AcqVerif.C11.C11_protocol_accepts",
    "AcqVerif.C11.C11_one_close_per_open",
    "AcqVerif.C11.C11_nothing_after_close",
    "AcqVerif.C11.C11_state_follows_driver",
    "AcqVerif.C11.C11_running_only_calls",
]

HAL = "acquire-core-libs/src/acquire-device-hal/device/hal/"
HARNESS_SRC = [
    os.path.join(C.VERIF, "harness/hal/h_hal.c"),
    HAL + "camera.c", HAL + "storage.c", HAL + "driver.c",
    "acquire-core-libs/src/acquire-core-logger/logger.c",
    "acquire-core-libs/src/acquire-device-properties/device/props/device.c",
]

# ------------------------------------------------------------------ alphabets
# a letter = one input line "<call> <arg> <driver answers...>"
CAM_OPEN_OK = ["copen 0 0 1 0", "copen 0 0 3 0"]           # initial state AwaitingConfiguration / Running
CAM_OPEN_ALL = CAM_OPEN_OK + ["copen 0 0 2 0", "copen 0 1", "copen 0 2", "copen 0 3", "copen 0 0 1 1 0", "copen 0 0 1 1 1",
                              "copen 0 0 1 2 0"]
CAM_QUICK = ["cset 1 0", "cset 1 2", "cset 1 1 0", "cset 1 1 1", "cset 0",
             "cget 1 1", "cmeta 1 0", "cshape 1 0",
             "cstart 0 0", "cstart 0 1", "cstart 0 2",
             "cstop 0 0", "cstop 0 1", "cstop 0 2",
             "ctrig 0 0", "ctrig 0 1",
             "cframe 0 0", "cframe 0 1 0", "cframe 0 1 1", "cframe 0 2 2",
             "cclose 0 0", "cclose 0 1"]
CAM_MORE = ["cget 0", "cget 1 0", "cmeta 0", "cmeta 1 1", "cshape 0", "cshape 1 1", "cset 1 1 2", "cframe 0 3 0", "ctrig 0 2"]

STO_OPEN_OK = ["sopen 0 0 1 0", "sopen 0 0 3 0"]
STO_OPEN_ALL = STO_OPEN_OK + ["sopen 0 0 2 0", "sopen 0 0 4 0", "sopen 0 1", "sopen 0 2", "sopen 0 0 1 1 0", "sopen 0 0 1 1 1",
                              "sopen 0 0 3 1 0"]
STO_QUICK = ["sset 1 1", "sset 1 2", "sset 1 3", "sset 0",
             "sget 0", "smeta 0", "sreserve 0",
             "sstart 0 1", "sstart 0 2", "sstart 0 3",
             "sstop 0 1", "sstop 0 2", "sstop 0 3", "sstop 0 0",
             "sappend 2 3", "sappend 2 2", "sappend 2 1", "sappend 1", "sappend 0",
             "sclose 0 0", "sclose 0 2 0", "sclose 0 3 1", "sclose 0 1",
             "svalidate 0 0 1 0 2 0", "svalidate 0 0 1 0 3 2 0", "svalidate 0 0 1 1 0", "svalidate 0 1"]
STO_MORE = ["sset 1 0", "sset 1 4", "sstart 0 0", "sstart 0 4", "sstop 0 4", "sappend 2 0", "sappend 2 4", "sappend 3 3",
            "svalidate 0 0 3 0 1 2 0", "svalidate 0 2", "svalidate 0 0 1 0 3 3 1"]
NULL_CALLS = ["cset 1 0", "cget 1 0", "cmeta 1 0", "cshape 1 0", "cstart 0 0", "cstop 0 0", "ctrig 0 0", "cframe 0 0", "cclose 0 0",
              "sset 1 2", "sget 0", "smeta 0", "sstart 0 3", "sstop 0 2", "sappend 2 3", "sreserve 0", "sclose 0 0"]


STATELESS = ("cget", "cmeta", "cshape", "cset 0", "sget", "smeta", "sreserve", "sset 0", "sappend 1", "sappend 0",
             "svalidate 0 0 1 1 0", "svalidate 0 1")


def alphabet(kind, alpha):
    """letters usable while a handle is held. alpha: 'quick' | 'more' (quick + rarer answers / NULL arguments) |
    'core' (quick without the letters that cannot change any state: getters, NULL arguments, empty appends)"""
    base = CAM_QUICK if kind == "c" else STO_QUICK
    if alpha == "more":
        return base + (CAM_MORE if kind == "c" else STO_MORE)
    if alpha == "core":
        return [l for l in base if not l.startswith(STATELESS)]
    return base


def gen_subtree(kind, alpha, prefix, live, depth):
    """every continuation of `prefix` by `depth` more lines: while no handle is held an open (any variant), while one
    is held any letter of the kind's alphabet (open variants that hand out a device make the handle live; close drops it)."""
    if kind == "c":
        opens_ok, opens_all, close = set(CAM_OPEN_OK), CAM_OPEN_ALL, "cclose"
    else:
        opens_ok, opens_all, close = set(STO_OPEN_OK), STO_OPEN_ALL, "sclose"
    letters = alphabet(kind, alpha)

    def rec(prefix, live, d):
        if d == 0:
            yield prefix
            return
        if live:
            for l in letters:
                yield from rec(prefix + [l], not l.startswith(close), d - 1)
        else:
            for o in opens_all:
                yield from rec(prefix + [o], o in opens_ok, d - 1)

    yield from rec(list(prefix), live, depth)


def exhaustive_tasks(kind, alpha, depth, split=2):
    """the tree of gen_subtree cut at depth `split`: one task per node there"""
    tasks = []
    opens_ok = set(CAM_OPEN_OK if kind == "c" else STO_OPEN_OK)
    close = "cclose" if kind == "c" else "sclose"
    for p in gen_subtree(kind, alpha, [], False, split):
        live = False
        for l in p:
            live = (l in opens_ok) if not live else not l.startswith(close)
        tasks.append(("ex", kind, alpha, p, live, depth - split))
    return tasks


def rand_queue(rng, n, vals):
    return [rng.choice(vals) for _ in range(n)]


def gen_random(rng, n):
    """random history of n calls over both device kinds, several life times, arbitrary driver answers;
    biased towards reaching Running and towards well-formed use, but nothing is excluded."""
    ops = []
    held = None   # 'c' / 's' / None (what we believe; wrong guesses give illformed / NULL-handle calls, which is fine)
    for _ in range(n):
        r = rng.random()
        if held is None:
            if r < 0.08:
                ops.append(rng.choice(NULL_CALLS)); continue
            if r < 0.16:
                ops.append("svalidate 0 " + " ".join(map(str, rand_queue(rng, 6, [0, 0, 0, 1, 2, 3])))); continue
            k = rng.choice("cs")
            v = rng.choice([0, 0, 0, 0, 0, 0, 1, 2, 3])
            init = rng.choice([1, 1, 1, 1, 2, 3, 0, 4])
            desc = rng.choice([0, 0, 0, 0, 0, 1, 2])
            ops.append("%sopen 0 %d %d %d %d" % (k, v, init, desc, rng.choice([0, 1])))
            if v == 0 and desc == 0:
                held = k
            continue
        if r < 0.03:
            ops.append(rng.choice(CAM_OPEN_ALL + STO_OPEN_ALL)); continue      # illformed: open while holding
        if r < 0.06:
            ops.append(rng.choice(CAM_QUICK + STO_QUICK)); continue            # maybe the other kind: illformed
        if held == 'c':
            st = [0, 0, 0, 1, 1, 2]
            c = rng.choice(["cset", "cset", "cstart", "cstart", "cstart", "cstop", "cstop", "cframe", "cframe", "cframe",
                            "ctrig", "cget", "cmeta", "cshape", "cclose"])
            arg = 0 if c not in ("cset", "cget", "cmeta", "cshape") else (1 if rng.random() < 0.9 else 0)
            ops.append("%s %d %s" % (c, arg, " ".join(map(str, rand_queue(rng, 3, st)))))
            if c == "cclose":
                held = None
        else:
            st = [3, 3, 3, 2, 2, 1, 0, 4]
            c = rng.choice(["sset", "sset", "sstart", "sstart", "sstart", "sstop", "sstop", "sappend", "sappend", "sappend",
                            "sget", "smeta", "sreserve", "sclose", "svalidate"])
            if c == "svalidate":
                ops.append("svalidate 0 " + " ".join(map(str, rand_queue(rng, 6, [0, 0, 0, 1, 2, 3])))); continue
            arg = 0
            if c == "sset":
                arg = 1 if rng.random() < 0.9 else 0
                q = rand_queue(rng, 1, [2, 2, 2, 1, 3, 0, 4])
            elif c == "sstart":
                q = rand_queue(rng, 1, [3, 3, 3, 3, 2, 1, 0, 4])
            elif c == "sappend":
                arg = rng.choice([2, 2, 2, 2, 1, 0, 5])
                q = rand_queue(rng, 1, [3, 3, 3, 3, 3, 2, 1, 0, 4])
            else:
                q = rand_queue(rng, 3, st)
            ops.append("%s %d %s" % (c, arg, " ".join(map(str, q))))
            if c == "sclose":
                held = None
    return ops


# ------------------------------------------------------------------ running
LABEL_RE = re.compile(r" ~(\S+)$", re.M)
NONTRIVIAL_RE = re.compile(r"(?:stop|get_frame|append)#\d|describe#\d+=[1-9]\d* close#")
# a case is non-trivial if the driver saw a stop / get_frame / append (the calls the protocol restricts) or a device was
# closed because `describe` failed


def build(ctx):
    exe, log = C.compile_harness("h_hal", HARNESS_SRC, defines=["NO_UNIT_TESTS"])
    if not exe:
        ctx.corr_broken.append({"what": "harness h_hal does not compile against the repository", "log": log[-3000:]})
        return None, None
    drv = C.driver_path("acq_hal")
    if not os.path.exists(drv):
        ok, log, failed = C.lake_build(["acq_hal"])
        if not ok:
            ctx.corr_broken.append({"what": "model driver acq_hal does not build", "log": log[-2000:]})
            return None, None
    return exe, drv


def run_pair(exe, drv, script, soft, timeout):
    """the same script through the real code and through the model, concurrently. Returns raw texts."""
    res = {}
    env = dict(C.SAN_ENV)

    def impl():
        res["i"] = C.sh([exe] + (["soft"] if soft else []), input=script, timeout=timeout, env=env)

    def model():
        res["m"] = C.sh([drv], input=script, timeout=timeout)

    t1 = threading.Thread(target=impl)
    t2 = threading.Thread(target=model)
    t1.start(); t2.start(); t1.join(); t2.join()
    return res["i"], res["m"]


def sanitizer_site(err):
    """'heap-use-after-free WRITE in storage_close' from an ASan/UBSan report."""
    m = re.search(r"ERROR: AddressSanitizer: (\S+)", err)
    kind = m.group(1) if m else ("runtime-error" if "runtime error" in err else "crash")
    acc = re.search(r"^(READ|WRITE) of size", err, re.M)
    fn = re.search(r"#0 \S+ in (\w+) ", err)
    return "%s%s in %s" % (kind, " " + acc.group(1) if acc else "", fn.group(1) if fn else "?")


def new_stats():
    return {"branches": {}, "distinct": set(), "evaluations": 0, "ops": 0, "validated": 0}


def merge_stats(into, st):
    for l, n in st["branches"].items():
        into["branches"][l] = into["branches"].get(l, 0) + n
    into["distinct"] |= st["distinct"]
    for k in ("evaluations", "ops", "validated"):
        into[k] += st[k]


def run_batch(exe, drv, cases, stats, soft=False, timeout=600):
    """cases: list of op lists, all run by one process pair. Returns problems [(case_index, kind, detail)]."""
    text = []
    starts = []
    for ops in cases:
        starts.append(len(text))
        text.append("new")
        text.extend(ops)
    script = "\n".join(text) + "\n"
    (rc_i, impl_text, err_i), (rc_m, model_text, err_m) = run_pair(exe, drv, script, soft, timeout)
    problems = []
    for l, n in collections.Counter(LABEL_RE.findall(model_text)).items():
        stats["branches"][l] = stats["branches"].get(l, 0) + n
    model_plain = LABEL_RE.sub("", model_text)
    # coverage per case (on the model's output: identical to the implementation's when there is no diff)
    for ch in model_plain.split("new\n")[1:]:
        if NONTRIVIAL_RE.search(ch):
            stats["distinct"].add(C.sha(ch))
    stats["evaluations"] += len(cases)
    stats["ops"] += len(text) - len(cases)
    if rc_i == 0 and rc_m == 0 and "ORACLE" not in impl_text and "REJECTED" not in model_plain \
            and impl_text.rstrip("\n") == model_plain.rstrip("\n"):
        stats["validated"] += len(cases)      # fast path: everything agrees
        return problems

    impl_ops, oracle_at = [], {}
    for ln in impl_text.split("\n"):
        if ln.startswith("ORACLE "):
            oracle_at.setdefault(len(impl_ops) - 1, []).append(ln)
        elif ln != "":
            impl_ops.append(ln)
    model_ops = [l for l in model_plain.split("\n") if l != ""]

    def case_of(line_no):
        lo, hi = 0, len(starts) - 1
        while lo < hi:
            mid = (lo + hi + 1) // 2
            if starts[mid] <= line_no:
                lo = mid
            else:
                hi = mid - 1
        return lo

    bad_cases = set()
    if rc_i != 0:
        ci = case_of(min(len(impl_ops), len(text) - 1))    # the line being executed when it died
        bad_cases.add(ci)
        problems.append((ci, "crash", {"rc": rc_i, "site": sanitizer_site(err_i), "report": err_i[:2500]}))
    if rc_m != 0:
        problems.append((0, "model-crash", err_m[-500:]))
    for i, l in enumerate(model_ops):
        if "REJECTED" in l:
            problems.append((case_of(i), "model-rejects-own-log", l))
            break
    if rc_i == 0:
        d = C.first_diff(impl_ops, model_ops)
        if d is not None:
            ci = case_of(d)
            bad_cases.add(ci)
            problems.append((ci, "diff", {"line": d - starts[ci], "impl": impl_ops[d] if d < len(impl_ops) else "<eof>",
                                          "model": model_ops[d] if d < len(model_ops) else "<eof>"}))
    seen = set()
    for ln_no, msgs in sorted(oracle_at.items()):
        ci = case_of(max(ln_no, 0))
        for m in msgs:
            k = m.split()[1]
            if k in seen:       # one report per oracle kind and batch (the first case that shows it)
                continue
            seen.add(k)
            problems.append((ci, "oracle", {"line": ln_no - starts[ci], "msg": m}))
    if rc_i == 0 and rc_m == 0 and not bad_cases:
        stats["validated"] += len(cases)
    elif rc_i == 0 and rc_m == 0:
        stats["validated"] += min(bad_cases)
    return problems


def _work(task):
    """pool worker: expand a task into cases, run them, return (problems with their scripts, stats, n, aborted)"""
    exe, drv, soft, spec = task
    if spec[0] == "ex":
        _, kind, alpha, prefix, live, depth = spec
        cases = list(gen_subtree(kind, alpha, prefix, live, depth))
    else:
        cases = spec[1]
    st = new_stats()
    pr = run_batch(exe, drv, cases, st, soft=soft)
    return [(cases[ci], k, det) for ci, k, det in pr], st, len(cases)


def single(exe, drv, ops, soft=False):
    return run_batch(exe, drv, [ops], new_stats(), soft=soft, timeout=60)


def fails_with(exe, drv, ops, kind, needle, soft=False):
    for _, k, det in single(exe, drv, ops, soft):
        if k != kind:
            continue
        if kind == "crash" and det["site"] == needle:
            return True
        if kind == "oracle" and det["msg"].split()[1] == needle:
            return True
        if kind == "diff":
            return True
    return False


ORACLE_TEXT = {
    "write-after-close": "the HAL stored into the device object after the driver's close had released it",
    "call-on-closed-device": "the driver was called on a device it had already closed",
    "describe-on-closed-device": "describe was called on a device the driver had already closed",
    "close-of-closed-device": "more than one close for one open",
    "device-never-closed": "the driver opened a device that the HAL neither handed to the caller nor closed (no close for this open)",
    "stop-without-successful-start": "driver stop without a preceding successful start that was not yet stopped",
    "stop-outside-running-state": "driver stop while the HAL state was not Running",
    "frame-or-append-outside-running-state": "get_frame/append reached the driver while the HAL state was not Running",
    "frame-or-append-without-successful-start": "get_frame/append reached the driver without a successful start",
    "state-not-from-driver-response": "the state the HAL reports does not follow from the previous state and the driver's response",
    "destroy-called-by-hal": "the HAL called the storage's private destroy()",
}


def shrink(ops, fails):
    """ddmin on the lines, then drop trailing driver answers (an exhausted queue answers 0) and zero the rest"""
    small = C.ddmin(ops, fails, max_runs=80) if len(ops) > 1 else list(ops)
    for i in range(len(small)):
        toks = small[i].split()
        while len(toks) > 2:
            cand = small[:i] + [" ".join(toks[:-1])] + small[i + 1:]
            if not fails(cand):
                break
            toks = toks[:-1]
            small = cand
    return small


def report(ctx, exe, drv, ops, kind, det, soft):
    if kind == "oracle":
        ok = det["msg"].split()[1]
        sig = "h_hal:oracle:%s" % ok
        if ok == "write-after-close":
            # the same store that the real-free run reports as heap-use-after-free: one defect, one violation
            for v in ctx.violations:
                if v["kind"] == "crash" and "heap-use-after-free WRITE" in v["signature"]:
                    v["count"] += 1
                    return
        if any(v["signature"] == sig for v in ctx.violations):
            ctx.violation("oracle", sig, "", None)
            return
        small = shrink(ops, lambda xs: fails_with(exe, drv, xs, "oracle", ok, soft))
        ctx.violation("oracle", sig,
                      "real HAL violates the property: %s [%s] on `%s`" % (ORACLE_TEXT.get(ok, ok), det["msg"], "; ".join(small)),
                      {"harness": "h_hal", "mode": "soft" if soft else "free", "script": ["new"] + small})
    elif kind == "crash":
        sig = "h_hal:crash:%s" % det["site"]
        if any(v["signature"] == sig for v in ctx.violations):
            ctx.violation("crash", sig, "", None)
            return
        small = shrink(ops, lambda xs: fails_with(exe, drv, xs, "crash", det["site"], soft))
        ctx.violation("crash", sig,
                      "real HAL touches a released device / crashes: %s on `%s`" % (det["site"], "; ".join(small)),
                      {"harness": "h_hal", "mode": "soft" if soft else "free", "script": ["new"] + small,
                       "sanitizer_report": det["report"]})
    elif kind == "diff":
        if len(ctx.corr_broken) < 3:
            small = shrink(ops, lambda xs: fails_with(exe, drv, xs, "diff", None, soft))
            again = [d for _, k, d in single(exe, drv, small, soft) if k == "diff"]
            ctx.corr_broken.append({"what": "hal/*.c and the Lean model disagree", "script": ["new"] + small,
                                    "at": again[0] if again else det})
    else:
        ctx.corr_broken.append({"what": kind, "detail": det, "script": ["new"] + ops[:40]})


def load_corpus():
    cases = []
    for f in C.corpus_files("C11"):
        if not f.endswith(".txt"):
            continue
        cur = None
        for l in open(f):
            l = l.strip()
            if not l or l.startswith("#"):
                continue
            if l == "new":
                if cur:
                    cases.append(cur)
                cur = []
            elif cur is not None:
                cur.append(l)
            else:
                cur = [l]
        if cur:
            cases.append(cur)
    return cases


def plan(ctx):
    """[(group name, [task spec])]; a task spec is ("ex", kind, alphabet, prefix, live, depth) or ("cases", [ops...])"""
    thorough = ctx.tier == "thorough"
    rng = ctx.rng
    groups = [("corpus", [("cases", load_corpus())])]
    rnd = [gen_random(rng, rng.randrange(1, 41)) for _ in range(30000 if thorough else 2000)]
    # a first small batch (contains every call incl. close of both kinds): decides free vs soft release for the rest
    groups.append(("random", [("cases", rnd[i:i + 500]) for i in range(0, len(rnd), 500)]))
    nullc = [[a, b] for a in NULL_CALLS for b in NULL_CALLS[:3]] + [[a] for a in NULL_CALLS]
    groups.append(("null-handle", [("cases", nullc)]))
    alpha = "more" if thorough else "quick"
    groups.append(("exhaustive-camera", exhaustive_tasks("c", alpha, EX_DEPTH)))
    groups.append(("exhaustive-storage", exhaustive_tasks("s", alpha, EX_DEPTH, split=3 if thorough else 2)))
    if thorough:
        groups.append(("exhaustive-camera-depth6-core", exhaustive_tasks("c", "core", EX_DEPTH + 1, split=3)))
        groups.append(("exhaustive-storage-depth6-core", exhaustive_tasks("s", "core", EX_DEPTH + 1, split=3)))
    return groups


EX_DEPTH = 5
WORKERS = 4


def explore(ctx):
    import multiprocessing
    stats = new_stats()
    exe, drv = build(ctx)
    if not exe:
        return stats
    soft = False
    sizes = collections.OrderedDict()
    samples = []

    def handle(name, result, was_soft):
        """returns the scripts that aborted under the real-free release (to be re-run soft)"""
        nonlocal soft
        problems, st, n = result
        merge_stats(stats, st)
        sizes[name] = sizes.get(name, 0) + n
        crashed = [p for p in problems if p[1] == "crash"]
        for ops, k, det in problems:
            report(ctx, exe, drv, ops, k, det, was_soft)
        if crashed and not was_soft and not soft:
            soft = True
            ctx.notes.append("sanitizer abort in group %s: the remaining cases run with `soft` release (pattern fill instead of free)" % name)
        return bool(crashed) and not was_soft

    groups = plan(ctx)
    with multiprocessing.Pool(WORKERS) as pool:
        for name, specs in groups:
            specs = [s for s in specs if s[0] == "ex" or s[1]]
            if not specs:
                sizes[name] = 0
                continue
            if name in ("corpus", "random") and not soft:
                # sequentially until the release mode is known
                first, specs = specs[0], specs[1:]
                if handle(name, _work((exe, drv, False, first)), False):
                    handle(name, _work((exe, drv, True, first)), True)
            mode = soft
            for spec, res in zip(specs, pool.imap(_work, [(exe, drv, mode, s) for s in specs])):
                if handle(name, res, mode):
                    handle(name, _work((exe, drv, True, spec)), True)
            if len(ctx.corr_broken) > 3:
                break
    for name, specs in groups:
        for s in specs:
            if s[0] == "cases" and s[1]:
                samples.append({"group": name, "script": s[1][len(s[1]) // 2][:40]})
                break
            if s[0] == "ex":
                samples.append({"group": name, "script": next(gen_subtree(s[1], s[2], s[3], s[4], s[5]))})
                break
    thorough = ctx.tier == "thorough"
    ctx.cov["evaluations"] = stats["evaluations"]
    ctx.cov["distinct_nontrivial"] = len(stats["distinct"])
    ctx.cov["traces_validated_against_impl"] = stats["validated"]
    ctx.cov["operations_compared"] = stats["ops"]
    ctx.cov["groups"] = dict(sizes)
    ctx.cov["exhaustive"] = True
    ctx.cov["rule"] = (
        "case = a history of HAL calls, each line carrying the answers the mock driver gives during that call. "
        "(a) corpus; (b) EXHAUSTIVE: every history of exactly %d lines (shorter ones are their prefixes; every line is compared) where a line is an "
        "open variant while no handle is held (camera %d / storage %d variants: ok with initial state Await/Running/..., open fails, "
        "*out NULL, describe fails with close Ok/Err) and otherwise one of %d camera / %d storage letters (call x argument class x answer "
        "tuple: statuses {Ok,Err,other}, states {Closed..Running,invalid}); (c) NULL-handle calls; (d) %d seeded random histories "
        "of 1..40 calls over both kinds with arbitrary answers. Compared per line: returned status, reported state, driver call log "
        "(with the state field the driver sees at each vtable call). non-trivial = the driver saw stop/get_frame/append or a "
        "describe-failure close; distinct = distinct canonical outputs of such cases.%s" % (
            EX_DEPTH, len(CAM_OPEN_ALL), len(STO_OPEN_ALL),
            len(CAM_QUICK + CAM_MORE) if thorough else len(CAM_QUICK),
            len(STO_QUICK + STO_MORE) if thorough else len(STO_QUICK), sizes.get("random", 0),
            (" Thorough also: every history of %d lines over the %d camera / %d storage letters that can change state (no getters, "
             "NULL arguments, empty appends)." % (EX_DEPTH + 1, len(alphabet("c", "core")), len(alphabet("s", "core")))) if thorough else ""))
    ctx.cov["model_branch_hits"] = dict(sorted(stats["branches"].items()))
    ctx.cov["model_branches_distinct"] = len(stats["branches"])
    # the branches the theorems case-split on, by name (label = call+arg . handle kind+state before . returned . state after . driver calls)
    key = {
        "camera_get_frame fails while Running -> stop": "cframe0.C3.1.1.2",
        "camera_set fails while Running -> stop": "cset1.C3.1.1.2",
        "camera_get_frame refused outside Running": "cframe0.C1.1.1.0",
        "camera_stop answered outside the enum (state kept)": "cstop0.C3.2.3.1",
        "storage_close of a Running device (stop, close)": "sclose0.S3.0.0.2",
        "storage_stop answered Running (stop failed)": "sstop0.S3.1.3.1",
        "storage_set answered Running": "sset1.S1.1.3.1",
        "storage_append refused outside Running": "sappend2.S2.1.2.0",
        "open: describe fails, device closed again (camera)": "copen0.N0.1.0.3",
        "open: describe fails, device closed again (storage)": "sopen0.N0.1.0.3",
        "open: driver hands out no device": "copen0.N0.1.0.1",
        "storage_validate with a handle held, set answered Running (open, describe, set, stop, close)": "svalidate0.S1.1.1.5",
        "call on a NULL handle": "cstart0.N0.1.0.0",
    }
    ctx.cov["key_branch_hits"] = {k: stats["branches"].get(v, 0) for k, v in key.items()}
    missing = [k for k, n in ctx.cov["key_branch_hits"].items() if n == 0]
    if missing:
        ctx.notes.append("branches not exercised in this run: %s" % "; ".join(missing))
    ctx.cov["samples"] = samples
    return stats


def run(ctx):
    ctx.prove(MODULE, THEOREMS, extra_targets=DRIVERS)
    ctx.assumptions += [
        "the driver's answers are arbitrary (status codes / DeviceStates / initial state / NULL device / describe failure); its vtable is complete (no NULL function pointers) and describe reports the kind that was asked for",
        "one handle at a time; calls after the caller's own close (use of a dangling handle by the caller) and opens that overwrite a held handle are outside the quantifier (ill-formed, skipped identically on both sides)",
        "for storage, whose functions answer with a DeviceState, 'successful start not yet stopped' is read as: the driver's last state answer was Running",
        "memory reads/writes of the device object are events of the model; on the real code they are observed only after the release (ASan / pattern check)",
    ]
    explore(ctx)
    # the HAL's callers: the runtime owns the handles (video_source_configure / video_sink_configure open, switch and close devices;
    # acquire_shutdown issues the final closes).  Its programs — device switches whose open or describe fails, streams switched off
    # and on, shutdown from any state — must leave every driver device with exactly one close per open and nothing afterwards
    # (the mock driver's close releases the device: ASan sees a touch of the released object, the driver sees a call on it)
    from . import rtx
    thorough = ctx.tier == "thorough"
    rel = lambda p: p["kind"] == "crash" or "device-" in p["msg"] or "CRASH" in p["msg"]
    rtx.pipeline_part(ctx, ["switchfail", "api", "drop2", "setfail", "incomplete", "switchfail", "api", "setfail", "incomplete"], 30 if thorough else 7, 6 if thorough else 3, rel,
                      "device switches with failing opens, streams switched off, shutdown: one close per open, no call and no write after close")
    loader_part(ctx)


def loader_part(ctx):
    """one layer below the HAL's callers: acquire-device-hal/device/hal/loader.c forwards open/close/describe to the driver library.
    The driver must see exactly one close per successful open through it too — in particular none for an open it refused, even when it
    had stored (and released again) a device in *out before failing (mock driver of the C12 harness, ASan)."""
    from . import c12
    import random
    keep = dict(ctx.cov)
    nviol, ncorr = len(ctx.violations), len(ctx.corr_broken)
    paths = c12.build(ctx)
    ctx.cov.clear(); ctx.cov.update(keep)
    if not paths:
        return
    rng = random.Random(ctx.seed)
    slots = c12.make_config(rng, 0b111111, True)
    n = len(c12.enumerated(paths, slots))
    ops = [("getdrv %d" % i, None) for i in range(0, 7)] + [("open %d" % i, None) for i in range(n)] + [("openh %d" % i, None) for i in range(n)]
    res = c12.run_config(paths, slots, ops, "c11-loader")
    bad = [p for p in res["problems"] if p[0] in ("crash", "oracle")]
    for kind, op, det in bad[:3]:
        ctx.violation(kind, "h_select:loader:%s" % kind,
                      "driver calls forwarded by the loader: `%s` -> %s (drivers: %s)" % (op, str(det)[:300], c12.describe_slots(slots)),
                      {"harness": "h_select", "slots": c12.slots_json(slots), "ops": [op]})
    ctx.cov["loader_part"] = {"ops": len(ops), "devices": n, "problems": len(bad)}


def replay(ctx, path):
    obj = json.load(open(path))
    rp = obj.get("replay") or {}
    if rp.get("harness") == "h_select":
        from . import c12
        return c12.replay(ctx, path)
    if "harness_input" in rp:
        from . import rtx
        return rtx.replay(ctx, path)
    ops = [l for l in rp.get("script", []) if l != "new"]
    exe, drv = build(ctx)
    if not exe:
        print("cannot build harness")
        return 2
    soft = rp.get("mode") == "soft"
    pr = single(exe, drv, ops, soft)
    bad = [p for p in pr if p[1] in ("oracle", "crash")]
    for _, k, det in pr:
        print(k, json.dumps(det)[:600])
    if bad:
        print("VIOLATION property=C11 replay=%s" % path)
        return 1
    print("ok replay passes: %s" % path)
    return 0
