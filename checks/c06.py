"""C06 -- see checks/rtcheck.py (table entry "C06") and lean/AcqVerif/Props/C06.lean."""
from . import rtcheck

MODULE = rtcheck.TABLE["C06"]["module"]
DRIVERS = rtcheck.DRIVERS
THEOREMS = rtcheck.TABLE["C06"]["theorems"]
run = rtcheck.run
replay = rtcheck.replay
