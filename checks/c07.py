"""C07 -- see checks/rtcheck.py (table entry "C07") and lean/AcqVerif/Props/C07.lean."""
from . import rtcheck

MODULE = rtcheck.TABLE["C07"]["module"]
DRIVERS = rtcheck.DRIVERS
THEOREMS = rtcheck.TABLE["C07"]["theorems"]
run = rtcheck.run
replay = rtcheck.replay
