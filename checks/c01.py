"""C01 — channel delivers every committed byte to each reader exactly once, in order."""
from . import common as C, chan

MODULE = "AcqVerif.Props.C01"
DRIVERS = ["acq_chan"]
THEOREMS = []

def run(ctx):
    if THEOREMS:
        ctx.prove(MODULE, THEOREMS)
    chan.explore(ctx, chan.C01_ORACLES)
