"""C01 — channel delivers every committed byte to each reader exactly once, in order."""
from . import common as C, chan

MODULE = "AcqVerif.Props.C01"
DRIVERS = ["acq_chan", "acq_conc", "AcqVerif.Props.ChanThreads", "AcqVerif.Channel.Refine"]
THEOREMS = ["AcqVerif.C01.%s" % t for t in (
    "read_map_spec", "join_spec", "unmap_advances", "idx_unchanged_by_others", "consumed_is_stream",
    "bounds_le_total", "status_stays_ok")] + [
    "AcqVerif.Channel.Inv.step", "AcqVerif.Channel.Inv.run", "AcqVerif.Channel.region_bytes"]

def run(ctx):
    chan.prove_with_lock_discipline(ctx, MODULE, THEOREMS, DRIVERS, threads=True)
    ctx.assumptions += chan.ASSUMPTIONS
    chan.explore(ctx, chan.C01_ORACLES)
    # the calls are atomic except where channel_write_map sleeps: what the writer does after a sleep, while readers overtake each
    # other, is decided by the interleaving model (AcqVerif.ChanThreads) and tied to channel.c on the deterministic scheduler
    from . import c03
    keep = dict(ctx.cov)
    thorough = ctx.tier == "thorough"
    c03.conc_part(ctx, ("write-overlaps-unconsumed",), 120 if thorough else 24, 600 if thorough else 150)
    keep["concurrent_part"] = ctx.cov.get("concurrent_part")
    ctx.cov.update(keep)


def replay(ctx, path):
    import json
    if "scenario" in json.load(open(path)).get("replay", {}):
        from . import c03
        return c03.replay(ctx, path)
    return chan.replay(ctx, path, chan.C01_ORACLES)
