"""C01 — channel delivers every committed byte to each reader exactly once, in order."""
from . import common as C, chan

MODULE = "AcqVerif.Props.C01"
DRIVERS = ["acq_chan"]
THEOREMS = ["AcqVerif.C01.%s" % t for t in (
    "read_map_spec", "join_spec", "unmap_advances", "idx_unchanged_by_others", "consumed_is_stream",
    "bounds_le_total", "status_stays_ok")] + [
    "AcqVerif.Channel.Inv.step", "AcqVerif.Channel.Inv.run", "AcqVerif.Channel.region_bytes"]

def run(ctx):
    chan.prove_with_lock_discipline(ctx, MODULE, THEOREMS, DRIVERS)
    ctx.assumptions += chan.ASSUMPTIONS
    chan.explore(ctx, chan.C01_ORACLES)


def replay(ctx, path):
    return chan.replay(ctx, path, chan.C01_ORACLES)
