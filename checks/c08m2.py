"""C08, control-plane half: model M2 (lean/AcqVerif/Control/Model.lean, theorems in lean/AcqVerif/Props/C08b.lean) against the real
runtime.

Client programs over the public API (configure with per-stream devices incl. "none", device switches on both streams, disabling and
re-enabling stream 1, start / start while running / stop / abort / trigger / get_state / shutdown in every position, opens and camera
starts that fail) run on the real runtime (harness h_runtime: acquire.c & friends on the deterministic scheduler with the recording
mock driver) under several schedules.  Per run the harness' `DRV` lines are projected onto open/openfail/set/start/startfail/stop/close
per device instance and compared with what the model predicts for the same program:

  * per API call: the result, `valid_video_streams`, the reported runtime state, and the ordered list of driver calls the client thread
    makes during that call (everything except the workers' `stop`s);
  * per device: the whole event sequence including the `stop`s (which worker threads perform at schedule-dependent moments between
    their `start` and the call that ends the acquisition), and at every call that ends an acquisition that every stop has happened.

What depends on the schedule and not on the program -- whether the workers of a running acquisition have all exited when the client
asks (`acquire_get_state`, `acquire_start`) -- is read off the real run and handed to the model as the `fin` argument of that call.

Exposes MODULE, THEOREMS, run_m2(ctx, ex) for checks/rtcheck.py.
"""
import json
import os
import re
import time

from . import common as C
from . import rtx, runtime as R

MODULE = "AcqVerif.Props.C08b"
DRIVER = "acq_control"
THEOREMS = [
    "AcqVerif.C08b.device_life_cycle",
    "AcqVerif.C08b.opened_at_most_once_closed_at_most_once",
    "AcqVerif.C08b.nothing_after_close",
    "AcqVerif.C08b.started_only_when_armed",
    "AcqVerif.C08b.stopped_exactly_once_per_start",
    "AcqVerif.C08b.none_left_running_when_not_Running",
    "AcqVerif.C08b.shutdown_closes_every_opened_instance",
    "AcqVerif.C08b.device_open_in_at_most_one_stream",
    "AcqVerif.C08b.reported_state_is_what_the_code_computes",
    "AcqVerif.C08b.running_only_between_successful_start_and_its_end",
    "AcqVerif.C08b.running_means_devices_started",
    "AcqVerif.C08b.wellformed_program_never_skipped",
]
KINDS = ("device-", "state-", "still-running-after", "never-returns", "CRASH")
CAMS, STOS = (0, 1, 4), (2, 3, 5)
STATES = ("AwaitingConfiguration", "Armed", "Running", "Closed")


def relevant(p):
    return p["kind"] == "crash" or any(k in p["msg"] or k in p["sig"] for k in KINDS)


# ------------------------------------------------------------------------------------------------------------ programs
def _pools(rng):
    """disjoint per-stream device pools: every stream gets at least one camera and one storage"""
    out = {}
    for devs in (CAMS, STOS):
        p = list(devs)
        rng.shuffle(p)
        cut = rng.choice([1, 2])
        for d in p[:cut]:
            out[d] = 0
        for d in p[cut:]:
            out[d] = 1
    return out


def _cfg_lines(rng, choice):
    """choice[i] = (cam, sto) or None -> harness `cfg` lines for both streams (always both: the harness keeps its properties struct)"""
    out = []
    for i in range(2):
        if choice[i] is None:
            out.append("cfg %d cam=- sto=-" % i)
        else:
            out.append("cfg %d cam=%d sto=%d w=%d h=%d type=%d n=%d" % (i, choice[i][0], choice[i][1], rng.choice([1, 2, 3]), rng.choice([1, 2]),
                                                                         rng.choice([0, 1]), rng.choice([1, 2, 4, 7])))
    return out


class _Gen:
    """grammar-directed generator; `busy` = an acquisition may still be in progress as far as the client knows"""

    def __init__(self, rng, pools):
        self.rng = rng
        self.pools = pools
        self.cams = [[d for d in CAMS if pools[d] == i] for i in range(2)]
        self.stos = [[d for d in STOS if pools[d] == i] for i in range(2)]
        self.cur = [None, None]
        self.busy = False
        self.prog = []

    def pick(self, i, switch_bias=.5):
        rng = self.rng
        if self.cur[i] is not None and rng.random() > switch_bias:
            return self.cur[i]
        return (rng.choice(self.cams[i]), rng.choice(self.stos[i]))

    def configure(self, want=None):
        rng = self.rng
        if want is None:
            c0 = self.pick(0) if rng.random() < .93 else None
            c1 = self.pick(1) if rng.random() < .6 else None
            want = [c0, c1]
        self.cur = [want[i] if want[i] is not None else self.cur[i] for i in range(2)]
        self.prog += _cfg_lines(rng, want) + ["configure"]

    def op(self, o):
        self.prog.append(o)
        if o == "start":
            self.busy = True
        elif o in ("stop", "abort", "waitidle"):
            self.busy = False


def gen_free(rng):
    """random walk over the usage grammar"""
    pools = _pools(rng)
    g = _Gen(rng, pools)
    if rng.random() < .12:
        g.op(rng.choice(["start", "stop", "abort", "state", "trigger 0"]))   # before any configuration
    g.configure()
    for _ in range(rng.randrange(3, 12)):
        if not g.busy:
            o = rng.choice(["start", "start", "start", "cfg", "cfg", "state", "stop", "abort", "trigger 0", "trigger 1"])
        else:
            o = rng.choice(["stop", "stop", "abort", "abort", "state", "start", "trigger 0", "trigger 1", "waitidle", "sleep 3", "restart"])
        if o == "cfg":
            g.configure()
        elif o == "restart":
            # long enough for a short acquisition to finish by itself: the start then begins a new one over the finished workers
            g.op("sleep %d" % rng.choice([60, 150, 400]))
            g.op("start")
        else:
            g.op(o)
            if o in ("start", "stop", "abort") and rng.random() < .6:
                g.op("state")
    if rng.random() < .5:
        g.op("shutdown")
    return g.prog, pools


def gen_positions(rng):
    """a fixed skeleton (configure, run, switch devices on both streams, run, disable stream 1, run, re-enable it with the other
    device, run) with one extra call inserted at one position -- over the scenarios of a check run every call kind is tried in
    every position"""
    pools = _pools(rng)
    g = _Gen(rng, pools)
    a = [(g.cams[i][0], g.stos[i][0]) for i in range(2)]
    b = [(g.cams[i][-1], g.stos[i][-1]) for i in range(2)]
    mixed = [(g.cams[0][-1], g.stos[0][0]), (g.cams[1][0], g.stos[1][-1])]
    skel = [("cfg", [a[0], a[1]]), "start", "stop", ("cfg", [b[0], b[1]]), "start", "abort", ("cfg", [mixed[0], None]), "start", "stop",
            ("cfg", [a[0], mixed[1]]), "start", "stop"]
    pos = rng.randrange(len(skel) + 1)
    extra = rng.choice(["abort", "stop", "shutdown", "start", "state", "trigger 0", "trigger 1", "waitidle", "start"])
    for j, o in enumerate(skel + [None]):
        if j == pos:
            # configure must not follow a start without stop/abort/waitidle in between
            g.op(extra)
            if extra == "shutdown":
                break
            if extra == "start" and (o is None or isinstance(o, tuple)):
                g.op(rng.choice(["stop", "abort", "waitidle"]))
        if o is None:
            break
        if isinstance(o, tuple):
            g.configure(o[1])
        else:
            g.op(o)
    return g.prog, pools


def gen_from_rtx(rng, cls):
    """the generators the exploration engine already has ("api": usage grammar; "switchfail": device switch with a failing open);
    their pools are fixed"""
    sc = rtx.gen(rng, cls)
    pools = {0: 0, 4: 0, 1: 1, 2: 0, 5: 0, 3: 1}
    return sc, pools


def gen_faults(rng, pools, p_open=.55, p_start=.25):
    faults = []
    if rng.random() < p_open:
        for d in rng.sample(list(CAMS + STOS), rng.choice([1, 1, 2])):
            faults.append("%s %d %d" % (rng.choice(["openfail", "openfail", "descfail"]), d, rng.choice([1, 1, 2])))
    if rng.random() < p_start:
        faults.append("camstartfail %d %d" % (rng.choice(CAMS), rng.choice([1, 1, 2])))
    return faults


def gen(rng, style):
    if style in ("api", "switchfail"):
        sc, pools = gen_from_rtx(rng, style)
        sc = dict(sc, cls="m2-" + style, pools=pools)
        return sc
    prog, pools = gen_free(rng) if style == "free" else gen_positions(rng)
    return {"cls": "m2-" + style, "ring": 400 + 8 * rng.randrange(0, 40), "prog": prog, "faults": gen_faults(rng, pools), "pools": pools}


# ------------------------------------------------------------------------------------------- program -> expected API calls
def api_calls(prog):
    """harness client program -> list of (kind, harness-op, model-op-template); None if the program is outside M2's vocabulary.
    The harness shuts the runtime down at the end of every program."""
    cur = [None, None]
    calls = []
    down = False
    for op in prog:
        t = op.split()
        if down:
            return None                       # nothing may follow shutdown
        if t[0] == "cfg":
            kv = dict(x.split("=") for x in t[2:])
            c, s = kv.get("cam", "-"), kv.get("sto", "-")
            if (c == "-") != (s == "-"):
                return None                   # one identifier None: resolved by device_manager_select_default, not M2's business
            cur[int(t[1])] = None if c == "-" else (int(c), int(s))
        elif t[0] == "configure":
            calls.append(("configure", "configure " + " ".join("- -" if x is None else "%d %d" % x for x in cur)))
        elif t[0] in ("start",):
            calls.append(("start", "start %(fin)d"))
        elif t[0] in ("stop", "abort"):
            calls.append((t[0], t[0]))
        elif t[0] == "trigger":
            calls.append(("trigger", "trigger %s" % t[1]))
        elif t[0] == "state":
            calls.append(("state", "state %(fin)d"))
        elif t[0] in ("waitidle", "monwait"):
            calls.append((t[0], "state 1"))
        elif t[0] == "shutdown":
            calls.append(("shutdown", "shutdown"))
            down = True
        elif t[0] in ("sleep", "map", "unmap"):
            continue
        else:
            return None
    if not down:
        calls.append(("shutdown", "shutdown"))
    return calls


# ------------------------------------------------------------------------------------------------- the real run, projected
def project(lines):
    """harness output of one run -> [(api line, [(dev, act)] of the DRV lines since the previous api line)]"""
    segs, cur = [], []
    pending_close = {}
    for ln in lines:
        if ln.startswith("DRV "):
            t = ln.split()
            dev, op = int(t[1]), t[2]
            if op == "open":
                cur.append((dev, "openfail" if "-> err" in ln else "open"))
            elif op == "describe":
                # open() succeeded but describe() failed: driver_open_device must close the device it opened and report the
                # failure — to the runtime (and to M2) that is a failed open; the close that belongs to it is checked here
                for k in range(len(cur) - 1, -1, -1):
                    if cur[k] == (dev, "open"):
                        cur[k] = (dev, "openfail")
                        break
                pending_close[dev] = pending_close.get(dev, 0) + 1
            elif op == "start":
                cur.append((dev, "startfail" if "-> err" in ln else "start"))
            elif op == "close" and pending_close.get(dev, 0) > 0:
                pending_close[dev] -= 1
            elif op in ("set", "stop", "close"):
                cur.append((dev, op))
            # get_frame / append / trigger: data calls
        elif ln.startswith("API "):
            t = ln.split()
            if t[1] in ("init", "map", "unmap", "select", "bad-op"):
                if t[1] in ("select", "bad-op"):
                    segs.append((ln, cur)); cur = []
                continue
            for d, k in pending_close.items():
                cur += [(d, "leaked-after-failed-describe")] * k   # no counterpart in the model: reported as a difference
            pending_close.clear()
            segs.append((ln, cur))
            cur = []
    return segs, cur


def with_instances(events, opens):
    """[(dev, act)] -> ['dev:act#inst']; `opens` (successful opens per device so far) is updated"""
    out = []
    for dev, act in events:
        if act == "open":
            opens[dev] = opens.get(dev, 0) + 1
            out.append("%d:open#%d" % (dev, opens[dev]))
        elif act == "openfail":
            out.append("%d:openfail#%d" % (dev, opens.get(dev, 0) + 1))
        else:
            out.append("%d:%s#%d" % (dev, act, opens.get(dev, 0)))
    return out


def canon_real(kind, api_line):
    """what the harness reports about one call, in the model driver's vocabulary"""
    t = api_line.split()
    if kind == "configure":
        m = re.match(r"API configure -> (\w+) valid=(\d+) state=(\w+)", api_line)
        return "configure -> %s valid=%s state=%s" % m.groups() if m else api_line
    if kind in ("state", "waitidle", "monwait"):
        return "state -> %s" % t[-1]
    if kind == "trigger":
        return "trigger -> %s" % t[-1]
    return "%s -> %s" % (kind, t[-1])


def canon_model(kind, mline):
    m = re.match(r"(\w+) -> (\w+) valid=(\d+) state=(\w+) \|(.*?)(?: ~(\S*))?$", mline)
    if not m:
        return mline, [], ""
    op, res, valid, state, evs, label = m.groups()
    evs = evs.split()
    if kind == "configure":
        head = "configure -> %s valid=%s state=%s" % (res, valid, state)
    elif kind in ("state", "waitidle", "monwait"):
        head = "state -> %s" % state if res == "ok" else "state -> %s" % res
    else:
        head = "%s -> %s" % (op, res)
    return head, evs, label or "", state


def model_run(text):
    """all model scenarios through one driver process; native exe when it has been built, the interpreter otherwise"""
    exe = C.driver_path(DRIVER)
    if os.path.exists(exe) and os.path.getmtime(exe) >= os.path.getmtime(os.path.join(C.LEAN, "Driver", "ControlMain.lean")) \
            and os.path.getmtime(exe) >= os.path.getmtime(os.path.join(C.LEAN, "AcqVerif", "Control", "Model.lean")):
        rc, out, err = C.run_lines(exe, text, timeout=120)
        return rc, out, err, "native"
    with C.LakeLock():
        rc, out, err = C.sh(["lake", "env", "lean", "--run", "Driver/ControlMain.lean"], cwd=C.LEAN, input=text, timeout=300)
    return rc, out.split("\n"), err, "interpreted"


# -------------------------------------------------------------------------------------------------------------- the check
def parse_runs(out, specs, err=""):
    """harness output -> one record per `run` line of the input.  Every run ends with exactly one END line (printed by the child, or by
    the parent when the child crashed -- then the child's buffered output, RUN line included, is lost), so END lines delimit runs."""
    def new():
        return {"spec": None, "lines": [], "oracle": [], "end": None, "schedule": None, "acq": []}
    runs, cur = [], new()
    for ln in out:
        if ln.startswith("RUN "):
            cur["spec"] = ln[4:]
        elif ln.startswith("ORACLE "):
            cur["oracle"].append(ln[7:])
        elif ln.startswith("END "):
            cur["end"] = ln[4:]
            runs.append(cur)
            cur = new()
        elif ln.startswith("DETSCHED-SCHEDULE"):
            if runs:
                runs[-1]["schedule"] = ln.split(None, 1)[1] if " " in ln else ""
        elif ln:
            if ln.startswith("ACQ "):
                cur["acq"].append(ln)
            cur["lines"].append(ln)
    for i, r in enumerate(runs):
        if r["spec"] is None and i < len(specs):
            r["spec"] = specs[i]
    while len(runs) < len(specs):
        runs.append(dict(new(), spec=specs[len(runs)], end="CRASH harness died " + err[-600:].replace("\n", " | ")))
    return runs


def run_batch(ex, scs, runs_of):
    """several scenarios through one harness process (each `run` is a forked child) -> per scenario the parsed runs"""
    text = "".join(rtx.scenario_input(sc, runs, False) for sc, runs in zip(scs, runs_of))
    rc, out, err = C.run_lines(ex.exe, text, timeout=300)
    res = parse_runs(out, [r for runs in runs_of for r in runs], err)
    per, k = [], 0
    for runs in runs_of:
        per.append(res[k:k + len(runs)])
        k += len(runs)
    return per


def run_m2(ctx, ex, budget_s=None):
    thorough = ctx.tier == "thorough"
    if budget_s is None:
        budget_s = 120 if thorough else 17
    nsched = 5 if thorough else 3
    cov = {"scenarios": 0, "runs": 0, "runs_compared": 0, "api_calls_compared": 0, "driver_calls_compared": 0, "per_style": {}, "call_mix": {},
           "model_branch_hits": {}, "device_switches": 0, "open_failures_hit": 0, "camera_start_failures_hit": 0,
           "starts_over_finished_acquisition": 0, "starts_refused_while_running": 0, "shutdown_with_acquisition_running": 0,
           "programs_with_explicit_shutdown": 0, "skipped_outside_vocabulary": 0, "oracle_kinds": {}, "run_endings": {}, "model_driver": ""}
    ctx.cov["m2"] = cov
    t0 = time.time()
    styles = ["free", "free", "positions", "free", "api", "switchfail", "positions", "free"]
    corpus = []
    for f in C.corpus_files("C08"):
        if f.endswith(".json"):
            ent = json.load(open(f))
            if ent.get("m2"):
                sc = dict(ent["scenario"])
                sc["pools"] = {int(k): v for k, v in sc["pools"].items()}
                corpus.append((sc, ent["runs"]))
    cov["corpus_entries"] = len(corpus)
    rounds = 0
    samples = []
    while True:
        batch, runs_of = [], []
        if rounds == 0 and corpus:
            for sc, runs in corpus:
                batch.append(sc); runs_of.append(runs)
        for j in range(16):
            style = styles[(rounds * 16 + j) % len(styles)]
            sc = gen(ctx.rng, style)
            if api_calls(sc["prog"]) is None:
                cov["skipped_outside_vocabulary"] += 1
                continue
            batch.append(sc)
            runs_of.append(["random %d" % ctx.rng.randrange(1 << 30) for _ in range(nsched)] + ["explicit  fair"])
        per = run_batch(ex, batch, runs_of)
        # model input for the whole batch
        mtext, plan = [], []
        for sc, mine in zip(batch, per):
            calls = api_calls(sc["prog"])
            for r in mine:
                ex.stats["runs"] += 1
                ex.stats["per_class"][sc["cls"]] = ex.stats["per_class"].get(sc["cls"], 0) + 1
                e = r["end"].split()[0] if r["end"] else "none"
                cov["run_endings"][e] = cov["run_endings"].get(e, 0) + 1
                cov["runs"] += 1
                # implementation-side oracles first
                probs = []
                for m in r["oracle"]:
                    k = rtx.sig_of(m)
                    cov["oracle_kinds"][k] = cov["oracle_kinds"].get(k, 0) + 1
                if r["oracle"]:
                    probs.append({"kind": "oracle", "sig": rtx.sig_of(r["oracle"][0]), "msg": r["oracle"][0], "run": r})
                elif not r["end"].startswith("ok"):
                    probs.append({"kind": "crash", "sig": "rt:" + re.sub(r"\d+", "N", " ".join(r["end"].split()[:3])), "msg": r["end"][:300], "run": r})
                for p in probs:
                    ex.report(sc, p, relevant)
                if not r["end"].startswith("ok"):
                    continue
                segs, tail = project(r["lines"])
                mops = ["reset"] + ["pool %d %d %s" % (d, s, "cam" if d in CAMS else "sto") for d, s in sorted(sc["pools"].items())]
                for f in sc.get("faults", []):
                    if f.split()[0] in ("openfail", "camstartfail"):
                        mops.append(f)
                    elif f.split()[0] == "descfail":    # to the control plane a failed describe is a failed open
                        mops.append(f.replace("descfail", "openfail"))
                ok = len(segs) == len(calls) and not tail
                if ok:
                    for (kind, tmpl), (api_line, evs) in zip(calls, segs):
                        fin = 0
                        if kind == "state":
                            fin = 0 if api_line.split()[-1] == "Running" else 1
                        elif kind == "start":
                            fin = 1 if any(a in ("start", "startfail") for _, a in evs) else 0
                        mops.append(tmpl % {"fin": fin} if "%(" in tmpl else tmpl)
                else:
                    # the harness printed another number of API lines than the program has calls: compare as far as it goes
                    for (kind, tmpl) in calls:
                        mops.append(tmpl % {"fin": 0} if "%(" in tmpl else tmpl)
                mtext += mops
                plan.append((sc, r, calls, segs, tail, ok))
        rc, mout, merr, how = model_run("\n".join(mtext) + "\n")
        cov["model_driver"] = how
        mout = [l for l in mout if l.strip()]
        k = 0
        for sc, r, calls, segs, tail, ok in plan:
            mlines = mout[k:k + len(calls)]
            k += len(calls)
            d = compare(sc, r, calls, segs, tail, ok, mlines, cov)
            if d:
                if len(ctx.corr_broken) < 5:
                    ctx.corr_broken.append({"what": "M2 and the runtime disagree: " + d, "class": sc["cls"],
                                            "replay": {"scenario": sc, "run": r["spec"].strip(), "schedule": r.get("schedule"),
                                                       "harness_input": rtx.scenario_input(sc, [r["spec"].strip()], False)}})
                cov.setdefault("disagreements", 0)
                cov["disagreements"] += 1
            else:
                cov["runs_compared"] += 1
                ex.stats["cosim_ok"] += 1
                ex.distinct.add(C.sha(sc["cls"] + "|" + " ; ".join(sc["prog"]) + "|" + (r["schedule"] or r["spec"])))
        if rc != 0 or k != len(mout):
            ctx.corr_broken.append({"what": "model driver acq_control: rc=%s, %d lines for %d calls: %s" % (rc, len(mout), k, merr[-400:])})
            break
        for sc in batch:
            cov["scenarios"] += 1
            cov["per_style"][sc["cls"]] = cov["per_style"].get(sc["cls"], 0) + 1
            if "shutdown" in sc["prog"]:
                cov["programs_with_explicit_shutdown"] += 1
            if len(samples) < 4 and cov["per_style"][sc["cls"]] == 1:
                samples.append({"class": sc["cls"], "program": " ; ".join(sc["prog"])[:400], "faults": sc.get("faults", []), "pools": sc["pools"]})
        rounds += 1
        if time.time() - t0 > budget_s or len(ctx.corr_broken) >= 5:
            break
    cov["samples"] = samples
    cov["wall_s"] = round(time.time() - t0, 1)
    ctx.assumptions.append(
        "M2 (control plane): worker threads are abstracted -- an acquisition that was started is wound down completely (each started camera and "
        "storage stopped exactly once by its worker) by the call that ends it; this is what M1's theorems (Props/C07, Props/C08) establish. Drivers "
        "answer set/stop/close and a storage's start as their contract says (the mock does); open and a camera's start may fail. Data faults "
        "(get_frame/append failing) are C09's. A stream's identifiers are both given or both None (a single None is resolved by "
        "device_manager_select_default before configure_video_stream proceeds). Usage rules, checked identically on both sides: no call after "
        "shutdown; no acquire_configure while the runtime reports Running; per-stream device pools are disjoint.")
    return cov


def compare(sc, r, calls, segs, tail, ok, mlines, cov):
    """-> None, or a description of the first difference"""
    if not ok:
        return "the program makes %d API calls but the harness reported %d (%d driver calls after the last one)" % (len(calls), len(segs), len(tail))
    if len(mlines) != len(calls):
        return "model driver printed %d lines for %d calls" % (len(mlines), len(calls))
    opens = {}
    real_dev, model_dev = {}, {}
    real_stops, model_stops = {}, {}
    for n, ((kind, tmpl), (api_line, evs), ml) in enumerate(zip(calls, segs, mlines)):
        cm = canon_model(kind, ml)
        if len(cm) != 4:
            return "call %d: unreadable model line `%s`" % (n, ml)
        mhead, mevs, label, mstate = cm
        if mhead.endswith("illformed"):
            return "call %d `%s` violates the usage rules in the model (generator bug, not compared): %s" % (n, tmpl, ml)
        rhead = canon_real(kind, api_line)
        revs = with_instances(evs, opens)
        for e in revs:
            real_dev.setdefault(e.split(":")[0], []).append(e)
        for e in mevs:
            model_dev.setdefault(e.split(":")[0], []).append(e)
        if rhead != mhead:
            return "call %d `%s`: runtime `%s`, model `%s`" % (n, tmpl, rhead, mhead)
        rc_ = [e for e in revs if ":stop#" not in e]
        mc_ = [e for e in mevs if ":stop#" not in e]
        if rc_ != mc_:
            return "call %d `%s`: driver calls made by the client thread: runtime `%s`, model `%s`" % (n, tmpl, " ".join(rc_), " ".join(mc_))
        for e in revs:
            if ":stop#" in e:
                real_stops[e] = real_stops.get(e, 0) + 1
        for e in mevs:
            if ":stop#" in e:
                model_stops[e] = model_stops.get(e, 0) + 1
        # the workers stop their devices no later than the call that ends the acquisition, and never more often than started
        for e, c in model_stops.items():
            if real_stops.get(e, 0) < c:
                return "call %d `%s`: the model has seen %d× `%s` (acquisition over), the runtime %d×" % (n, tmpl, c, e, real_stops.get(e, 0))
        if mstate != "Running":
            for e, c in real_stops.items():
                if model_stops.get(e, 0) != c:
                    return "call %d `%s`: runtime stopped `%s` %d×, model %d×" % (n, tmpl, e, c, model_stops.get(e, 0))
        cov["api_calls_compared"] += 1
        cov["driver_calls_compared"] += len(revs)
        cov["call_mix"][kind] = cov["call_mix"].get(kind, 0) + 1
        cov["model_branch_hits"][label] = cov["model_branch_hits"].get(label, 0) + 1
        cov["device_switches"] += label.count("switch")
        cov["open_failures_hit"] += sum(1 for e in revs if ":openfail#" in e)
        cov["camera_start_failures_hit"] += sum(1 for e in revs if ":startfail#" in e)
        if "over-finished" in label:
            cov["starts_over_finished_acquisition"] += 1
        if label == "start:refused":
            cov["starts_refused_while_running"] += 1
        if label.startswith("shutdown:running"):
            cov["shutdown_with_acquisition_running"] += 1
    for d in set(real_dev) | set(model_dev):
        if real_dev.get(d, []) != model_dev.get(d, []):
            return "device %s over the whole run: runtime `%s`, model `%s`" % (d, " ".join(real_dev.get(d, [])), " ".join(model_dev.get(d, [])))
    return None
