"""C10 — frame averaging emits the exact mean of each window of consecutive frames.

Lean: AcqVerif/Filter/{Model,Spec,Lemmas,Bound}.lean + Props/C10.lean (process_data / video_filter_thread of
filter.c at frame granularity, pixel sums as exact integers; for all k >= 2, inputs, batchings, ring contents).

Tie, unit level: harness/filter/h_filter.c includes the REAL filter.c and links the real channel.c,
frame_iterator.c, throttler.c, components.c, logger.c, linux/platform.c; it plays source and sink on small rings
filled with garbage, and prints the float32 bit pattern of every pixel of every committed frame.  The model
driver `acq_filter` runs the same script and prints integer sums + divisor; this check turns them into the
float32 bits  fl(fl(sum) * fl(1/div))  (exact rational arithmetic, round-to-nearest-even) and diffs.
The harness' own oracle (ORACLE lines) recomputes the mean from the pixel values it generated.

Tie, pipeline level: the whole real runtime on the deterministic scheduler with the mock driver
(checks/rtx.py, classes avg / avgmon / avgabort / avgtwo): what storage and the monitor received vs the camera's frames,
under many schedules of source, filter and sink.
"""
import itertools
import json
import os
import re
import struct
from fractions import Fraction

from . import common as C
from . import rtx

MODULE = "AcqVerif.Props.C10"
DRIVERS = ["acq_filter"]
THEOREMS = ["AcqVerif.C10.%s" % t for t in (
    "averaging_emits_window_sums", "spec_explicit", "complete_window_frame", "windows_partition_input",
    "at_most_one_extra_frame", "trailing_frame", "batching_independent", "independent_of_previous_contents",
    "partial_sums_exact_range", "thread_states_reachable", "integer_types_exact_window_sizes",
    "refused_map_skips_frame", "shape_change_drops_window", "reset_drops_pending", "unsupported_type_fails_thread",
    "window_below_two_acts_as_two", "filter_bypassed_below_two")]

RT = "acquire-video-runtime/src/runtime/"
HARNESS_SRC = [os.path.join(C.VERIF, "harness/filter/h_filter.c"),
               RT + "channel.c", RT + "frame_iterator.c", RT + "throttler.c",
               "acquire-core-libs/src/acquire-device-properties/device/props/components.c",
               "acquire-core-libs/src/acquire-core-logger/logger.c",
               "acquire-core-libs/src/acquire-core-platform/linux/platform.c"]

# branches of process_data's loop body the theorems case-split on (labels printed by the model driver)
BRANCHES = ("first", "cont", "emit", "refused", "emit-lost", "shape", "err-first", "err-cont", "reset-pending", "reset-idle",
            "fin-pending", "fin-idle", "empty")
ABOUT = ("emit", "fin-pending")          # a case is non-trivial if a window was completed or a trailing one flushed
LABEL = re.compile(r" ~(\S+)$")

BPP = {0: 1, 1: 2, 2: 1, 3: 2, 4: 4, 5: 2, 6: 2, 7: 2, 9: 0}
INT_TYPES = [0, 1, 2, 3, 5, 6, 7]
MAXABS = {0: 255, 1: 65535, 2: 128, 3: 32768, 5: 1023, 6: 4095, 7: 16383}
TYPE_NAME = {0: "u8", 1: "u16", 2: "i8", 3: "i16", 4: "f32", 5: "u10", 6: "u12", 7: "u14", 9: "unknown"}
SHAPES = [(3, 1), (1, 1), (5, 3), (2, 2), (7, 1), (1, 3), (3, 3), (9, 5)]   # most byte sizes are not multiples of 8

ASSUMPTIONS = [
    "float32 arithmetic is not modelled: IEEE-754 binary32 converts 8/16-bit samples exactly, adds integers exactly while operands and result are <= 2^24 in "
    "absolute value, and `x *= 1.0f/k` is one correctly rounded division and one correctly rounded multiplication (gcc, SSE, FLT_EVAL_METHOD 0). "
    "Theorem partial_sums_exact_range keeps every operand below 2^24 for k * maxabs(type) < 2^24 (k <= 256 for u16, 511 for i16, 65793 for u8); "
    "for larger windows the C computes a rounded sum and C10 is not claimed",
    "frame granularity: a batch is the list of whole frames one channel_read_map returned (whole-frame regions: C05; every written frame is read exactly "
    "once, in order: C01/C04); the filter is the only writer of the sink's channel while averaging is enabled",
    "image shapes with planes = 1 (strides.planes = number of pixels), as every camera of the repository reports them",
    "on the error path of process_data the output channel's acceptance flag is taken to be the same for the map and the commit of one frame",
    "pipeline level: see checks/runtime.py ASSUMPTIONS (deterministic scheduler, mock driver)",
]


# ------------------------------------------------------------------------------------------------ float32, exactly
def f32_round(q):
    """bits of the binary32 nearest to the rational q (ties to even); normal range only"""
    q = Fraction(q)
    if q == 0:
        return 0
    sign = 0x80000000 if q < 0 else 0
    m = abs(q)
    e = m.numerator.bit_length() - m.denominator.bit_length()
    if Fraction(2) ** e > m:
        e -= 1
    while Fraction(2) ** (e + 1) <= m:
        e += 1
    scaled = m / Fraction(2) ** (e - 23)
    n = scaled.numerator // scaled.denominator
    rem = scaled - n
    if rem > Fraction(1, 2) or (rem == Fraction(1, 2) and n % 2 == 1):
        n += 1
    if n == 1 << 24:
        n >>= 1
        e += 1
    assert -126 <= e <= 127, "outside the normal range"
    return sign | ((e + 127) << 23) | (n - (1 << 23))


def f32_value(bits):
    return Fraction(struct.unpack("<f", struct.pack("<I", bits))[0])


def mean_bits(total, div):
    """fl( fl(total) * fl(1/div) )"""
    s = f32_value(f32_round(total))
    inv = f32_value(f32_round(Fraction(1, div)))
    return f32_round(s * inv)


def _selftest_f32():
    for total, div in ((51, 1), (102, 2), (-159, 2), (1, 3), (16776960, 256), (-16744448, 511), (7, 7), (65535 * 3, 3)):
        a = mean_bits(total, div)
        s = struct.unpack("<f", struct.pack("<f", float(total)))[0]
        inv = struct.unpack("<f", struct.pack("<f", 1.0 / div))[0]
        b = struct.unpack("<I", struct.pack("<f", s * inv))[0]
        assert a == b, (total, div, a, b)


_selftest_f32()

SUMS = re.compile(r"div=(\d+) sums=(\S*)")


def model_to_bits(line):
    m = SUMS.search(line)
    if not m:
        return line
    div = int(m.group(1))
    sums = [int(x) for x in m.group(2).split(",")] if m.group(2) else []
    return line[:m.start()] + "bits=" + ",".join("%08x" % mean_bits(s, div) for s in sums)


# ------------------------------------------------------------------------------------------------ cases
def frame_bytes(w, h, t):
    return 8 * ((96 + w * h * BPP[t] + 7) // 8)


def script_of(case):
    return "\n".join(["new %d %d %d %d" % (case["k"], case["cap_in"], case["cap_out"], case["fill"])] + case["ops"] + ["end"]) + "\n"


def size_rings(case, rng):
    """capacities just large enough for a single-threaded run never to wait for space: a ring takes a write of n bytes
    whenever (bytes not yet consumed) + 2n <= capacity"""
    k = max(case["k"], 2)
    fb_in, fb_out, pend, maxpend, maxouts = 8, 8, 0, 1, 1
    for op in case["ops"]:
        t = op.split()
        if t[0] == "w":
            w, h, ty = int(t[3]), int(t[4]), int(t[5])
            fb_in = max(fb_in, frame_bytes(w, h, ty))
            fb_out = max(fb_out, frame_bytes(w, h, 4))
            pend += 1
            maxpend = max(maxpend, pend)
        elif t[0] in ("p", "T"):
            maxouts = max(maxouts, pend // k + 2)
            pend = 0
    case["cap_in"] = (maxpend + rng.choice([1, 1, 2, 4])) * fb_in + rng.choice([8, 16, 24, 40, 13])
    case["cap_out"] = (maxouts + rng.choice([2, 2, 3, 5])) * fb_out + rng.choice([8, 16, 24, 40, 13])
    return case


def compositions(n):
    if n == 0:
        yield ()
        return
    for first in range(1, n + 1):
        for rest in compositions(n - first):
            yield (first,) + rest


def clean_case(rng, k, n, parts, ty, shape, tag, final=None, seeds=None):
    w, h = shape
    ops, fid = [], rng.choice([0, 0, 5, 1000])
    done = 0
    keff = max(k, 2)
    final = final or rng.choice(["fin", "T", "T"])
    for bi, b in enumerate(parts):
        for j in range(b):
            seed = seeds[done + j] if seeds else rng.randrange(2, 1 << 31) | 2
            ops.append("w %d %d %d %d %d" % (seed, fid, w, h, ty))
            fid += 1
        last = bi == len(parts) - 1
        if last and final == "T" and done % keff == 0:
            ops.append("T")
        else:
            ops.append("p 0")
            if last:
                ops.append("fin")
        done += b
    if not parts:
        ops.append(rng.choice(["fin", "T"]))
    case = {"k": k, "fill": rng.choice([0, 0xA5, 0xFF, 0x7F, 0x3C]), "ops": ops, "tag": tag, "clean": True,
            "desc": "k=%d n=%d parts=%s type=%s shape=%dx%d" % (k, n, list(parts), TYPE_NAME[ty], w, h)}
    return size_rings(case, rng)


def exhaustive_cases(rng, thorough):
    """window sizes 2..5 x 0..3k+2 frames x every way of cutting the input into batches (n <= nmax), rotating through sample types / shapes"""
    nmax = 8 if thorough else 6
    i = 0
    for k in (2, 3, 4, 5):
        for n in range(0, 3 * k + 3):
            if n <= nmax:
                parts_list = list(compositions(n))
            else:
                parts_list = [(n,), tuple([1] * n)] + [random_partition(rng, n) for _ in range(6 if thorough else 3)]
            for parts in parts_list:
                ty = INT_TYPES[i % len(INT_TYPES)]
                shape = SHAPES[(i // len(INT_TYPES)) % len(SHAPES)] if n <= 8 else SHAPES[i % 4]
                i += 1
                yield clean_case(rng, k, n, parts, ty, shape, "exhaustive")


def random_partition(rng, n):
    parts = []
    while n > 0:
        b = rng.randint(1, min(n, rng.choice([1, 2, 3, 5, 9])))
        parts.append(b)
        n -= b
    return tuple(parts)


def limit_cases(rng):
    """windows at the edge of exact float32 accumulation: k*maxabs just below 2^24, every sample at its extreme"""
    out = []
    for ty, k, seedmod in ((1, 256, 0), (3, 511, 1), (3, 511, 0), (7, 1024, 0), (2, 300, 1), (1, 255, 0)):
        n = 2 * k + 3
        seeds = [16 * rng.randrange(1, 1 << 20) + seedmod if rng.random() < .9 else rng.randrange(2, 1 << 30) | 2 for _ in range(n)]
        parts = random_partition(rng, n) if rng.random() < .5 else (n,)
        # keep batches moderate: the rings are sized from the largest batch
        parts = tuple(itertools.chain.from_iterable([min(b, 64)] * (b // 64) + ([b % 64] if b % 64 else []) for b in parts))
        out.append(clean_case(rng, k, n, parts, ty, (1, 1) if k > 300 else (3, 1), "limit", seeds=seeds))
    return out


def random_case(rng, dirty):
    k = rng.choice([2, 2, 2, 3, 3, 4, 5, 7, 16, 1, 0] if dirty else [2, 2, 3, 3, 4, 5, 6, 7, 9, 16, 33])
    shape = rng.choice(SHAPES)
    ty = rng.choice(INT_TYPES)
    n = rng.randint(0, 4 * max(k, 2) + 3) if k <= 9 else rng.randint(k - 1, 2 * k + 2)
    if not dirty:
        return clean_case(rng, k, n, random_partition(rng, n), ty, shape, "random")
    ops, fid, pend = [], rng.choice([0, 7]), 0
    for _ in range(n):
        r = rng.random()
        w, h, t = shape[0], shape[1], ty
        if r < .08:
            w, h = rng.choice(SHAPES)
        elif r < .12:
            t = rng.choice([4, 9])
        elif r < .25:
            t = rng.choice(INT_TYPES)      # another integer type, same dims: one window may mix types
        ops.append("w %d %d %d %d %d" % (rng.randrange(0, 1 << 31), fid, w, h, t))
        fid += rng.choice([1, 1, 1, 2])
        pend += 1
        r = rng.random()
        if r < .3 or pend >= 9:
            ops.append("p %d" % (1 if rng.random() < .12 else 0)); pend = 0
        elif r < .36:
            ops.append("accept %d" % rng.choice([0, 1, 1]))
        elif r < .40:
            ops.append("p 0"); ops.append("p 0"); pend = 0
    ops.append(rng.choice(["p 0", "T", "p 1"]))
    ops.append("fin")
    case = {"k": k, "fill": rng.choice([0, 0xA5, 0xFF, 0x7F]), "ops": ops, "tag": "dirty", "clean": False,
            "desc": "k=%d dirty n=%d type=%s" % (k, n, TYPE_NAME[ty])}
    return size_rings(case, rng)


# ------------------------------------------------------------------------------------------------ running
def split_cases(lines):
    """output lines of a multi-case run -> list of per-case line lists (a case starts at its `new` line)"""
    cases, cur = [], None
    for ln in lines:
        if ln == "new" or ln == "new failed":
            cur = []
            cases.append(cur)
        if cur is not None and ln != "":
            cur.append(ln)
    return cases


def canon_impl(lines):
    keep, oracle, info = [], [], {}
    for ln in lines:
        if ln.startswith("ORACLE "):
            oracle.append(ln[7:])
        elif ln.startswith("#"):
            for kv in ln[1:].split():
                if "=" in kv:
                    a, b = kv.split("=", 1)
                    info[a] = max(info.get(a, 0), int(b)) if a == "calls" else int(b)
        else:
            keep.append(ln)
    return keep, oracle, info


def canon_model(lines):
    out, labels = [], []
    for ln in lines:
        m = LABEL.search(ln)
        if m:
            labels += m.group(1).split(",")
            ln = LABEL.sub("", ln)
        out.append(model_to_bits(ln))
    return out, labels


class Result:
    pass


def judge(case, impl_lines, model_lines, rc, err, complete):
    """-> Result with .problem in (None, 'oracle', 'crash', 'diff')"""
    r = Result()
    r.case = case
    keep, r.oracle, r.info = canon_impl(impl_lines)
    mod, r.labels = canon_model(model_lines)
    r.problem, r.what, r.sig = None, "", ""
    if r.oracle:
        r.problem = "oracle"
        kind = re.sub(r"\d+", "N", r.oracle[0].split()[0])
        r.sig = "h_filter:" + kind
        # cause tag: the window is so large that float32 accumulation is no longer exact (n * max|sample| >= 2^24)
        m = re.search(r" n=(\d+) type=(\d+)", r.oracle[0])
        if m and kind == "pixel-not-the-mean":
            maxabs = {0: 255, 1: 65535, 2: 128, 3: 32768, 5: 1023, 6: 4095, 7: 16383}.get(int(m.group(2)), 0)
            if int(m.group(1)) * maxabs >= 1 << 24:
                r.sig += ":window-beyond-exact-float-range"
        r.what = r.oracle[0]
    elif not complete:
        blocked = any(l == "BLOCKED" for l in impl_lines)
        r.problem = "crash"
        r.sig = "h_filter:" + ("blocked-with-room-in-the-ring" if blocked else "crash")
        r.what = ("the filter waits for space although the output ring has room (single-threaded harness, rings sized by the no-wait rule)"
                  if blocked else "harness died rc=%s: %s" % (rc, err[-700:].replace("\n", " | ")))
    else:
        d = C.first_diff(list(keep), list(mod))
        if d is not None:
            r.problem = "diff"
            r.sig = "diff"
            r.what = "line %d: impl `%s` model `%s`" % (d, keep[d][:200] if d < len(keep) else "<eof>", mod[d][:200] if d < len(mod) else "<eof>")
    return r


def run_cases(exe, drv, cases, timeout=300):
    """run many cases in one harness process and one model process"""
    text = "".join(script_of(c) for c in cases)
    rc_i, impl, err_i = C.run_lines(exe, text, timeout=timeout)
    rc_m, model, err_m = C.run_lines(drv, text, timeout=timeout)
    ic, mc = split_cases(impl), split_cases(model)
    results = []
    for i, c in enumerate(cases):
        il = ic[i] if i < len(ic) else []
        ml = mc[i] if i < len(mc) else []
        complete = any(l.startswith("END ") for l in il)
        if i >= len(ic):
            # the process died in an earlier case: run this one alone
            results.append(run_one(exe, drv, c))
            continue
        results.append(judge(c, il, ml, rc_i, err_i, complete))
    return results


def run_one(exe, drv, case, timeout=60):
    text = script_of(case)
    rc_i, impl, err_i = C.run_lines(exe, text, timeout=timeout)
    rc_m, model, err_m = C.run_lines(drv, text, timeout=timeout)
    il = [l for l in impl if l != ""]
    ml = [l for l in model if l != ""]
    return judge(case, il, ml, rc_i, err_i, any(l.startswith("END ") for l in il))


def shrink(exe, drv, res):
    case = res.case

    def fails(ops):
        c2 = dict(case, ops=list(ops))
        r2 = run_one(exe, drv, c2, timeout=30)
        return r2.problem == res.problem and r2.sig == res.sig

    try:
        ops = C.ddmin(case["ops"], fails, max_runs=150)
    except Exception:
        ops = case["ops"]
    small = dict(case, ops=list(ops))
    r2 = run_one(exe, drv, small, timeout=30)
    return (small, r2) if r2.problem == res.problem and r2.sig == res.sig else (case, res)


def report(ctx, exe, drv, res):
    small, r2 = shrink(exe, drv, res)
    replay = {"harness": "h_filter", "case": {k: small[k] for k in ("k", "cap_in", "cap_out", "fill", "ops")}, "script": script_of(small),
              "desc": small.get("desc", ""), "how": "python3 bin/check C10 --replay <this file>   (or: feed `script` to .build/h_filter/h_filter)"}
    if res.problem == "diff":
        if len(ctx.corr_broken) < 5:
            ctx.corr_broken.append({"what": "frame-averaging model and the real filter.c disagree: " + r2.what, "replay": replay})
        return
    ctx.violation(res.problem, res.sig,
                  "real filter.c violates C10: %s  [k=%d, rings %d/%d bytes filled with 0x%02x, script: %s]" % (
                      r2.what, small["k"], small["cap_in"], small["cap_out"], small["fill"], " ; ".join(small["ops"])[:400]), replay)


def build(ctx):
    exe, log = C.compile_harness("h_filter", HARNESS_SRC, defines=["NO_UNIT_TESTS"])
    if not exe:
        ctx.corr_broken.append({"what": "harness h_filter does not compile against the repository (filter.c's static functions / struct changed?)",
                                "log": log[-3000:]})
        return None, None
    drv = C.driver_path("acq_filter")
    if not os.path.exists(drv):
        ok, log, failed = C.lake_build(["acq_filter"])
        if not ok:
            ctx.corr_broken.append({"what": "model driver acq_filter does not build", "log": log[-2000:]})
            return None, None
    return exe, drv


def load_corpus():
    unit, rt = [], []
    for f in C.corpus_files("C10"):
        if not f.endswith(".json"):
            continue
        ent = json.load(open(f))
        if "scenario" in ent:
            rt.append(ent)
        elif "case" in ent:
            c = dict(ent["case"])
            c.setdefault("tag", "corpus")
            c.setdefault("desc", os.path.basename(f))
            unit.append(c)
    return unit, rt


def pipeline_relevant(p):
    if p["kind"] == "crash":
        return True
    return any(k in p["msg"] or k in p["sig"] for k in ("stored-", "monitor-gap-or-repeat", "camera-delivered", "never-returns", "packet-",
                                                        "monitor-region-", "still-running-after", "state-after"))


def run(ctx):
    ctx.prove(MODULE, THEOREMS, extra_targets=DRIVERS)
    ctx.assumptions += ASSUMPTIONS
    thorough = ctx.tier == "thorough"
    rng = ctx.rng
    exe, drv = build(ctx)
    hits = {b: 0 for b in BRANCHES}
    n_eval = n_valid = n_checked_frames = n_split_reads = 0
    distinct = set()
    samples = []
    tags = {}
    types_seen, ks_seen = {}, {}
    n_exh = 0
    if exe:
        corpus_unit, corpus_rt = load_corpus()
        cases = list(corpus_unit)
        exh = list(exhaustive_cases(rng, thorough))
        n_exh = len(exh)
        cases += exh
        cases += limit_cases(rng)
        for _ in range(15000 if thorough else 800):
            cases.append(random_case(rng, dirty=False))
        for _ in range(15000 if thorough else 800):
            cases.append(random_case(rng, dirty=True))
        reported = set()
        for i in range(0, len(cases), 250):
            for res in run_cases(exe, drv, cases[i:i + 250]):
                n_eval += 1
                c = res.case
                tags[c.get("tag", "?")] = tags.get(c.get("tag", "?"), 0) + 1
                for l in res.labels:
                    if l in hits:
                        hits[l] += 1
                n_checked_frames += res.info.get("checked", 0)
                n_split_reads += 1 if res.info.get("calls", 0) > 2 else 0
                ks_seen[c["k"]] = ks_seen.get(c["k"], 0) + 1
                for op in c["ops"]:
                    if op.startswith("w "):
                        t = int(op.split()[5])
                        types_seen[TYPE_NAME.get(t, "?")] = types_seen.get(TYPE_NAME.get(t, "?"), 0) + 1
                if res.problem is None:
                    n_valid += 1
                    if any(l in ABOUT for l in res.labels):
                        shape_of_script = " ".join(o.split()[0] + (o.split()[5] if o.startswith("w ") else "") for o in c["ops"])
                        distinct.add(C.sha("%d|%s|%s" % (c["k"], shape_of_script, ",".join(sorted(set(res.labels))))))
                    if len(samples) < 6 and n_eval % 97 == 1:
                        samples.append({"k": c["k"], "rings": [c["cap_in"], c["cap_out"]], "fill": c["fill"], "script": " ; ".join(c["ops"])[:300]})
                elif res.sig not in reported or (res.problem == "diff" and len(ctx.corr_broken) < 3):
                    reported.add(res.sig)
                    report(ctx, exe, drv, res)
            if len(ctx.violations) + len(ctx.corr_broken) > 6:
                break
    # ---- pipeline level: real acquire.c / source.c / filter.c / sink.c under many schedules
    ex = rtx.Explorer(ctx)
    pipe = {}
    if ex.build():
        for ent in (corpus_rt if exe else load_corpus()[1]):
            res, problems = ex.run_scenario(ent["scenario"], ent["runs"], cosim=ent.get("cosim"))
            for p in problems:
                ex.report(ent["scenario"], p, pipeline_relevant)
        nscen, nsched = (180, 20) if thorough else (22, 8)
        rtx.explore(ctx, ex, ["avg", "avgmon", "avgabort", "avgtwo"], nscen, nsched, pipeline_relevant)
        pipe = {"runs": ex.stats["runs"], "per_class": ex.stats["per_class"], "run_endings": ex.stats["ends"],
                "oracle_kinds_hit": ex.stats["oracle_kinds"], "distinct_class_schedule_pairs": len(ex.distinct)}
    cov = ctx.cov
    cov["evaluations"] = n_eval + pipe.get("runs", 0)
    cov["distinct_nontrivial"] = len(distinct) + pipe.get("distinct_class_schedule_pairs", 0)
    cov["traces_validated_against_impl"] = n_valid
    cov["model_branch_hits"] = hits
    cov["unit_cases"] = {"total": n_eval, "by_generator": tags, "frames_by_sample_type": types_seen, "cases_by_window_size": ks_seen,
                         "committed_frames_checked_by_the_harness_oracle": n_checked_frames,
                         "cases_where_a_batch_was_split_by_the_input_ring_wrapping": n_split_reads}
    cov["pipeline_runs"] = pipe
    cov["samples"] = samples + ex.samples[:3]
    cov["exhaustive"] = False
    cov["exhaustive_part"] = {"what": "window sizes 2..5 x 0..3k+2 input frames; for inputs of up to %d frames EVERY way of cutting the input into "
                                 "batches (2^(n-1) compositions), larger inputs: one batch, all singletons and random partitions" % (8 if thorough else 6),
                         "cases": n_exh}
    cov["rule"] = ("unit case = one script (window size, ring capacities, ring fill byte, frames with seeded pixels of a sample type, batch boundaries, "
                   "optional accept/reset/shape/type disturbances) run through the real filter.c and through the Lean model; validated = every committed "
                   "frame (id, type, shape, size, float32 bit pattern of every pixel), every pending accumulator after every batch and the return codes "
                   "agree; distinct = distinct (k, op/type sequence, branch set) among validated cases that complete a window or flush a trailing one. "
                   "Pipeline run = one averaging scenario of checks/rtx.py (classes avg, avgmon, avgabort, avgtwo) under one schedule; its oracles compare what "
                   "storage and the monitor received with the mock camera's frames (exact float mean, ids k apart, count n/k (+1)).")
    missing = [b for b in ("first", "cont", "emit", "refused", "shape", "reset-pending", "fin-pending", "err-cont", "emit-lost") if exe and not hits[b]]
    if missing:
        ctx.notes.append("branches not hit in this run: %s" % missing)


def replay(ctx, path):
    d = json.load(open(path))
    rp = d.get("replay", d)
    if "harness_input" in rp:
        return rtx.replay(ctx, path)
    exe, drv = build(ctx)
    if not exe:
        print("harness does not build")
        return 2
    case = rp["case"]
    res = run_one(exe, drv, case)
    rc, out, err = C.run_lines(exe, script_of(case), timeout=60)
    for ln in out:
        if ln:
            print(ln)
    if res.problem in ("oracle", "crash"):
        print("REPRODUCED: %s" % res.what)
        return 1
    if res.problem == "diff":
        print("model/implementation disagreement: %s" % res.what)
        return 1
    print("not reproduced")
    return 0
