"""C09 -- see checks/rtcheck.py (table entry "C09") and lean/AcqVerif/Props/C09.lean."""
from . import rtcheck

MODULE = rtcheck.TABLE["C09"]["module"]
DRIVERS = rtcheck.DRIVERS + ["acq_storage"]
THEOREMS = rtcheck.TABLE["C09"]["theorems"]
run = rtcheck.run
replay = rtcheck.replay
