import AcqVerif.SimConc.Model
/-! Line-protocol driver for the concurrent simulated-camera model (`acq_simconc`).

stdin, one case per line (same as `harness/simcam_conc/h_simcam_conc.c`):
`case <id> A=<op,..> B=<op,..|-> sched=<tid,tid,..>`; the schedule is the complete decision list of
the harness run.  For every decision the driver prints the line the harness prints
(`<step> <role> <kind>.<obj> | <shared fields> | A=.. B=.. S=..`), then `r <role> <op> <result>` when
a call returns, finally `end <n> | …` (or `deadlock <n> | …` when no thread is enabled and some
thread has not finished).  A trailing ` ~label` names the model branch (coverage only). -/
open AcqVerif.SimConc

def b2n (b : Bool) : Nat := if b then 1 else 0

def cval (n : Nat) : String := if n = 0 then "-1" else toString (n - 1)

def roleChar : Tid → String
  | .a => "A" | .b => "B" | .s => "S"

def opName : Op → String
  | .on => "on" | .off => "off" | .start => "start" | .stop => "stop" | .trig => "trig" | .get => "get"

def resName : Res → String
  | .ok => "ok" | .err => "err" | .illformed => "illformed" | .noframe => "noframe"
  | .frame id => s!"frame {id}"

def parseOp : String → Option Op
  | "on" => some .on | "off" => some .off | "start" => some .start | "stop" => some .stop
  | "trig" => some .trig | "get" => some .get | _ => none

/-- `<kind>.<obj>` of the yield point a caller is parked at -/
def cpcPend : CPc → String
  | .unborn => "-"
  | .bstart => "start.-"
  | .createB => "create.B"
  | .idle => "yield.op"
  | .startCreate => "create.S"
  | .trigLock _ | .setLock _ | .getLock => "lock.L"
  | .trigNotify _ => "notify.T"
  | .stopNotifyF _ => "notify.F"
  | .stopJoin _ => "join.S"
  | .getWait => "wait.F"
  | .getAsleep _ => "reacq.F"
  | .joinB => "join.B"
  | .exit => "exit.-"
  | .fin => "fin"

def spcPend : SPc → String
  | .none => "-"
  | .start => "start.-"
  | .lock1 | .lock2 => "lock.L"
  | .waitT => "wait.T"
  | .asleepT _ => "reacq.T"
  | .sleep => "sleep.-"
  | .notifyF => "notify.F"
  | .fin => "fin"

def cpcName : CPc → String
  | .unborn => "unborn" | .bstart => "bstart" | .createB => "createB" | .idle => "idle"
  | .startCreate => "startCreate"
  | .trigLock .user => "trigLock.user" | .trigLock (.stop g) => s!"trigLock.stop{b2n g}" | .trigLock .setoff => "trigLock.setoff"
  | .trigNotify .user => "trigNotify.user" | .trigNotify (.stop g) => s!"trigNotify.stop{b2n g}" | .trigNotify .setoff => "trigNotify.setoff"
  | .stopNotifyF g => s!"stopNotifyF{b2n g}" | .stopJoin g => s!"stopJoin{b2n g}"
  | .setLock en => s!"setLock{b2n en}" | .getLock => "getLock" | .getWait => "getWait"
  | .getAsleep n => s!"getAsleep{b2n n}" | .joinB => "joinB" | .exit => "exit" | .fin => "fin"

def spcName : SPc → String
  | .none => "none" | .start => "start" | .lock1 => "lock1" | .waitT => "waitT"
  | .asleepT n => s!"asleepT{b2n n}" | .sleep => "sleep" | .lock2 => "lock2" | .notifyF => "notifyF" | .fin => "fin"

def withFlag (s : State) (t : Tid) (p : String) : String :=
  if p = "-" ∨ p = "fin" then p else p ++ (if enabled s t then "+" else "-")

def halChar : Hal → String
  | .W => "W" | .A => "A" | .R => "R"

def digest (s : State) : String :=
  let own := match s.owner with | none => "-" | some t => roleChar t
  let pb := if s.hasB then withFlag s .b (cpcPend s.pb) else "-"
  s!"ir={b2n s.running} en={b2n s.enable} tg={b2n s.triggered} fw={b2n s.wanted} fid={cval s.fid} last={cval s.last} st={halChar s.hal} own={own} | A={withFlag s .a (cpcPend s.pa)} B={pb} S={withFlag s .s (spcPend s.ps)}"

def pendOf (s : State) : Tid → String
  | .a => cpcPend s.pa
  | .b => cpcPend s.pb
  | .s => spcPend s.ps

def pcNameOf (s : State) : Tid → String
  | .a => cpcName s.pa
  | .b => cpcName s.pb
  | .s => spcName s.ps

def headOp (s : State) : Tid → String
  | .a => match s.pa, s.sa with | .idle, op :: _ => "." ++ opName op | _, _ => ""
  | .b => match s.pb, s.sb with | .idle, op :: _ => "." ++ opName op | _, _ => ""
  | .s => ""

def allDone (s : State) : Bool :=
  s.pa = .fin ∧ (s.pb = .fin ∨ s.pb = .unborn) ∧ (s.ps = .none ∨ s.ps = .fin)

def anyEnabled (s : State) : Bool := enabled s .a || enabled s .b || enabled s .s

def field (toks : List String) (key : String) : Option String :=
  toks.findSome? fun t => if t.startsWith key then some ((t.drop key.length).toString) else none

def parseOps (txt : String) : Option (List Op) :=
  if txt = "-" ∨ txt = "" then some [] else (txt.splitOn ",").mapM parseOp

def runCase (out : IO.FS.Stream) (toks : List String) : IO Unit := do
  let id := (toks.filter fun t => t ≠ "case" ∧ !(t.contains '=')).headD "?"
  let a := (field toks "A=").getD "-"
  let b := (field toks "B=").getD "-"
  let sched := (field toks "sched=").getD "-"
  out.putStrLn s!"case {id}"
  match parseOps a, parseOps b with
  | some A, some B =>
    let hasB := b ≠ "-"
    let mut s := init A (if hasB then some B else none)
    let tids := if sched = "-" then [] else (sched.splitOn ",").filterMap String.toNat?
    let mut n := 0
    let mut ok := true
    for t in tids do
      if !ok then break
      let tid : Tid := if t = 0 then .a else if t = 1 ∧ hasB then .b else .s
      match step s tid with
      | none =>
        out.putStrLn s!"{n} {roleChar tid} model-not-enabled {pendOf s tid} | {digest s}"
        ok := false
      | some s' =>
        let lbl := s!"{roleChar tid}.{pcNameOf s tid}{headOp s tid}>{pcNameOf s' tid}"
        out.putStrLn s!"{n} {roleChar tid} {pendOf s tid} | {digest s} ~{lbl}"
        for e in (s'.log.take (s'.log.length - s.log.length)).reverse do
          match e with
          | .res w op r => out.putStrLn s!"r {roleChar w.tid} {opName op} {resName r}"
          | _ => pure ()
        s := s'
        n := n + 1
    if ok then
      -- `a` is the main thread: when it is chosen at `exit` the run is over
      let fin := if s.pa = .fin then { s with pa := .exit } else s
      if s.pa = .fin ∨ anyEnabled s then out.putStrLn s!"end {n} | {digest fin}"
      else out.putStrLn s!"deadlock {n} | {digest s}"
  | _, _ => out.putStrLn "bad-case"

partial def loop (h : IO.FS.Stream) (out : IO.FS.Stream) : IO Unit := do
  let line ← h.getLine
  if line.isEmpty then return ()
  let l := line.trimAscii.toString
  if l.isEmpty ∨ l.startsWith "#" then loop h out else
  runCase out (l.splitOn " " |>.filter (· ≠ ""))
  loop h out

def main : IO Unit := do
  let out ← IO.getStdout
  loop (← IO.getStdin) out
