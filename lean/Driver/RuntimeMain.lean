import AcqVerif.Runtime.Init
/-! Line-protocol driver for the runtime data-path model M1 (`acq_runtime`), see harness/runtime/h_runtime.c (cosim mode) -/
open AcqVerif.Runtime AcqVerif.Channel

def b2n (b : Bool) : Nat := if b then 1 else 0

def chanDigest (s : Sys) : String :=
  let c := s.c
  let hs := " ".intercalate (c.holds.map fun h => s!"{h.pos}:{h.cyc}")
  s!"{c.head} {c.high} {c.cycle} {c.mapped} {b2n c.accepting} {c.holds.length} [{hs}]"

def rdDigest (s : Sys) (i : Nat) : String :=
  match s.rds[i]? with
  | some r => s!"{r.id}:{r.pos}:{r.cyc}:{r.status}:{b2n r.mapped}"
  | none => "0:0:0:0:0"

def streamDigest (st : Stream) : String :=
  s!"K={chanDigest st.sinkCh} F={chanDigest st.filtCh} R={rdDigest st.sinkCh 0};{rdDigest st.filtCh 0};{if st.monReg then rdDigest st.sinkCh 1 else "0:0:0:0:0"} " ++
  s!"fl={b2n st.srcStopping}{b2n st.srcRunning}{b2n st.fltStopping}{b2n st.fltRunning}{b2n st.snkStopping}{b2n st.snkRunning} hal={st.cam.state.code}{st.sto.state.code}"

def digest (rt : RT) : String :=
  s!"S s0: {streamDigest (getS rt 0)} | s1: {streamDigest (getS rt 1)} | rt={rt.state.code}"

def kindOf (rt : RT) (t : Nat) : String :=
  if t = 0 then
    match rt.client.pc with
    | .done => "- -" | .sleeping _ => "sleep -"
    | .stoStart _ => "yield sto.start" | .camStart _ => "yield cam.start" | .errCamStop _ => "yield cam.stop"
    | .cfgCamSet _ => "yield cam.set" | .cfgStoSet _ => "yield sto.set" | .cfgGetShape _ => "yield cam.get_shape"
    | .accLock .. | .flushRmapLock .. | .flushUnmapLock .. | .mapLock _ | .unmapLock .. => "lock -"
    | .accNotify .. | .flushRmapNotify .. | .flushUnmapNotify .. | .mapNotify _ | .unmapNotify _ => "notify -"
    | .createSnk _ | .createFlt _ | .createSrc _ => "create -"
    | .joinSrc _ | .joinFlt _ | .joinSnk _ => "join -"
    | _ => "transient -"
  else match whoIs rt t with
  | none => "? ?"
  | some (s, .source) => match (getS rt s).src.pc with
    | .start => "start -" | .getShape => "yield cam.get_shape" | .wmapLock | .abortLock | .commitLock => "lock -"
    | .wmapWait => "wait -" | .wmapAsleep | .wmapWoken => "reacq -" | .getFrame => "yield cam.get_frame"
    | .failStop | .camStop => "yield cam.stop" | .done => "- -" | _ => "transient -"
  | some (s, .sink) => match (getS rt s).snk.pc with
    | .start => "start -" | .rmapLock | .runmapLock | .errAccLock | .errUnmapLock => "lock -"
    | .rmapNotify | .runmapNotify | .errAccNotify | .errUnmapNotify => "notify -"
    | .append => "yield sto.append" | .sleep => "sleep -" | .stoStop => "yield sto.stop" | .done => "- -" | _ => "transient -"
  | some (s, .filter) => match (getS rt s).flt.pc with
    | .start => "start -" | .rmapLock => "lock -" | .rmapNotify => "notify -" | .sleep => "sleep -" | .done => "- -" | _ => "transient -"

def parseCOp (t : String) : Option COp :=
  match (t.trimAscii.toString.splitOn " ").filter (· ≠ "") with
  | ["start"] => some .start | ["stop"] => some .stop | ["abort"] => some .abort
  | ["state"] => some .state
  | ["map", s] => s.toNat?.map .map
  | ["unmap", s, "all"] => s.toNat?.map fun s => .unmap s none
  | ["unmap", s, n] => do let s ← s.toNat?; let n ← n.toNat?; pure (.unmap s (some n))
  | ["monwait", s] => s.toNat?.map .monwait
  | ["sleep", n] => n.toNat?.map .sleep
  | ["configure", a, b] => do let a ← a.toNat?; let b ← b.toNat?; pure (.configure a b)
  | _ => none

def kvNat (toks : List String) (key : String) : Option Nat :=
  toks.findSome? fun t => if t.startsWith (key ++ "=") then ((t.drop (key.length + 1)).toString.takeWhile Char.isDigit).toNat? else none

def kvHas (toks : List String) (key : String) (suffix : String) : Bool :=
  toks.any fun t => t.startsWith (key ++ "=") && t.endsWith suffix

structure Scen where
  ring : Nat := 4096
  streams : List (Option StreamCfg) := [none, none]
  prog : List COp := []

def mkStream (toks : List String) : StreamCfg :=
  { F := (kvNat toks "F").getD 104, n := (kvNat toks "n").getD 0,
    setText := s!"{(kvNat toks "w").getD 0}x{(kvNat toks "h").getD 0} t{(kvNat toks "type").getD 0} trig0",
    camFail := kvNat toks "camfail", camFailP := kvHas toks "camfail" "p", camEmpty := (kvNat toks "camempty").getD 0,
    stoFail := kvNat toks "stofail", stoFailP := kvHas toks "stofail" "p" }

def runDecisions (sc : Scen) (ds : List Nat) : List String := Id.run do
  -- the initial state is the one the theorems start from (`AcqVerif.Runtime.initRT`, `bootRT`)
  let (rt0, o0) := clientBoot (initRT sc.ring sc.streams sc.prog)
  let mut rt : RT := rt0
  let mut out : Array String := #["RUN"]
  for l in o0 do out := out.push l
  for t in ds do
    out := out.push s!"D {t} {kindOf rt t}"
    out := out.push (digest rt)
    match rtStep rt t with
    | none => out := out.push s!"NOT-ENABLED {t}"
    | some (rt', o) =>
      for l in o do out := out.push l
      rt := rt'
  out := out.push (digest rt)
  -- ghost record (model only; not compared): do the hypotheses of the data-path theorems hold at the end of this run?
  let mut i := 0
  for st in rt.streams do
    if st.valid then
      let ids := st.sto.log.map (·.id)
      let inOrder := ids == List.range ids.length && st.sto.log.all (fun f => f.hw == f.id && f.run == st.cam.run)
      out := out.push s!"G s{i} log={st.sto.log.length} inorder={b2n inOrder} ncommit={st.sto.ncommit} max={st.maxFrames} drained={b2n st.sto.drained} disturbed={b2n st.sto.disturbed} clean={b2n st.sto.clean} dropped={b2n st.sto.dropped} camfail={b2n st.cam.failAt.isSome} misused={b2n rt.client.misused} monfresh={b2n st.sto.monFresh} monflushed={b2n st.monFlushed}"
    i := i + 1
  out := out.push "END"
  return out.toList

partial def loop (h : IO.FS.Stream) (out : IO.FS.Stream) (sc : Scen) : IO Unit := do
  let line ← h.getLine
  if line.isEmpty then return ()
  let l := line.trimAscii.toString
  let toks := (l.splitOn " ").filter (· ≠ "")
  if l.startsWith "ring " then loop h out { ring := (kvNat ["x=" ++ (l.drop 5).toString] "x").getD 4096 }
  else if l.startsWith "stream " then
    match toks with
    | _ :: s :: rest =>
      let i := s.toNat?.getD 0
      loop h out { sc with streams := sc.streams.set i (some (mkStream rest)) }
    | _ => loop h out sc
  else if l.startsWith "prog " then
    loop h out { sc with prog := ((l.drop 5).toString.splitOn ";").filterMap parseCOp }
  else if l.startsWith "run" then
    let ds := (((l.drop 3).toString.replace "," " ").splitOn " ").filterMap (·.trimAscii.toString.toNat?)
    for ln in runDecisions sc ds do out.putStrLn ln
    loop h out sc
  else loop h out sc

def main : IO Unit := do loop (← IO.getStdin) (← IO.getStdout) {}
