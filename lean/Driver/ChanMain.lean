import AcqVerif.Channel.Sys
/-! Line-protocol driver for the channel model (`acq_chan`).  One operation per
input line, one canonical result line per operation. -/
open AcqVerif.Channel

def b2n (b : Bool) : Nat := if b then 1 else 0

def digest (s : Sys) : String :=
  let c := s.c
  let hs := " ".intercalate (c.holds.map fun h => s!"{h.pos}:{h.cyc}")
  let rs := " ".intercalate (s.rds.map fun r => s!"{r.id}:{r.pos}:{r.cyc}:{r.status}:{b2n r.mapped}")
  s!"{c.head} {c.high} {c.cycle} {c.mapped} {b2n c.accepting} {c.holds.length} [{hs}] | [{rs}] | {s.total}"

/-- `ix` = ghost stream index of the first byte of a non-empty region -/
def showOut (ix : Nat) : Out → String
  | .unit => "ok"
  | .wnull => "null"
  | .wblock => "block"
  | .wok beg => s!"wok {beg}"
  | .slice beg len st =>
    if len = 0 then s!"slice 0 0 st={st}" else s!"slice {beg} {len} st={st} ix={ix}"
  | .bad => "bad-op"

def parseOp (line : String) : Option (Sum Nat Op) :=
  match line.trimAscii.toString.splitOn " " with
  | ["new", n] => n.toNat?.map .inl
  | ["wmap", n] => n.toNat?.map (.inr ∘ .wmap)
  | ["wcommit"] => some (.inr .wcommit)
  | ["wabort"] => some (.inr .wabort)
  | ["accept", b] => b.toNat?.map fun b => .inr (.accept (b != 0))
  | ["join"] => some (.inr .join)
  | ["rmap", i] => i.toNat?.map (.inr ∘ .rmap)
  | ["runmap", i, k] => do let i ← i.toNat?; let k ← k.toNat?; pure (.inr (.runmap i k))
  | _ => none

/-- which branch of the C the operation takes (coverage label; not part of the comparison) -/
def label (s : Sys) : Op → String
  | .wmap n =>
    let c := s.c
    if n ≥ c.cap then "w.null-big"
    else if c.holds.isEmpty then (if c.head + n ≥ c.cap then "w.free-wrap" else "w.free-stay")
    else if !c.accepting then "w.refused"
    else
      let m := readerMin c.holds
      match nextWrite c n with
      | .no => if c.head < m.pos then "w.block-behind-tail" else if m.pos = c.head ∧ c.cycle = m.cyc + 1 then "w.block-full" else "w.block-nofit"
      | .at beg wrap =>
        (if wrap then "w.wrap-reset" else if beg ≠ c.head then "w.wrap" else if c.head < m.pos then "w.fit-before-tail" else "w.fit-to-end") ++
          (if s.pending then "+remap" else "")
  | .wcommit => (if s.c.accepting then (if s.c.mapped = s.c.head then "c.empty" else "c.commit") else "c.refused") ++ (if s.pending then "" else "+nothing-mapped")
  | .wabort => if s.c.accepting then "a.abort" else "a.refused"
  | .accept b => if b then "acc.1" else "acc.0"
  | .join => "r.join"
  | .rmap i =>
    match s.rds[i]? with
    | none => "bad"
    | some r =>
      let c := s.c
      let h := c.holds.getD i default
      if r.mapped then "r.usage-mapped"
      else if h.pos = c.head ∧ h.cyc = c.cycle then "r.caught-up"
      else if h.pos < c.head then (if h.cyc ≠ c.cycle then "r.overflow1" else "r.same-lap")
      else if c.cycle ≠ h.cyc + 1 then "r.overflow2"
      else if c.high - h.pos = 0 then (if c.head = 0 then "r.lapchange-empty" else "r.lapchange-data")
      else "r.old-lap-rest"
  | .runmap i k =>
    match s.rds[i]? with
    | none => "bad"
    | some r =>
      if !r.mapped then "u.not-mapped" else
      let h := s.c.holds.getD i default
      let len := availBytes r h s.c.high
      let full := decide (min len k ≥ len)
      let h1 : Hold := if full then ⟨r.pos, r.cyc⟩ else ⟨h.pos + min len k, h.cyc⟩
      let roll := decide (s.c.head < h1.pos ∧ h1.pos = s.c.high)
      (if full then "u.full" else if k = 0 then "u.zero" else "u.partial") ++ (if roll then "+roll" else "")

partial def loop (h : IO.FS.Stream) (out : IO.FS.Stream) (s : Sys) : IO Unit := do
  let line ← h.getLine
  if line.isEmpty then return ()
  if line.trimAscii.toString.isEmpty || line.startsWith "framemode" then loop h out s else
  match parseOp line with
  | none => out.putStrLn "bad-op"; loop h out s
  | some (.inl cap) => let s' := Sys.init cap; out.putStrLn s!"new | {digest s'}"; loop h out s'
  | some (.inr op) =>
    if !(op.wf s) then out.putStrLn s!"illformed | {digest s} ~illformed"; loop h out s else
    let (s', o) := step s op
    let i := match op with | .rmap i => i | .join => s'.rds.length - 1 | _ => 0
    out.putStrLn s!"{showOut (s'.idx.getD i 0) o} | {digest s'} ~{label s op}"
    loop h out s'

def main : IO Unit := do
  let out ← IO.getStdout
  loop (← IO.getStdin) out (Sys.init 16)
