import AcqVerif.Frames.Model
/-! Line-protocol driver for the frame-size model (`acq_frames`): `size <planes> <type>` and `align <n>` -/
open AcqVerif.Frames AcqVerif.Generated.FrameConst

partial def loop (h : IO.FS.Stream) (out : IO.FS.Stream) : IO Unit := do
  let line ← h.getLine
  if line.isEmpty then return ()
  match (line.trimAscii.toString.splitOn " ").filter (· ≠ "") with
  | ["size", p, t] =>
    match p.toNat?, t.toNat? with
    | some p, some t =>
      let lbl := if (hdr + imageBytes p t) % 8 = 0 then "exact" else s!"pad{8 - (hdr + imageBytes p t) % 8}"
      out.putStrLn s!"size {imageBytes p t} {frameBytes p t} {accumulatorBytes p} ~{lbl}"
    | _, _ => out.putStrLn "bad-op"
  | ["align", n] =>
    match n.toNat? with
    | some n => out.putStrLn s!"align {sourceAlign n} {filterAlign n}"
    | none => out.putStrLn "bad-op"
  | ["consts"] => out.putStrLn s!"consts {hdr} {dataOff} {sizeFieldOff} {sampleTypeCount}"
  | _ => out.putStrLn "bad-op"
  loop h out

def main : IO Unit := do loop (← IO.getStdin) (← IO.getStdout)
