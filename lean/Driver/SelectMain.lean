import AcqVerif.Select.Model
/-! Line-protocol driver for the device-selection model (`acq_select`).

Configuration lines (no output):
  `cfg`                         six slots, all absent
  `slot <i> common|absent|noentry|initfail|garbage|mock`
  `dev <slot> <kind> <hexname>` append a device to the mock driver in `<slot>`
Operation lines (one result line each):
  `init`  `count`  `get <i>`  `getdrv <driver_id>`  `open <i>`  `first <kind>`  `default <kind>`
  `sel <kind> <hex|-|NULL> <len> <ok|bad> <mv>`   layer 1: the engine's verdicts are inputs
  `sel2 <kind> <hex> <ast>`                         layer 2: the Lean matcher is the engine
-/
open AcqVerif.Select AcqVerif.Generated

def hexDigit (n : Nat) : Char := if n < 10 then Char.ofNat (48 + n) else Char.ofNat (87 + n)

def toHex (bs : Bytes) : String :=
  if bs.isEmpty then "-" else String.ofList (bs.flatMap fun b => [hexDigit ((b / 16) % 16), hexDigit (b % 16)])

def hexVal (c : Char) : Option Nat :=
  if '0' ≤ c ∧ c ≤ '9' then some (c.toNat - 48)
  else if 'a' ≤ c ∧ c ≤ 'f' then some (c.toNat - 87)
  else none

def fromHexAux : List Char → Option Bytes
  | [] => some []
  | [_] => none
  | a :: b :: rest => do
    let x ← hexVal a
    let y ← hexVal b
    let r ← fromHexAux rest
    pure ((16 * x + y) :: r)

def fromHex (s : String) : Option Bytes := if s = "-" then some [] else fromHexAux s.toList

inductive Slot where
  | absent | noentry | initfail | garbage | common
  | mock (devs : List (Nat × Bytes))

def Slot.lib : Slot → LibState
  | .absent => .absent
  | .garbage => .absent
  | .noentry => .noEntry
  | .initfail => .initFails
  | .common => .loaded commonDriver
  | .mock devs =>
    let rows : List DeviceTable.Row := (List.range devs.length).map fun i =>
      let d := devs.getD i (0, [])
      { index := i, descOk := true, deviceId := i % 256, kind := d.1, name := d.2,
        openOk := true, oDescOk := true, oDeviceId := i % 256, oKind := d.1, oName := d.2, closeOk := true }
    .loaded (driverOfRows devs.length rows)

structure St where
  slots : List Slot := List.replicate 6 .absent
  m : Manager := Manager.init []

def showIdent (d : Ident) : String := s!"d={d.driverId}:{d.deviceId} k={d.kind} n={toHex d.name}"

def showRes : Res Ident → String
  | .ok d => s!"ok {showIdent d}"
  | .err => "err"

/-- parse the prefix encoding of a subset pattern -/
def parseItem (t : String) : Option Item :=
  match t.splitOn ":" with
  | ["s", n] => n.toNat?.map .single
  | ["r", lo, hi] => do let lo ← lo.toNat?; let hi ← hi.toNat?; pure (.range lo hi)
  | ["d"] => some .digit
  | ["w"] => some .word
  | ["sp"] => some .space
  | _ => none

def parseRe : Nat → List String → Option (Re × List String)
  | 0, _ => none
  | _, [] => none
  | fuel + 1, t :: rest =>
    if t = "eps" then some (.eps, rest)
    else if t = "any" then some (.any, rest)
    else if t = "cat" then do
      let (a, r1) ← parseRe fuel rest
      let (b, r2) ← parseRe fuel r1
      pure (.cat a b, r2)
    else if t = "alt" then do
      let (a, r1) ← parseRe fuel rest
      let (b, r2) ← parseRe fuel r1
      pure (.alt a b, r2)
    else if t = "star" then do let (a, r1) ← parseRe fuel rest; pure (.star a, r1)
    else if t = "plus" then do let (a, r1) ← parseRe fuel rest; pure (a.plus, r1)
    else if t = "opt" then do let (a, r1) ← parseRe fuel rest; pure (a.opt, r1)
    else if t.startsWith "chr:" then (t.drop 4).toString.toNat?.map fun n => (.chr n, rest)
    else if t.startsWith "cls:" then
      match (t.drop 4).toString.splitOn ";" with
      | neg :: items => do
        let its ← items.mapM parseItem
        pure (.cls (neg = "1") its, rest)
      | [] => none
    else none

def parseAst (s : String) : Option Re :=
  let toks := s.splitOn ","
  match parseRe (toks.length + 1) toks with
  | some (r, []) => some r
  | _ => none

def mvBits (s : String) (n : Nat) : List Bool :=
  let cs := s.toList
  (List.range n).map fun i => cs.getD i '0' == '1'

/-- the engine given by the harness's own verdicts: `mv[i]` = does the name of entry `i` match -/
def vectorEngine (compiles : Bool) (m : Manager) (mv : List Bool) : Engine := fun _ =>
  if !compiles then none
  else some fun name =>
    -- verdicts are per entry; entries with equal names have equal verdicts
    match (m.identifiers.zip mv).find? (fun p => p.1.ident.name == name) with
    | some p => p.2
    | none => false

/-- the engine for `select_default`: the two fixed patterns, decided by the Lean matcher -/
def defaultEngine : Engine := fun p =>
  if p = defaultCameraPattern then
    some (matchesRe (.cat (.star .any) (.cat (Re.lit [114, 97, 110, 100, 111, 109]) (.star .any))))
  else if p = defaultStoragePattern then some (matchesRe (Re.lit defaultStoragePattern))
  else none

def hasNul (bs : Bytes) : Bool := bs.any (· == 0)

/-- coverage label of a selection (which branch of the property it exercises) -/
def selLabel (m : Manager) (kind : Nat) (arg : NameArg) (engine : Engine) : String :=
  match arg with
  | .null (_ + 1) => "sel.null-with-length"
  | _ =>
    let name := stdName arg
    let nul := match arg with
      | .buf bs =>
        if !hasNul bs then "" else if hasNul name then "+nul-embedded"
        else if name.isEmpty then "+nul-only" else "+nul-padded"
      | _ => ""
    match engine (cstr name) with
    | none => "sel.bad-regex" ++ nul
    | some re =>
      let ofKind := m.identifiers.filter (·.ident.kind == kind)
      let base :=
        if ofKind.isEmpty then (if name.isEmpty then "sel.any-no-such-kind" else "sel.miss-no-such-kind")
        else if name.isEmpty then "sel.any-first-of-kind"
        else
          match ofKind.findIdx? (fun e => re e.ident.name) with
          | none => "sel.miss-name"
          | some 0 => "sel.hit-first-of-kind"
          | some _ => "sel.hit-after-nonmatching-of-kind"
      let other :=
        if !name.isEmpty && (m.identifiers.any fun e => e.ident.kind != kind && re e.ident.name)
        then "+other-kind-matches" else ""
      base ++ other ++ nul

def exec (st : St) (line : String) : St × Option String :=
  let toks := (line.trimAscii.toString.splitOn " ").filter (· ≠ "")
  match toks with
  | ["cfg"] => ({ st with slots := List.replicate 6 .absent }, none)
  | ["slot", i, what] =>
    match i.toNat? with
    | none => (st, some "bad-op")
    | some i =>
      let s : Slot := match what with
        | "common" => .common | "noentry" => .noentry | "initfail" => .initfail
        | "garbage" => .garbage | "mock" => .mock [] | _ => .absent
      ({ st with slots := st.slots.set i s }, none)
  | ["dev", i, k, n] =>
    match i.toNat?, k.toNat?, fromHex n with
    | some i, some k, some n =>
      match st.slots[i]? with
      | some (.mock devs) => ({ st with slots := st.slots.set i (.mock (devs ++ [(k, n)])) }, none)
      | _ => (st, some "bad-op")
    | _, _, _ => (st, some "bad-op")
  | ["init"] =>
    let m := Manager.init (st.slots.map Slot.lib)
    let loaded := (m.drivers.filter Option.isSome).length
    ({ st with m := m }, some s!"ok count={m.count} ~init.loaded-{loaded}")
  | ["count"] => (st, some s!"{st.m.count} ~count")
  | ["get", i] =>
    match i.toNat? with
    | none => (st, some "bad-op")
    | some i =>
      let r := st.m.get i
      let lbl := if i < st.m.count then (match r with | .ok _ => "get.ok" | .err => "get.enum-failed") else "get.out-of-range"
      (st, some s!"{showRes r} ~{lbl}")
  | ["getdrv", i] =>
    match i.toNat? with
    | none => (st, some "bad-op")
    | some i =>
      let r := st.m.getDriver { Ident.dflt with driverId := i }
      let lbl := if i < st.m.drivers.length then (if r.isSome then "getdrv.present" else "getdrv.absent") else "getdrv.out-of-range"
      (st, some s!"{if r.isSome then "present" else "null"} ~{lbl}")
  | ["getdrvnull"] => (st, some "null ~getdrv.null-identifier")
  | ["nullself"] =>
    (st, some "count=0,0 get=1,1 sel=1,1 first=1,1 default=1,1 drv=0,0 destroy=1,1 init=1 ~nullself")
  | ["destroy"] => ({ st with m := Manager.init [] }, some "ok ~destroy")
  | ["open", i] =>
    match i.toNat? with
    | none => (st, some "bad-op")
    | some i =>
      match st.m.get i with
      | .err => (st, some "err ~open.no-identifier")
      | .ok id =>
        match st.m.openIdent id with
        | .ok d => (st, some s!"ok id={d.deviceId} k={d.kind} n={toHex d.name} ~open.ok")
        | .err => (st, some "err ~open.failed")
  | ["first", k] =>
    match k.toNat? with
    | none => (st, some "bad-op")
    | some k =>
      let eng : Engine := fun _ => some fun _ => false
      (st, some s!"{showRes (st.m.selectFirst k eng)} ~{selLabel st.m k (.null 0) eng}")
  | ["default", k] =>
    match k.toNat? with
    | none => (st, some "bad-op")
    | some k =>
      let r := st.m.selectDefault k defaultEngine
      let lbl := if k = DeviceTable.DeviceKind_Camera then "default.camera" else if k = DeviceTable.DeviceKind_Storage then "default.storage" else "default.other-kind"
      (st, some s!"{showRes r} ~{lbl}{match r with | .ok _ => "-ok" | .err => "-err"}")
  | ["sel", k, n, len, re, mv] =>
    match k.toNat?, len.toNat? with
    | some k, some len =>
      let arg? : Option NameArg := if n = "NULL" then some (.null len) else (fromHex n).map .buf
      match arg? with
      | none => (st, some "bad-op")
      | some arg =>
        let eng := vectorEngine (re = "ok") st.m (mvBits mv st.m.count)
        (st, some s!"{showRes (st.m.select k arg eng)} ~{selLabel st.m k arg eng}")
    | _, _ => (st, some "bad-op")
  | ["sel2", k, n, ast] =>
    match k.toNat?, fromHex n, parseAst ast with
    | some k, some bs, some r =>
      let eng := reEngine r
      let mv := String.ofList (st.m.identifiers.map fun e => if matchesRe r e.ident.name then '1' else '0')
      (st, some s!"{showRes (st.m.select k (.buf bs) eng)} | re=ok mv={if mv.isEmpty then "-" else mv} ~l2.{selLabel st.m k (.buf bs) eng}")
    | _, _, _ => (st, some "bad-op")
  | _ => (st, some "bad-op")

partial def loop (h : IO.FS.Stream) (out : IO.FS.Stream) (st : St) : IO Unit := do
  let line ← h.getLine
  if line.isEmpty then return ()
  if line.trimAscii.toString.isEmpty then loop h out st else
  let (st', o) := exec st line
  match o with
  | some s => out.putStrLn s
  | none => pure ()
  loop h out st'

def main : IO Unit := do
  let out ← IO.getStdout
  loop (← IO.getStdin) out {}
