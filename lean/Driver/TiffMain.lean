import AcqVerif.Tiff.Sxs
import AcqVerif.Tiff.Read
import AcqVerif.Tiff.Desc
/-! Line-protocol driver for the TIFF model (`acq_tiff`).  Same script as
`harness/tiff/h_tiff.cpp`; one canonical result line per operation, ` ~label` =
model branches taken (coverage, stripped before comparison).

Extra operation (not understood by the harness; used on the bytes the REAL code produced):
  `read <hex>`  runs the independent reader `TiffRead.readTiff` and prints what it found. -/
open AcqVerif.Tiff

structure Sys where
  dev : Option Device := none
  kind : Nat := 0                 -- 0 tiff, 1 tiff-json
  files : Files := []
  paths : List Nat := []          -- path ordinals mentioned so far (sorted, unique)

def strBytes (s : String) : Bytes := s.toUTF8.toList

def pathOf (kind p : Nat) : Bytes := strBytes ("p" ++ toString p ++ (if kind = 0 then ".tif" else ""))

def insertSorted (x : Nat) : List Nat → List Nat
  | [] => [x]
  | y :: r => if x < y then x :: y :: r else if x = y then y :: r else y :: insertSorted x r

def gen (seed i : Nat) : UInt8 := UInt8.ofNat ((seed * 167 + i * i * 3 + i * 13 + i / 128) % 256)

def genBytes (seed n : Nat) : Bytes := (List.range n).map (gen seed)

def hexDigit (n : Nat) : Char := if n < 10 then Char.ofNat (48 + n) else Char.ofNat (87 + n)

def hexOf (b : Bytes) : String :=
  if b.isEmpty then "-" else
  String.ofList (b.foldr (fun x acc => hexDigit (x.toNat / 16) :: hexDigit (x.toNat % 16) :: acc) [])

def unhexChar (c : Char) : Option Nat :=
  if '0' ≤ c ∧ c ≤ '9' then some (c.toNat - 48)
  else if 'a' ≤ c ∧ c ≤ 'f' then some (c.toNat - 87)
  else if 'A' ≤ c ∧ c ≤ 'F' then some (c.toNat - 55)
  else none

def unhexList : List Char → Option Bytes
  | [] => some []
  | [_] => none
  | a :: b :: r => do
    let x ← unhexChar a
    let y ← unhexChar b
    let rest ← unhexList r
    some (UInt8.ofNat (16 * x + y) :: rest)

def unhex (s : String) : Option Bytes := if s == "-" then some [] else unhexList s.toList

def stName : DevState → String
  | .closed => "closed" | .awaiting => "awaiting" | .armed => "armed" | .running => "running"

def rc (ok : Bool) : String := if ok then "0" else "1"

def dumpOne (w : Files) (label : String) (path : Bytes) : String :=
  match w.get path with
  | none => s!" {label} absent"
  | some c => s!" {label} {c.length} {hexOf c}"

def parseFrames : Nat → List String → Option (List Frame)
  | 0, [] => some []
  | 0, _ => none
  | n + 1, w :: h :: ty :: fid :: hw :: tsh :: tsa :: pad :: seed :: rest => do
    let w ← w.toNat?; let h ← h.toNat?; let ty ← ty.toNat?; let fid ← fid.toNat?; let hw ← hw.toNat?
    let tsh ← tsh.toNat?; let tsa ← tsa.toNat?; let pad ← pad.toNat?; let seed ← seed.toNat?
    if ty ≥ K.sampleTypeCount then none else
    let nimg := w * h * bytesOfType ty + pad
    if (K.sizeofVideoFrame + nimg) % 8 ≠ 0 then none else
    let fs ← parseFrames n rest
    some ({ width := w, height := h, type := ty, frameId := fid, hwFrameId := hw, tsHardware := tsh,
            tsAcq := tsa, data := genBytes seed nimg } :: fs)
  | _, _ => none

def showPage (p : AcqVerif.TiffRead.Page) : String :=
  s!"[ifd={p.ifdOffset} ntags={p.ntags} w={p.width} h={p.height} bits={p.bitsPerSample} fmt={p.sampleFormat} " ++
  s!"strip={p.stripOffset}+{p.stripByteCount} desc={p.descOffset}+{p.descCount} next={p.next} " ++
  s!"pix={hexOf p.strip} text={hexOf p.description} " ++
  (match AcqVerif.TiffRead.parseDescription p.description.dropLast with
   | none => "ids=unparsed]"
   | some d => s!"ids={d.frameId}/{d.hwFrameId}/{d.runtime}/{d.hardware} meta={match d.metadata with | none => "none" | some m => hexOf m}]")

def tiffOf (d : Device) : Tiff := match d with | .tiff t => t | .sxs s => s.tiff

def appendLabel (d : Device) (pk : List Frame) : String :=
  let t := tiffOf d
  let first := if t.frameCount = 0 then (if t.externalMetadata.length > 0 then "app.first-meta" else "app.first-plain") else "app.later"
  let multi := if pk.length > 1 then "+multi" else ""
  let empt := if pk.any (·.data.isEmpty) then "+emptystrip" else ""
  let den := if resolutionDen t.scaleMilliY = 0 then "+yden0" else if resolutionDen t.scaleMilliX = 0 then "+xden0" else ""
  first ++ multi ++ empt ++ den

partial def loop (h : IO.FS.Stream) (out : IO.FS.Stream) (s : Sys) : IO Unit := do
  let line ← h.getLine
  if line.isEmpty then return ()
  let toks := (line.trimAscii.toString.splitOn " ").filter (· ≠ "")
  match toks with
  | [] => loop h out s
  | ["case", id] => out.putStrLn s!"case {id}"; loop h out {}
  | ["open", k] =>
    if s.dev.isSome ∨ (k ≠ "tiff" ∧ k ≠ "tiff-json") then out.putStrLn "illformed ~illformed"; loop h out s else
    let kind := if k = "tiff" then 0 else 1
    let d : Device := if kind = 0 then .tiff {} else .sxs {}
    out.putStrLn s!"open {k} ~open.{k}"
    loop h out { s with dev := some d, kind := kind }
  | ["prefill", p, which, len, seed] =>
    match s.dev, p.toNat?, len.toNat?, seed.toNat? with
    | some _, some p, some len, some seed =>
      if (which ≠ "data" ∧ which ≠ "meta") ∨ (which = "meta" ∧ s.kind = 0) then out.putStrLn "illformed ~illformed"; loop h out s else
      let base := pathOf s.kind p
      let path := if s.kind = 0 then base else if which = "data" then base ++ sDataTif else base ++ sMetadataJson
      out.putStrLn s!"prefill {len} ~prefill.{which}"
      loop h out { s with files := s.files.put path (genBytes seed len), paths := insertSorted p s.paths }
    | _, _, _, _ => out.putStrLn "illformed ~illformed"; loop h out s
  | ["set", p, prefix_, mk, mhex, sx, sy] =>
    match s.dev, p.toNat?, prefix_.toNat?, unhex mhex, sx.toNat?, sy.toNat? with
    | some d, some p, some pre, some md, some sx, some sy =>
      if d.state = .running then out.putStrLn "illformed ~illformed"; loop h out s else
      let uri := (if pre ≠ 0 then sFileScheme else []) ++ pathOf s.kind p
      let props : Props := { uri := uri, metadata := if mk = "null" then none else some md, scaleMilliX := sx, scaleMilliY := sy }
      let (d', ok) := storageSet d props
      let lab := (if mk = "null" then "set.meta-null" else if md.isEmpty then "set.meta-empty" else if ok then "set.meta-valid" else "set.meta-invalid")
        ++ (if pre ≠ 0 then "+prefix" else "") ++ (if (tiffOf d).externalMetadata.length > 0 ∧ (mk = "null" ∨ md.isEmpty) then "+clears-old" else "")
      out.putStrLn s!"set {rc ok} {stName d'.state} ~{lab}"
      loop h out { s with dev := some d', paths := insertSorted p s.paths }
    | _, _, _, _, _, _ => out.putStrLn "illformed ~illformed"; loop h out s
  | ["start"] =>
    match s.dev with
    | none => out.putStrLn "illformed ~illformed"; loop h out s
    | some d =>
      let (d', ok, e) := storageStart d
      let pre := match d' with
        | .tiff t => (s.files.get t.file).isSome
        | .sxs x => (s.files.get x.tiff.file).isSome
      out.putStrLn s!"start {rc ok} {stName d'.state} ~{if ok then (if pre then "start.ok-existing-file" else "start.ok-new-file") else "start.refused"}"
      loop h out { s with dev := some d', files := s.files.applyAll e }
  | ["stop"] =>
    match s.dev with
    | none => out.putStrLn "illformed ~illformed"; loop h out s
    | some d =>
      let (d', ok, e) := storageStop d
      out.putStrLn s!"stop {rc ok} {stName d'.state} ~{if e.isEmpty then "stop.idle" else "stop.terminate"}"
      loop h out { s with dev := some d', files := s.files.applyAll e }
  | ["destroy"] =>
    match s.dev with
    | none => out.putStrLn "illformed ~illformed"; loop h out s
    | some d =>
      let (d', _, e) := storageStop d
      let e2 := d'.vdestroy
      out.putStrLn s!"destroy ~{if e.isEmpty then "destroy.idle" else "destroy.running"}"
      loop h out { s with dev := none, files := (s.files.applyAll e).applyAll e2 }
  | "append" :: n :: rest =>
    match s.dev, n.toNat? with
    | some d, some n =>
      match parseFrames n rest with
      | none => out.putStrLn "illformed ~illformed"; loop h out s
      | some pk =>
        let (d', ok, e) := storageAppend d pk
        out.putStrLn s!"append {rc ok} {stName d'.state} ~{if e.isEmpty then "app.refused-or-empty" else appendLabel d pk}"
        loop h out { s with dev := some d', files := s.files.applyAll e }
    | _, _ => out.putStrLn "illformed ~illformed"; loop h out s
  | ["dump"] =>
    let parts := s.paths.map fun p =>
      let base := pathOf s.kind p
      if s.kind = 0 then dumpOne s.files s!"p{p}.data" base
      else dumpOne s.files s!"p{p}.data" (base ++ sDataTif) ++ dumpOne s.files s!"p{p}.meta" (base ++ sMetadataJson)
    out.putStrLn ("dump" ++ String.join parts ++ " ~dump")
    loop h out s
  | ["read", hex] =>
    match unhex hex with
    | none => out.putStrLn "bad-op"; loop h out s
    | some f =>
      match AcqVerif.TiffRead.readTiff f with
      | none => out.putStrLn s!"read {f.length} unreadable ~read.none"
      | some pages =>
        let regs := AcqVerif.TiffRead.regions pages
        out.putStrLn (s!"read {f.length} pages={pages.length} regions=" ++ toString regs ++ " " ++ " ".intercalate (pages.map showPage) ++ " ~read.ok")
      loop h out s
  | _ => out.putStrLn "bad-op"; loop h out s

def main : IO Unit := do
  loop (← IO.getStdin) (← IO.getStdout) {}
