import AcqVerif.Storage.Hal
/-! Line-protocol driver for the storage I/O model (`acq_storage`); see
`harness/storage_io/h_storage_io.c` for the protocol.  One result line per operation;
a trailing ` ~a+b+c` lists the model branches the operation took. -/
open AcqVerif.Storage

def strBytes (s : String) : Bytes := s.toUTF8.toList
def bytesStr (b : Bytes) : String := String.ofList (b.map fun c => Char.ofNat c.toNat)

def hexDigit (c : Char) : Nat :=
  if '0' ≤ c ∧ c ≤ '9' then c.toNat - '0'.toNat
  else if 'a' ≤ c ∧ c ≤ 'f' then c.toNat - 'a'.toNat + 10 else 0

def hexBytes : List Char → Bytes
  | a :: b :: t => UInt8.ofNat (hexDigit a * 16 + hexDigit b) :: hexBytes t
  | _ => []

def fnv (b : Bytes) : UInt32 :=
  b.foldl (fun h c => (h ^^^ c.toUInt32) * 16777619) 2166136261

def hex8 (v : UInt32) : String :=
  let ds := "0123456789abcdef".toList
  String.ofList ((List.range 8).map fun i => ds.getD ((v.toNat >>> (4 * (7 - i))) % 16) '0')

def stName : DeviceState → String
  | .closed => "C" | .awaiting => "W" | .armed => "A" | .running => "R"

structure DSt where
  sys : Sys
  kind : Kind := .raw
  have_ : Bool := false
  faults : List (Nat × Outcome) := []
  persist : Option Nat := none
  own : List (Fd × Nat × Bool) := []      -- (fd, ordinal, still open), newest first
  nown : Nat := 0
  cur : Option Bytes := none              -- path the current URI denotes

def mkOracle (faults : List (Nat × Outcome)) (persist : Option Nat) : Nat → Outcome := fun n =>
  match persist with
  | some p => if n ≥ p then .fail else (faults.lookup n).getD .full
  | none => (faults.lookup n).getD .full

def fdName (own : List (Fd × Nat × Bool)) (fd : Fd) : String :=
  match own.find? (fun e => e.1 == fd && e.2.2) with
  | some e => s!"d{e.2.1}"
  | none =>
    match own.find? (fun e => e.1 == fd) with
    | some e => s!"!d{e.2.1}"
    | none => s!"!{fd}"

/-- render the events of one operation, updating the ordinal table -/
def render (own : List (Fd × Nat × Bool)) (nown : Nat) : List Ev → List String → List (Fd × Nat × Bool) × Nat × List String
  | [], acc => (own, nown, acc.reverse)
  | e :: es, acc =>
    match e with
    | .open p (some fd) => render ((fd, nown + 1, true) :: own) (nown + 1) es (s!"open({bytesStr p})=d{nown + 1}" :: acc)
    | .open p none => render own nown es (s!"open({bytesStr p})=fail" :: acc)
    | .flock fd ok => render own nown es (s!"flock({fdName own fd})={if ok then "ok" else "fail"}" :: acc)
    | .pwrite fd off len r =>
      let rs := match r with | some w => toString w | none => "fail"
      render own nown es (s!"pwrite({fdName own fd},{off},{len})={rs}" :: acc)
    | .close fd ok =>
      let nm := fdName own fd
      let own' := match own.find? (fun e => e.1 == fd && e.2.2) with
        | some e => own.map fun x => if x.1 == fd && x.2.1 == e.2.1 then (x.1, x.2.1, false) else x
        | none => own
      render own' nown es (s!"close({nm})={if ok then "ok" else "fail"}" :: acc)
    | .mkdir p ok => render own nown es (s!"mkdir({bytesStr p})={if ok then "ok" else "fail"}" :: acc)
    | .unlink p => render own nown es (s!"unlink({bytesStr p})" :: acc)

def evLabels (evs : List Ev) : List String :=
  let has (p : Ev → Bool) := evs.any p
  (if has (fun e => match e with | .pwrite _ _ len (some w) => 0 < w && w < len | _ => false) then ["fw.short"] else []) ++
  (if has (fun e => match e with | .pwrite _ _ len (some 0) => len > 0 | _ => false) then ["fw.zero"] else []) ++
  (if (evs.filter (fun e => match e with | .pwrite _ _ len (some 0) => len > 0 | _ => false)).length ≥ 3 then ["fw.zero3"] else []) ++
  (if has Ev.isFailedPwrite then ["fw.fail"] else []) ++
  (if has (fun e => match e with | .pwrite _ _ _ (some _) => true | _ => false) then ["fw.wrote"] else []) ++
  (if has (fun e => match e with | .open _ none => true | _ => false) then ["open.fail"] else []) ++
  (if has (fun e => match e with | .flock _ false => true | _ => false) then ["flock.fail"] else []) ++
  (if has (fun e => match e with | .close _ false => true | _ => false) then ["close.fail"] else []) ++
  (if has (fun e => match e with | .close _ true => true | _ => false) then ["close.ok"] else []) ++
  (if has (fun e => match e with | .mkdir _ false => true | _ => false) then ["mkdir.fail"] else []) ++
  (if has (fun e => match e with | .unlink _ => true | _ => false) then ["probe"] else [])

def kindName : Kind → String
  | .raw => "raw" | .tiff => "tiff" | .sxs => "sxs" | .trash => "trash"

def fileDigest (d : DSt) : String :=
  if d.kind != .raw then "" else
  match d.cur with
  | none => " | nofile"
  | some p =>
    match d.sys.os.files p with
    | none => " | nofile"
    | some b => s!" | file={b.length}:{hex8 (fnv b)}"

/-- print the result line of an executed operation; returns the new driver state -/
def finish (out : IO.FS.Stream) (d : DSt) (op : String) (st : Status) (extra : List String := []) : IO DSt := do
  let evs := d.sys.os.log
  let (own, nown, strs) := render d.own d.nown evs []
  let d := { d with own := own, nown := nown, sys := { d.sys with os := { d.sys.os with log := [] } } }
  let rc := match st with | .ok => "ok" | .err => "err" | .illformed => "illformed"
  let stn := stName d.sys.dev.state
  let labels := [s!"{kindName d.kind}.{op}.{rc}.{stn}"] ++ evLabels evs ++ extra
  out.putStrLn s!"{op} {rc} {stn} | {" ".intercalate strs}{fileDigest d} ~{"+".intercalate labels}"
  return d

def parseFault (t : String) : Option (Sum Nat (Nat × Outcome)) :=
  match t.splitOn "=" with
  | ["from", n] => n.toNat?.map .inl
  | [i, o] => do
    let i ← i.toNat?
    match o.toList with
    | ['F'] => pure (.inr (i, .fail))
    | ['Z'] => pure (.inr (i, .zero))
    | 'S' :: k => do let k ← (String.ofList k).toNat?; pure (.inr (i, .short k))
    | _ => none
  | _ => none

def parseUri (t : String) : Option (Bytes × Bytes) :=
  match t.toList with
  | 'p' :: ':' :: n => some (strBytes (String.ofList n), strBytes (String.ofList n))
  | 'f' :: ':' :: n => some (filePrefix ++ strBytes (String.ofList n), strBytes (String.ofList n))
  | _ => none

def parseFrames (toks : List String) : List Frame :=
  let descs : List (Nat × Nat) := match toks.find? (fun t => t.startsWith "L=") with
    | some t => ((t.drop 2).toString.splitOn ",").filterMap fun p =>
        match p.splitOn "/" with
        | [a, b] => do let a ← a.toNat?; let b ← b.toNat?; pure (a, b)
        | _ => none
    | none => []
  let hexes := toks.filter (fun t => !(t.startsWith "L=") && t != "-")
  (hexes.zipIdx).map fun (h, i) =>
    { bytes := hexBytes h.toList, descFirst := (descs.getD i (0, 0)).1, descRest := (descs.getD i (0, 0)).2 }

partial def loop (h : IO.FS.Stream) (out : IO.FS.Stream) (d : DSt) : IO Unit := do
  let line ← h.getLine
  if line.isEmpty then return ()
  let toks := (line.trimAscii.toString.splitOn " ").filter (· ≠ "")
  match toks with
  | [] => loop h out d
  | ["new", k] =>
    let kind? : Option Kind := match k with
      | "raw" => some .raw | "tiff" => some .tiff | "sxs" => some .sxs | "trash" => some .trash | _ => none
    match kind? with
    | none => out.putStrLn "bad-op"; loop h out { d with have_ := false }
    | some kind =>
      let d : DSt := { sys := Sys.init kind (mkOracle [] none) (fun _ => 3), kind := kind, have_ := true }
      let d ← finish out d "new" .ok
      loop h out d
  | "faults" :: specs =>
    let ps := specs.filterMap parseFault
    let faults := d.faults ++ ps.filterMap (fun x => match x with | .inr f => some f | _ => none)
    let persist := match ps.filterMap (fun x => match x with | .inl n => some n | _ => none) with
      | n :: _ => some n | [] => d.persist
    let d := { d with faults := faults, persist := persist,
                      sys := { d.sys with os := { d.sys.os with oracle := mkOracle faults persist } } }
    out.putStrLn "faults ok"
    loop h out d
  | opn :: args =>
    if !d.have_ || d.sys.closed then out.putStrLn "illformed ~illformed"; loop h out d else
    match opn, args with
    | "set", [u, m] =>
      match parseUri u with
      | none => out.putStrLn "bad-op"; loop h out d
      | some (uri, name) =>
        let md : Bytes := if m == "-" then [] else strBytes m ++ [0]
        let op := Op.set (uri ++ [0]) md
        if !(op.wf d.sys) then out.putStrLn "illformed ~illformed"; loop h out d else
        let (s, st) := step d.sys op
        let d := { d with sys := s, cur := if st == .ok then some name else d.cur }
        let d ← finish out d "set" st [if uriOffset (uri ++ [0]) = 7 then "uri.file" else "uri.plain"]
        loop h out d
    | "start", [] =>
      let (s, st) := step d.sys .start
      let d ← finish out { d with sys := s } "start" st
      loop h out d
    | "stop", [] =>
      let (s, st) := step d.sys .stop
      let d ← finish out { d with sys := s } "stop" st
      loop h out d
    | "close", [] =>
      let (s, st) := step d.sys .close
      let d ← finish out { d with sys := s } "close" st
      loop h out d
    | "append", toks =>
      let fs := parseFrames toks
      let (s, st) := step d.sys (.append fs)
      let d ← finish out { d with sys := s } "append" st [s!"pkt.{min fs.length 3}"]
      loop h out d
    | _, _ => out.putStrLn "bad-op"; loop h out d

def main : IO Unit := do
  let out ← IO.getStdout
  loop (← IO.getStdin) out { sys := Sys.init .raw (fun _ => .full) (fun _ => 3) }
