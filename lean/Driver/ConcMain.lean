import AcqVerif.Channel.Conc
/-! Line-protocol driver for the concurrent channel model (`acq_conc`), see harness/chan/h_chan_conc.c -/
open AcqVerif.Channel

def b2n (b : Bool) : Nat := if b then 1 else 0

def digest (s : Sys) : String :=
  let c := s.c
  let hs := " ".intercalate (c.holds.map fun h => s!"{h.pos}:{h.cyc}")
  let rs := " ".intercalate (s.rds.map fun r => s!"{r.id}:{r.pos}:{r.cyc}:{r.status}:{b2n r.mapped}")
  s!"{c.head} {c.high} {c.cycle} {c.mapped} {b2n c.accepting} {c.holds.length} [{hs}] | [{rs}]"

def showOut : Out → String
  | .unit => "ok"
  | .wnull => "null"
  | .wblock => "block"
  | .wok beg => s!"wok {beg}"
  | .slice beg len st => if len = 0 then s!"slice 0 0 st={st}" else s!"slice {beg} {len} st={st}"
  | .bad => "bad-op"

def parseOp (text : String) : Option Op :=
  match (text.trimAscii.toString.splitOn " ").filter (· ≠ "") with
  | ["wmap", n] => n.toNat?.map .wmap
  | ["wcommit"] => some .wcommit
  | ["wabort"] => some .wabort
  | ["accept", b] => b.toNat?.map fun b => .accept (b != 0)
  | ["join"] => some .join
  | ["rmap", i] => i.toNat?.map .rmap
  | ["runmap", i, k] => do let i ← i.toNat?; let k ← k.toNat?; pure (.runmap i k)
  | _ => none

def kindName : Pc → String
  | .start => "start" | .lockReq => "lock" | .waitEntry => "wait" | .asleep => "reacq"
  | .woken => "reacq" | .notify => "notify" | .done => "-"

structure Scen where
  cap : Nat := 16
  pre : List Op := []
  progs : List (List Op) := []

/-- results of the calls `settle` skips, as the harness prints them -/
def skippedResults (s : Sys) (tid : Nat) (k : Nat) : List Op → List String
  | [] => []
  | op :: rest =>
    if skipsLock s op then
      let r := match op with | .wmap _ => "null" | _ => "ok"
      s!"R {tid} {k} {r}" :: skippedResults s tid (k + 1) rest
    else []

def runSchedule (sc : Scen) (decisions : List Nat) : List String := Id.run do
  let s0 := sc.pre.foldl (fun s op => (step s op).1) (Sys.init sc.cap)
  let mut cs := CState.init s0 sc.progs
  let mut out : Array String := #["RUN"]
  let mut pend : Array String := Array.replicate sc.progs.length ""
  for tid in decisions do
    let t := tid - 1
    match cs.threads[t]? with
    | none => out := out.push s!"D {tid} ? | {digest cs.sys}"
    | some th =>
      out := out.push s!"D {tid} {kindName th.pc} | {digest cs.sys}"
      let orig := (sc.progs.getD t []).length
      let k := orig - th.prog.length
      match cstep cs t with
      | none => out := out.push s!"NOT-ENABLED {tid}"
      | some cs' =>
        match th.pc, th.prog with
        | .start, prog => for l in skippedResults cs.sys tid k prog do out := out.push l
        | .lockReq, op :: rest | .woken, op :: rest =>
          let (s', o) := step cs.sys op
          let blocked := match op, o with | .wmap _, .wblock => true | _, _ => false
          if blocked then pure ()
          else if notifies cs.sys op then pend := pend.set! t (showOut o)
          else
            out := out.push s!"R {tid} {k} {showOut o}"
            for l in skippedResults s' tid (k + 1) rest do out := out.push l
        | .notify, _ :: rest =>
          out := out.push s!"R {tid} {k} {pend[t]!}"
          for l in skippedResults cs.sys tid (k + 1) rest do out := out.push l
        | _, _ => pure ()
        cs := cs'
  out := out.push s!"F {digest cs.sys}"
  let n := cs.threads.length
  let allDone := cs.threads.all (·.pc = .done)
  let anyEnabled := (List.range n).any (enabled cs)
  out := out.push (if allDone then "END ok" else if !anyEnabled then "END DEADLOCK" else "END INCOMPLETE")
  return out.toList

partial def loop (h : IO.FS.Stream) (out : IO.FS.Stream) (sc : Scen) : IO Unit := do
  let line ← h.getLine
  if line.isEmpty then return ()
  let l := line.trimAscii.toString
  if l.startsWith "cap " then
    loop h out { cap := ((l.drop 4).trimAscii.toString.toNat?).getD 16 }
  else if l.startsWith "pre " then
    match parseOp (l.drop 4).toString with
    | some op => loop h out { sc with pre := sc.pre ++ [op] }
    | none => loop h out sc
  else if l.startsWith "thread " then
    let ops := ((l.drop 7).toString.splitOn ";").filterMap parseOp
    loop h out { sc with progs := sc.progs ++ [ops] }
  else if l.startsWith "run" then
    let ds := (((l.drop 3).toString.replace "," " ").splitOn " ").filterMap (·.trimAscii.toString.toNat?)
    for ln in runSchedule sc ds do out.putStrLn ln
    loop h out sc
  else loop h out sc

def main : IO Unit := do
  loop (← IO.getStdin) (← IO.getStdout) {}
