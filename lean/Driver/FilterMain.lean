import AcqVerif.Filter.Model
/-! Line-protocol driver for the frame-averaging model (`acq_filter`); same script as
`harness/filter/h_filter.c`.  Committed frames are printed with their exact integer sums and the
divisor; the check turns them into float32 bit patterns. -/
open AcqVerif.Filter

def b2n (b : Bool) : Nat := if b then 1 else 0

/-- the pixel generator of the harness -/
def mix (seed i : Nat) : UInt32 :=
  let x : UInt32 := UInt32.ofNat seed * 2654435761 + UInt32.ofNat i * 2246822519 + 374761393
  let x := x ^^^ (x >>> 15)
  let x := x * 2246822519
  let x := x ^^^ (x >>> 13)
  let x := x * 3266489917
  x ^^^ (x >>> 16)

def typeBits : SampleType → Nat
  | .u8 => 8 | .i8 => 8 | .u10 => 10 | .u12 => 12 | .u14 => 14 | _ => 16

def typeSigned : SampleType → Bool
  | .i8 => true | .i16 => true | _ => false

def sampleOf (ty : SampleType) (seed : Nat) (x : UInt32) : Int :=
  let bits := typeBits ty
  let sg := typeSigned ty
  let sel := if seed % 16 == 0 then 0 else if seed % 16 == 1 then 1 else (x >>> 28).toNat
  let raw : Nat :=
    if sel == 0 then (if sg then 2 ^ (bits - 1) - 1 else 2 ^ bits - 1)
    else if sel == 1 then (if sg then 2 ^ (bits - 1) else 0)
    else x.toNat % 2 ^ bits
  if sg && raw ≥ 2 ^ (bits - 1) then (raw : Int) - (2 ^ bits : Nat) else (raw : Int)

def mkFrame (seed id w h : Nat) (ty : SampleType) : Frame :=
  { id := id, shape := Shape.image w h, ty := ty,
    pix := if ty.isInteger then (List.range (w * h)).map fun i => sampleOf ty seed (mix seed i) else [] }

structure D where
  k : Nat := 2
  have_ : Bool := false
  accepting : Bool := true
  pending : List Frame := []
  st : St := St.init
  printed : Nat := 0
  failed : Bool := false
  finalized : Bool := false

def ints (l : List Int) : String := ",".intercalate (l.map toString)

def showOut (o : Out) : String :=
  s!"F id={o.id} ty={o.ty.code} w={o.shape.width} h={o.shape.height} npx={o.shape.npx} bytes={o.bytesOfFrame} div={o.div} sums={ints o.sums}"

def showStatus (op : String) (ret : Bool) (s : St) : String :=
  match s.acc with
  | some a => s!"{op} ret={b2n ret} fc={s.frameCount} acc={a.id} div=1 sums={ints a.sums}"
  | none => s!"{op} ret={b2n ret} fc={s.frameCount} acc=-"

/-- branch of `process_data`'s loop body a frame takes (coverage label) -/
def labelOf (k : Nat) (s : St) (fr : Frame) (e : FrameEnv) : String :=
  match s.acc with
  | none =>
    if e.ok then (if (accumulate [] fr).isSome then "first" else "err-first") else "refused"
  | some a =>
    if consistentShape a.shape fr.shape then
      (if (accumulate a.sums fr).isSome then
        (if s.frameCount + 1 ≥ k then (if e.ok then "emit" else "emit-lost") else "cont")
       else "err-cont")
    else "shape"

def labelsOf (k : Nat) : St → List (Frame × FrameEnv) → List String
  | _, [] => []
  | s, fe :: rest =>
    let l := labelOf k s fe.1 fe.2
    match onFrame k s fe.1 fe.2 with
    | (s1, true) => l :: labelsOf k s1 rest
    | (_, false) => [l]

def junk : Nat → Int := fun i => 1000003 * (Int.ofNat i + 1)

def emitNew (out : IO.FS.Stream) (d : D) (s : St) : IO D := do
  for o in s.out.drop d.printed do
    out.putStrLn (showOut o)
  pure { d with st := s, printed := s.out.length }

partial def loop (h : IO.FS.Stream) (out : IO.FS.Stream) (d : D) : IO Unit := do
  let line ← h.getLine
  if line.isEmpty then return ()
  let toks := (line.trimAscii.toString.splitOn " ").filter (· ≠ "")
  match toks with
  | [] => loop h out d
  | ["new", k, _, _, _] =>
    out.putStrLn "new"
    loop h out { k := k.toNat!, have_ := true }
  | ["w", seed, id, w, hh, ty] =>
    if !d.have_ then out.putStrLn "bad-op"; loop h out d
    else if d.finalized || d.failed then out.putStrLn "illformed"; loop h out d
    else
      let f := mkFrame seed.toNat! id.toNat! w.toNat! hh.toNat! (SampleType.ofCode ty.toNat!)
      out.putStrLn "w ok"
      loop h out { d with pending := d.pending ++ [f] }
  | ["p", r] =>
    if !d.have_ then out.putStrLn "bad-op"; loop h out d
    else if d.failed || d.finalized then out.putStrLn "illformed"; loop h out d
    else
      let env : FrameEnv := { ok := d.accepting, old := junk }
      let fs := d.pending.map fun f => (f, env)
      let reset := r != "0"
      let (s1, ok) := processData d.k d.st { frames := fs, reset := reset }
      let labs := labelsOf d.k d.st fs ++
        (if ok && reset then [if (framesLoop d.k d.st fs).1.acc.isSome then "reset-pending" else "reset-idle"] else []) ++
        (if fs.isEmpty then ["empty"] else [])
      let d1 ← emitNew out d s1
      out.putStrLn (showStatus "P" ok s1 ++ (if labs.isEmpty then "" else " ~" ++ ",".intercalate labs))
      loop h out { d1 with pending := if ok then [] else d.pending, failed := !ok }
  | ["accept", b] =>
    if !d.have_ then out.putStrLn "bad-op"; loop h out d
    else
      out.putStrLn s!"accept {b}"
      loop h out { d with accepting := b != "0" }
  | ["T"] =>
    if !d.have_ then out.putStrLn "bad-op"; loop h out d
    else if d.failed || d.finalized || d.st.acc.isSome then out.putStrLn "illformed"; loop h out d
    else
      let env : FrameEnv := { ok := d.accepting, old := junk }
      let fs := d.pending.map fun f => (f, env)
      let (s1, ok) := threadLoop d.k d.st [{ frames := fs, reset := false }]
      let s2 := finalize s1 d.accepting
      let labs := labelsOf d.k d.st fs ++ [if s1.acc.isSome then "fin-pending" else "fin-idle"]
      let d1 ← emitNew out d s2
      out.putStrLn (s!"T ret={b2n (!ok)}" ++ " ~" ++ ",".intercalate labs)
      loop h out { d1 with pending := [], finalized := true, failed := !ok }
  | ["fin"] =>
    if !d.have_ then out.putStrLn "bad-op"; loop h out d
    else if d.finalized then out.putStrLn "illformed"; loop h out d
    else
      let s2 := finalize d.st d.accepting
      let d1 ← emitNew out d s2
      out.putStrLn ("FIN ~" ++ (if d.st.acc.isSome then "fin-pending" else "fin-idle"))
      loop h out { d1 with finalized := true }
  | ["end"] =>
    if !d.have_ then out.putStrLn "bad-op"; loop h out d
    else
      out.putStrLn s!"END outputs={d.st.out.length}"
      loop h out d
  | _ => out.putStrLn "bad-op"; loop h out d

def main : IO Unit := do
  let out ← IO.getStdout
  loop (← IO.getStdin) out {}
