import AcqVerif.SProps.Model
/-! Line-protocol driver for the model of `props/storage.c` (`acq_props`).  One operation per
input line, one canonical result line per operation, same text as `harness/props/h_props.c`.
A trailing ` ~a+b+c` lists the model branches the operation took (coverage only). -/
open AcqVerif.SProps

def hexDigit (n : Nat) : Char := "0123456789abcdef".toList.getD n '?'

def hexOf (bs : List Byte) : String :=
  String.ofList (bs.flatMap fun b => [hexDigit (b.toNat / 16), hexDigit (b.toNat % 16)])

def hexVal (c : Char) : Option Nat :=
  if '0' ≤ c ∧ c ≤ '9' then some (c.toNat - '0'.toNat)
  else if 'a' ≤ c ∧ c ≤ 'f' then some (c.toNat - 'a'.toNat + 10)
  else none

def parseHex : List Char → Option (List Byte)
  | [] => some []
  | [_] => none
  | a :: b :: rest => do
    let h ← hexVal a
    let l ← hexVal b
    let r ← parseHex rest
    pure (UInt8.ofNat (h * 16 + l) :: r)

/-- `-` = (NULL,0), `N<k>` = (NULL,k), `x<hex>` = caller buffer of exactly that many bytes -/
def parseStr (t : String) : Option InStr :=
  match t.toList with
  | ['-'] => some {}
  | 'N' :: k => (String.ofList k).toNat?.map fun k => { ptr := none, nbytes := k }
  | 'x' :: h => (parseHex h).map fun b => { ptr := some b, nbytes := b.length }
  | _ => none

def showStr (h : Heap) (s : Str) : String :=
  match s.str with
  | .null => s!"0:{s.nbytes}:{b2n s.isRef}"
  | .ext b => if s.isRef then s!"e:{s.nbytes}:1:{hexOf (b.take s.nbytes)}" else s!"X:{s.nbytes}:0"
  | .heap id =>
    if s.isRef then s!"e:{s.nbytes}:1:?"
    else if !h.live id then s!"X:{s.nbytes}:0"
    else
      let b := h.bytesOf id
      s!"h{id}/{b.length}:{s.nbytes}:0:{hexOf (b.take s.nbytes)}"

def showDim (h : Heap) (d : Dim) : String :=
  s!"{showStr h d.name},{d.kind},{d.arraySizePx},{d.chunkSizePx},{d.shardSizeChunks}"

def showObj (h : Heap) (o : Obj) : String :=
  let dims := match o.dimsData with
    | none => s!"0:{o.dimsSize}"
    | some id =>
      if !h.live id then s!"X:{o.dimsSize}"
      else
        let l := h.dimsOf id
        s!"h{id}/{l.length * sizeofStorageDimension}:{o.dimsSize}[{";".intercalate ((l.take o.dimsSize).map (showDim h))}]"
  s!"U={showStr h o.uri} M={showStr h o.mdata} A={showStr h o.akey} S={showStr h o.skey} f={o.firstFrameId} p={o.pxX},{o.pxY} ms={o.multiscale} D={dims}"

def showEv : Event → String
  | .alloc id n => s!"+{id}:{n}"
  | .free id => s!"-{id}"
  | .uaf id => s!"UAF{id}"
  | .dfree id => s!"DFREE{id}"
  | .wild => "WILD"
  | .oob => "OOB"

/-- events logged between two heaps, oldest first -/
def eventsSince (h0 h1 : Heap) : String :=
  " ".intercalate (((h1.log.take (h1.log.length - h0.log.length)).reverse).map showEv)

def parseField (t : String) : Option Field :=
  match t with
  | "0" => some .uri | "1" => some .mdata | "2" => some .akey | "3" => some .skey | _ => none

def parseOp (toks : List String) : Option Op :=
  match toks with
  | ["init", o, ffid, u, m, px, py, nd] => do
    let o ← o.toNat?; let ffid ← ffid.toNat?; let u ← parseStr u; let m ← parseStr m
    let px ← px.toNat?; let py ← py.toNat?; let nd ← nd.toNat?
    pure (.init o (ffid % 4294967296) u m px py (nd % 256))
  | ["uri", o, a] => do pure (.setUri (← o.toNat?) (← parseStr a))
  | ["meta", o, a] => do pure (.setMeta (← o.toNat?) (← parseStr a))
  | ["keys", o, a, b] => do pure (.setKeys (← o.toNat?) (← parseStr a) (← parseStr b))
  | ["dim", o, ix, nm, k, a, c, sh] => do
    pure (.setDim (← o.toNat?) (← ix.toInt?) (← parseStr nm) (← k.toNat?) ((← a.toNat?) % 4294967296)
      ((← c.toNat?) % 4294967296) ((← sh.toNat?) % 4294967296))
  | ["ms", o, v] => do pure (.setMultiscale (← o.toNat?) ((← v.toNat?) % 256))
  | ["copy", d, s] => do pure (.copy (← d.toNat?) (← s.toNat?))
  | ["destroy", o] => do pure (.destroy (← o.toNat?))
  | ["ref", o, f, a] => do
    let o ← o.toNat?
    match parseField f with
    | none => pure (.ref 999 .uri [])   -- unknown field: ill-formed, like an unknown object
    | some f =>
      let a ← parseStr a
      match a.ptr with
      | none => pure (.ref o f [])
      | some b => pure (.ref o f b)
  | ["dinit", o, n] => do pure (.dimsInit (← o.toNat?) (← n.toNat?))
  | ["ddestroy", o] => do pure (.dimsDestroy (← o.toNat?))
  | _ => none

/-! coverage labels: which branch of the C each call takes (computed from the state before) -/

def csLabel (dst src : Str) : String :=
  let s := csSrc src
  (if src.str = .null ∨ src.nbytes = 0 then "cs.src-empty" else
     (match src.str with | .heap _ => "cs.src-heap" | _ => "cs.src-caller")) ++ "+" ++
  (if dst.str = .null then "cs.dst-null" else if dst.isRef then "cs.dst-ref"
   else if s.nbytes > dst.nbytes then "cs.realloc"
   else if s.nbytes < dst.nbytes then "cs.shrink" else "cs.same-size") ++
  (match s.str with
   | .ext b => if (b.take s.nbytes).getLast? = some 0 then "" else "+cs.unterminated"
   | _ => "")

def labels (s : State) : Op → List String
  | .init _ _ u m _ _ nd => ["init", csLabel {} u.toStr, csLabel {} m.toStr, if nd > 0 then "init.dims" else "init.nodims"]
  | .setUri o a => ["uri", csLabel (s.obj o).uri a.toStr]
  | .setMeta o a => ["meta", csLabel (s.obj o).mdata a.toStr]
  | .setKeys o a b => ["keys", csLabel (s.obj o).akey a.toStr, csLabel (s.obj o).skey b.toStr]
  | .setDim o ix nm k _ _ _ =>
    let ob := s.obj o
    if ix < 0 then ["dim.neg-index"]
    else if ix.toNat ≥ ob.dimsSize then ["dim.index-out-of-range"]
    else match nm.ptr with
    | none => ["dim.null-name"]
    | some b =>
      if nm.nbytes = 0 then ["dim.zero-bytes"]
      else if b.head? = some 0 then ["dim.empty-name"]
      else if k ≥ dimensionTypeCount then ["dim.bad-kind"]
      else
        let old := (ob.dimsData.map fun id => (s.h.dimsOf id).getD ix.toNat default).getD default
        ["dim.set", if old.name.str = .null then "dim.fresh" else "dim.replace-name", csLabel {} nm.toStr]
  | .setMultiscale _ _ => ["ms"]
  | .copy d c =>
    let dst := s.obj d
    let src := s.obj c
    ["copy", csLabel dst.uri src.uri, csLabel dst.mdata src.mdata, csLabel dst.akey src.akey, csLabel dst.skey src.skey,
     if dst.dimsData ≠ none then "cp.dst-had-dims" else "cp.dst-no-dims",
     if src.dimsData ≠ none then "cp.src-has-dims" else "cp.src-no-dims"] ++
    (match src.dimsData with
     | none => []
     | some id => if (s.h.dimsOf id).any (fun dm => dm.name.str ≠ .null) then ["cp.named-dims"] else ["cp.unnamed-dims"])
  | .destroy o =>
    let ob := s.obj o
    ["destroy", if ob.dimsData ≠ none then "ds.dims" else "ds.nodims",
     if ob.holdsNothing then "ds.nothing-held" else "ds.held",
     if ob.uri.isRef ∨ ob.mdata.isRef ∨ ob.akey.isRef ∨ ob.skey.isRef then "ds.ref-kept" else "ds.noref"]
  | .ref _ _ _ => ["ref"]
  | .dimsInit o n => [if n = 0 then "dinit.zero" else if (s.obj o).dimsData ≠ none then "dinit.already" else "dinit.ok"]
  | .dimsDestroy o => [if (s.obj o).dimsData ≠ none then "ddestroy.ok" else "ddestroy.none"]

def liveCount (h : Heap) : Nat := ((List.range h.next).filter h.live).length

def npool : Nat := 3

partial def loop (inp out : IO.FS.Stream) (s : State) : IO Unit := do
  let line ← inp.getLine
  if line.isEmpty then return ()
  let toks := (line.trimAscii.toString.splitOn " ").filter (· ≠ "")
  match toks with
  | [] => loop inp out s
  | ["new"] => out.putStrLn s!"new sizeof_dim={sizeofStorageDimension}"; loop inp out (State.init npool)
  | ["end"] =>
    let s' := destroyAll s
    out.putStrLn s!"end live={liveCount s'.h} | ev={eventsSince s.h s'.h}"
    loop inp out s'
  | _ =>
    match parseOp toks with
    | none => out.putStrLn "bad-op"; loop inp out s
    | some op =>
      if !(op.wf s) then out.putStrLn "illformed ~illformed"; loop inp out s else
      let (s', rc) := step s op
      let objs := " | ".intercalate (s'.objs.map (showObj s'.h))
      out.putStrLn s!"rc={rc} | {objs} | ev={eventsSince s.h s'.h} ~{"+".intercalate (labels s op)}"
      loop inp out s'

def main : IO Unit := do
  loop (← IO.getStdin) (← IO.getStdout) (State.init npool)
