import AcqVerif.Hal.Model
/-! Line-protocol driver for the HAL model (`acq_hal`).

Input, one HAL call per line: `<call> <arg> <q0> <q1> …` (`arg` = the call's argument class,
0 if it has none; `q…` = the driver's answers during this call).  `new` starts a fresh history.
Output: `<returned status> <reported state> | <driver-visible log of this call>`; log entries are
`open=<status>:<id|->:<init>`, `describe#<id>=<answer>`, `close#<id>=<answer>` and, for vtable calls,
`<fn>#<id>@<state field at the time of the call>=<answer>`.
A trailing ` ~label` names the model branch and is not compared. -/
open AcqVerif.Hal

def parseCall (name : String) (arg : Nat) : Option Call :=
  match name with
  | "copen" => some .camOpen
  | "cset" => some (.camSet (arg != 0))
  | "cget" => some (.camGet (arg != 0))
  | "cmeta" => some (.camGetMeta (arg != 0))
  | "cshape" => some (.camGetShape (arg != 0))
  | "cstart" => some .camStart
  | "cstop" => some .camStop
  | "ctrig" => some .camTrigger
  | "cframe" => some .camGetFrame
  | "cclose" => some .camClose
  | "svalidate" => some .stoValidate
  | "sopen" => some .stoOpen
  | "sset" => some (.stoSet (arg != 0))
  | "sget" => some .stoGet
  | "smeta" => some .stoGetMeta
  | "sstart" => some .stoStart
  | "sstop" => some .stoStop
  | "sappend" => some (.stoAppend arg)
  | "sreserve" => some .stoReserve
  | "sclose" => some .stoClose
  | _ => none

def fnName : Fn → String
  | .set => "set" | .get => "get" | .getMeta => "get_meta" | .getShape => "get_shape"
  | .start => "start" | .stop => "stop" | .trigger => "trigger" | .getFrame => "get_frame"
  | .append => "append" | .reserve => "reserve" | .destroy => "destroy"

def stOf (a : Auto) (id : Nat) : String :=
  match findLive a.live id with
  | some x => toString x.st
  | none => "dead"

/-- render the driver-visible part of an event list, running the protocol automaton alongside -/
def render (a : Option Auto) (acc : List String) : List Ev → Option Auto × List String
  | [] => (a, acc.reverse)
  | e :: t =>
    let a0 := a.getD {}
    let s : Option String :=
      match e with
      | .drvOpen st none => some s!"open={st}:-:0"
      | .drvOpen st (some (id, _, i)) => some s!"open={st}:{id}:{i}"
      | .drvDescribe id r => some s!"describe#{id}={r}"
      | .drvClose id r => some s!"close#{id}={r}"
      | .call id f r => some s!"{fnName f}#{id}@{stOf a0 id}={r}"
      | _ => none
    let a' := a.bind fun a => autoStep a e
    render a' (match s with | some s => s :: acc | none => acc) t

partial def loop (h : IO.FS.Stream) (out : IO.FS.Stream) (s : HalState) (a : Option Auto) : IO Unit := do
  let line ← h.getLine
  if line.isEmpty then return ()
  let toks := (line.trimAscii.toString.splitOn " ").filter (· ≠ "")
  match toks with
  | [] => loop h out s a
  | ["new"] => out.putStrLn "new"; loop h out {} (some {})
  | name :: rest =>
    let nums := rest.map fun t => t.toNat?.getD 0
    match parseCall name (nums.headD 0) with
    | none => out.putStrLn "bad-op"; loop h out s a
    | some c =>
      if !c.wf s then out.putStrLn "illformed ~illformed"; loop h out s a else
      let q := nums.tail
      let (s', evs, ret) := step s c q
      let (a', strs) := render a [] evs
      let verdict := if a'.isSome then "" else " REJECTED"
      let hk := match s.dev with | none => "N" | some d => (if d.kind == Kind.camera then "C" else "S")
      let ndrv := strs.length
      out.putStrLn s!"{ret} {reported s'} | {" ".intercalate strs}{verdict} ~{name}{nums.headD 0}.{hk}{reported s}.{ret}.{reported s'}.{ndrv}"
      loop h out s' a'

def main : IO Unit := do
  let out ← IO.getStdout
  loop (← IO.getStdin) out {} (some {})
