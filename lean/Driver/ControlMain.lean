import AcqVerif.Control.Model
/-! Line-protocol driver for the control-plane model M2 (`acq_control`).

Input (one scenario after each `reset`):
  `pool <dev> <0|1> <cam|sto>`        device pools (which stream may be given the device, and its kind)
  `openfail <dev> <n>`                the next n opens of the device fail (as the mock's `openfail`)
  `camstartfail <dev> <n>`            the next n camera starts of the device fail (as the mock's `camstartfail`)
  `configure <c0> <s0> <c1> <s1>`     device numbers, `-` = none (a stream needs both or neither)
  `start <fin>` | `stop` | `abort` | `trigger <0|1>` | `state <fin>` | `shutdown`
      fin = 1: the workers of the running acquisition have all exited by themselves when the call is made
Output, one line per call:
  `<op> -> <ok|err|illformed> valid=<bits> state=<runtime state> | <dev>:<act>#<instance> …`   (driver calls of this API call,
  in program order).  A trailing ` ~label` names the model branch and is not compared. -/
open AcqVerif.Control

structure Drv where
  owner : Dev → Sid := fun _ => .s0
  kind : Dev → Kind := fun _ => .cam
  st : State := init Oracle.none

def Drv.pools (d : Drv) : Pools := ⟨d.owner, d.kind⟩

def actName : Act → String
  | .openFail => "openfail" | .open => "open" | .set => "set" | .start => "start" | .startFail => "startfail"
  | .stop => "stop" | .close => "close"

def rstateName : RState → String
  | .awaiting => "AwaitingConfiguration" | .armed => "Armed" | .running => "Running" | .closed => "Closed"

def resName : Res → String
  | .ok => "ok" | .err => "err" | .illformed => "illformed"

def parseDev (s : String) : Option (Option Dev) :=
  if s == "-" then some none else s.toNat?.map some

def parseSid (s : String) : Option Sid :=
  if s == "0" then some .s0 else if s == "1" then some .s1 else none

def parseOp (toks : List String) : Option Op :=
  match toks with
  | ["configure", c0, s0, c1, s1] =>
    match parseDev c0, parseDev s0, parseDev c1, parseDev s1 with
    | some c0, some s0, some c1, some s1 =>
      let pair := fun (c s : Option Dev) => match c, s with
        | some c, some s => some (some (c, s))
        | none, none => some none
        | _, _ => none
      match pair c0 s0, pair c1 s1 with
      | some a, some b => some (.configure a b)
      | _, _ => none
    | _, _, _, _ => none
  | ["start", f] => some (.start (f == "1"))
  | ["stop"] => some .stop
  | ["abort"] => some .abort
  | ["trigger", i] => (parseSid i).map .trigger
  | ["state", f] => some (.state (f == "1"))
  | ["shutdown"] => some .shutdown
  | _ => none

/-- branch label of one stream's part of `acquire_configure` -/
def cfgLabel (st : State) (i : Sid) : Option (Dev × Dev) → String
  | none => "skip"
  | some (c, s) =>
    let one := fun (k : Kind) (id : Dev) =>
      match st.slot i k with
      | some h => if h.dev = id then "keep" else if (st.orc.openFail id).headD false then "switchfail" else "switch"
      | none => if (st.orc.openFail id).headD false then "openfail" else "open"
    one .cam c ++ "+" ++ one .sto s

def label (st st' : State) (op : Op) (r : Res) : String :=
  if r == .illformed then "illformed" else
  match op with
  | .configure c0 c1 =>
    "cfg:" ++ cfgLabel st .s0 c0 ++ "/" ++ cfgLabel st .s1 c1 ++ (if st'.rstate == .awaiting then ":novalid" else "")
  | .start fin =>
    if (st.valid .s0 || st.valid .s1) = false then "start:novalid"
    else if r == .ok then (if st.rstate == .running then "start:ok-over-finished" else "start:ok")
    else if st'.rstate == .running then "start:refused"
    else if (st'.log.drop st.log.length).any (fun e => e.act == .startFail)
      then "start:err-camstart" ++ (if fin && st.rstate == .running then "-over-finished" else "")
    else "start:err-notarmed"
  | .stop => if st.rstate == .running then "stop:running" else "stop:idle"
  | .abort => if st.rstate == .running then "abort:running" else "abort:idle"
  | .trigger _ => if r == .ok then "trigger:ok" else "trigger:nocam"
  | .state _ =>
    if st.rstate == .running then (if st'.rstate == .running then "state:running" else "state:finished") else "state:" ++ rstateName st.rstate
  | .shutdown =>
    "shutdown:" ++ (if st.rstate == .running then "running" else "idle") ++
      (if (!st.valid .s0 && ((st.slot .s0 .cam).isSome || (st.slot .s0 .sto).isSome)) ||
          (!st.valid .s1 && ((st.slot .s1 .cam).isSome || (st.slot .s1 .sto).isSome)) then "+invalid-stream-holds-devices" else "")

def validBits (st : State) : Nat := (if st.valid .s0 then 1 else 0) + (if st.valid .s1 then 2 else 0)

partial def loop (h out : IO.FS.Stream) (d : Drv) : IO Unit := do
  let line ← h.getLine
  if line.isEmpty then return ()
  let toks := (line.trimAscii.toString.splitOn " ").filter (· ≠ "")
  match toks with
  | [] => loop h out d
  | ["reset"] => loop h out {}
  | ["pool", dev, s, k] =>
    match dev.toNat?, parseSid s with
    | some dv, some i =>
      let kd := if k == "sto" then Kind.sto else Kind.cam
      loop h out { d with owner := upd d.owner dv i, kind := upd d.kind dv kd }
    | _, _ => out.putStrLn "bad-line"; loop h out d
  | ["openfail", dev, n] =>
    match dev.toNat?, n.toNat? with
    | some dv, some n =>
      loop h out { d with st := { d.st with orc := { d.st.orc with openFail := upd d.st.orc.openFail dv (List.replicate n true) } } }
    | _, _ => out.putStrLn "bad-line"; loop h out d
  | ["camstartfail", dev, n] =>
    match dev.toNat?, n.toNat? with
    | some dv, some n =>
      loop h out { d with st := { d.st with orc := { d.st.orc with startFail := upd d.st.orc.startFail dv (List.replicate n true) } } }
    | _, _ => out.putStrLn "bad-line"; loop h out d
  | _ =>
    match parseOp toks with
    | none => out.putStrLn "bad-op"; loop h out d
    | some op =>
      let (st', r) := step d.pools d.st op
      let evs := st'.log.drop d.st.log.length
      let evStr := " ".intercalate (evs.map fun e => s!"{e.dev}:{actName e.act}#{e.inst}")
      out.putStrLn s!"{toks.head!} -> {resName r} valid={validBits st'} state={rstateName st'.rstate} | {evStr} ~{label d.st st' op r}"
      loop h out { d with st := st' }

def main : IO Unit := do
  let h ← IO.getStdin
  let out ← IO.getStdout
  loop h out {}
