import AcqVerif.Simcam.Shape
/-! Line-protocol driver for the simulated-camera shape model (`acq_simcam`, property C17).
One operation per input line, one canonical result line per operation; a trailing
` ~label` names the model branch taken (stripped before comparison).

    variant avx2|plain
    new <kind>
    set <exposure bits> <line interval bits> <readout> <binning> <pixel type> <ox> <oy> <sx> <sy> <24 trigger fields>
    start | stop | obs
    frame <d>            -- get_frame with *nbytes = max(0, bytes_of_image + d)
    bin2 <w> <h>         -- extent of one bin2 pass (tight-buffer validation)
    fill <kind> <type> <w> <h>   -- extent of im_fill_rand / im_fill_pattern on a w×h shape
-/
open AcqVerif.Simcam

def b2n (b : Bool) : Nat := if b then 1 else 0

def showTrig (t : Trigger) : String := s!"{t.enable}:{t.line}:{t.kind}:{t.edge}"

def showProps (p : Props) : String :=
  s!"P[{p.exposure} {p.lineInterval} {p.readout} {p.binning} {p.pixelType} {p.offX} {p.offY} {p.shapeX} {p.shapeY} | " ++
  s!"{showTrig p.inAcqStart} {showTrig p.inFrameStart} {showTrig p.inExposure} " ++
  s!"{showTrig p.outExposure} {showTrig p.outFrameStart} {showTrig p.outTriggerWait}]"

def showShape (s : Shape) : String :=
  s!"[{s.channels} {s.width} {s.height} {s.planes} {s.sChannels} {s.sWidth} {s.sHeight} {s.sPlanes} {s.type}]"

def showMeta (m : Meta) : String :=
  s!"M[{m.binningLow} {m.binningHigh} {m.shapeXLow} {m.shapeXHigh} {m.shapeYLow} {m.shapeYHigh} {m.offXHigh} {m.offYHigh} {m.supportedPixelTypes}]"

def showBuf : Option Nat → String
  | none => "-"
  | some n => toString n

def digest (c : Cam) : String :=
  s!"{showProps (simcamGet c)} S{showShape (simcamGetShape c)} {showMeta (simcamGetMeta c)} " ++
  s!"A[{showBuf c.frameBuf} {showBuf c.renderBuf}] run={b2n c.running}"

def parseInt (s : String) : Option Int := s.toInt?

def mkTrig : List Nat → Option (Trigger × List Nat)
  | e :: l :: k :: ed :: rest => some ({ enable := e, line := l, kind := k, edge := ed }, rest)
  | _ => none

def parseSet (toks : List String) : Option Props := do
  let ns ← toks.mapM (·.toNat?)
  match ns with
  | e :: li :: rd :: b :: pt :: ox :: oy :: sx :: sy :: rest =>
    let (t0, r) ← mkTrig rest
    let (t1, r) ← mkTrig r
    let (t2, r) ← mkTrig r
    let (t3, r) ← mkTrig r
    let (t4, r) ← mkTrig r
    let (t5, r) ← mkTrig r
    if !r.isEmpty then none else
    pure { exposure := e, lineInterval := li, readout := rd, binning := b, pixelType := pt,
           offX := ox, offY := oy, shapeX := sx, shapeY := sy,
           inAcqStart := t0, inFrameStart := t1, inExposure := t2,
           outExposure := t3, outFrameStart := t4, outTriggerWait := t5 }
  | _ => none

def clampLabel (v lo hi : Nat) : String := if v < lo then "lo" else if v > hi then "hi" else "in"

def setLabel (c : Cam) (s : Props) (o : SetOut) : String :=
  let zero := if s.binning = 0 then ".bin0" else ""
  if !o.ok then
    (if popcountU8 o.settings.binning ≠ 1 then "set.badbin" else "set.badtype") ++ zero
  else
    let m := simcamGetMeta o.cam
    let re := if c.frameBuf.isSome then (if o.cam.frameBuf == c.frameBuf then ".resame" else ".resize") else ".first"
    s!"set.ok.b{o.settings.binning}.t{s.pixelType}.x{clampLabel s.shapeX m.shapeXLow m.shapeXHigh}.y{clampLabel s.shapeY m.shapeYLow m.shapeYHigh}" ++
      re ++ (if o.fired then ".fired" else "") ++ zero

def variantName : Variant → String
  | .avx2 => "avx2"
  | .plain => "plain"

def frameLabel (v : Variant) (c : Cam) (acc : List Access) (o : FrameOut) (nbytes : Nat) : String :=
  if !o.ok then (if nbytes < bytesOfImage c.shape then "frame.short" else "frame.notrunning")
  else
    let passes := (acc.filter fun a => match a.who with | .bin2 _ => true | _ => false).length
    let gen := if acc.any (fun a => a.who == .fillRand) then "rand"
               else if acc.any (fun a => a.who == .fillPattern) then "pattern" else "none"
    s!"frame.ok.{variantName v}.k{c.kind}.{gen}.b{c.props.binning}.p{passes}.t{c.shape.type}" ++
      (if nbytes > bytesOfImage c.shape then ".roomy" else ".exact")

partial def loop (h : IO.FS.Stream) (out : IO.FS.Stream) (v : Variant) (c : Cam) : IO Unit := do
  let line ← h.getLine
  if line.isEmpty then return ()
  let toks := (line.trimAscii.toString.splitOn " ").filter (· ≠ "")
  match toks with
  | [] => loop h out v c
  | ["variant", "avx2"] => out.putStrLn "variant avx2"; loop h out .avx2 c
  | ["variant", "plain"] => out.putStrLn "variant plain"; loop h out .plain c
  | ["new", k] =>
    match k.toNat? with
    | none => out.putStrLn "bad-op"; loop h out v c
    | some k => let c' := mk k; out.putStrLn s!"new | {digest c'} ~new.k{k}"; loop h out v c'
  | "set" :: rest =>
    match parseSet rest with
    | none => out.putStrLn "bad-op"; loop h out v c
    | some s =>
      if !(decide ((Op.set s).wf c)) then out.putStrLn s!"illformed | {digest c} ~illformed.set"; loop h out v c else
      let o := simcamSet c s
      out.putStrLn s!"set st={if o.ok then "ok" else "err"} bin={o.settings.binning} | {digest o.cam} ~{setLabel c s o}"
      loop h out v o.cam
  | ["start"] =>
    if !(decide (Op.start.wf c)) then out.putStrLn s!"illformed | {digest c} ~illformed.start"; loop h out v c else
    let c' := simcamStart c
    out.putStrLn s!"start | {digest c'} ~start"; loop h out v c'
  | ["stop"] =>
    let c' := simcamStop c
    out.putStrLn s!"stop | {digest c'} ~{if c.running then "stop.running" else "stop.idle"}"; loop h out v c'
  | ["obs"] => out.putStrLn s!"obs | {digest c} ~obs"; loop h out v c
  | ["frame", d] =>
    match parseInt d with
    | none => out.putStrLn "bad-op"; loop h out v c
    | some d =>
      let nbytes := ((bytesOfImage c.shape : Int) + d).toNat
      let (c1, acc) := streamerIteration v c true
      let o := simcamGetFrame c1 nbytes
      let info := if o.ok then showShape o.info else "-"
      out.putStrLn s!"frame st={if o.ok then "ok" else "err"} n={o.written} info={info} | {digest c1} ~{frameLabel v c acc o nbytes}"
      loop h out v c1
  | ["bin2", w, hh] =>
    match w.toNat?, hh.toNat? with
    | some w, some hh => out.putStrLn s!"bin2 {w} {hh} extent={bin2Extent v w hh} align={bin2Align v}"; loop h out v c
    | _, _ => out.putStrLn "bad-op"; loop h out v c
  | ["fill", k, t, w, hh] =>
    match k.toNat?, t.toNat?, w.toNat?, hh.toNat? with
    | some k, some t, some w, some hh =>
      let s := computeStrides { channels := 1, width := w, height := hh, planes := 1, type := t }
      let (e, a) :=
        if k = K.kindRandom then (imFillRandExtent s, K.sizeofUInt32)
        else if k = K.kindSin then (imFillPatternExtent s, (patternElem t).getD 1)
        else (0, 1)
      out.putStrLn s!"fill {k} {t} {w} {hh} extent={e} align={a}"; loop h out v c
    | _, _, _, _ => out.putStrLn "bad-op"; loop h out v c
  | _ => out.putStrLn "bad-op"; loop h out v c

def main : IO Unit := do
  let out ← IO.getStdout
  loop (← IO.getStdin) out .avx2 (mk K.kindEmpty)
