/-!
# Model of `acquire-video-runtime/src/runtime/channel.c`

A literal transcription of the C: same functions, same branches, same order.
Sizes, offsets and lap counters are unbounded `Nat` (wrap-around of `size_t` is
not modelled).  A C function that mutates through pointers returns the new
records.  `condition_variable_wait` is the explicit outcome `.block`.

No import outside core: this file is linked into the native driver.
-/
namespace AcqVerif.Channel

/-- one entry of `channel.holds` : `(pos[i], cycles[i])` -/
structure Hold where
  pos : Nat
  cyc : Nat
deriving DecidableEq, Repr, Inhabited

/-- `struct channel_reader` -/
structure Rd where
  id : Nat := 0        -- 0 = not registered, else index+1
  pos : Nat := 0
  cyc : Nat := 0
  status : Nat := 0    -- 0 Channel_Ok, 1 Channel_Error, 2 Channel_Expected_Unmapped_Reader
  mapped : Bool := false   -- state == ChannelState_Mapped
deriving DecidableEq, Repr, Inhabited

/-- `struct channel` without lock, condition variable and data pointer -/
structure Chan where
  cap : Nat
  head : Nat := 0
  high : Nat := 0
  cycle : Nat := 0
  mapped : Nat := 0
  accepting : Bool := true
  holds : List Hold := []
deriving Repr

/-- `cursor_cmp(a.cyc,a.pos,b.cyc,b.pos) == 1` -/
def Hold.gt (a b : Hold) : Bool := decide (a.cyc > b.cyc ∨ (a.cyc = b.cyc ∧ a.pos > b.pos))

/-- the loop of `reader_min`, returning the minimal element (first among equals) -/
def minHold : Hold → List Hold → Hold
  | m, [] => m
  | m, h :: t => if m.gt h then minHold h t else minHold m t

/-- `reader_min` on the whole array (callers guarantee at least one reader) -/
def readerMin : List Hold → Hold
  | [] => default
  | h :: t => minHold h t

inductive NW where
  | no
  | at (beg : Nat) (wrap : Bool)
deriving DecidableEq, Repr

/-- `next_write` (only called with at least one reader) -/
def nextWrite (c : Chan) (n : Nat) : NW :=
  if !c.accepting then .no else
    let m := readerMin c.holds
    let tail := m.pos
    if c.head < tail then (if n ≤ tail - c.head then .at c.head false else .no)
    else if tail = c.head ∧ c.cycle = m.cyc + 1 then .no
    else if n ≤ c.cap - c.head then .at c.head false
    else if n ≤ tail then .at 0 false
    else if tail = c.head then (if n < c.cap then .at 0 true else .no)
    else .no

inductive WMap where
  | null                       -- returns 0, state unchanged
  | block                      -- would wait on the condition variable
  | ok (beg : Nat) (c : Chan)
deriving Repr

/-- `channel_write_map` -/
def writeMap (c : Chan) (n : Nat) : WMap :=
  if n ≥ c.cap then .null else
  if c.holds.isEmpty then
    if c.head + n ≥ c.cap then
      .ok 0 { c with high := c.head, cycle := c.cycle + 1, head := 0, mapped := n }
    else .ok c.head { c with mapped := c.head + n }
  else
    if !c.accepting then .null else
    match nextWrite c n with
    | .no => .block
    | .at beg wrap =>
      let c1 := if beg ≠ c.head then { c with high := c.head, head := beg, cycle := c.cycle + 1 } else c
      let c2 := if wrap then { c1 with holds := c1.holds.map (fun _ => ⟨0, c1.cycle⟩) } else c1
      .ok beg { c2 with mapped := beg + n }

/-- `channel_write_unmap` -/
def writeUnmap (c : Chan) : Chan := if c.accepting then { c with head := c.mapped } else c
/-- `channel_abort_write` -/
def abortWrite (c : Chan) : Chan := if c.accepting then { c with mapped := c.head } else c
/-- `channel_accept_writes` -/
def acceptWrites (c : Chan) (b : Bool) : Chan := { c with accepting := b }

/-- `reader_initialize` -/
def readerInit (c : Chan) (r : Rd) : Chan × Rd :=
  if r.id > 0 then (c, r) else
  ({ c with holds := c.holds ++ [⟨0, c.cycle⟩] }, { r with id := c.holds.length + 1 })

structure Slice where
  beg : Nat      -- offset from `data`; 0 when the region is empty and `out` was cleared
  len : Nat
deriving Repr, DecidableEq

def setHold (c : Chan) (i : Nat) (h : Hold) : Chan := { c with holds := c.holds.set i h }

/-- body of `channel_read_map` after `reader_initialize`, for the reader whose hold `h` is at index `i` -/
def readMapCore (c : Chan) (r : Rd) (i : Nat) (h : Hold) : Chan × Rd × Slice :=
  if r.mapped then
    (setHold c i ⟨c.head, c.cycle⟩, { r with status := 2 }, ⟨0, 0⟩)
  else if h.pos = c.head ∧ h.cyc = c.cycle then (c, r, ⟨h.pos, 0⟩)
  else if h.pos < c.head then
    if h.cyc ≠ c.cycle then (setHold c i ⟨c.head, c.cycle⟩, { r with status := 1 }, ⟨0, 0⟩)
    else (c, { r with pos := c.head, cyc := c.cycle, mapped := true }, ⟨h.pos, c.head - h.pos⟩)
  else
    if c.cycle ≠ h.cyc + 1 then (setHold c i ⟨c.head, c.cycle⟩, { r with status := 1 }, ⟨0, 0⟩)
    else
      let nbytes := c.high - h.pos
      if nbytes = 0 then
        -- nothing left in the old lap: move to the start of the writer's lap …
        let c' := setHold c i ⟨0, c.cycle⟩
        -- … and hand out what is committed there
        if c.head = 0 then (c', { r with pos := 0, cyc := h.cyc + 1 }, ⟨0, 0⟩)
        else (c', { r with pos := c.head, cyc := c.cycle, mapped := true }, ⟨0, c.head⟩)
      else (c, { r with pos := 0, cyc := h.cyc + 1, mapped := true }, ⟨h.pos, nbytes⟩)

def readMapAt (c : Chan) (r : Rd) (i : Nat) : Chan × Rd × Slice :=
  readMapCore c r i (c.holds.getD i default)

/-- `channel_read_map` -/
def readMap (c0 : Chan) (r0 : Rd) : Chan × Rd × Slice :=
  let (c, r) := readerInit c0 r0
  readMapAt c r (r.id - 1)

/-- `get_available_byte_count` -/
def availBytes (r : Rd) (h : Hold) (high : Nat) : Nat :=
  if r.pos = h.pos ∧ r.cyc = h.cyc then 0
  else if r.pos = 0 then high - h.pos
  else r.pos - h.pos

/-- where `channel_read_unmap` moves the hold `h` of a mapped reader that consumed `k` bytes -/
def unmapHold (c : Chan) (r : Rd) (h : Hold) (k : Nat) : Hold :=
  let length := availBytes r h c.high
  let k := min length k
  let h1 : Hold := if k ≥ length then ⟨r.pos, r.cyc⟩ else ⟨h.pos + k, h.cyc⟩
  if c.head < h1.pos ∧ h1.pos = c.high then ⟨0, h1.cyc + 1⟩ else h1

/-- `channel_read_unmap` -/
def readUnmap (c : Chan) (r : Rd) (k : Nat) : Chan × Rd :=
  if !r.mapped then (c, r) else
  let i := r.id - 1
  (setHold c i (unmapHold c r (c.holds.getD i default) k), { r with mapped := false })

end AcqVerif.Channel
