import AcqVerif.Props.C01
import AcqVerif.Props.C02
/-!
# What a user of the channel may rely on, one lemma per operation

For a channel state reached by a well-formed history (`Reachable`), each lemma says what the operation does to the
quantities a pipeline stage reasons with: the committed byte count `total`, the readers' stream positions `idx`,
whether a write is pending (`pending`, `wlen`), and the extent `regionLen` of every reader's mapped region.
These are the facts the runtime model (M1) uses about `channel.c`; they are consequences of C01/C02.
-/
namespace AcqVerif.Channel
open AcqVerif AcqVerif.C02

variable {cap : Nat} {s : Sys} {g : Ghost}

/-- `∃ cap g, Reachable cap s g`: the state comes from a well-formed history of some channel -/
def Ok (s : Sys) : Prop := ∃ cap g, Reachable cap s g

theorem Ok.step (h : Ok s) (op : Op) (hwf : op.wf s = true) : Ok (step s op).1 := by
  obtain ⟨cap, g, hr⟩ := h
  exact ⟨cap, _, hr.step op hwf⟩

/-- an operation that refers to a reader handle that does not exist changes nothing -/
theorem step_runmap_bad (s : Sys) (i k : Nat) (h : s.rds.length ≤ i) : (step s (.runmap i k)).1 = s := by
  simp [step, List.getElem?_eq_none h]

theorem regionLen_unmapped (s : Sys) (i : Nat) (h : (nth s.rds i).mapped = false) : regionLen s i = 0 := by
  unfold regionLen; simp [h]

/-! ## the writer -/

/-- `channel_write_map(n)` that did not hand out a region leaves the channel as it was -/
theorem wmap_not_ok (s : Sys) (n : Nat) (h : ∀ b, (step s (.wmap n)).2 ≠ .wok b) : (step s (.wmap n)).1 = s := by
  simp only [step] at h ⊢
  split <;> simp_all

/-- `channel_write_map(n)` that hands out a region: a write of `n` bytes is pending; nothing a reader sees changes -/
theorem wmap_ok (hr : Reachable cap s g) (n b : Nat) (hwf : (Op.wmap n).wf s = true) (h : (step s (.wmap n)).2 = .wok b) :
    (step s (.wmap n)).1.pending = true ∧ (step s (.wmap n)).1.wlen = n ∧ (step s (.wmap n)).1.total = s.total ∧
    (step s (.wmap n)).1.idx = s.idx ∧ (step s (.wmap n)).1.rds = s.rds ∧
    ∀ i, i < s.rds.length → (nth s.rds i).mapped = true → regionLen (step s (.wmap n)).1 i = regionLen s i := by
  have hfr := fun i hi hm => (mapped_reader_frame hr (.wmap n) hwf i hi hm (by intro k; simp)).2.2.1
  simp only [step] at h hfr ⊢
  split at h <;> simp_all

/-- `channel_write_unmap`: the pending `wlen` bytes join the committed stream if the channel accepts writes -/
theorem wcommit_spec (hr : Reachable cap s g) (hp : s.pending = true) :
    (step s .wcommit).1.pending = false ∧
    (step s .wcommit).1.total = s.total + (if s.c.accepting then s.wlen else 0) ∧
    (step s .wcommit).1.idx = s.idx ∧ (step s .wcommit).1.rds = s.rds ∧
    ∀ i, i < s.rds.length → (nth s.rds i).mapped = true → regionLen (step s .wcommit).1 i = regionLen s i := by
  have hfr := fun i hi hm => (mapped_reader_frame hr .wcommit rfl i hi hm (by intro k; simp)).2.2.1
  have hpend := hr.inv.pend hp
  simp only [step] at hfr ⊢
  split
  · rename_i ha
    simp only [ha, ite_true] at hfr ⊢
    refine ⟨(by first | rfl | trivial), ?_, (by first | rfl | trivial), (by first | rfl | trivial), fun i hi hm => by simpa [ha] using hfr i hi hm⟩
    omega
  · rename_i ha
    simp only [ha] at hfr ⊢
    refine ⟨(by first | rfl | trivial), by simp, (by first | rfl | trivial), (by first | rfl | trivial), fun i hi hm => by simpa [ha] using hfr i hi hm⟩

theorem wabort_spec (hr : Reachable cap s g) (hwf : Op.wabort.wf s = true) :
    (step s .wabort).1.pending = false ∧ (step s .wabort).1.total = s.total ∧
    (step s .wabort).1.idx = s.idx ∧ (step s .wabort).1.rds = s.rds ∧
    ∀ i, i < s.rds.length → (nth s.rds i).mapped = true → regionLen (step s .wabort).1 i = regionLen s i := by
  have hfr := fun i hi hm => (mapped_reader_frame hr .wabort hwf i hi hm (by intro k; simp)).2.2.1
  exact ⟨rfl, rfl, rfl, rfl, hfr⟩

theorem accept_spec (s : Sys) (b : Bool) :
    (step s (.accept b)).1.pending = s.pending ∧ (step s (.accept b)).1.wlen = s.wlen ∧ (step s (.accept b)).1.total = s.total ∧
    (step s (.accept b)).1.idx = s.idx ∧ (step s (.accept b)).1.rds = s.rds ∧
    (∀ i, regionLen (step s (.accept b)).1 i = regionLen s i) ∧ (step s (.accept b)).1.c.accepting = b :=
  ⟨rfl, rfl, rfl, rfl, rfl, fun _ => rfl, rfl⟩

/-! ## a reader -/

/-- `channel_read_map` by reader `i` (registered, not mapped): the region is the reader's next `len` committed bytes -/
theorem rmap_spec (hr : Reachable cap s g) (i : Nat) (hwf : (Op.rmap i).wf s = true) :
    ∃ beg len, (step s (.rmap i)).2 = .slice beg len 0 ∧
      (len = 0 → nth s.idx i = s.total) ∧ nth s.idx i + len ≤ s.total ∧
      (step s (.rmap i)).1.idx = s.idx ∧ (step s (.rmap i)).1.total = s.total ∧
      (step s (.rmap i)).1.pending = s.pending ∧ (step s (.rmap i)).1.wlen = s.wlen ∧
      (step s (.rmap i)).1.rds.length = s.rds.length ∧
      (nth (step s (.rmap i)).1.rds i).mapped = decide (0 < len) ∧
      regionLen (step s (.rmap i)).1 i = len ∧
      (∀ j, j ≠ i → nth (step s (.rmap i)).1.rds j = nth s.rds j) ∧
      (∀ j, j ≠ i → j < s.rds.length → (nth s.rds j).mapped = true → regionLen (step s (.rmap i)).1 j = regionLen s j) ∧
      (step s (.rmap i)).1.c.accepting = s.c.accepting := by
  have h := hr.inv
  obtain ⟨hi, hget, hun⟩ := rmap_wf h hwf
  obtain ⟨_, h0, hpos, hst⟩ := h.read_map_at i hi hun
  have hfr := fun j (hne : j ≠ i) hj hm => (mapped_reader_frame hr (.rmap i) hwf j hj hm (by intro k; simp)).2.2.1
  have hlt : i < s.rds.length := by rw [h.l_rds]; exact hi
  have hfields := readMapCore_fields s.c (nth s.rds i) i (nth s.c.holds i)
  have heqc : readMapAt s.c (nth s.rds i) i = readMapCore s.c (nth s.rds i) i (nth s.c.holds i) := rfl
  simp only [step, hget] at hfr ⊢
  rw [readMap_registered _ _ i (h.rd i hi).1.id] at hfr ⊢
  refine ⟨(readMapAt s.c (nth s.rds i) i).2.2.beg, (readMapAt s.c (nth s.rds i) i).2.2.len, ?_, ?_, ?_, (by first | rfl | trivial), (by first | rfl | trivial), (by first | rfl | trivial), (by first | rfl | trivial), ?_, ?_, ?_, ?_, ?_, ?_⟩
  · rw [hst]
  · intro hl; exact (h0 hl).1
  · by_cases hl : (readMapAt s.c (nth s.rds i) i).2.2.len = 0
    · rw [hl, (h0 hl).1]; omega
    · exact (hpos (by omega)).2.2.2.1
  · simp
  · rw [nth_set_eq _ _ _ hlt]
    by_cases hl : (readMapAt s.c (nth s.rds i) i).2.2.len = 0
    · rw [(h0 hl).2, hl]; simp
    · rw [(hpos (by omega)).1]; simp; omega
  · unfold regionLen
    rw [nth_set_eq _ _ _ hlt]
    by_cases hl : (readMapAt s.c (nth s.rds i) i).2.2.len = 0
    · rw [(h0 hl).2, hl]; simp
    · obtain ⟨hm, _, hlen, _, _⟩ := hpos (by omega)
      rw [hm]; simp only [ite_true]
      have hhigh : (readMapAt s.c (nth s.rds i) i).1.high = s.c.high := by rw [heqc]; exact hfields.1
      rw [hhigh, ← hlen]
  · intro j hne; rw [nth_set_ne _ _ _ _ (Ne.symm hne)]
  · intro j hne hj hm; exact hfr j hne hj hm
  · rw [heqc]; exact hfields.2.2.2.2.2

/-- `channel_read_unmap(reader i, k)`: the reader advances by `min (its region) k` bytes and is unmapped -/
theorem runmap_spec (hr : Reachable cap s g) (i k : Nat) (hi : i < s.rds.length) :
    nth (step s (.runmap i k)).1.idx i = nth s.idx i + min (regionLen s i) k ∧
    (∀ j, j ≠ i → nth (step s (.runmap i k)).1.idx j = nth s.idx j) ∧
    (step s (.runmap i k)).1.total = s.total ∧ (step s (.runmap i k)).1.pending = s.pending ∧
    (step s (.runmap i k)).1.wlen = s.wlen ∧
    (step s (.runmap i k)).1.rds.length = s.rds.length ∧
    (nth (step s (.runmap i k)).1.rds i).mapped = false ∧
    (∀ j, j ≠ i → nth (step s (.runmap i k)).1.rds j = nth s.rds j) ∧
    (∀ j, j ≠ i → j < s.rds.length → (nth s.rds j).mapped = true → regionLen (step s (.runmap i k)).1 j = regionLen s j) ∧
    (step s (.runmap i k)).1.c.accepting = s.c.accepting := by
  have h := hr.inv
  have hwf : (Op.runmap i k).wf s = true := by simp [Op.wf, hi]
  have hfr := fun j (hne : j ≠ i) hj hm => (mapped_reader_frame hr (.runmap i k) hwf j hj hm (by intro k' hk; cases hk; exact hne rfl)).2.2.1
  have hget : s.rds[i]? = some (nth s.rds i) := getElem?_eq_some_nth _ _ hi
  have hix : i < s.idx.length := by rw [h.l_idx, ← h.l_rds]; exact hi
  have g1 : ∀ (l : List Nat) (i : Nat), l.getD i 0 = nth l i := fun _ _ => rfl
  have g2 : ∀ (l : List Hold) (i : Nat), l.getD i default = nth l i := fun _ _ => rfl
  simp only [step, hget, g1, g2] at hfr ⊢
  refine ⟨?_, ?_, (by first | rfl | trivial), (by first | rfl | trivial), (by first | rfl | trivial), by simp, ?_, ?_, fun j hne hj hm => hfr j hne hj hm, ?_⟩
  · rw [nth_set_eq _ _ _ hix]; unfold regionLen; rfl
  · intro j hne; rw [nth_set_ne _ _ _ _ (Ne.symm hne)]
  · rw [nth_set_eq _ _ _ hi]
    unfold readUnmap; split <;> simp_all
  · intro j hne; rw [nth_set_ne _ _ _ _ (Ne.symm hne)]
  · unfold readUnmap; split <;> simp [setHold]

/-- a new reader registering (`channel_read_map` with a zero-initialised handle) leaves the others alone -/
theorem join_others (hr : Reachable cap s g) (hwf : Op.join.wf s = true) :
    (step s .join).1.total = s.total ∧ (step s .join).1.pending = s.pending ∧ (step s .join).1.wlen = s.wlen ∧
    (step s .join).1.rds.length = s.rds.length + 1 ∧
    (∀ j, j < s.rds.length → nth (step s .join).1.rds j = nth s.rds j ∧ nth (step s .join).1.idx j = nth s.idx j) ∧
    (∀ j, j < s.rds.length → (nth s.rds j).mapped = true → regionLen (step s .join).1 j = regionLen s j) := by
  have h := hr.inv
  have hfr := fun j hj hm => (mapped_reader_frame hr .join hwf j hj hm (by intro k; simp)).2.2.1
  refine ⟨rfl, rfl, rfl, ?_, ?_, hfr⟩
  · simp [step]
  · intro j hj
    have hj' : j < s.idx.length := by rw [h.l_idx, ← h.l_rds]; exact hj
    simp only [step]
    exact ⟨nth_append_lt _ _ _ hj, nth_append_lt _ _ _ hj'⟩

end AcqVerif.Channel
