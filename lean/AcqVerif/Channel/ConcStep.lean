import AcqVerif.Channel.ConcInv
/-! # Every scheduler step preserves the concurrent invariant -/
namespace AcqVerif.Channel
open AcqVerif

theorem CInv.init {cap : Nat} (s : Sys) (g : Ghost) (progs : List (List Op)) (h : Reachable cap s g)
    (single : singleWriter (CState.init s progs).threads) : CInv cap (CState.init s progs) := by
  have hpc : ∀ t, t < (CState.init s progs).threads.length → (nth (CState.init s progs).threads t).pc = .start := by
    intro t ht
    simp only [CState.init, List.length_map] at ht ⊢
    rw [nth_map _ _ _ ht]
  refine ⟨⟨g, h⟩, single, ?_, ?_, ?_, ?_⟩
  · intro t e; cases e
  · intro t ht e; rw [hpc t ht] at e; cases e
  · intro t ht e; rw [hpc t ht] at e; cases e
  · intro t ht e; rw [hpc t ht] at e; cases e

/-- the thread looked up by `cstep` -/
theorem cstep_thread {cs : CState} {t : Nat} {cs' : CState} (e : cstep cs t = some cs') :
    t < cs.threads.length ∧ cs.threads[t]? = some (nth cs.threads t) := by
  unfold cstep at e
  cases ht : cs.threads[t]? with
  | none => rw [ht] at e; cases e
  | some th =>
    have hlt : t < cs.threads.length := by
      rcases Nat.lt_or_ge t cs.threads.length with hl | hl
      · exact hl
      · rw [List.getElem?_eq_none hl] at ht; cases ht
    exact ⟨hlt, by rw [← ht]; exact getElem?_eq_some_nth _ _ hlt⟩

/-- `step` reports `wblock` exactly when `channel_write_map` would wait, and then changes nothing -/
theorem step_wmap_block (s : Sys) (m : Nat) :
    ((step s (.wmap m)).2 = .wblock ↔ writeMap s.c m = .block) ∧
    ((step s (.wmap m)).2 = .wblock → (step s (.wmap m)).1 = s) := by
  simp only [step]
  cases hw : writeMap s.c m <;> simp

/-- if no lock is held, no thread is at the entry of `condition_variable_wait` -/
theorem CInv.no_wait_entry {cap : Nat} {cs : CState} (h : CInv cap cs) (hl : cs.lock = none) :
    ∀ x, x < cs.threads.length → (nth cs.threads x).pc ≠ .waitEntry := by
  intro x hx e
  have := h.lock2 x hx e
  rw [hl] at this; cases this

/-- the three outcomes of running a call's body under the lock -/
theorem runBody_cases (cs : CState) (t : Nat) (op : Op) (rest : List Op) :
    (∃ m, op = .wmap m ∧ writeMap cs.sys.c m = .block ∧
      runBody cs t op rest = { cs with lock := some t, threads := cs.threads.set t { pc := .waitEntry, prog := op :: rest } }) ∨
    ((∀ m, op = .wmap m → writeMap cs.sys.c m ≠ .block) ∧ notifies cs.sys op = true ∧
      runBody cs t op rest = { sys := (step cs.sys op).1, lock := none,
                               threads := cs.threads.set t { pc := .notify, prog := op :: rest } }) ∨
    ((∀ m, op = .wmap m → writeMap cs.sys.c m ≠ .block) ∧ notifies cs.sys op = false ∧
      runBody cs t op rest = { sys := (step cs.sys op).1, lock := none,
                               threads := cs.threads.set t (settle (step cs.sys op).1 rest) }) := by
  have key : ∀ (o : Out), (∀ m, op = .wmap m → o ≠ .wblock) →
      (match op, o with
        | .wmap _, .wblock => ({ cs with lock := some t, threads := cs.threads.set t { pc := .waitEntry, prog := op :: rest } } : CState)
        | _, _ => if notifies cs.sys op then
              { sys := (step cs.sys op).1, lock := none, threads := cs.threads.set t { pc := .notify, prog := op :: rest } }
            else { sys := (step cs.sys op).1, lock := none, threads := cs.threads.set t (settle (step cs.sys op).1 rest) }) =
      (if notifies cs.sys op then
          ({ sys := (step cs.sys op).1, lock := none, threads := cs.threads.set t { pc := .notify, prog := op :: rest } } : CState)
        else { sys := (step cs.sys op).1, lock := none, threads := cs.threads.set t (settle (step cs.sys op).1 rest) }) := by
    intro o ho
    split
    · exact absurd rfl (ho _ rfl)
    · rfl
  by_cases hb : ∃ m, op = .wmap m ∧ writeMap cs.sys.c m = .block
  · left
    obtain ⟨m, e1, e2⟩ := hb
    refine ⟨m, e1, e2, ?_⟩
    subst e1
    have := ((step_wmap_block cs.sys m).1).2 e2
    unfold runBody
    simp only
    rw [this]
  · have hnb : ∀ m, op = .wmap m → writeMap cs.sys.c m ≠ .block := fun m e1 e2 => hb ⟨m, e1, e2⟩
    have hnb' : ∀ m, op = .wmap m → (step cs.sys op).2 ≠ .wblock := by
      intro m e1 e2; subst e1; exact hnb m rfl (((step_wmap_block cs.sys m).1).1 e2)
    have hr : runBody cs t op rest = _ := key (step cs.sys op).2 hnb'
    by_cases hn : notifies cs.sys op = true
    · right; left; refine ⟨hnb, hn, ?_⟩
      rw [show runBody cs t op rest = _ from hr, if_pos hn]
    · right; right
      have hn' : notifies cs.sys op = false := by simpa using hn
      refine ⟨hnb, hn', ?_⟩
      rw [show runBody cs t op rest = _ from hr, if_neg hn]

theorem CInv.to_wait_entry {cap : Nat} {cs : CState} (h : CInv cap cs) (hl : cs.lock = none) (t : Nat)
    (ht : t < cs.threads.length) (hpc : (nth cs.threads t).pc = .lockReq ∨ (nth cs.threads t).pc = .woken)
    (m : Nat) (rest : List Op) (hprog : (nth cs.threads t).prog = .wmap m :: rest)
    (hb : writeMap cs.sys.c m = .block) :
    CInv cap { cs with lock := some t, threads := cs.threads.set t { pc := .waitEntry, prog := .wmap m :: rest } } := by
  have hnw := h.no_wait_entry hl
  refine ⟨h.sysok, singleWriter_set _ _ _ ht h.single (by intro e; rw [hprog]; exact e), ?_, ?_, ?_, ?_⟩
  · intro x e
    simp only [Option.some.injEq] at e; subst e
    simp only [List.length_set]
    exact ⟨ht, by rw [nth_set_eq _ _ _ ht]⟩
  · intro x hx e
    simp only [List.length_set] at hx
    simp only at e ⊢
    by_cases ex : t = x
    · rw [ex]
    · rw [nth_set_ne _ _ _ _ ex] at e; exact absurd e (hnw x hx)
  · intro x hx e m' rest' hp
    simp only [List.length_set] at hx
    simp only at e hp ⊢
    by_cases ex : t = x
    · subst ex; rw [nth_set_eq _ _ _ ht] at hp; simp only [List.cons.injEq, Op.wmap.injEq] at hp
      rw [← hp.1]; exact hb
    · rw [nth_set_ne _ _ _ _ ex] at e; exact absurd e (hnw x hx)
  · intro x hx e m' rest' hp
    simp only [List.length_set] at hx
    simp only at e hp ⊢
    by_cases ex : t = x
    · subst ex; rw [nth_set_eq _ _ _ ht] at e; cases e
    · rw [nth_set_ne _ _ _ _ ex] at e hp
      rcases h.w2 x hx e m' rest' hp with hb' | ⟨u, hu, hun⟩
      · left; exact hb'
      · right
        have eu : t ≠ u := by intro e'; subst e'; rcases hpc with e' | e' <;> rw [e'] at hun <;> cases hun
        exact ⟨u, by simp only [List.length_set]; exact hu, by rw [nth_set_ne _ _ _ _ eu]; exact hun⟩

/-- the body of a call ran to its end: the channel state moved to `s'`, the lock is free again, and thread
`t` is at its `notify_all` or past the call -/
theorem CInv.body_done {cap : Nat} {cs : CState} (h : CInv cap cs) (hl : cs.lock = none) (t : Nat)
    (ht : t < cs.threads.length) (hpc : (nth cs.threads t).pc = .lockReq ∨ (nth cs.threads t).pc = .woken)
    (op : Op) (rest : List Op) (hprog : (nth cs.threads t).prog = op :: rest) (hwf : op.wf cs.sys = true)
    (th' : Thread) (hsub : hasWriterOp th'.prog = true → hasWriterOp (op :: rest) = true)
    (hnew : th'.pc = .notify ∨ ((th'.pc = .lockReq ∨ th'.pc = .done) ∧
      ∀ x m rest', x ≠ t → x < cs.threads.length → (nth cs.threads x).pc = .asleep →
        (nth cs.threads x).prog = .wmap m :: rest' → writeMap cs.sys.c m = .block →
        writeMap (step cs.sys op).1.c m = .block)) :
    CInv cap { sys := (step cs.sys op).1, lock := none, threads := cs.threads.set t th' } := by
  have hnw := h.no_wait_entry hl
  have hne_w : th'.pc ≠ .waitEntry := by rcases hnew with e | ⟨e | e, _⟩ <;> rw [e] <;> decide
  have hne_a : th'.pc ≠ .asleep := by rcases hnew with e | ⟨e | e, _⟩ <;> rw [e] <;> decide
  obtain ⟨g, hr⟩ := h.sysok
  refine ⟨⟨_, hr.step op hwf⟩, singleWriter_set _ _ _ ht h.single (by intro e; rw [hprog]; exact hsub e), ?_, ?_, ?_, ?_⟩
  · intro x e; cases e
  · intro x hx e
    simp only [List.length_set] at hx
    simp only at e ⊢
    by_cases ex : t = x
    · subst ex; rw [nth_set_eq _ _ _ ht] at e; exact absurd e hne_w
    · rw [nth_set_ne _ _ _ _ ex] at e; exact absurd e (hnw x hx)
  · intro x hx e
    simp only [List.length_set] at hx
    simp only at e ⊢
    by_cases ex : t = x
    · subst ex; rw [nth_set_eq _ _ _ ht] at e; exact absurd e hne_w
    · rw [nth_set_ne _ _ _ _ ex] at e; exact absurd e (hnw x hx)
  · intro x hx e m rest' hp
    simp only [List.length_set] at hx
    simp only at e hp ⊢
    by_cases ex : t = x
    · subst ex; rw [nth_set_eq _ _ _ ht] at e; exact absurd e hne_a
    · rw [nth_set_ne _ _ _ _ ex] at e hp
      rcases hnew with en | ⟨_, keep⟩
      · right; exact ⟨t, by simp only [List.length_set]; exact ht, by rw [nth_set_eq _ _ _ ht]; exact en⟩
      · rcases h.w2 x hx e m rest' hp with hb' | ⟨u, hu, hun⟩
        · left; exact keep x m rest' (fun e' => ex e'.symm) hx e hp hb'
        · right
          have eu : t ≠ u := by intro e'; subst e'; rcases hpc with e' | e' <;> rw [e'] at hun <;> cases hun
          exact ⟨u, by simp only [List.length_set]; exact hu, by rw [nth_set_ne _ _ _ _ eu]; exact hun⟩

/-- the step from the entry of `condition_variable_wait`: release the lock and sleep -/
theorem CInv.to_sleep {cap : Nat} {cs : CState} (h : CInv cap cs) (t : Nat) (ht : t < cs.threads.length)
    (hpc : (nth cs.threads t).pc = .waitEntry) :
    CInv cap { cs with lock := none, threads := cs.threads.set t { pc := .asleep, prog := (nth cs.threads t).prog } } := by
  have hlock := h.lock2 t ht hpc
  have honly : ∀ x, x < cs.threads.length → (nth cs.threads x).pc = .waitEntry → x = t := by
    intro x hx e
    have := h.lock2 x hx e
    rw [hlock] at this; simp only [Option.some.injEq] at this; exact this.symm
  refine ⟨h.sysok, singleWriter_set _ _ _ ht h.single (fun e => e), ?_, ?_, ?_, ?_⟩
  · intro x e; cases e
  · intro x hx e
    simp only [List.length_set] at hx
    simp only at e ⊢
    by_cases ex : t = x
    · subst ex; rw [nth_set_eq _ _ _ ht] at e; cases e
    · rw [nth_set_ne _ _ _ _ ex] at e; exact absurd (honly x hx e) (fun e' => ex e'.symm)
  · intro x hx e
    simp only [List.length_set] at hx
    simp only at e ⊢
    by_cases ex : t = x
    · subst ex; rw [nth_set_eq _ _ _ ht] at e; cases e
    · rw [nth_set_ne _ _ _ _ ex] at e; exact absurd (honly x hx e) (fun e' => ex e'.symm)
  · intro x hx e m rest' hp
    simp only [List.length_set] at hx
    simp only at e hp ⊢
    by_cases ex : t = x
    · subst ex; rw [nth_set_eq _ _ _ ht] at hp
      left; exact h.w1 t ht hpc m rest' hp
    · rw [nth_set_ne _ _ _ _ ex] at e hp
      rcases h.w2 x hx e m rest' hp with hb' | ⟨u, hu, hun⟩
      · left; exact hb'
      · right
        have eu : t ≠ u := by intro e'; subst e'; rw [hpc] at hun; cases hun
        exact ⟨u, by simp only [List.length_set]; exact hu, by rw [nth_set_ne _ _ _ _ eu]; exact hun⟩

def wake (x : Thread) : Thread := if x.pc = .asleep then { x with pc := .woken } else x

theorem wake_prog (x : Thread) : (wake x).prog = x.prog := by unfold wake; split <;> rfl
theorem wake_not_asleep (x : Thread) : (wake x).pc ≠ .asleep := by
  unfold wake; split
  · intro e; cases e
  · assumption
theorem wake_waitEntry (x : Thread) : (wake x).pc = .waitEntry ↔ x.pc = .waitEntry := by
  unfold wake; split
  · rename_i e; simp [e]
  · rfl

/-- the `notify_all` step: every sleeping thread is woken; thread `t` goes on to its next call -/
theorem CInv.notified {cap : Nat} {cs : CState} (h : CInv cap cs) (t : Nat) (ht : t < cs.threads.length)
    (hpc : (nth cs.threads t).pc = .notify) (op : Op) (rest : List Op) (hprog : (nth cs.threads t).prog = op :: rest) :
    CInv cap { cs with threads := (cs.threads.map wake).set t (settle cs.sys rest) } := by
  have hlen : (cs.threads.map wake).length = cs.threads.length := by simp
  have ht' : t < (cs.threads.map wake).length := by rw [hlen]; exact ht
  have hsp := settle_pc cs.sys rest
  have hne_w : (settle cs.sys rest).pc ≠ .waitEntry := by rcases hsp with e | e <;> rw [e] <;> decide
  have hne_a : (settle cs.sys rest).pc ≠ .asleep := by rcases hsp with e | e <;> rw [e] <;> decide
  have hother : ∀ x, x < cs.threads.length → t ≠ x →
      nth ((cs.threads.map wake).set t (settle cs.sys rest)) x = wake (nth cs.threads x) := by
    intro x hx ex; rw [nth_set_ne _ _ _ _ ex, nth_map _ _ _ hx]
  refine ⟨h.sysok, ?_, ?_, ?_, ?_, ?_⟩
  · -- single writer: programs only shrink
    intro a b ha hb wa wb
    simp only [List.length_set, List.length_map] at ha hb
    simp only at wa wb
    have fa : hasWriterOp (nth cs.threads a).prog = true := by
      by_cases e : t = a
      · subst e; rw [nth_set_eq _ _ _ ht'] at wa
        rw [hprog]; exact hasWriterOp_tail _ _ (hasWriterOp_settle _ _ wa)
      · rw [hother a ha e, wake_prog] at wa; exact wa
    have fb : hasWriterOp (nth cs.threads b).prog = true := by
      by_cases e : t = b
      · subst e; rw [nth_set_eq _ _ _ ht'] at wb
        rw [hprog]; exact hasWriterOp_tail _ _ (hasWriterOp_settle _ _ wb)
      · rw [hother b hb e, wake_prog] at wb; exact wb
    exact h.single a b ha hb fa fb
  · intro x e
    obtain ⟨hx, hp⟩ := h.lock1 x e
    simp only [List.length_set, List.length_map]
    refine ⟨hx, ?_⟩
    have ex : t ≠ x := by intro e'; subst e'; rw [hpc] at hp; cases hp
    rw [hother x hx ex]; exact (wake_waitEntry _).2 hp
  · intro x hx e
    simp only [List.length_set, List.length_map] at hx
    simp only at e ⊢
    by_cases ex : t = x
    · subst ex; rw [nth_set_eq _ _ _ ht'] at e; exact absurd e hne_w
    · rw [hother x hx ex] at e; exact h.lock2 x hx ((wake_waitEntry _).1 e)
  · intro x hx e m rest' hp
    simp only [List.length_set, List.length_map] at hx
    simp only at e hp ⊢
    by_cases ex : t = x
    · subst ex; rw [nth_set_eq _ _ _ ht'] at e; exact absurd e hne_w
    · rw [hother x hx ex] at e hp; rw [wake_prog] at hp
      exact h.w1 x hx ((wake_waitEntry _).1 e) m rest' hp
  · intro x hx e m rest' hp
    simp only [List.length_set, List.length_map] at hx
    simp only at e
    by_cases ex : t = x
    · subst ex; rw [nth_set_eq _ _ _ ht'] at e; exact absurd e hne_a
    · rw [hother x hx ex] at e; exact absurd e (wake_not_asleep _)

/-- the first step of a thread: run up to the first call that takes the lock -/
theorem CInv.started {cap : Nat} {cs : CState} (h : CInv cap cs) (t : Nat) (ht : t < cs.threads.length)
    (hpc : (nth cs.threads t).pc = .start) :
    CInv cap (setThread cs t (settle cs.sys (nth cs.threads t).prog)) := by
  have hsp := settle_pc cs.sys (nth cs.threads t).prog
  have hne_w : (settle cs.sys (nth cs.threads t).prog).pc ≠ .waitEntry := by rcases hsp with e | e <;> rw [e] <;> decide
  have hne_a : (settle cs.sys (nth cs.threads t).prog).pc ≠ .asleep := by rcases hsp with e | e <;> rw [e] <;> decide
  unfold setThread
  refine ⟨h.sysok, singleWriter_set _ _ _ ht h.single (hasWriterOp_settle _ _), ?_, ?_, ?_, ?_⟩
  · intro x e
    obtain ⟨hx, hp⟩ := h.lock1 x e
    simp only [List.length_set]
    refine ⟨hx, ?_⟩
    have ex : t ≠ x := by intro e'; subst e'; rw [hpc] at hp; cases hp
    rw [nth_set_ne _ _ _ _ ex]; exact hp
  · intro x hx e
    simp only [List.length_set] at hx
    simp only at e ⊢
    by_cases ex : t = x
    · subst ex; rw [nth_set_eq _ _ _ ht] at e; exact absurd e hne_w
    · rw [nth_set_ne _ _ _ _ ex] at e; exact h.lock2 x hx e
  · intro x hx e m rest' hp
    simp only [List.length_set] at hx
    simp only at e hp ⊢
    by_cases ex : t = x
    · subst ex; rw [nth_set_eq _ _ _ ht] at e; exact absurd e hne_w
    · rw [nth_set_ne _ _ _ _ ex] at e hp; exact h.w1 x hx e m rest' hp
  · intro x hx e m rest' hp
    simp only [List.length_set] at hx
    simp only at e hp ⊢
    by_cases ex : t = x
    · subst ex; rw [nth_set_eq _ _ _ ht] at e; exact absurd e hne_a
    · rw [nth_set_ne _ _ _ _ ex] at e hp
      rcases h.w2 x hx e m rest' hp with hb' | ⟨u, hu, hun⟩
      · left; exact hb'
      · right
        have eu : t ≠ u := by intro e'; subst e'; rw [hpc] at hun; cases hun
        exact ⟨u, by simp only [List.length_set]; exact hu, by rw [nth_set_ne _ _ _ _ eu]; exact hun⟩

theorem Chan.ext' (a b : Chan) (h1 : a.cap = b.cap) (h2 : a.head = b.head) (h3 : a.high = b.high)
    (h4 : a.cycle = b.cycle) (h5 : a.mapped = b.mapped) (h6 : a.accepting = b.accepting) (h7 : a.holds = b.holds) :
    a = b := by
  cases a; cases b; simp only at *; subst h1 h2 h3 h4 h5 h6 h7; rfl

theorem readMap_same_chan (c : Chan) (r : Rd) (h : (readMap c r).1.holds = c.holds) : (readMap c r).1 = c := by
  have hf : (readMap c r).1.high = c.high ∧ (readMap c r).1.head = c.head ∧ (readMap c r).1.cycle = c.cycle ∧
      (readMap c r).1.mapped = c.mapped ∧ (readMap c r).1.cap = c.cap ∧ (readMap c r).1.accepting = c.accepting := by
    unfold readMap readerInit readMapAt
    by_cases e : r.id > 0
    · rw [if_pos e]; exact readMapCore_fields _ _ _ _
    · rw [if_neg e]; dsimp only; exact readMapCore_fields _ _ _ _
  exact Chan.ext' _ _ hf.2.2.2.2.1 hf.2.1 hf.1 hf.2.2.1 hf.2.2.2.1 hf.2.2.2.2.2 h

/-- a joining reader only appends its bookmark `(0, cycle)` to the channel -/
theorem join_chan_eq {s : Sys} {g : Ghost} (h : Inv s g) :
    (step s .join).1.c = { s.c with holds := s.c.holds ++ [⟨0, s.c.cycle⟩] } := by
  have hj := h.joined
  have hlen : s.c.holds.length < s.joined.c.holds.length := by simp [Sys.joined]
  have hrel := (hj.rd s.c.holds.length hlen).1.hold
  have e1 : nth s.joined.c.holds s.c.holds.length = ⟨0, s.c.cycle⟩ := nth_append_length s.c.holds _
  rw [e1] at hrel
  simp only [step, readMap, readerInit, Nat.lt_irrefl, ↓reduceIte, Nat.add_sub_cancel]
  have heq : readMapAt { s.c with holds := s.c.holds ++ [⟨0, s.c.cycle⟩] } { id := s.c.holds.length + 1 } s.c.holds.length =
      readMapCore s.joined.c { id := s.c.holds.length + 1 } s.c.holds.length ⟨0, s.c.cycle⟩ := by
    unfold readMapAt
    have : ({ s.c with holds := s.c.holds ++ [⟨0, s.c.cycle⟩] } : Chan).holds.getD s.c.holds.length default = ⟨0, s.c.cycle⟩ := e1
    rw [this]; rfl
  rw [heq]
  rcases readMapCore_cases s.joined.c { id := s.c.holds.length + 1 } s.c.holds.length s.joined.total _ ⟨0, s.c.cycle⟩ rfl hrel hj.hm with
    ⟨_, _, e⟩ | ⟨_, _, e⟩ | ⟨e1, _, _, _⟩ | ⟨e1, _, _, _⟩ | ⟨e1, _, _, _⟩
  · rw [e]; rfl
  · rw [e]; rfl
  · simp only [Sys.joined] at e1; omega
  · simp only [Sys.joined] at e1; omega
  · simp only [Sys.joined] at e1; omega

/-- a call whose body neither waits nor notifies cannot make a sleeping writer's request admissible -/
theorem CInv.keep_block {cap : Nat} {cs : CState} (h : CInv cap cs) (t : Nat) (ht : t < cs.threads.length)
    (op : Op) (rest : List Op) (hprog : (nth cs.threads t).prog = op :: rest) (hwf : op.wf cs.sys = true)
    (hn : notifies cs.sys op = false) :
    ∀ x m rest', x ≠ t → x < cs.threads.length → (nth cs.threads x).pc = .asleep →
      (nth cs.threads x).prog = .wmap m :: rest' → writeMap cs.sys.c m = .block →
      writeMap (step cs.sys op).1.c m = .block := by
  intro x m rest' ex hx _ hp hb
  obtain ⟨g, hr⟩ := h.sysok
  have hinv := hr.inv
  have hxw : hasWriterOp (nth cs.threads x).prog = true := by rw [hp]; rfl
  have writer_contra : hasWriterOp (op :: rest) = true → False := by
    intro hw
    exact ex (h.single x t hx ht hxw (by rw [hprog]; exact hw))
  cases op with
  | wmap n => exact (writer_contra rfl).elim
  | wcommit => exact (writer_contra rfl).elim
  | wabort => exact (writer_contra rfl).elim
  | accept b => simp [notifies] at hn
  | runmap i k => simp [notifies] at hn
  | join => rw [join_chan_eq hinv]; exact join_keeps_block hinv m hb
  | rmap i =>
    simp only [step]
    cases hri : cs.sys.rds[i]? with
    | none => exact hb
    | some r =>
      simp only [notifies, hri, decide_eq_false_iff_not, ne_eq, Decidable.not_not] at hn
      simp only
      rw [readMap_same_chan _ _ hn]; exact hb

/-- **Every scheduler step of every thread preserves the invariant.** -/
theorem CInv.step {cap : Nat} {cs : CState} (h : CInv cap cs) (t : Nat) (cs' : CState)
    (e : cstep cs t = some cs') (hwf : stepWf cs t = true) : CInv cap cs' := by
  obtain ⟨ht, hget⟩ := cstep_thread e
  unfold cstep at e
  rw [hget] at e
  simp only at e
  unfold stepWf bodyOp at hwf
  cases hpc : (nth cs.threads t).pc <;> rw [hpc] at e hwf
  · -- start
    simp only [Option.some.injEq] at e; rw [← e]; exact h.started t ht hpc
  · -- lockReq
    cases hprog : (nth cs.threads t).prog with
    | nil => rw [hprog] at e; cases e
    | cons op rest =>
      rw [hprog] at e hwf
      simp only at e hwf
      by_cases hl : cs.lock.isNone = true
      · rw [if_pos hl] at e
        simp only [Option.some.injEq] at e
        have hl' : cs.lock = none := by cases hc : cs.lock <;> simp [hc] at hl ⊢
        rcases runBody_cases cs t op rest with ⟨m, e1, e2, e3⟩ | ⟨hnb, hn, e3⟩ | ⟨hnb, hn, e3⟩
        · rw [← e, e3]; subst e1; exact h.to_wait_entry hl' t ht (Or.inl hpc) m rest hprog e2
        · rw [← e, e3]; exact h.body_done hl' t ht (Or.inl hpc) op rest hprog hwf _ (fun e => e) (Or.inl rfl)
        · rw [← e, e3]
          exact h.body_done hl' t ht (Or.inl hpc) op rest hprog hwf _
            (fun e => hasWriterOp_tail _ _ (hasWriterOp_settle _ _ e))
            (Or.inr ⟨settle_pc _ _, h.keep_block t ht op rest hprog hwf hn⟩)
      · rw [if_neg hl] at e; cases e
  · -- waitEntry
    simp only [Option.some.injEq] at e; rw [← e]; exact h.to_sleep t ht hpc
  · -- asleep
    cases hprog : (nth cs.threads t).prog <;> rw [hprog] at e <;> cases e
  · -- woken
    cases hprog : (nth cs.threads t).prog with
    | nil => rw [hprog] at e; cases e
    | cons op rest =>
      rw [hprog] at e hwf
      simp only at e hwf
      by_cases hl : cs.lock.isNone = true
      · rw [if_pos hl] at e
        simp only [Option.some.injEq] at e
        have hl' : cs.lock = none := by cases hc : cs.lock <;> simp [hc] at hl ⊢
        rcases runBody_cases cs t op rest with ⟨m, e1, e2, e3⟩ | ⟨hnb, hn, e3⟩ | ⟨hnb, hn, e3⟩
        · rw [← e, e3]; subst e1; exact h.to_wait_entry hl' t ht (Or.inr hpc) m rest hprog e2
        · rw [← e, e3]; exact h.body_done hl' t ht (Or.inr hpc) op rest hprog hwf _ (fun e => e) (Or.inl rfl)
        · rw [← e, e3]
          exact h.body_done hl' t ht (Or.inr hpc) op rest hprog hwf _
            (fun e => hasWriterOp_tail _ _ (hasWriterOp_settle _ _ e))
            (Or.inr ⟨settle_pc _ _, h.keep_block t ht op rest hprog hwf hn⟩)
      · rw [if_neg hl] at e; cases e
  · -- notify
    cases hprog : (nth cs.threads t).prog with
    | nil => rw [hprog] at e; cases e
    | cons op rest =>
      rw [hprog] at e
      simp only [Option.some.injEq] at e
      rw [← e]
      exact h.notified t ht hpc op rest hprog
  · -- done
    cases hprog : (nth cs.threads t).prog <;> rw [hprog] at e <;> cases e

/-- **Every reachable state of the concurrent system satisfies the invariant, under every schedule.** -/
theorem CReach.inv {cap : Nat} {cs : CState} (r : CReach cap cs) : CInv cap cs := by
  induction r with
  | init s g progs h single => exact CInv.init s g progs h single
  | step cs t cs' _ e hwf ih => exact ih.step t cs' e hwf

end AcqVerif.Channel
