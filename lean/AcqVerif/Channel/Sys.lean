import AcqVerif.Channel.Model
/-!
# The channel as a labelled transition system, with the specification (ghost) state

`Sys` is the channel, the reader handles of all registered readers, and the ghost
bookkeeping the theorems talk about: the number of bytes committed so far
(`total`), the stream index of each reader's next unconsumed byte (`idx`), the
stream index at which each reader joined (`join`) and the list of committed write
boundaries (`bounds`).  The ghost fields influence no concrete result.

Operations are atomic: every body of `channel.c` runs under the channel's lock
(established for the real code by the lock-discipline extractor, see C03).
-/
namespace AcqVerif.Channel

inductive Op where
  | wmap (n : Nat)
  | wcommit
  | wabort
  | accept (b : Bool)
  | join                       -- `channel_read_map` with a zero-initialised reader
  | rmap (i : Nat)             -- `channel_read_map` with reader handle number i
  | runmap (i : Nat) (k : Nat) -- `channel_read_unmap(reader i, k)`
deriving Repr, DecidableEq

inductive Out where
  | unit
  | wnull
  | wblock
  | wok (beg : Nat)
  | slice (beg len status : Nat)
  | bad                        -- operation refers to a reader handle that does not exist
deriving Repr, DecidableEq

structure Sys where
  c : Chan
  rds : List Rd := []          -- handle i has id i+1
  pending : Bool := false      -- a mapped write has been neither committed nor aborted
  wbeg : Nat := 0              -- start of the region last handed to the writer
  wlen : Nat := 0              -- its length
  total : Nat := 0             -- ghost: bytes committed so far
  idx : List Nat := []         -- ghost: stream index of reader i's next unconsumed byte
  join : List Nat := []        -- ghost: stream index at which reader i joined
  bounds : List Nat := [0]     -- ghost: stream indices of write boundaries (newest first)
deriving Repr

def Sys.init (cap : Nat) : Sys := { c := { cap := cap } }

/-- One operation, exactly as the C would execute it (also when the caller breaks
the usage rules; the theorems are stated for well-formed histories). -/
def step (s : Sys) : Op → Sys × Out
  | .wmap n =>
    match writeMap s.c n with
    | .null => (s, .wnull)
    | .block => (s, .wblock)
    | .ok beg c' => ({ s with c := c', pending := true, wbeg := beg, wlen := n }, .wok beg)
  | .wcommit =>
    if s.c.accepting then
      let n := s.c.mapped - s.c.head
      ({ s with c := writeUnmap s.c, pending := false, total := s.total + n,
                bounds := if n = 0 then s.bounds else (s.total + n) :: s.bounds }, .unit)
    else ({ s with pending := false }, .unit)
  | .wabort => ({ s with c := abortWrite s.c, pending := false }, .unit)
  | .accept b => ({ s with c := acceptWrites s.c b }, .unit)
  | .join =>
    let j := s.total - s.c.head
    let (c', r', sl) := readMap s.c {}
    ({ s with c := c', rds := s.rds ++ [r'], idx := s.idx ++ [j], join := s.join ++ [j] },
     .slice sl.beg sl.len r'.status)
  | .rmap i =>
    match s.rds[i]? with
    | none => (s, .bad)
    | some r =>
      let (c', r', sl) := readMap s.c r
      ({ s with c := c', rds := s.rds.set i r' }, .slice sl.beg sl.len r'.status)
  | .runmap i k =>
    match s.rds[i]? with
    | none => (s, .bad)
    | some r =>
      let len := if r.mapped then availBytes r (s.c.holds.getD i default) s.c.high else 0
      let (c', r') := readUnmap s.c r k
      ({ s with c := c', rds := s.rds.set i r', idx := s.idx.set i (s.idx.getD i 0 + min len k) }, .unit)

/-- Usage rules of the API (decidable; hypotheses of the theorems):
one writer, whose commit / abort ends a mapped write; a reader maps only when unmapped.
Mapping again without ending the previous write is within the rules (the earlier region is dropped: `channel_write_map`
never looks at `mapped`); `source.c` does it after a failed `camera_get_frame`. A `channel_write_unmap` with nothing mapped is
within the rules as well: it commits `[head, mapped)`, which is empty after a commit or an abort (`source.c` aborts and then
unmaps when the camera hands out an empty frame). -/
def Op.wf (s : Sys) : Op → Bool
  | .wmap _ => true
  | .wcommit => true
  | .wabort => s.pending
  | .accept _ => true
  | .join => s.rds.length < 8
  | .rmap i => match s.rds[i]? with | some r => !r.mapped | none => false
  | .runmap i _ => i < s.rds.length

def run (s : Sys) : List Op → Sys
  | [] => s
  | op :: ops => run (step s op).1 ops

/-- every operation of the list obeys the usage rules in the state it is applied to -/
def wfRun (s : Sys) : List Op → Bool
  | [] => true
  | op :: ops => op.wf s && wfRun (step s op).1 ops

end AcqVerif.Channel
