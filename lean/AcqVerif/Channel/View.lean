import AcqVerif.Channel.Use
/-!
# The channel as its users see it

`cv s` collects what the stages of the pipeline reason with — is a write pending and how long, how many bytes are
committed, and for the first two readers (in the runtime: the sink's and the monitoring client's) whether they hold a
mapped region, their stream position and the length of their region. Each lemma gives the view after one operation
as an update of the view before it, for states reached by well-formed histories (`Ok`).
-/
namespace AcqVerif.Channel
open AcqVerif AcqVerif.C02

structure CV where
  pending : Bool
  wlen : Nat
  total : Nat
  nrd : Nat
  m0 : Bool
  m1 : Bool
  i0 : Nat
  i1 : Nat
  l0 : Nat
  l1 : Nat
  acc : Bool
deriving DecidableEq, Repr

def cv (s : Sys) : CV :=
  { pending := s.pending, wlen := s.wlen, total := s.total, nrd := s.rds.length,
    m0 := (nth s.rds 0).mapped, m1 := (nth s.rds 1).mapped, i0 := nth s.idx 0, i1 := nth s.idx 1,
    l0 := regionLen s 0, l1 := regionLen s 1, acc := s.c.accepting }

theorem regionLen_congr (s s' : Sys) (j : Nat) (hr : nth s'.rds j = nth s.rds j) (hm : (nth s.rds j).mapped = true → regionLen s' j = regionLen s j) :
    regionLen s' j = regionLen s j := by
  cases hmj : (nth s.rds j).mapped with
  | true => exact hm hmj
  | false => rw [regionLen_unmapped s j hmj, regionLen_unmapped s' j (by rw [hr]; exact hmj)]

/-- readers beyond the registered ones are the default handle -/
theorem nth_rds_beyond (s : Sys) (j : Nat) (h : s.rds.length ≤ j) : (nth s.rds j).mapped = false := by
  simp [nth, List.getD, List.getElem?_eq_none h]; rfl

theorem writeMap_accepting (c : Chan) (n beg : Nat) (c' : Chan) (h : writeMap c n = .ok beg c') : c'.accepting = c.accepting := by
  unfold writeMap at h
  split at h
  · cases h
  · split at h
    · split at h <;> cases h <;> rfl
    · split at h
      · cases h
      · split at h
        · cases h
        · cases h
          dsimp only
          (repeat' split) <;> rfl

theorem cv_wmap_fail (s : Sys) (n : Nat) (h : ∀ b, (step s (.wmap n)).2 ≠ .wok b) : (step s (.wmap n)).1 = s :=
  wmap_not_ok s n h

theorem cv_wmap_ok {s : Sys} (h : Ok s) (n b : Nat) (ho : (step s (.wmap n)).2 = .wok b) :
    Ok (step s (.wmap n)).1 ∧ cv (step s (.wmap n)).1 = { pending := true, wlen := n, total := (cv s).total, nrd := (cv s).nrd, m0 := (cv s).m0, m1 := (cv s).m1, i0 := (cv s).i0, i1 := (cv s).i1, l0 := (cv s).l0, l1 := (cv s).l1, acc := (cv s).acc } := by
  have hwf : (Op.wmap n).wf s = true := rfl
  refine ⟨h.step _ hwf, ?_⟩
  obtain ⟨cap, g, hr⟩ := h
  obtain ⟨a1, a2, a3, a4, a5, a6⟩ := wmap_ok hr n b hwf ho
  have r : ∀ j, regionLen (step s (.wmap n)).1 j = regionLen s j := by
    intro j
    apply regionLen_congr _ _ _ (by rw [a5])
    intro hm
    by_cases hj : j < s.rds.length
    · exact a6 j hj hm
    · rw [nth_rds_beyond s j (by omega)] at hm; cases hm
  have hacc : (step s (.wmap n)).1.c.accepting = s.c.accepting := by
    simp only [step] at ho ⊢
    split at ho
    · cases ho
    · cases ho
    · rename_i beg c' hw
      exact writeMap_accepting _ _ _ _ hw
  unfold cv
  rw [a1, a2, a3, a4, a5, r 0, r 1, hacc]

theorem cv_wcommit {s : Sys} (h : Ok s) (hp : (cv s).pending = true) :
    Ok (step s .wcommit).1 ∧
    cv (step s .wcommit).1 = { pending := false, wlen := (cv s).wlen, total := (cv s).total + (if (cv s).acc then (cv s).wlen else 0), nrd := (cv s).nrd, m0 := (cv s).m0, m1 := (cv s).m1, i0 := (cv s).i0, i1 := (cv s).i1, l0 := (cv s).l0, l1 := (cv s).l1, acc := (cv s).acc } := by
  replace hp : s.pending = true := hp
  have hwf : Op.wcommit.wf s = true := rfl
  refine ⟨h.step _ hwf, ?_⟩
  obtain ⟨cap, g, hr⟩ := h
  obtain ⟨a1, a3, a4, a5, a6⟩ := wcommit_spec hr hp
  have r : ∀ j, regionLen (step s .wcommit).1 j = regionLen s j := by
    intro j
    apply regionLen_congr _ _ _ (by rw [a5])
    intro hm
    by_cases hj : j < s.rds.length
    · exact a6 j hj hm
    · rw [nth_rds_beyond s j (by omega)] at hm; cases hm
  have hw : (step s .wcommit).1.wlen = s.wlen := by simp only [step]; split <;> rfl
  have hacc : (step s .wcommit).1.c.accepting = s.c.accepting := by
    simp only [step]; split
    · rename_i ha; simp [writeUnmap, ha]
    · rfl
  unfold cv
  rw [a1, a3, a4, a5, r 0, r 1, hw, hacc]

theorem cv_wabort {s : Sys} (h : Ok s) (hp : (cv s).pending = true) :
    Ok (step s .wabort).1 ∧ cv (step s .wabort).1 = { pending := false, wlen := (cv s).wlen, total := (cv s).total, nrd := (cv s).nrd, m0 := (cv s).m0, m1 := (cv s).m1, i0 := (cv s).i0, i1 := (cv s).i1, l0 := (cv s).l0, l1 := (cv s).l1, acc := (cv s).acc } := by
  replace hp : s.pending = true := hp
  have hwf : Op.wabort.wf s = true := by simp [Op.wf, hp]
  refine ⟨h.step _ hwf, ?_⟩
  obtain ⟨cap, g, hr⟩ := h
  obtain ⟨a1, a3, a4, a5, a6⟩ := wabort_spec hr hwf
  have r : ∀ j, regionLen (step s .wabort).1 j = regionLen s j := by
    intro j
    apply regionLen_congr _ _ _ (by rw [a5])
    intro hm
    by_cases hj : j < s.rds.length
    · exact a6 j hj hm
    · rw [nth_rds_beyond s j (by omega)] at hm; cases hm
  have hacc : (step s .wabort).1.c.accepting = s.c.accepting := by
    simp only [step, abortWrite]; split <;> rfl
  unfold cv
  rw [a1, a3, a4, a5, r 0, r 1, hacc]
  rfl

theorem cv_accept {s : Sys} (h : Ok s) (b : Bool) :
    Ok (step s (.accept b)).1 ∧ cv (step s (.accept b)).1 = { pending := (cv s).pending, wlen := (cv s).wlen, total := (cv s).total, nrd := (cv s).nrd, m0 := (cv s).m0, m1 := (cv s).m1, i0 := (cv s).i0, i1 := (cv s).i1, l0 := (cv s).l0, l1 := (cv s).l1, acc := b } :=
  ⟨h.step _ rfl, rfl⟩

/-- length of the region a read returned -/
def sliceLen : Out → Nat
  | .slice _ len _ => len
  | _ => 0

/-- reader `i` (registered, unmapped) maps; `j` is the other of the two readers in the view -/
theorem view_rmap {s : Sys} (h : Ok s) (i : Nat) (hi : i < s.rds.length) (hm : (nth s.rds i).mapped = false) :
    Ok (step s (.rmap i)).1 ∧
    (sliceLen (step s (.rmap i)).2 = 0 → nth s.idx i = s.total) ∧ nth s.idx i + sliceLen (step s (.rmap i)).2 ≤ s.total ∧
    (step s (.rmap i)).1.pending = s.pending ∧ (step s (.rmap i)).1.wlen = s.wlen ∧ (step s (.rmap i)).1.total = s.total ∧
    (step s (.rmap i)).1.rds.length = s.rds.length ∧ (step s (.rmap i)).1.idx = s.idx ∧ (step s (.rmap i)).1.c.accepting = s.c.accepting ∧
    (nth (step s (.rmap i)).1.rds i).mapped = decide (0 < sliceLen (step s (.rmap i)).2) ∧
    regionLen (step s (.rmap i)).1 i = sliceLen (step s (.rmap i)).2 ∧
    (∀ j, j ≠ i → (nth (step s (.rmap i)).1.rds j).mapped = (nth s.rds j).mapped ∧ regionLen (step s (.rmap i)).1 j = regionLen s j) := by
  have hwf : (Op.rmap i).wf s = true := by
    simp [Op.wf, getElem?_eq_some_nth _ _ hi, hm]
  refine ⟨h.step _ hwf, ?_⟩
  obtain ⟨cap, g, hr⟩ := h
  obtain ⟨beg, len, e, b1, b2, b3, b4, b5, b6, b7, b8, b9, b10, b11, b12⟩ := rmap_spec hr i hwf
  have hl : sliceLen (step s (.rmap i)).2 = len := by rw [e]; rfl
  rw [hl]
  refine ⟨b1, b2, b5, b6, b4, b7, b3, b12, b8, b9, ?_⟩
  intro j hne
  refine ⟨by rw [b10 j hne], ?_⟩
  apply regionLen_congr _ _ _ (b10 j hne)
  intro hmj
  by_cases hj : j < s.rds.length
  · exact b11 j hne hj hmj
  · rw [nth_rds_beyond s j (by omega)] at hmj; cases hmj

theorem cv_rmap0 {s : Sys} (h : Ok s) (hn : 1 ≤ (cv s).nrd) (hm : (cv s).m0 = false) :
    Ok (step s (.rmap 0)).1 ∧
    (sliceLen (step s (.rmap 0)).2 = 0 → (cv s).i0 = (cv s).total) ∧ (cv s).i0 + sliceLen (step s (.rmap 0)).2 ≤ (cv s).total ∧
    cv (step s (.rmap 0)).1 = { pending := (cv s).pending, wlen := (cv s).wlen, total := (cv s).total, nrd := (cv s).nrd, m0 := decide (0 < sliceLen (step s (.rmap 0)).2), m1 := (cv s).m1, i0 := (cv s).i0, i1 := (cv s).i1, l0 := sliceLen (step s (.rmap 0)).2, l1 := (cv s).l1, acc := (cv s).acc } := by
  replace hn : 1 ≤ s.rds.length := hn
  replace hm : (nth s.rds 0).mapped = false := hm
  obtain ⟨a0, a1, a2, a3, a4, a5, a6, a7, a8, a9, a10, a11⟩ := view_rmap h 0 (by omega) hm
  refine ⟨a0, a1, a2, ?_⟩
  unfold cv
  rw [a3, a4, a5, a6, a7, a8, a9, a10, (a11 1 (by omega)).1, (a11 1 (by omega)).2]

theorem cv_rmap1 {s : Sys} (h : Ok s) (hn : 2 ≤ (cv s).nrd) (hm : (cv s).m1 = false) :
    Ok (step s (.rmap 1)).1 ∧
    (sliceLen (step s (.rmap 1)).2 = 0 → (cv s).i1 = (cv s).total) ∧ (cv s).i1 + sliceLen (step s (.rmap 1)).2 ≤ (cv s).total ∧
    cv (step s (.rmap 1)).1 = { pending := (cv s).pending, wlen := (cv s).wlen, total := (cv s).total, nrd := (cv s).nrd, m0 := (cv s).m0, m1 := decide (0 < sliceLen (step s (.rmap 1)).2), i0 := (cv s).i0, i1 := (cv s).i1, l0 := (cv s).l0, l1 := sliceLen (step s (.rmap 1)).2, acc := (cv s).acc } := by
  replace hn : 2 ≤ s.rds.length := hn
  replace hm : (nth s.rds 1).mapped = false := hm
  obtain ⟨a0, a1, a2, a3, a4, a5, a6, a7, a8, a9, a10, a11⟩ := view_rmap h 1 (by omega) hm
  refine ⟨a0, a1, a2, ?_⟩
  unfold cv
  rw [a3, a4, a5, a6, a7, a8, a9, a10, (a11 0 (by omega)).1, (a11 0 (by omega)).2]

theorem view_runmap {s : Sys} (h : Ok s) (i k : Nat) (hi : i < s.rds.length) :
    Ok (step s (.runmap i k)).1 ∧
    nth (step s (.runmap i k)).1.idx i = nth s.idx i + min (regionLen s i) k ∧
    (step s (.runmap i k)).1.pending = s.pending ∧ (step s (.runmap i k)).1.wlen = s.wlen ∧ (step s (.runmap i k)).1.total = s.total ∧
    (step s (.runmap i k)).1.rds.length = s.rds.length ∧ (step s (.runmap i k)).1.c.accepting = s.c.accepting ∧
    (nth (step s (.runmap i k)).1.rds i).mapped = false ∧ regionLen (step s (.runmap i k)).1 i = 0 ∧
    (∀ j, j ≠ i → nth (step s (.runmap i k)).1.idx j = nth s.idx j ∧
        (nth (step s (.runmap i k)).1.rds j).mapped = (nth s.rds j).mapped ∧ regionLen (step s (.runmap i k)).1 j = regionLen s j) := by
  have hwf : (Op.runmap i k).wf s = true := by simp [Op.wf, hi]
  refine ⟨h.step _ hwf, ?_⟩
  obtain ⟨cap, g, hr⟩ := h
  obtain ⟨b1, b2, b3, b4, b5, b6, b7, b8, b9, b10⟩ := runmap_spec hr i k hi
  refine ⟨b1, b4, b5, b3, b6, b10, b7, regionLen_unmapped _ _ b7, ?_⟩
  intro j hne
  refine ⟨b2 j hne, by rw [b8 j hne], ?_⟩
  apply regionLen_congr _ _ _ (b8 j hne)
  intro hmj
  by_cases hj : j < s.rds.length
  · exact b9 j hne hj hmj
  · rw [nth_rds_beyond s j (by omega)] at hmj; cases hmj

theorem cv_runmap0 {s : Sys} (h : Ok s) (k : Nat) (hn : 1 ≤ (cv s).nrd) :
    Ok (step s (.runmap 0 k)).1 ∧
    cv (step s (.runmap 0 k)).1 = { pending := (cv s).pending, wlen := (cv s).wlen, total := (cv s).total, nrd := (cv s).nrd, m0 := false, m1 := (cv s).m1, i0 := (cv s).i0 + min (cv s).l0 k, i1 := (cv s).i1, l0 := 0, l1 := (cv s).l1, acc := (cv s).acc } := by
  replace hn : 1 ≤ s.rds.length := hn
  obtain ⟨a0, a1, a2, a3, a4, a5, a6, a7, a8, a9⟩ := view_runmap h 0 k (by omega)
  refine ⟨a0, ?_⟩
  unfold cv
  rw [a1, a2, a3, a4, a5, a6, a7, a8, (a9 1 (by omega)).1, (a9 1 (by omega)).2.1, (a9 1 (by omega)).2.2]

theorem cv_runmap1 {s : Sys} (h : Ok s) (k : Nat) (hn : 2 ≤ (cv s).nrd) :
    Ok (step s (.runmap 1 k)).1 ∧
    cv (step s (.runmap 1 k)).1 = { pending := (cv s).pending, wlen := (cv s).wlen, total := (cv s).total, nrd := (cv s).nrd, m0 := (cv s).m0, m1 := false, i0 := (cv s).i0, i1 := (cv s).i1 + min (cv s).l1 k, l0 := (cv s).l0, l1 := 0, acc := (cv s).acc } := by
  replace hn : 2 ≤ s.rds.length := hn
  obtain ⟨a0, a1, a2, a3, a4, a5, a6, a7, a8, a9⟩ := view_runmap h 1 k (by omega)
  refine ⟨a0, ?_⟩
  unfold cv
  rw [a1, a2, a3, a4, a5, a6, a7, a8, (a9 0 (by omega)).1, (a9 0 (by omega)).2.1, (a9 0 (by omega)).2.2]

/-- the second reader registers (the first stays as it is) -/
theorem cv_join1 {s : Sys} (h : Ok s) (hn : (cv s).nrd = 1) :
    Ok (step s .join).1 ∧ ∃ m i l, cv (step s .join).1 = { pending := (cv s).pending, wlen := (cv s).wlen, total := (cv s).total, nrd := 2, m0 := (cv s).m0, m1 := m, i0 := (cv s).i0, i1 := i, l0 := (cv s).l0, l1 := l, acc := (cv s).acc } := by
  replace hn : s.rds.length = 1 := hn
  have hwf : Op.join.wf s = true := by simp [Op.wf, hn]
  refine ⟨h.step _ hwf, ?_⟩
  obtain ⟨cap, g, hr⟩ := h
  obtain ⟨b1, b2, b3, b4, b5, b6⟩ := join_others hr hwf
  have hacc : (step s .join).1.c.accepting = s.c.accepting := by
    simp only [step]
    have := readMapCore_fields (readerInit s.c {}).1 (readerInit s.c {}).2 ((readerInit s.c {}).2.id - 1) (nth (readerInit s.c {}).1.holds ((readerInit s.c {}).2.id - 1))
    unfold readMap readMapAt
    simp only
    rw [show ((readerInit s.c {}).1.holds.getD ((readerInit s.c {}).2.id - 1) default) = nth (readerInit s.c {}).1.holds ((readerInit s.c {}).2.id - 1) from rfl]
    rw [this.2.2.2.2.2]
    simp [readerInit]
  refine ⟨(nth (step s .join).1.rds 1).mapped, nth (step s .join).1.idx 1, regionLen (step s .join).1 1, ?_⟩
  have r0 : regionLen (step s .join).1 0 = regionLen s 0 := by
    apply regionLen_congr _ _ _ (b5 0 (by omega)).1
    intro hm; exact b6 0 (by omega) hm
  unfold cv
  rw [b1, b2, b3, b4, (b5 0 (by omega)).1, (b5 0 (by omega)).2, hacc, hn, r0]

/-- a reader's region lies inside the committed bytes -/
theorem cv_i0_le {s : Sys} (h : Ok s) (hn : 1 ≤ (cv s).nrd) : (cv s).i0 + (cv s).l0 ≤ (cv s).total := by
  obtain ⟨cap, g, hr⟩ := h
  replace hn : 1 ≤ s.rds.length := hn
  show nth s.idx 0 + regionLen s 0 ≤ s.total
  cases hm : (nth s.rds 0).mapped with
  | true => exact (read_region_committed hr 0 (by omega) hm).2.2.1
  | false =>
    rw [regionLen_unmapped s 0 hm]
    have := (C01.consumed_is_stream hr 0 (by omega)).2.2.1
    omega

theorem cv_i1_le {s : Sys} (h : Ok s) (hn : 2 ≤ (cv s).nrd) : (cv s).i1 + (cv s).l1 ≤ (cv s).total := by
  obtain ⟨cap, g, hr⟩ := h
  replace hn : 2 ≤ s.rds.length := hn
  show nth s.idx 1 + regionLen s 1 ≤ s.total
  cases hm : (nth s.rds 1).mapped with
  | true => exact (read_region_committed hr 1 (by omega) hm).2.2.1
  | false =>
    rw [regionLen_unmapped s 1 hm]
    have := (C01.consumed_is_stream hr 1 (by omega)).2.2.1
    omega

/-! ## nothing of a write in flight

After `channel_abort_write` (and after a commit) the write side is *idle*: no write pending and, if the channel accepts writes,
nothing mapped beyond `head`. Reader operations and a refusal keep it idle, and a `channel_write_unmap` in that state changes
nothing — which is what `source.c` relies on when the camera hands out an empty frame (abort, then the unconditional unmap). -/

def Idle (s : Sys) : Prop := s.pending = false ∧ (s.c.accepting = true → s.c.mapped = s.c.head)

theorem readMapCore_wside (c : Chan) (r : Rd) (i : Nat) (h : Hold) :
    (readMapCore c r i h).1.head = c.head ∧ (readMapCore c r i h).1.mapped = c.mapped ∧ (readMapCore c r i h).1.accepting = c.accepting := by
  unfold readMapCore setHold
  simp only
  (repeat' split) <;> exact ⟨rfl, rfl, rfl⟩

theorem readMap_wside (c : Chan) (r : Rd) :
    (readMap c r).1.head = c.head ∧ (readMap c r).1.mapped = c.mapped ∧ (readMap c r).1.accepting = c.accepting := by
  unfold readMap readMapAt readerInit
  by_cases hid : r.id > 0
  · simp only [if_pos hid]; exact readMapCore_wside _ _ _ _
  · simp only [if_neg hid]; exact readMapCore_wside _ _ _ _

theorem readUnmap_wside (c : Chan) (r : Rd) (k : Nat) :
    (readUnmap c r k).1.head = c.head ∧ (readUnmap c r k).1.mapped = c.mapped ∧ (readUnmap c r k).1.accepting = c.accepting := by
  unfold readUnmap setHold
  split <;> exact ⟨rfl, rfl, rfl⟩

theorem idle_rmap {s : Sys} (h : Idle s) (i : Nat) : Idle (step s (.rmap i)).1 := by
  unfold Idle at *
  simp only [step]
  split
  · exact h
  · rename_i r _
    have := readMap_wside s.c r
    exact ⟨h.1, by simp only; rw [this.2.2, this.2.1, this.1]; exact h.2⟩

theorem idle_runmap {s : Sys} (h : Idle s) (i k : Nat) : Idle (step s (.runmap i k)).1 := by
  unfold Idle at *
  simp only [step]
  split
  · exact h
  · rename_i r _
    have := readUnmap_wside s.c r k
    exact ⟨h.1, by simp only; rw [this.2.2, this.2.1, this.1]; exact h.2⟩

theorem idle_join {s : Sys} (h : Idle s) : Idle (step s .join).1 := by
  unfold Idle at *
  simp only [step]
  have := readMap_wside s.c {}
  exact ⟨h.1, by rw [this.2.2, this.2.1, this.1]; exact h.2⟩

theorem idle_refuse {s : Sys} (h : Idle s) : Idle (step s (.accept false)).1 := by
  unfold Idle at *
  refine ⟨h.1, ?_⟩
  intro ha
  have : (step s (.accept false)).1.c.accepting = false := rfl
  rw [this] at ha; cases ha

theorem idle_wabort (s : Sys) : Idle (step s .wabort).1 := by
  unfold Idle
  refine ⟨rfl, ?_⟩
  simp only [step, abortWrite]
  split <;> simp_all

/-- a `channel_write_unmap` with nothing in flight changes nothing -/
theorem wcommit_idle {s : Sys} (h : Idle s) : (step s .wcommit).1 = s := by
  obtain ⟨hp, hm⟩ := h
  obtain ⟨c, rds, pending, wbeg, wlen, total, idx, join, bounds⟩ := s
  obtain ⟨cap, head, high, cycle, mapped, accepting, holds⟩ := c
  simp only at hp hm
  subst hp
  cases accepting with
  | false => simp [step]
  | true =>
    have e := hm rfl
    subst e
    simp [step, writeUnmap]

end AcqVerif.Channel
