import AcqVerif.Channel.Sys
/-!
# The channel under threads: an interleaving model at synchronisation-call granularity

Every thread executes a list of channel API calls.  A *step* of a thread is what it
does between two synchronisation calls of `channel.c` (the yield points of the
deterministic scheduler the real code is co-simulated on):

* `lockReq`   parked at `lock_acquire` of its current call; enabled iff the lock is free.
  The step takes the lock, runs the body (one `Sys.step`, atomic because every access
  to the channel's fields is made under this lock), and either
  - reaches `condition_variable_wait` with the lock still held (`waitEntry`), or
  - releases the lock and, for `read_unmap`, `accept_writes` and a `read_map` that moved
    the reader's bookmark, parks at `condition_variable_notify_all` (`notify`), or
  - releases the lock and goes on to the next call.
* `waitEntry` the step atomically releases the lock and enqueues the thread (`asleep`).
* `asleep`    not enabled; a `notify` step of another thread turns it into `woken`.
* `woken`     enabled iff the lock is free: re-acquire, re-evaluate the wait loop.
* `notify`    wake every sleeping thread; go on to the next call.

Calls that return before touching the lock (`write_map` of `n ≥ capacity`, `read_unmap`
of a reader that is not mapped) take no step of their own (`settle`).
-/
namespace AcqVerif.Channel

inductive Pc where
  | start | lockReq | waitEntry | asleep | woken | notify | done
deriving DecidableEq, Repr

structure Thread where
  pc : Pc := .start
  prog : List Op := []      -- remaining calls; the head is the current one
deriving Repr

structure CState where
  sys : Sys
  lock : Option Nat := none  -- owner of the channel lock
  threads : List Thread := []
deriving Repr

instance : Inhabited Thread := ⟨{}⟩

/-- does this call return without ever taking the lock? -/
def skipsLock (s : Sys) : Op → Bool
  | .wmap n => decide (n ≥ s.c.cap)
  | .runmap i _ => match s.rds[i]? with
    | some r => !r.mapped
    | none => true
  | _ => false

/-- skip over calls that take no lock; park at the next call's `lock_acquire` (or finish) -/
def settle (s : Sys) : List Op → Thread
  | [] => { pc := .done, prog := [] }
  | op :: rest => if skipsLock s op then settle s rest else { pc := .lockReq, prog := op :: rest }

/-- does the body of this call end in a `notify_all`? (`s` = state before the body) -/
def notifies (s : Sys) : Op → Bool
  | .runmap _ _ => true
  | .accept _ => true
  | .rmap i =>
    -- `channel_read_map` notifies iff it moved the reader's bookmark (the lap-change branch)
    match s.rds[i]? with
    | some r => decide ((readMap s.c r).1.holds ≠ s.c.holds)
    | none => false
  | _ => false

def setThread (cs : CState) (t : Nat) (th : Thread) : CState :=
  { cs with threads := cs.threads.set t th }

/-- the body of the current call of thread `t`, run under the lock -/
def runBody (cs : CState) (t : Nat) (op : Op) (rest : List Op) : CState :=
  let (s', out) := step cs.sys op
  match op, out with
  | .wmap _, .wblock =>
    -- `condition_variable_wait` entry: keep the lock
    { cs with lock := some t, threads := cs.threads.set t { pc := .waitEntry, prog := op :: rest } }
  | _, _ =>
    if notifies cs.sys op then
      { sys := s', lock := none, threads := cs.threads.set t { pc := .notify, prog := op :: rest } }
    else
      { sys := s', lock := none, threads := cs.threads.set t (settle s' rest) }

/-- one scheduler step of thread `t`; `none` = not enabled -/
def cstep (cs : CState) (t : Nat) : Option CState :=
  match cs.threads[t]? with
  | none => none
  | some th =>
    match th.pc, th.prog with
    | .start, prog => some (setThread cs t (settle cs.sys prog))
    | .lockReq, op :: rest => if cs.lock.isNone then some (runBody cs t op rest) else none
    | .woken, op :: rest => if cs.lock.isNone then some (runBody cs t op rest) else none
    | .waitEntry, prog => some { cs with lock := none, threads := cs.threads.set t { pc := .asleep, prog := prog } }
    | .notify, _ :: rest =>
      let woken := cs.threads.map fun x => if x.pc = .asleep then { x with pc := .woken } else x
      some { cs with threads := woken.set t (settle cs.sys rest) }
    | _, _ => none

def enabled (cs : CState) (t : Nat) : Bool := (cstep cs t).isSome

def CState.init (s : Sys) (progs : List (List Op)) : CState :=
  { sys := s, threads := progs.map fun p => { pc := .start, prog := p } }

/-- run a schedule (list of thread indices); steps that are not enabled are skipped -/
def crun (cs : CState) : List Nat → CState
  | [] => cs
  | t :: ts => match cstep cs t with
    | some cs' => crun cs' ts
    | none => crun cs ts

end AcqVerif.Channel
