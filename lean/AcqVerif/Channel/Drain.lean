import AcqVerif.Channel.InvStep
/-!
# A reader that keeps reading reaches the drained state in a bounded number of calls

With the writer quiescent, `read_map; read_unmap(all)` hands out everything that is
committed in at most two non-empty regions (the rest of the previous lap, then the
current lap); the third `read_map` is empty.
-/
namespace AcqVerif.Channel
open AcqVerif

/-- `channel_read_map` followed by `channel_read_unmap` of the whole region -/
def readAll (s : Sys) (i : Nat) : Sys := (step (step s (.rmap i)).1 (.runmap i s.c.cap)).1

/-- length of the region `channel_read_map` returns to reader `i` -/
def readLen (s : Sys) (i : Nat) : Nat := (readMapAt s.c (nth s.rds i) i).2.2.len

/-- bytes committed but not yet consumed by reader `i` -/
def unread (s : Sys) (i : Nat) : Nat := s.total - nth s.idx i

/-- a read returns everything that is unread, unless the reader still has a non-empty rest of the
previous lap: then it returns that rest and exactly the current lap (`head` bytes) stays unread -/
theorem readLen_spec {s : Sys} {g : Ghost} (h : Inv s g) (i : Nat) (hi : i < s.c.holds.length)
    (hun : (nth s.rds i).mapped = false) :
    (readLen s i = unread s i ∨ (unread s i = readLen s i + s.c.head ∧ 0 < readLen s i)) ∧
    nth s.idx i ≤ s.total := by
  have hrel := (h.rd i hi).1.hold
  have h1 := h.hm; have h2 := h.mc; have h3 := h.hc; have h4 := h.ht
  unfold readLen unread
  have heq : readMapAt s.c (nth s.rds i) i = readMapCore s.c (nth s.rds i) i (nth s.c.holds i) := rfl
  rw [heq]
  rcases readMapCore_cases s.c (nth s.rds i) i s.total (nth s.idx i) (nth s.c.holds i) hun hrel h.hm with
    ⟨e1, e2, e⟩ | ⟨e1, e2, e⟩ | ⟨e1, e2, e3, e⟩ | ⟨e1, e2, e3, e⟩ | ⟨e1, e2, e3, e⟩ <;>
  (rw [e]; unfold HoldRel at hrel; simp only; omega)

theorem runmap_unmaps (s : Sys) (i k : Nat) (hi : i < s.rds.length) :
    (Op.rmap i).wf (step s (.runmap i k)).1 = true := by
  simp only [step, getElem?_eq_some_nth _ _ hi, Op.wf, readUnmap]
  by_cases hm : (nth s.rds i).mapped = true
  · simp [hm, List.getElem?_set, hi]
  · have hm' : (nth s.rds i).mapped = false := by simpa using hm
    simp [hm', List.getElem?_set, hi]

/-- effect of `readAll` on the ghost bookkeeping: the reader advances by the length of the region;
nothing else that matters here changes; the usage rules still hold -/
theorem readAll_spec {cap : Nat} {s : Sys} {g : Ghost} (hr : Reachable cap s g) (i : Nat)
    (hwf : (Op.rmap i).wf s = true) :
    ∃ g', Reachable cap (readAll s i) g' ∧ (Op.rmap i).wf (readAll s i) = true ∧
      (readAll s i).total = s.total ∧ (readAll s i).c.head = s.c.head ∧ (readAll s i).c.cap = s.c.cap ∧
      nth (readAll s i).idx i = nth s.idx i + readLen s i := by
  have h := hr.inv
  obtain ⟨hi, hget, hun⟩ := rmap_wf h hwf
  have hlt : i < s.rds.length := by rw [h.l_rds]; exact hi
  obtain ⟨hinv1, h0, hpos, hst⟩ := h.read_map_at i hi hun
  -- the state after the read
  have hs1 : (step s (.rmap i)).1 =
      { s with c := (readMapAt s.c (nth s.rds i) i).1, rds := s.rds.set i (readMapAt s.c (nth s.rds i) i).2.1 } := by
    simp only [step, hget]; rw [readMap_registered _ _ i (h.rd i hi).1.id]
  have hr1 := hr.step (.rmap i) hwf
  have hwf2 : (Op.runmap i s.c.cap).wf (step s (.rmap i)).1 = true := by
    rw [hs1]; simp only [Op.wf, List.length_set, decide_eq_true_eq]; exact hlt
  have hr2 := hr1.step (.runmap i s.c.cap) hwf2
  have hfields := readMapCore_fields s.c (nth s.rds i) i (nth s.c.holds i)
  have heqc : readMapAt s.c (nth s.rds i) i = readMapCore s.c (nth s.rds i) i (nth s.c.holds i) := rfl
  have hget2 : (s.rds.set i (readMapAt s.c (nth s.rds i) i).2.1)[i]? = some (readMapAt s.c (nth s.rds i) i).2.1 := by
    rw [List.getElem?_set]; simp [hlt]
  refine ⟨_, hr2, ?_, ?_, ?_, ?_, ?_⟩
  · -- still unmapped afterwards
    unfold readAll
    apply runmap_unmaps
    rw [hs1]; simp only [List.length_set]; exact hlt
  · unfold readAll; rw [hs1]; simp only [step, hget2]
  · unfold readAll; rw [hs1]; simp only [step, hget2, readUnmap]
    split
    · simp only; rw [heqc]; exact hfields.2.1
    · simp only [setHold]; rw [heqc]; exact hfields.2.1
  · unfold readAll; rw [hs1]; simp only [step, hget2, readUnmap]
    split
    · simp only; rw [heqc]; exact hfields.2.2.2.2.1
    · simp only [setHold]; rw [heqc]; exact hfields.2.2.2.2.1
  · unfold readAll; rw [hs1]; simp only [step, hget2]
    have g1 : ∀ (l : List Nat) (k : Nat), l.getD k 0 = nth l k := fun _ _ => rfl
    have g2 : ∀ (l : List Hold) (k : Nat), l.getD k default = nth l k := fun _ _ => rfl
    simp only [g1, g2]
    rw [nth_set_eq _ _ _ (by rw [h.l_idx]; exact hi)]
    unfold readLen
    by_cases hl : (readMapAt s.c (nth s.rds i) i).2.2.len = 0
    · rw [hl, (h0 hl).2]; simp
    · obtain ⟨hm, _, hlen, _, hcap⟩ := hpos (by omega)
      have hhigh : (readMapAt s.c (nth s.rds i) i).1.high = s.c.high := by rw [heqc]; exact hfields.1
      rw [hm]; simp only [↓reduceIte]
      rw [hhigh, ← hlen]
      congr 1; omega

/-- **C03.5** — with the writer quiescent, a reader that keeps calling map / unmap(all) obtains an empty
region after at most two non-empty ones: the third `read_map` returns nothing, and the reader is drained. -/
theorem reader_drains_in_three_reads {cap : Nat} {s : Sys} {g : Ghost} (hr : Reachable cap s g) (i : Nat)
    (hwf : (Op.rmap i).wf s = true) :
    readLen (readAll (readAll s i) i) i = 0 ∧ unread (readAll (readAll s i) i) i = 0 := by
  obtain ⟨g1, hr1, hwf1, ht1, hh1, _, hi1⟩ := readAll_spec hr i hwf
  obtain ⟨g2, hr2, hwf2, ht2, hh2, _, hi2⟩ := readAll_spec hr1 i hwf1
  obtain ⟨hi, _, hun⟩ := rmap_wf hr.inv hwf
  obtain ⟨hi', _, hun1⟩ := rmap_wf hr1.inv hwf1
  obtain ⟨hi'', _, hun2⟩ := rmap_wf hr2.inv hwf2
  have a0 := readLen_spec hr.inv i hi hun
  have a1 := readLen_spec hr1.inv i hi' hun1
  have a2 := readLen_spec hr2.inv i hi'' hun2
  unfold unread at *
  omega

end AcqVerif.Channel
