import AcqVerif.Channel.Model
import AcqVerif.Generated.ChannelC
/-!
# The model computes what the translated `channel.c` computes

`Generated/ChannelC.lean` is produced on every run by `extract/c2lean.py` from the source as it is now.
This file relates those definitions to the hand-written model of `Channel/Model.lean` (about which every
C01 / C02 / C03 / C05 theorem is proved), function by function, for **all** arguments:
the abstraction `abs` forgets the lock, the data address and the unused tail of the `holds` arrays.
A change of `channel.c` that changes what one of these functions computes makes the corresponding theorem
fail to check (the property check then reports it, and the differential run looks for an input).
-/
namespace AcqVerif.Channel.Translated
open AcqVerif.Channel AcqVerif.Generated.ChannelC

/-- the first `n` entries of the two `holds` arrays as the model's list of holds -/
def holdsOf (pos cyc : List Nat) (n : Nat) : List Hold := (List.range n).map fun i => ⟨pos.getD i 0, cyc.getD i 0⟩

def abs (s : CChannel) : Chan :=
  { cap := s.capacity, head := s.head, high := s.high, cycle := s.cycle, mapped := s.mapped,
    accepting := decide (s.is_accepting_writes ≠ 0), holds := holdsOf s.holds_pos s.holds_cycles s.holds_n }

def absRd (r : CReader) : Rd :=
  { id := r.id, pos := r.pos, cyc := r.cycle, status := r.status, mapped := decide (r.state = ChannelState_Mapped) }

/-! ## `cursor_cmp`, `reader_min` -/

theorem cursor_cmp_gt (ca pa cb pb : Nat) :
    (cursor_cmp ca pa cb pb = 1) ↔ Hold.gt ⟨pa, ca⟩ ⟨pb, cb⟩ = true := by
  unfold cursor_cmp Hold.gt
  simp only [decide_eq_true_eq]
  split
  · constructor
    · intro h; cases h
    · intro h; omega
  · split
    · constructor
      · intro _; omega
      · intro _; rfl
    · split
      · constructor
        · intro h; cases h
        · intro h; omega
      · split
        · constructor
          · intro _; omega
          · intro _; rfl
        · constructor
          · intro h; cases h
          · intro h; omega

/-- one iteration of the loop of `reader_min` -/
def rmStep (tails cycles : List Nat) (st : Nat × Nat × Nat) (i : Nat) : Nat × Nat × Nat :=
  if cursor_cmp st.2.1 st.1 (cycles.getD i 0) (tails.getD i 0) = 1 then (tails.getD i 0, cycles.getD i 0, i) else st

theorem reader_min_unfold (tails cycles : List Nat) (n : Nat) :
    reader_min tails cycles n =
      ((List.range' 1 (n - 1)).foldl (rmStep tails cycles) (tails.getD 0 0, cycles.getD 0 0, 0)).2.2 := by
  rfl

theorem rm_fold (tails cycles : List Nat) (is : List Nat) (t c a : Nat)
    (ht : t = tails.getD a 0) (hc : c = cycles.getD a 0) :
    let r := is.foldl (rmStep tails cycles) (t, c, a)
    (⟨r.1, r.2.1⟩ : Hold) = minHold ⟨t, c⟩ (is.map fun i => ⟨tails.getD i 0, cycles.getD i 0⟩) ∧
      r.1 = tails.getD r.2.2 0 ∧ r.2.1 = cycles.getD r.2.2 0 ∧ (r.2.2 = a ∨ r.2.2 ∈ is) := by
  induction is generalizing t c a with
  | nil => simp [minHold, ht, hc]
  | cons i rest ih =>
    simp only [List.foldl_cons, List.map_cons, minHold]
    by_cases hg : cursor_cmp c t (cycles.getD i 0) (tails.getD i 0) = 1
    · have hg' := (cursor_cmp_gt c t (cycles.getD i 0) (tails.getD i 0)).1 hg
      have : rmStep tails cycles (t, c, a) i = (tails.getD i 0, cycles.getD i 0, i) := by unfold rmStep; exact if_pos hg
      rw [this, hg']
      simp only [↓reduceIte]
      obtain ⟨h1, h2, h3, h4⟩ := ih (tails.getD i 0) (cycles.getD i 0) i rfl rfl
      refine ⟨h1, h2, h3, ?_⟩
      rcases h4 with h4 | h4
      · right; rw [h4]; exact List.mem_cons_self
      · right; exact List.mem_cons_of_mem _ h4
    · have hg' : Hold.gt ⟨t, c⟩ ⟨tails.getD i 0, cycles.getD i 0⟩ = false := by
        cases h : Hold.gt ⟨t, c⟩ ⟨tails.getD i 0, cycles.getD i 0⟩ with
        | false => rfl
        | true => exact absurd ((cursor_cmp_gt c t (cycles.getD i 0) (tails.getD i 0)).2 h) hg
      have : rmStep tails cycles (t, c, a) i = (t, c, a) := by unfold rmStep; exact if_neg hg
      rw [this, hg']
      simp only [Bool.false_eq_true, ↓reduceIte]
      obtain ⟨h1, h2, h3, h4⟩ := ih t c a ht hc
      refine ⟨h1, h2, h3, ?_⟩
      rcases h4 with h4 | h4
      · left; exact h4
      · right; exact List.mem_cons_of_mem _ h4

theorem holdsOf_succ (pos cyc : List Nat) (n : Nat) :
    holdsOf pos cyc (n + 1) = ⟨pos.getD 0 0, cyc.getD 0 0⟩ :: (List.range' 1 n).map fun i => ⟨pos.getD i 0, cyc.getD i 0⟩ := by
  unfold holdsOf
  rw [List.range_eq_range', List.range'_succ]
  simp

/-- **`reader_min`** returns the index of the hold the model's `readerMin` returns (first among equals), for any array contents
and any `n ≥ 1` -/
theorem reader_min_spec (pos cyc : List Nat) (n : Nat) (hn : 1 ≤ n) :
    reader_min pos cyc n < n ∧
      (⟨pos.getD (reader_min pos cyc n) 0, cyc.getD (reader_min pos cyc n) 0⟩ : Hold) = readerMin (holdsOf pos cyc n) := by
  obtain ⟨m, rfl⟩ : ∃ m, n = m + 1 := ⟨n - 1, by omega⟩
  rw [reader_min_unfold, holdsOf_succ]
  simp only [Nat.add_sub_cancel, readerMin]
  obtain ⟨h1, h2, h3, h4⟩ := rm_fold pos cyc (List.range' 1 m) (pos.getD 0 0) (cyc.getD 0 0) 0 rfl rfl
  constructor
  · rcases h4 with h4 | h4
    · rw [h4]; omega
    · have := List.mem_range'_1.1 h4; omega
  · rw [← h1, h2, h3]

/-! ## `get_available_byte_count` -/

theorem get_available_byte_count_eq (r : CReader) (pos cyc high : Nat) :
    get_available_byte_count r pos cyc high = availBytes (absRd r) ⟨pos, cyc⟩ high := by
  unfold get_available_byte_count availBytes absRd
  simp only
  split <;> split <;> simp_all

/-! ## `next_write` -/

/-- **`next_write`** decides and places exactly as the model's `nextWrite`: it returns 0 iff the model says "no room", and
otherwise 1 together with the model's offset and wrap flag — for every channel state with at least one reader, request size
and previous contents of the two out-parameters -/
theorem next_write_eq (s : CChannel) (n b w : Nat) (hn : 1 ≤ s.holds_n) :
    (nextWrite (abs s) n = .no → (next_write s n b w).1 = 0) ∧
    (∀ beg wrap, nextWrite (abs s) n = .at beg wrap → next_write s n b w = (1, beg, if wrap then 1 else 0)) := by
  obtain ⟨_, hm⟩ := reader_min_spec s.holds_pos s.holds_cycles s.holds_n hn
  unfold next_write nextWrite abs
  simp only [← hm]
  generalize s.holds_pos.getD (reader_min s.holds_pos s.holds_cycles s.holds_n) 0 = tail
  generalize s.holds_cycles.getD (reader_min s.holds_pos s.holds_cycles s.holds_n) 0 = tc
  by_cases ha : s.is_accepting_writes = 0
  · simp [ha]
  · simp only [ne_eq, ha, not_false_eq_true, decide_true, Bool.not_true, Bool.false_eq_true, ↓reduceIte]
    constructor
    · intro h
      repeat' split at h
      all_goals first | cases h | skip
      all_goals (repeat' split) <;> simp_all <;> omega
    · intro beg wrap h
      repeat' split at h
      all_goals first | (cases h) | skip
      all_goals (repeat' split) <;> simp_all <;> omega

/-! ## `channel_write_map` -/

/-- the arrays are long enough for the readers that are registered (they have `MAX_READERS` = 8 entries in the C) -/
def Wf (s : CChannel) : Prop := s.holds_n ≤ s.holds_pos.length ∧ s.holds_n ≤ s.holds_cycles.length

/-- one iteration of the loop that resets every bookmark when the writer starts over -/
def resetStep (self : CChannel) (i : Nat) : CChannel :=
  let self := { self with holds_pos := self.holds_pos.set i (0) }
  let self := { self with holds_cycles := self.holds_cycles.set i (self.cycle) }
  self

theorem getD_set (l : List Nat) (i j v : Nat) :
    (l.set i v).getD j 0 = if i = j ∧ i < l.length then v else l.getD j 0 := by
  simp only [List.getD_eq_getElem?_getD, List.getElem?_set]
  by_cases h : i = j
  · subst h
    by_cases h2 : i < l.length
    · simp [h2]
    · simp [h2, List.getElem?_eq_none (Nat.le_of_not_lt h2)]
  · simp [h]

theorem reset_fold (s : CChannel) (k : Nat) (h1 : k ≤ s.holds_pos.length) (h2 : k ≤ s.holds_cycles.length) :
    let r := (List.range' 0 k).foldl resetStep s
    r = { s with holds_pos := r.holds_pos, holds_cycles := r.holds_cycles } ∧
    r.holds_pos.length = s.holds_pos.length ∧ r.holds_cycles.length = s.holds_cycles.length ∧
    (∀ j, r.holds_pos.getD j 0 = if j < k then 0 else s.holds_pos.getD j 0) ∧
    (∀ j, r.holds_cycles.getD j 0 = if j < k then s.cycle else s.holds_cycles.getD j 0) := by
  induction k with
  | zero => simp
  | succ k ih =>
    obtain ⟨e, l1, l2, g1, g2⟩ := ih (by omega) (by omega)
    rw [List.range'_concat, List.foldl_append]
    simp only [List.foldl_cons, List.foldl_nil, Nat.zero_add, Nat.one_mul]
    generalize (List.range' 0 k).foldl resetStep s = r at e l1 l2 g1 g2
    have hc : r.cycle = s.cycle := by rw [e]
    refine ⟨?_, ?_, ?_, ?_, ?_⟩
    · unfold resetStep; simp only; rw [e]
    · unfold resetStep; simp [l1]
    · unfold resetStep; simp [l2]
    · intro j
      unfold resetStep
      simp only [getD_set, g1, l1]
      by_cases hj : k = j
      · subst hj; simp; omega
      · simp only [hj, false_and, ↓reduceIte]
        by_cases hj2 : j < k
        · simp [hj2]; omega
        · simp [hj2]; omega
    · intro j
      unfold resetStep
      simp only [getD_set, g2, l2, hc]
      by_cases hj : k = j
      · subst hj; simp; omega
      · simp only [hj, false_and, ↓reduceIte]
        by_cases hj2 : j < k
        · simp [hj2]; omega
        · simp [hj2]; omega

theorem holdsOf_isEmpty (p c : List Nat) (n : Nat) : (holdsOf p c n).isEmpty = decide (n = 0) := by
  unfold holdsOf
  cases n <;> simp [List.range_succ]

theorem holdsOf_reset (s : CChannel) (hw : Wf s) (cy : Nat) (s1 : CChannel) (hp : s1.holds_pos = s.holds_pos)
    (hc : s1.holds_cycles = s.holds_cycles) (hn : s1.holds_n = s.holds_n) (hcy : s1.cycle = cy) :
    let r := (List.range' 0 (s1.holds_n - 0)).foldl resetStep s1
    holdsOf r.holds_pos r.holds_cycles s.holds_n = (holdsOf s.holds_pos s.holds_cycles s.holds_n).map (fun _ => ⟨0, cy⟩) := by
  obtain ⟨_, _, _, g1, g2⟩ := reset_fold s1 s1.holds_n (by rw [hn, hp]; exact hw.1) (by rw [hn, hc]; exact hw.2)
  simp only [Nat.sub_zero]
  unfold holdsOf
  simp only [List.map_map]
  apply List.map_congr_left
  intro i hi
  have : i < s1.holds_n := by rw [hn]; exact List.mem_range.1 hi
  have e1 := g1 i
  have e2 := g2 i
  simp only [this, ↓reduceIte] at e1 e2
  simp only [Function.comp, e1, e2, hcy]

/-- what `channel_write_map` does once `next_write` has found room at `beg` (`w` = its wrap flag) -/
def wmTail (s : CChannel) (beg w n : Nat) : Nat × CChannel :=
  let s1 := if beg ≠ s.head then { s with high := s.head, head := beg, cycle := s.cycle + 1 } else s
  let s2 := if w ≠ 0 then (List.range' 0 (s1.holds_n - 0)).foldl resetStep s1 else s1
  (s2.data + beg, { s2 with mapped := beg + n })

theorem wm_at (s : CChannel) (n beg w : Nat) (hcap : ¬ n ≥ s.capacity) (hn0 : ¬ s.holds_n = 0) (ha : ¬ s.is_accepting_writes = 0)
    (h1 : next_write s n 0 0 = (1, beg, w)) : channel_write_map s n = wmTail s beg w n := by
  unfold channel_write_map wmTail
  simp only [hcap, ↓reduceIte, ne_eq, hn0, not_false_eq_true, Int.natCast_eq_zero, ha, h1, Nat.succ_ne_zero]
  by_cases hb : beg = s.head <;> by_cases hw : w = 0 <;> simp only [hb, hw, not_true_eq_false, not_false_eq_true, ↓reduceIte] <;> rfl

/-- **`channel_write_map`** against the model's `writeMap`, for every state and request: it returns a null pointer and changes
nothing exactly when the model says `.null`; it reaches `condition_variable_wait` (ghost `blocked`), having changed nothing else,
exactly when the model says `.block`; otherwise it returns `data + beg` for the model's `beg` and leaves the model's new state. -/
theorem channel_write_map_eq (s : CChannel) (n : Nat) (hw : Wf s) :
    match writeMap (abs s) n with
    | .null => channel_write_map s n = (0, s)
    | .block => channel_write_map s n = (0, { s with blocked := 1 })
    | .ok beg c' => (channel_write_map s n).1 = s.data + beg ∧ abs (channel_write_map s n).2 = c' ∧
        (channel_write_map s n).2.blocked = s.blocked ∧ (channel_write_map s n).2.notified = s.notified ∧
        (channel_write_map s n).2.data = s.data ∧
        (channel_write_map s n).2.holds_pos.length = s.holds_pos.length ∧
        (channel_write_map s n).2.holds_cycles.length = s.holds_cycles.length := by
  unfold writeMap
  by_cases hcap : n ≥ s.capacity
  · have : n ≥ (abs s).cap := hcap
    simp only [this, ↓reduceIte]
    unfold channel_write_map; simp [hcap]
  · have h0 : ¬ n ≥ (abs s).cap := hcap
    simp only [h0, ↓reduceIte]
    have he : (abs s).holds.isEmpty = decide (s.holds_n = 0) := holdsOf_isEmpty _ _ _
    by_cases hn0 : s.holds_n = 0
    · simp only [he, hn0, decide_true, ↓reduceIte]
      unfold channel_write_map
      simp only [hcap, hn0, ↓reduceIte, ne_eq, not_true_eq_false]
      by_cases hwrap : s.head + n ≥ s.capacity
      · have : (abs s).head + n ≥ (abs s).cap := hwrap
        simp [this, hwrap, abs, hn0, holdsOf]
      · have : ¬ (abs s).head + n ≥ (abs s).cap := hwrap
        simp [this, hwrap, abs, hn0, holdsOf]
    · simp only [he, hn0, decide_false, Bool.false_eq_true, ↓reduceIte]
      by_cases ha : s.is_accepting_writes = 0
      · have : (abs s).accepting = false := by simp [abs, ha]
        simp only [this, Bool.not_false, ↓reduceIte]
        unfold channel_write_map
        simp [hcap, hn0, ha]
      · have hacc : (abs s).accepting = true := by simp [abs, ha]
        simp only [hacc, Bool.not_true, Bool.false_eq_true, ↓reduceIte]
        obtain ⟨hno, hat⟩ := next_write_eq s n 0 0 (by omega)
        cases hnw : nextWrite (abs s) n with
        | no =>
          have h1 := hno hnw
          unfold channel_write_map
          simp only [hcap, ↓reduceIte, ne_eq, hn0, not_false_eq_true, ha]
          cases hc : next_write s n 0 0 with
          | mk r bw =>
            cases bw with
            | mk b' w' =>
              rw [hc] at h1
              simp only at h1
              subst h1
              simp
              intro h; exact absurd h ha
        | «at» beg wrap =>
          have h1 := hat beg wrap hnw
          rw [wm_at s n beg _ hcap hn0 ha h1]
          unfold wmTail
          cases wrap with
          | false =>
            by_cases hb : beg = s.head
            · subst hb; simp [abs, ha]
            · simp [hb, abs, ha]
          | true =>
            simp only [↓reduceIte, ne_eq, Nat.succ_ne_zero, not_false_eq_true]
            generalize hs1 : (if ¬ beg = s.head then ({ s with high := s.head, head := beg, cycle := s.cycle + 1 } : CChannel) else s) = s1
            have e1 : s1.holds_pos = s.holds_pos := by rw [← hs1]; split <;> rfl
            have e2 : s1.holds_cycles = s.holds_cycles := by rw [← hs1]; split <;> rfl
            have e3 : s1.holds_n = s.holds_n := by rw [← hs1]; split <;> rfl
            have hh := holdsOf_reset s hw s1.cycle s1 e1 e2 e3 rfl
            obtain ⟨hr, hl1, hl2, _, _⟩ := reset_fold s1 s1.holds_n (by rw [e3, e1]; exact hw.1) (by rw [e3, e2]; exact hw.2)
            simp only [Nat.sub_zero] at hh hr hl1 hl2 ⊢
            generalize List.foldl resetStep s1 (List.range' 0 s1.holds_n) = R at hr hh hl1 hl2 ⊢
            rw [e1] at hl1
            rw [e2] at hl2
            have f1 : R.data = s1.data := by rw [hr]
            have f2 : R.capacity = s1.capacity := by rw [hr]
            have f3 : R.head = s1.head := by rw [hr]
            have f4 : R.high = s1.high := by rw [hr]
            have f5 : R.cycle = s1.cycle := by rw [hr]
            have f6 : R.is_accepting_writes = s1.is_accepting_writes := by rw [hr]
            have f7 : R.holds_n = s1.holds_n := by rw [hr]
            have f8 : R.notified = s1.notified := by rw [hr]
            have f9 : R.blocked = s1.blocked := by rw [hr]
            by_cases hb : beg = s.head
            · subst hb
              simp only [not_true_eq_false, ↓reduceIte] at hs1
              subst hs1
              simp [abs, ha, f1, f2, f3, f4, f5, f6, f7, f8, f9, hh, hl1, hl2]
            · simp only [hb, not_false_eq_true, ↓reduceIte] at hs1
              subst hs1
              simp [abs, ha, hb, f1, f2, f3, f4, f5, f6, f7, f8, f9, hh, hl1, hl2]

/-! ## `channel_write_unmap`, `channel_abort_write`, `channel_accept_writes` -/

theorem channel_write_unmap_eq (s : CChannel) :
    abs (channel_write_unmap s) = writeUnmap (abs s) ∧ (channel_write_unmap s).notified = s.notified ∧
      (channel_write_unmap s).blocked = s.blocked ∧ (channel_write_unmap s).data = s.data := by
  unfold channel_write_unmap writeUnmap abs
  by_cases h : s.is_accepting_writes = 0 <;> simp [h]

theorem channel_abort_write_eq (s : CChannel) :
    abs (channel_abort_write s) = abortWrite (abs s) ∧ (channel_abort_write s).notified = s.notified ∧
      (channel_abort_write s).blocked = s.blocked ∧ (channel_abort_write s).data = s.data := by
  unfold channel_abort_write abortWrite abs
  by_cases h : s.is_accepting_writes = 0 <;> simp [h]

/-- the flag is stored in an `unsigned char`: `tf` is taken modulo 256 (callers pass 0 or 1), and the call always notifies -/
theorem channel_accept_writes_eq (s : CChannel) (tf : Nat) :
    abs (channel_accept_writes s tf) = acceptWrites (abs s) (decide (tf % 256 ≠ 0)) ∧
      (channel_accept_writes s tf).notified = s.notified + 1 := by
  unfold channel_accept_writes acceptWrites abs
  simp

/-! ## the reader side: `reader_initialize`, `channel_read_map`, `channel_read_unmap` -/

theorem holdsOf_length (p c : List Nat) (n : Nat) : (holdsOf p c n).length = n := by simp [holdsOf]

theorem holdsOf_getD (p c : List Nat) (n i : Nat) (h : i < n) :
    (holdsOf p c n).getD i default = ⟨p.getD i 0, c.getD i 0⟩ := by
  simp [holdsOf, List.getD_eq_getElem?_getD, h]

theorem holdsOf_snoc (p c : List Nat) (n : Nat) :
    holdsOf p c (n + 1) = holdsOf p c n ++ [⟨p.getD n 0, c.getD n 0⟩] := by
  simp [holdsOf, List.range_succ]

theorem holdsOf_congr (p c p' c' : List Nat) (n : Nat)
    (h : ∀ i, i < n → p.getD i 0 = p'.getD i 0 ∧ c.getD i 0 = c'.getD i 0) : holdsOf p c n = holdsOf p' c' n := by
  unfold holdsOf
  apply List.map_congr_left
  intro i hi
  obtain ⟨h1, h2⟩ := h i (List.mem_range.1 hi)
  rw [h1, h2]

theorem holdsOf_set (p c : List Nat) (n i v w : Nat) (hi : i < n) (hp : n ≤ p.length) (hc : n ≤ c.length) :
    holdsOf (p.set i v) (c.set i w) n = (holdsOf p c n).set i ⟨v, w⟩ := by
  apply List.ext_getElem
  · simp [holdsOf_length]
  · intro j h1 h2
    simp only [holdsOf_length, List.length_set] at h1 h2
    simp only [holdsOf, List.getElem_map, List.getElem_range, List.getElem_set, getD_set]
    by_cases hj : i = j
    · subst hj
      have : i < p.length := by omega
      have : i < c.length := by omega
      simp [*]
    · simp [hj]

/-- **`reader_initialize`** is the model's `readerInit` (given room in the arrays for one more reader) -/
theorem reader_initialize_eq (s : CChannel) (r : CReader)
    (hroom : r.id = 0 → s.holds_n < s.holds_pos.length ∧ s.holds_n < s.holds_cycles.length) :
    abs (reader_initialize s r).2.1 = (readerInit (abs s) (absRd r)).1 ∧
    absRd (reader_initialize s r).2.2 = (readerInit (abs s) (absRd r)).2 ∧
    (reader_initialize s r).2.1.notified = s.notified ∧ (reader_initialize s r).2.1.blocked = s.blocked ∧
    (reader_initialize s r).2.1.data = s.data ∧ (Wf s → Wf (reader_initialize s r).2.1) ∧
    ((reader_initialize s r).2.2.id ≠ 0) ∧ (r.id ≠ 0 → (reader_initialize s r).2 = (s, r)) ∧
    (r.id = 0 → (reader_initialize s r).2.2.id = (reader_initialize s r).2.1.holds_n) := by
  unfold reader_initialize readerInit
  by_cases hid : r.id > 0
  · simp [hid, absRd]; omega
  · have h0 : r.id = 0 := by omega
    obtain ⟨hp, hc⟩ := hroom h0
    simp only [hid, ↓reduceIte, absRd, h0, Nat.lt_irrefl]
    have hh : holdsOf (s.holds_pos.set (s.holds_n + 1 - 1) 0) (s.holds_cycles.set (s.holds_n + 1 - 1) s.cycle) (s.holds_n + 1) =
        holdsOf s.holds_pos s.holds_cycles s.holds_n ++ [⟨0, s.cycle⟩] := by
      rw [holdsOf_snoc]
      simp only [Nat.add_sub_cancel, getD_set, hp, hc, and_self, ↓reduceIte]
      congr 1
      apply holdsOf_congr
      intro i hi
      simp only [getD_set]
      have : ¬ s.holds_n = i := by omega
      simp [this]
    by_cases h8 : s.holds_n + 1 ≥ 8 <;>
      (simp only [Nat.add_sub_cancel] at hh; simp [h8, abs, hh, holdsOf_length, Wf]; omega)

theorem getD_set_self (l : List Nat) (i v : Nat) (h : i < l.length) : (l.set i v).getD i 0 = v := by
  simp [getD_set, h]

theorem holdsOf_set_pos (p c : List Nat) (n i v : Nat) (hi : i < n) (hp : n ≤ p.length) :
    holdsOf (p.set i v) c n = (holdsOf p c n).set i ⟨v, c.getD i 0⟩ := by
  apply List.ext_getElem
  · simp [holdsOf_length]
  · intro j h1 h2
    simp only [holdsOf_length, List.length_set] at h1 h2
    simp only [holdsOf, List.getElem_map, List.getElem_range, List.getElem_set, getD_set]
    by_cases hj : i = j
    · subst hj
      have : i < p.length := by omega
      simp [*]
    · simp [hj]

theorem holdsOf_set_cyc (p c : List Nat) (n i w : Nat) (hi : i < n) (hc : n ≤ c.length) :
    holdsOf p (c.set i w) n = (holdsOf p c n).set i ⟨p.getD i 0, w⟩ := by
  apply List.ext_getElem
  · simp [holdsOf_length]
  · intro j h1 h2
    simp only [holdsOf_length, List.length_set] at h1 h2
    simp only [holdsOf, List.getElem_map, List.getElem_range, List.getElem_set, getD_set]
    by_cases hj : i = j
    · subst hj
      have : i < c.length := by omega
      simp [*]
    · simp [hj]

/-- **`channel_read_unmap`** is the model's `readUnmap` for every registered reader (`1 ≤ id ≤ n`), every consumed count and every
state; it notifies exactly when the reader was mapped -/
theorem channel_read_unmap_eq (s : CChannel) (r : CReader) (k : Nat) (hw : Wf s) (h1 : 1 ≤ r.id) (h2 : r.id ≤ s.holds_n) :
    abs (channel_read_unmap s r k).1 = (readUnmap (abs s) (absRd r) k).1 ∧
    absRd (channel_read_unmap s r k).2 = (readUnmap (abs s) (absRd r) k).2 ∧
    (channel_read_unmap s r k).1.notified = (if r.state = ChannelState_Mapped then s.notified + 1 else s.notified) ∧
    (channel_read_unmap s r k).1.blocked = s.blocked ∧ (channel_read_unmap s r k).1.data = s.data ∧
    Wf (channel_read_unmap s r k).1 := by
  obtain ⟨wp, wc⟩ := hw
  have hi : r.id - 1 < s.holds_n := by omega
  have hip : r.id - 1 < s.holds_pos.length := by omega
  have hic : r.id - 1 < s.holds_cycles.length := by omega
  unfold channel_read_unmap readUnmap
  by_cases hm : r.state = ChannelState_Mapped
  · have hm' : (absRd r).mapped = true := by simp [absRd, hm]
    simp only [hm, ne_eq, not_true_eq_false, ↓reduceIte, hm', Bool.not_true, Bool.false_eq_true, Nat.zero_add]
    have hg : (abs s).holds.getD ((absRd r).id - 1) default = ⟨s.holds_pos.getD (r.id - 1) 0, s.holds_cycles.getD (r.id - 1) 0⟩ :=
      holdsOf_getD _ _ _ _ hi
    rw [hg]
    simp only [get_available_byte_count_eq]
    unfold unmapHold setHold
    generalize hP : s.holds_pos.getD (r.id - 1) 0 = P
    generalize hC : s.holds_cycles.getD (r.id - 1) 0 = Cc
    generalize hL : availBytes (absRd r) ⟨P, Cc⟩ s.high = L
    have hL' : availBytes (absRd r) ⟨P, Cc⟩ (abs s).high = L := hL
    simp only [hL']
    have hmin : (if L < k then L else k) = min L k := by
      by_cases h : L < k
      · simp [h]; omega
      · simp [h]; omega
    simp only [hmin]
    by_cases hk : min L k ≥ L
    · simp only [hk, ↓reduceIte, getD_set_self _ _ _ hip, getD_set_self _ _ _ (show r.id - 1 < (s.holds_pos.set (r.id-1) r.pos).length by simpa using hip),
        List.length_set]
      repeat' split
      all_goals (simp_all [abs, absRd, Wf, holdsOf_set_pos, holdsOf_set_cyc, List.set_set, getD_set, ChannelState_Mapped, ChannelState_Unmapped] <;> omega)
    · simp only [hk, ↓reduceIte, getD_set_self _ _ _ hip]
      repeat' split
      all_goals (simp_all [abs, absRd, Wf, holdsOf_set_pos, holdsOf_set_cyc, List.set_set, getD_set, ChannelState_Mapped, ChannelState_Unmapped] <;> omega)
  · have hm' : (absRd r).mapped = false := by simp [absRd, hm]
    simp [hm, hm', Wf, wp, wc]

/-- **`channel_read_map`** is the model's `readMap`: same new channel state, same reader record, a region of the model's length
that starts at `data + beg` when it is not empty — for every state and every reader that is unregistered (with room for it) or
registered (`id ≤ n`), mapped or not -/
theorem channel_read_map_eq (s : CChannel) (r : CReader) (hw : Wf s)
    (hroom : r.id = 0 → s.holds_n < s.holds_pos.length ∧ s.holds_n < s.holds_cycles.length) (hid : r.id ≤ s.holds_n) :
    abs (channel_read_map s r).2.1 = (readMap (abs s) (absRd r)).1 ∧
    absRd (channel_read_map s r).2.2 = (readMap (abs s) (absRd r)).2.1 ∧
    (channel_read_map s r).1.2 = (channel_read_map s r).1.1 + (readMap (abs s) (absRd r)).2.2.len ∧
    ((readMap (abs s) (absRd r)).2.2.len ≠ 0 → (channel_read_map s r).1.1 = s.data + (readMap (abs s) (absRd r)).2.2.beg) ∧
    (channel_read_map s r).2.1.blocked = s.blocked ∧ (channel_read_map s r).2.1.data = s.data ∧ Wf (channel_read_map s r).2.1 ∧
    -- a bookmark that moves releases space: the writer is notified (at most once per call)
    ((readMap (abs s) (absRd r)).1.holds ≠ (readerInit (abs s) (absRd r)).1.holds → (channel_read_map s r).2.1.notified = s.notified + 1) ∧
    ((channel_read_map s r).2.1.notified = s.notified ∨ (channel_read_map s r).2.1.notified = s.notified + 1) := by
  obtain ⟨e1, e2, e3, e4, e5, e6, e7, e8, e9⟩ := reader_initialize_eq s r hroom
  unfold channel_read_map readMap
  cases hri : reader_initialize s r with
  | mk ret p =>
    cases p with
    | mk s1 r1 =>
      rw [hri] at e1 e2 e3 e4 e5 e6 e7 e8 e9
      simp only at e1 e2 e3 e4 e5 e6 e7 e8 e9
      have hid1 : r1.id ≤ s1.holds_n := by
        by_cases h0 : r.id = 0
        · rw [e9 h0]; exact Nat.le_refl _
        · have := e8 h0; simp only [Prod.mk.injEq] at this; rw [this.1, this.2]; exact hid
      obtain ⟨wp, wc⟩ := e6 hw
      have hi : r1.id - 1 < s1.holds_n := by omega
      have hip : r1.id - 1 < s1.holds_pos.length := by omega
      have hic : r1.id - 1 < s1.holds_cycles.length := by omega
      cases hmi : readerInit (abs s) (absRd r) with
      | mk c r' =>
        rw [hmi] at e1 e2
        simp only at e1 e2
        subst e1 e2
        simp only [Nat.zero_add]
        unfold readMapAt readMapCore setHold
        have hg : (abs s1).holds.getD ((absRd r1).id - 1) default = ⟨s1.holds_pos.getD (r1.id - 1) 0, s1.holds_cycles.getD (r1.id - 1) 0⟩ :=
          holdsOf_getD _ _ _ _ hi
        rw [hg]
        generalize hP : s1.holds_pos.getD (r1.id - 1) 0 = P
        generalize hC : s1.holds_cycles.getD (r1.id - 1) 0 = Cy
        rw [← e5, ← e4, ← e3]
        dsimp only [abs, absRd]
        by_cases hm : r1.state = ChannelState_Mapped
        · (simp_all [abs, absRd, Wf, holdsOf_set_pos, holdsOf_set_cyc, List.set_set, getD_set, ChannelState_Mapped, ChannelState_Unmapped,
            Channel_Error, Channel_Expected_Unmapped_Reader] <;> omega)
        · simp only [hm, ↓reduceIte]
          by_cases hPe : P = s1.head
          · by_cases hCe : Cy = s1.cycle
            · (simp_all [abs, absRd, Wf, holdsOf_set_pos, holdsOf_set_cyc, List.set_set, getD_set, ChannelState_Mapped, ChannelState_Unmapped,
            Channel_Error, Channel_Expected_Unmapped_Reader] <;> omega)
            · have hnl : ¬ P < s1.head := by omega
              simp only [hPe, hCe, hnl, ↓reduceIte, Nat.lt_irrefl]
              by_cases hC1 : s1.cycle = Cy + 1
              · by_cases hN : s1.high - s1.head = 0
                · by_cases hH : s1.head = 0
                  · (simp_all [abs, absRd, Wf, holdsOf_set_pos, holdsOf_set_cyc, List.set_set, getD_set, ChannelState_Mapped, ChannelState_Unmapped,
            Channel_Error, Channel_Expected_Unmapped_Reader] <;> omega)
                  · (simp_all [abs, absRd, Wf, holdsOf_set_pos, holdsOf_set_cyc, List.set_set, getD_set, ChannelState_Mapped, ChannelState_Unmapped,
            Channel_Error, Channel_Expected_Unmapped_Reader] <;> omega)
                · (simp_all [abs, absRd, Wf, holdsOf_set_pos, holdsOf_set_cyc, List.set_set, getD_set, ChannelState_Mapped, ChannelState_Unmapped,
            Channel_Error, Channel_Expected_Unmapped_Reader] <;> omega)
              · (simp_all [abs, absRd, Wf, holdsOf_set_pos, holdsOf_set_cyc, List.set_set, getD_set, ChannelState_Mapped, ChannelState_Unmapped,
            Channel_Error, Channel_Expected_Unmapped_Reader] <;> omega)
          · simp only [hPe, ↓reduceIte]
            by_cases hLt : P < s1.head
            · have hnz : ¬ (s1.head - P = 0) := by omega
              by_cases hCe : Cy = s1.cycle
              · (simp_all [abs, absRd, Wf, holdsOf_set_pos, holdsOf_set_cyc, List.set_set, getD_set, ChannelState_Mapped, ChannelState_Unmapped,
            Channel_Error, Channel_Expected_Unmapped_Reader] <;> omega)
              · (simp_all [abs, absRd, Wf, holdsOf_set_pos, holdsOf_set_cyc, List.set_set, getD_set, ChannelState_Mapped, ChannelState_Unmapped,
            Channel_Error, Channel_Expected_Unmapped_Reader] <;> omega)
            · simp only [hLt, ↓reduceIte]
              by_cases hC1 : s1.cycle = Cy + 1
              · by_cases hN : s1.high - P = 0
                · by_cases hH : s1.head = 0
                  · (simp_all [abs, absRd, Wf, holdsOf_set_pos, holdsOf_set_cyc, List.set_set, getD_set, ChannelState_Mapped, ChannelState_Unmapped,
            Channel_Error, Channel_Expected_Unmapped_Reader] <;> omega)
                  · (simp_all [abs, absRd, Wf, holdsOf_set_pos, holdsOf_set_cyc, List.set_set, getD_set, ChannelState_Mapped, ChannelState_Unmapped,
            Channel_Error, Channel_Expected_Unmapped_Reader] <;> omega)
                · (simp_all [abs, absRd, Wf, holdsOf_set_pos, holdsOf_set_cyc, List.set_set, getD_set, ChannelState_Mapped, ChannelState_Unmapped,
            Channel_Error, Channel_Expected_Unmapped_Reader] <;> omega)
              · (simp_all [abs, absRd, Wf, holdsOf_set_pos, holdsOf_set_cyc, List.set_set, getD_set, ChannelState_Mapped, ChannelState_Unmapped,
            Channel_Error, Channel_Expected_Unmapped_Reader] <;> omega)

theorem holdsOf_set_eq_iff (p c : List Nat) (n i : Nat) (h : Hold) (hi : i < n) :
    (holdsOf p c n).set i h = holdsOf p c n ↔ h = ⟨p.getD i 0, c.getD i 0⟩ := by
  have hl : i < (holdsOf p c n).length := by rw [holdsOf_length]; exact hi
  constructor
  · intro e
    have e1 : ((holdsOf p c n).set i h).getD i default = h := by simp [List.getD_eq_getElem?_getD, hl]
    rw [e, holdsOf_getD _ _ _ _ hi] at e1
    exact e1.symm
  · intro e
    subst e
    apply List.ext_getElem
    · simp
    · intro j h1 h2
      simp only [List.length_set, holdsOf_length] at h1 h2
      by_cases hj : i = j
      · subst hj; simp [holdsOf, List.getElem_set, List.getD_eq_getElem?_getD]
      · simp [List.getElem_set, hj]

theorem reader_initialize_state (s : CChannel) (r : CReader) : (reader_initialize s r).2.2.state = r.state := by
  unfold reader_initialize
  split
  · rfl
  · simp only []
    split <;> rfl

/-- within the usage rules (the reader is not mapped) `channel_read_map` notifies **exactly** when it moved the reader's bookmark —
the condition under which the interleaving model's `notifies` lets the call end in a `notify` step -/
theorem channel_read_map_notifies_iff (s : CChannel) (r : CReader) (hw : Wf s)
    (hroom : r.id = 0 → s.holds_n < s.holds_pos.length ∧ s.holds_n < s.holds_cycles.length) (hid : r.id ≤ s.holds_n)
    (hun : r.state ≠ ChannelState_Mapped) :
    (channel_read_map s r).2.1.notified =
      s.notified + (if (readMap (abs s) (absRd r)).1.holds ≠ (readerInit (abs s) (absRd r)).1.holds then 1 else 0) := by
  obtain ⟨e1, e2, e3, e4, e5, e6, e7, e8, e9⟩ := reader_initialize_eq s r hroom
  unfold channel_read_map readMap
  cases hri : reader_initialize s r with
  | mk ret p =>
    cases p with
    | mk s1 r1 =>
      rw [hri] at e1 e2 e3 e4 e5 e6 e7 e8 e9
      simp only at e1 e2 e3 e4 e5 e6 e7 e8 e9
      have hun1 : r1.state ≠ ChannelState_Mapped := by
        by_cases h0 : r.id = 0
        · have := reader_initialize_state s r; rw [hri] at this; simp only at this; rw [this]; exact hun
        · have := e8 h0; simp only [Prod.mk.injEq] at this; rw [this.2]; exact hun
      have hid1 : r1.id ≤ s1.holds_n := by
        by_cases h0 : r.id = 0
        · rw [e9 h0]; exact Nat.le_refl _
        · have := e8 h0; simp only [Prod.mk.injEq] at this; rw [this.1, this.2]; exact hid
      obtain ⟨wp, wc⟩ := e6 hw
      have hi : r1.id - 1 < s1.holds_n := by omega
      have hip : r1.id - 1 < s1.holds_pos.length := by omega
      have hic : r1.id - 1 < s1.holds_cycles.length := by omega
      cases hmi : readerInit (abs s) (absRd r) with
      | mk c r' =>
        rw [hmi] at e1 e2
        simp only at e1 e2
        subst e1 e2
        simp only [Nat.zero_add]
        unfold readMapAt readMapCore setHold
        have hg : (abs s1).holds.getD ((absRd r1).id - 1) default = ⟨s1.holds_pos.getD (r1.id - 1) 0, s1.holds_cycles.getD (r1.id - 1) 0⟩ :=
          holdsOf_getD _ _ _ _ hi
        simp only [hg]
        generalize hP : s1.holds_pos.getD (r1.id - 1) 0 = P
        generalize hC : s1.holds_cycles.getD (r1.id - 1) 0 = Cy
        rw [← e3]
        dsimp only [abs, absRd]
        by_cases hm : r1.state = ChannelState_Mapped
        · (simp_all [holdsOf_set_eq_iff, abs, absRd, Wf, holdsOf_set_pos, holdsOf_set_cyc, List.set_set, getD_set, ChannelState_Mapped, ChannelState_Unmapped,
            Channel_Error, Channel_Expected_Unmapped_Reader] <;> omega)
        · simp only [hm, ↓reduceIte]
          by_cases hPe : P = s1.head
          · by_cases hCe : Cy = s1.cycle
            · (simp_all [holdsOf_set_eq_iff, abs, absRd, Wf, holdsOf_set_pos, holdsOf_set_cyc, List.set_set, getD_set, ChannelState_Mapped, ChannelState_Unmapped,
            Channel_Error, Channel_Expected_Unmapped_Reader] <;> omega)
            · have hnl : ¬ P < s1.head := by omega
              simp only [hPe, hCe, hnl, ↓reduceIte, Nat.lt_irrefl]
              by_cases hC1 : s1.cycle = Cy + 1
              · by_cases hN : s1.high - s1.head = 0
                · by_cases hH : s1.head = 0
                  · (simp_all [holdsOf_set_eq_iff, abs, absRd, Wf, holdsOf_set_pos, holdsOf_set_cyc, List.set_set, getD_set, ChannelState_Mapped, ChannelState_Unmapped,
            Channel_Error, Channel_Expected_Unmapped_Reader] <;> omega)
                  · (simp_all [holdsOf_set_eq_iff, abs, absRd, Wf, holdsOf_set_pos, holdsOf_set_cyc, List.set_set, getD_set, ChannelState_Mapped, ChannelState_Unmapped,
            Channel_Error, Channel_Expected_Unmapped_Reader] <;> omega)
                · (simp_all [holdsOf_set_eq_iff, abs, absRd, Wf, holdsOf_set_pos, holdsOf_set_cyc, List.set_set, getD_set, ChannelState_Mapped, ChannelState_Unmapped,
            Channel_Error, Channel_Expected_Unmapped_Reader] <;> omega)
              · (simp_all [holdsOf_set_eq_iff, abs, absRd, Wf, holdsOf_set_pos, holdsOf_set_cyc, List.set_set, getD_set, ChannelState_Mapped, ChannelState_Unmapped,
            Channel_Error, Channel_Expected_Unmapped_Reader] <;> omega)
          · simp only [hPe, ↓reduceIte]
            by_cases hLt : P < s1.head
            · have hnz : ¬ (s1.head - P = 0) := by omega
              by_cases hCe : Cy = s1.cycle
              · (simp_all [holdsOf_set_eq_iff, abs, absRd, Wf, holdsOf_set_pos, holdsOf_set_cyc, List.set_set, getD_set, ChannelState_Mapped, ChannelState_Unmapped,
            Channel_Error, Channel_Expected_Unmapped_Reader] <;> omega)
              · (simp_all [holdsOf_set_eq_iff, abs, absRd, Wf, holdsOf_set_pos, holdsOf_set_cyc, List.set_set, getD_set, ChannelState_Mapped, ChannelState_Unmapped,
            Channel_Error, Channel_Expected_Unmapped_Reader] <;> omega)
            · simp only [hLt, ↓reduceIte]
              by_cases hC1 : s1.cycle = Cy + 1
              · by_cases hN : s1.high - P = 0
                · by_cases hH : s1.head = 0
                  · (simp_all [holdsOf_set_eq_iff, abs, absRd, Wf, holdsOf_set_pos, holdsOf_set_cyc, List.set_set, getD_set, ChannelState_Mapped, ChannelState_Unmapped,
            Channel_Error, Channel_Expected_Unmapped_Reader] <;> omega)
                  · (simp_all [holdsOf_set_eq_iff, abs, absRd, Wf, holdsOf_set_pos, holdsOf_set_cyc, List.set_set, getD_set, ChannelState_Mapped, ChannelState_Unmapped,
            Channel_Error, Channel_Expected_Unmapped_Reader] <;> omega)
                · (simp_all [holdsOf_set_eq_iff, abs, absRd, Wf, holdsOf_set_pos, holdsOf_set_cyc, List.set_set, getD_set, ChannelState_Mapped, ChannelState_Unmapped,
            Channel_Error, Channel_Expected_Unmapped_Reader] <;> omega)
              · (simp_all [holdsOf_set_eq_iff, abs, absRd, Wf, holdsOf_set_pos, holdsOf_set_cyc, List.set_set, getD_set, ChannelState_Mapped, ChannelState_Unmapped,
            Channel_Error, Channel_Expected_Unmapped_Reader] <;> omega)


/-! ## the arrays keep their length (they are only ever written element-wise) -/

theorem reader_initialize_len (s : CChannel) (r : CReader) :
    (reader_initialize s r).2.1.holds_pos.length = s.holds_pos.length ∧
    (reader_initialize s r).2.1.holds_cycles.length = s.holds_cycles.length := by
  unfold reader_initialize
  split
  · exact ⟨rfl, rfl⟩
  · simp only []
    split <;> simp

theorem channel_read_unmap_len (s : CChannel) (r : CReader) (k : Nat) :
    (channel_read_unmap s r k).1.holds_pos.length = s.holds_pos.length ∧
    (channel_read_unmap s r k).1.holds_cycles.length = s.holds_cycles.length := by
  unfold channel_read_unmap
  simp only []
  repeat' split
  all_goals simp

theorem channel_read_map_len (s : CChannel) (r : CReader) :
    (channel_read_map s r).2.1.holds_pos.length = s.holds_pos.length ∧
    (channel_read_map s r).2.1.holds_cycles.length = s.holds_cycles.length := by
  obtain ⟨l1, l2⟩ := reader_initialize_len s r
  unfold channel_read_map
  cases hri : reader_initialize s r with
  | mk ret p =>
    cases p with
    | mk s1 r1 =>
      rw [hri] at l1 l2
      simp only at l1 l2
      simp only []
      rw [← l1, ← l2]
      constructor <;>
        simp [apply_ite Prod.snd, apply_ite Prod.fst, apply_ite CChannel.holds_pos, apply_ite CChannel.holds_cycles,
          apply_ite List.length]

end AcqVerif.Channel.Translated
