import AcqVerif.Channel.Sys
import AcqVerif.Util.Nth
/-!
# The channel invariant

`Ghost` carries the part of the specification state that is a function (what each
buffer byte holds, as an index into the committed stream) and, per reader, the
contents of the bytes it has consumed so far.  `Inv` relates cursors, ghost stream
indices and memory contents; it is preserved by every well-formed operation
(`Inv.step`, in `InvStep.lean`).
-/
namespace AcqVerif.Channel
open AcqVerif

abbrev MemF := Nat → Option Nat

structure Ghost where
  /-- buffer offset ↦ index in the committed stream of the byte stored there
      (`none`: never committed, or handed to the writer since) -/
  mem : MemF := fun _ => none
  /-- per reader: what the consumed bytes contained, in order of consumption -/
  seen : List (List (Option Nat)) := []

/-- ghost effect of one operation executed in state `s` -/
def gstep (s : Sys) (g : Ghost) : Op → Ghost
  | .wmap n =>
    match writeMap s.c n with
    | .ok beg _ => { g with mem := fun o => if beg ≤ o ∧ o < beg + n then none else g.mem o }
    | _ => g
  | .wcommit =>
    if s.c.accepting then
      { g with mem := fun o => if s.c.head ≤ o ∧ o < s.c.mapped then some (s.total + (o - s.c.head)) else g.mem o }
    else g
  | .wabort => g
  | .accept _ => g
  | .join => { g with seen := g.seen ++ [[]] }
  | .rmap _ => g
  | .runmap i k =>
    match s.rds[i]? with
    | none => g
    | some r =>
      if r.mapped then
        let h := nth s.c.holds i
        let len := availBytes r h s.c.high
        { g with seen := g.seen.set i (nth g.seen i ++ (List.range (min len k)).map fun j => g.mem (h.pos + j)) }
      else g

def grun (s : Sys) (g : Ghost) : List Op → Ghost
  | [] => g
  | op :: ops => grun (step s op).1 (gstep s g op) ops

/-- relation between one reader's hold, its ghost stream index, and the writer -/
def HoldRel (c : Chan) (total : Nat) (h : Hold) (ix : Nat) : Prop :=
  (h.cyc = c.cycle ∧ h.pos ≤ c.head ∧ ix + (c.head - h.pos) = total) ∨
  (h.cyc + 1 = c.cycle ∧ c.mapped ≤ h.pos ∧ h.pos ≤ c.high ∧ ix + (c.high - h.pos) + c.head = total)

/-- relation between a mapped reader handle and its hold -/
def MappedRel (c : Chan) (h : Hold) (r : Rd) : Prop :=
  (r.cyc = h.cyc ∧ h.pos < r.pos ∧ (h.cyc = c.cycle → r.pos ≤ c.head) ∧ (h.cyc + 1 = c.cycle → r.pos ≤ c.high)) ∨
  (r.cyc = h.cyc + 1 ∧ r.pos = 0 ∧ h.pos < c.high ∧ h.cyc + 1 = c.cycle)

/-- everything the invariant says about reader number `i` -/
structure RInv (c : Chan) (total : Nat) (mem : MemF) (h : Hold) (r : Rd) (ix j : Nat)
    (seen : List (Option Nat)) (i : Nat) : Prop where
  hold : HoldRel c total h ix
  /-- the part of the previous lap this reader still needs is intact -/
  prev : h.cyc + 1 = c.cycle → ∀ o, h.pos ≤ o → o < c.high → mem o = some (total - c.head - (c.high - o))
  id : r.id = i + 1
  st : r.status = 0
  mapped : r.mapped = true → MappedRel c h r
  /-- the consumed bytes are exactly stream positions `j, j+1, …, ix-1` -/
  seen_ok : seen = (List.range' j (ix - j)).map some
  jle : j ≤ ix

structure Inv (s : Sys) (g : Ghost) : Prop where
  hm : s.c.head ≤ s.c.mapped
  mc : s.c.mapped ≤ s.c.cap
  hc : s.c.high ≤ s.c.cap
  ht : s.c.head ≤ s.total
  l_idx : s.idx.length = s.c.holds.length
  l_rds : s.rds.length = s.c.holds.length
  l_join : s.join.length = s.c.holds.length
  l_seen : g.seen.length = s.c.holds.length
  /-- the committed part of the current lap is intact -/
  cur : ∀ o, o < s.c.head → g.mem o = some (s.total - (s.c.head - o))
  b_total : s.total ∈ s.bounds
  b_lap : s.total - s.c.head ∈ s.bounds
  b_le : ∀ b ∈ s.bounds, b ≤ s.total
  pend : s.pending = true → s.wbeg = s.c.head ∧ s.wbeg + s.wlen = s.c.mapped
  rd : ∀ i, i < s.c.holds.length →
    RInv s.c s.total g.mem (nth s.c.holds i) (nth s.rds i) (nth s.idx i) (nth s.join i) (nth g.seen i) i
    ∧ nth s.join i ∈ s.bounds
  /-- whatever lies at or beyond `head` is at least one lap old -/
  old : ∀ o x, g.mem o = some x → s.c.head ≤ o →
    (o < s.c.high → x + (s.c.high - o) + s.c.head ≤ s.total) ∧ (s.c.high ≤ o → x + s.c.high + s.c.head < s.total)

/-! ## `get_available_byte_count` -/

theorem availBytes_same (r : Rd) (h : Hold) (high : Nat) (lt : h.pos < r.pos) :
    availBytes r h high = r.pos - h.pos := by
  unfold availBytes
  rw [if_neg (by omega), if_neg (by omega)]

theorem availBytes_next (r : Rd) (h : Hold) (high : Nat) (e : r.cyc = h.cyc + 1) (z : r.pos = 0) :
    availBytes r h high = high - h.pos := by
  unfold availBytes
  rw [if_neg (by omega), if_pos z]

/-- the length of a mapped reader's region, from `MappedRel` -/
theorem availBytes_of_mapped (c : Chan) (h : Hold) (r : Rd) (m : MappedRel c h r) :
    (availBytes r h c.high = r.pos - h.pos ∧ r.cyc = h.cyc ∧ h.pos < r.pos) ∨
    (availBytes r h c.high = c.high - h.pos ∧ r.cyc = h.cyc + 1 ∧ r.pos = 0 ∧ h.pos < c.high ∧ h.cyc + 1 = c.cycle) := by
  rcases m with ⟨e1, e2, _, _⟩ | ⟨e1, e2, e3, e4⟩
  · left; exact ⟨availBytes_same r h c.high e2, e1, e2⟩
  · right; exact ⟨availBytes_next r h c.high e1 e2, e1, e2, e3, e4⟩

/-- **What a mapped region contains**: byte `j` of reader `r`'s mapped region is byte `ix + j` of the
committed stream. -/
theorem region_bytes (c : Chan) (total : Nat) (mem : MemF) (h : Hold) (r : Rd) (ix : Nat)
    (hold : HoldRel c total h ix)
    (prev : h.cyc + 1 = c.cycle → ∀ o, h.pos ≤ o → o < c.high → mem o = some (total - c.head - (c.high - o)))
    (cur : ∀ o, o < c.head → mem o = some (total - (c.head - o)))
    (m : MappedRel c h r) :
    ∀ j, j < availBytes r h c.high → mem (h.pos + j) = some (ix + j) := by
  intro j hj
  rcases availBytes_of_mapped c h r m with ⟨ea, _, _⟩ | ⟨ea, _, _, _, e4⟩
  · rw [ea] at hj
    rcases m with ⟨m1, m2, m3, m4⟩ | ⟨m1, m2, m3, m4⟩
    · rcases hold with ⟨a1, a2, a3⟩ | ⟨a1, a2, a3, a4⟩
      · have := m3 a1
        rw [cur (h.pos + j) (by omega)]; congr 1; omega
      · have := m4 a1
        rw [prev a1 (h.pos + j) (by omega) (by omega)]; congr 1; omega
    · omega
  · rw [ea] at hj
    rcases hold with ⟨a1, a2, a3⟩ | ⟨a1, a2, a3, a4⟩
    · omega
    · rw [prev a1 (h.pos + j) (by omega) (by omega)]; congr 1; omega

/-- the new hold after `channel_read_unmap` again satisfies the hold relation, with the ghost index
advanced by the number of consumed bytes -/
theorem unmapHold_spec (c : Chan) (total : Nat) (mem : MemF) (h : Hold) (r : Rd) (ix k : Nat)
    (hm : c.head ≤ c.mapped)
    (hold : HoldRel c total h ix)
    (prev : h.cyc + 1 = c.cycle → ∀ o, h.pos ≤ o → o < c.high → mem o = some (total - c.head - (c.high - o)))
    (m : MappedRel c h r) :
    HoldRel c total (unmapHold c r h k) (ix + min (availBytes r h c.high) k) ∧
    ((unmapHold c r h k).cyc + 1 = c.cycle → ∀ o, (unmapHold c r h k).pos ≤ o → o < c.high →
        mem o = some (total - c.head - (c.high - o))) := by
  unfold unmapHold
  simp only
  generalize hk' : min (availBytes r h c.high) k = k'
  have hk'le : k' ≤ availBytes r h c.high := by omega
  unfold HoldRel at hold ⊢
  rcases availBytes_of_mapped c h r m with ⟨ea, e2, e3⟩ | ⟨ea, e2, e3, e4, e5⟩
  · -- the region ends in the reader's own lap
    rw [ea] at hk'le ⊢
    have hm' := m
    rcases hm' with ⟨m1, m2, m3, m4⟩ | ⟨m1, m2, m3, m4⟩
    · by_cases hfull : k' ≥ r.pos - h.pos
      · rw [if_pos hfull]
        by_cases hroll : c.head < r.pos ∧ r.pos = c.high
        · rw [if_pos hroll]
          refine ⟨?_, ?_⟩
          · rcases hold with ⟨a1, a2, a3⟩ | ⟨a1, a2, a3, a4⟩
            · have := m3 a1; omega
            · left; refine ⟨by show r.cyc + 1 = c.cycle; omega, Nat.zero_le _, ?_⟩; show _ + (c.head - 0) = _; omega
          · intro hc; simp only at hc
            rcases hold with ⟨a1, a2, a3⟩ | ⟨a1, a2, a3, a4⟩ <;> omega
        · rw [if_neg hroll]
          refine ⟨?_, ?_⟩
          · rcases hold with ⟨a1, a2, a3⟩ | ⟨a1, a2, a3, a4⟩
            · have := m3 a1; left; exact ⟨by show r.cyc = c.cycle; omega, by show r.pos ≤ c.head; omega, by show _ + (c.head - r.pos) = _; omega⟩
            · have := m4 a1; right
              exact ⟨by show r.cyc + 1 = c.cycle; omega, by show c.mapped ≤ r.pos; omega, by show r.pos ≤ c.high; omega,
                by show _ + (c.high - r.pos) + c.head = _; omega⟩
          · intro hc o ho1 ho2
            simp only at hc ho1
            exact prev (by omega) o (by omega) ho2
      · rw [if_neg hfull]
        have hroll : ¬ (c.head < h.pos + k' ∧ h.pos + k' = c.high) := by
          rcases hold with ⟨a1, a2, a3⟩ | ⟨a1, a2, a3, a4⟩
          · have := m3 a1; omega
          · have := m4 a1; omega
        rw [if_neg hroll]
        refine ⟨?_, ?_⟩
        · rcases hold with ⟨a1, a2, a3⟩ | ⟨a1, a2, a3, a4⟩
          · have := m3 a1; left; exact ⟨a1, by show h.pos + k' ≤ c.head; omega, by show _ + (c.head - (h.pos + k')) = _; omega⟩
          · have := m4 a1; right
            exact ⟨a1, by show c.mapped ≤ h.pos + k'; omega, by show h.pos + k' ≤ c.high; omega,
              by show _ + (c.high - (h.pos + k')) + c.head = _; omega⟩
        · intro hc o ho1 ho2
          simp only at hc ho1
          exact prev hc o (by omega) ho2
    · omega
  · -- the region is the rest of the previous lap
    rw [ea] at hk'le ⊢
    have a : h.cyc + 1 = c.cycle ∧ c.mapped ≤ h.pos ∧ h.pos ≤ c.high ∧ ix + (c.high - h.pos) + c.head = total := by
      rcases hold with ⟨a1, a2, a3⟩ | ha
      · omega
      · exact ha
    obtain ⟨a1, a2, a3, a4⟩ := a
    by_cases hfull : k' ≥ c.high - h.pos
    · rw [if_pos hfull]
      have hroll : ¬ (c.head < r.pos ∧ r.pos = c.high) := by omega
      rw [if_neg hroll]
      refine ⟨?_, ?_⟩
      · left; exact ⟨by show r.cyc = c.cycle; omega, by show r.pos ≤ c.head; omega, by show _ + (c.head - r.pos) = _; omega⟩
      · intro hc; simp only at hc; omega
    · rw [if_neg hfull]
      have hroll : ¬ (c.head < h.pos + k' ∧ h.pos + k' = c.high) := by omega
      rw [if_neg hroll]
      refine ⟨?_, ?_⟩
      · right
        exact ⟨a1, by show c.mapped ≤ h.pos + k'; omega, by show h.pos + k' ≤ c.high; omega,
          by show _ + (c.high - (h.pos + k')) + c.head = _; omega⟩
      · intro hc o ho1 ho2
        simp only at hc ho1
        exact prev hc o (by omega) ho2

/-! ## `reader_min` -/

theorem minHold_le_head (m : Hold) (l : List Hold) :
    (minHold m l).cyc < m.cyc ∨ ((minHold m l).cyc = m.cyc ∧ (minHold m l).pos ≤ m.pos) := by
  induction l generalizing m with
  | nil => simp [minHold]
  | cons h t ih =>
    simp only [minHold]
    split
    · rename_i hg; have := ih h; simp [Hold.gt] at hg; omega
    · exact ih m

theorem minHold_le_mem (m : Hold) (l : List Hold) :
    ∀ x ∈ l, (minHold m l).cyc < x.cyc ∨ ((minHold m l).cyc = x.cyc ∧ (minHold m l).pos ≤ x.pos) := by
  induction l generalizing m with
  | nil => simp
  | cons h t ih =>
    intro x hx
    simp only [minHold]
    rcases List.mem_cons.mp hx with rfl | hx
    · split
      · exact minHold_le_head _ _
      · rename_i hg; have h1 := minHold_le_head m t; simp [Hold.gt] at hg; omega
    · split <;> exact ih _ _ hx

theorem minHold_mem (m : Hold) (l : List Hold) : minHold m l = m ∨ minHold m l ∈ l := by
  induction l generalizing m with
  | nil => simp [minHold]
  | cons h t ih =>
    simp only [minHold]
    split
    · rcases ih h with e | e <;> simp [e]
    · rcases ih m with e | e
      · left; exact e
      · right; simp [e]

theorem readerMin_mem (l : List Hold) (hne : l ≠ []) : readerMin l ∈ l := by
  cases l with
  | nil => exact absurd rfl hne
  | cons h t => simp only [readerMin]; rcases minHold_mem h t with e | e <;> simp [e]

theorem readerMin_le (l : List Hold) : ∀ x ∈ l,
    (readerMin l).cyc < x.cyc ∨ ((readerMin l).cyc = x.cyc ∧ (readerMin l).pos ≤ x.pos) := by
  cases l with
  | nil => simp
  | cons h t =>
    intro x hx
    simp only [readerMin]
    rcases List.mem_cons.mp hx with e | hx
    · rw [e]; exact minHold_le_head _ _
    · exact minHold_le_mem _ _ _ hx

/-! ## `next_write` -/

/-- What `nextWrite = .at b w` says about *every* reader: the three placements. -/
theorem nextWrite_spec (c : Chan) (total : Nat) (idx : List Nat) (n b : Nat) (w : Bool)
    (hn : n < c.cap) (h1 : c.head ≤ c.mapped) (h2 : c.mapped ≤ c.cap) (hhc : c.high ≤ c.cap) (hne : c.holds ≠ [])
    (hall : ∀ i, i < c.holds.length → HoldRel c total (nth c.holds i) (nth idx i))
    (hnw : nextWrite c n = .at b w) :
    (b = c.head ∧ w = false ∧ c.head + n ≤ c.cap ∧
      ∀ i, i < c.holds.length → (nth c.holds i).cyc + 1 = c.cycle → c.head + n ≤ (nth c.holds i).pos) ∨
    (b = 0 ∧ c.head ≠ 0 ∧ w = false ∧
      ∀ i, i < c.holds.length → (nth c.holds i).cyc = c.cycle ∧ n ≤ (nth c.holds i).pos) ∨
    (b = 0 ∧ c.head ≠ 0 ∧ w = true ∧
      ∀ i, i < c.holds.length → (nth c.holds i).cyc = c.cycle ∧ (nth c.holds i).pos = c.head) := by
  have hmin_le : ∀ i, i < c.holds.length →
      (readerMin c.holds).cyc < (nth c.holds i).cyc ∨
      ((readerMin c.holds).cyc = (nth c.holds i).cyc ∧ (readerMin c.holds).pos ≤ (nth c.holds i).pos) :=
    fun i hi => readerMin_le _ _ (nth_mem _ _ hi)
  obtain ⟨k, hk, hke⟩ := exists_nth_of_mem _ _ (readerMin_mem c.holds hne)
  have hmin_ok := hall k hk
  rw [hke] at hmin_ok
  have hoks : ∀ i, i < c.holds.length → ∃ ix, HoldRel c total (nth c.holds i) ix :=
    fun i hi => ⟨_, hall i hi⟩
  unfold nextWrite at hnw
  generalize readerMin c.holds = m at *
  unfold HoldRel at hmin_ok
  simp only at hnw
  repeat' (split at hnw)
  all_goals (first | (cases hnw; done) | skip)
  all_goals cases hnw
  · left; refine ⟨rfl, rfl, ?_, ?_⟩
    · omega
    · intro i hi hprev
      have := hmin_le i hi; obtain ⟨ix, hr⟩ := hoks i hi; unfold HoldRel at hr; omega
  · left; refine ⟨rfl, rfl, ?_, ?_⟩
    · omega
    · intro i hi hprev
      have := hmin_le i hi; obtain ⟨ix, hr⟩ := hoks i hi; unfold HoldRel at hr; omega
  · right; left; refine ⟨rfl, ?_, rfl, ?_⟩
    · omega
    · intro i hi
      have := hmin_le i hi; obtain ⟨ix, hr⟩ := hoks i hi; unfold HoldRel at hr; omega
  · right; right; refine ⟨rfl, ?_, rfl, ?_⟩
    · omega
    · intro i hi
      have := hmin_le i hi; obtain ⟨ix, hr⟩ := hoks i hi; unfold HoldRel at hr; omega

end AcqVerif.Channel
