import AcqVerif.Channel.InvStep
import AcqVerif.Channel.Drain
/-!
# Alignment and frame boundaries in the channel

If every write size is a multiple of 8 and readers consume whole regions or multiples of 8,
every cursor, every region offset and every stream position is a multiple of 8 (`A8`).
If readers consume up to write boundaries, every mapped region starts and ends at a write
boundary, i.e. is a back-to-back sequence of whole committed writes (`Bnd`).
-/
namespace AcqVerif.Channel
open AcqVerif

/-- length of reader `i`'s mapped region (0 if not mapped) -/
def mappedLen (s : Sys) (i : Nat) : Nat :=
  if (nth s.rds i).mapped then availBytes (nth s.rds i) (nth s.c.holds i) s.c.high else 0

structure A8 (s : Sys) : Prop where
  head : s.c.head % 8 = 0
  high : s.c.high % 8 = 0
  mapped : s.c.mapped % 8 = 0
  total : s.total % 8 = 0
  holds : ∀ h ∈ s.c.holds, h.pos % 8 = 0
  rds : ∀ r ∈ s.rds, r.pos % 8 = 0
  idx : ∀ x ∈ s.idx, x % 8 = 0
  bounds : ∀ b ∈ s.bounds, b % 8 = 0

/-- the hypothesis on a history: sizes of writes are multiples of 8; a reader consumes its whole
region or a multiple of 8 -/
def Op.aligned (s : Sys) : Op → Bool
  | .wmap n => n % 8 == 0
  | .runmap i k => k % 8 == 0 || decide (k ≥ mappedLen s i)
  | _ => true

def alignedRun (s : Sys) : List Op → Bool
  | [] => true
  | op :: ops => op.aligned s && alignedRun (step s op).1 ops

theorem A8.init (cap : Nat) : A8 (Sys.init cap) := by
  refine ⟨rfl, rfl, rfl, rfl, ?_, ?_, ?_, ?_⟩ <;> simp [Sys.init]

theorem nextWrite_beg (c : Chan) (n b : Nat) (w : Bool) (h : nextWrite c n = .at b w) : b = c.head ∨ b = 0 := by
  unfold nextWrite at h
  simp only at h
  (repeat' split at h) <;> first | (cases h; done) | (cases h; simp)

theorem mem_set_cases {α : Type} (l : List α) (i : Nat) (v a : α) (h : a ∈ l.set i v) : a ∈ l ∨ a = v :=
  List.mem_or_eq_of_mem_set h

theorem A8.hold_nth {s : Sys} (h : A8 s) (i : Nat) : (nth s.c.holds i).pos % 8 = 0 := by
  by_cases hi : i < s.c.holds.length
  · exact h.holds _ (nth_mem _ _ hi)
  · have : nth s.c.holds i = default := by simp [nth, List.getD, List.getElem?_eq_none (Nat.le_of_not_lt hi)]
    rw [this]; rfl

theorem A8.rd_nth {s : Sys} (h : A8 s) (i : Nat) : (nth s.rds i).pos % 8 = 0 := by
  by_cases hi : i < s.rds.length
  · exact h.rds _ (nth_mem _ _ hi)
  · have : nth s.rds i = default := by simp [nth, List.getD, List.getElem?_eq_none (Nat.le_of_not_lt hi)]
    rw [this]; rfl

theorem A8.idx_nth {s : Sys} (h : A8 s) (i : Nat) : (nth s.idx i) % 8 = 0 := by
  by_cases hi : i < s.idx.length
  · exact h.idx _ (nth_mem _ _ hi)
  · have : nth s.idx i = default := by simp [nth, List.getD, List.getElem?_eq_none (Nat.le_of_not_lt hi)]
    rw [this]; rfl

theorem availBytes_mod8 (r : Rd) (h : Hold) (high : Nat) (h1 : r.pos % 8 = 0) (h2 : h.pos % 8 = 0) (h3 : high % 8 = 0) :
    availBytes r h high % 8 = 0 := by
  unfold availBytes
  (repeat' split) <;> omega

theorem A8.wmap {s : Sys} (h : A8 s) (n : Nat) (hn : n % 8 = 0) : A8 (step s (.wmap n)).1 := by
  have h1 := h.head; have h2 := h.high; have h3 := h.mapped
  simp only [step]
  cases hw : writeMap s.c n with
  | null => exact h
  | block => exact h
  | ok beg c' =>
    simp only
    unfold writeMap at hw
    split at hw
    · cases hw
    · split at hw
      · split at hw <;> cases hw
        · exact ⟨rfl, h.head, hn, h.total, h.holds, h.rds, h.idx, h.bounds⟩
        · exact ⟨h.head, h.high, by simp only; omega, h.total, h.holds, h.rds, h.idx, h.bounds⟩
      · split at hw
        · cases hw
        · cases hnw : nextWrite s.c n with
          | no => rw [hnw] at hw; cases hw
          | «at» b w =>
            rw [hnw] at hw
            have hb := nextWrite_beg _ _ _ _ hnw
            simp only [WMap.ok.injEq] at hw
            obtain ⟨e1, e2⟩ := hw
            subst e1; subst e2
            refine ⟨?_, ?_, ?_, h.total, ?_, h.rds, h.idx, h.bounds⟩
            · simp only; (repeat' split) <;> first | omega | (simp only; omega)
            · simp only; (repeat' split) <;> first | omega | (simp only; omega)
            · simp only; omega
            · intro x hx
              simp only at hx
              split at hx
              · simp only [List.mem_map] at hx; obtain ⟨_, _, e⟩ := hx; rw [← e]; rfl
              · split at hx <;> exact h.holds x hx

theorem A8.wcommit {s : Sys} (h : A8 s) : A8 (step s .wcommit).1 := by
  have h1 := h.head; have h3 := h.mapped; have h4 := h.total
  simp only [step, writeUnmap]
  split
  · refine ⟨h.mapped, h.high, h.mapped, by simp only; omega, h.holds, h.rds, h.idx, ?_⟩
    intro b hb
    simp only at hb
    split at hb
    · exact h.bounds b hb
    · rcases List.mem_cons.mp hb with e | hb
      · rw [e]; omega
      · exact h.bounds b hb
  · exact ⟨h.head, h.high, h.mapped, h.total, h.holds, h.rds, h.idx, h.bounds⟩

theorem A8.wabort {s : Sys} (h : A8 s) : A8 (step s .wabort).1 := by
  simp only [step, abortWrite]
  split
  · exact ⟨h.head, h.high, h.head, h.total, h.holds, h.rds, h.idx, h.bounds⟩
  · exact ⟨h.head, h.high, h.mapped, h.total, h.holds, h.rds, h.idx, h.bounds⟩

/-- `channel_read_map` keeps the alignment: the handle's `pos` becomes `head` or 0, a moved bookmark 0 or `head` -/
theorem readMapCore_a8 (c : Chan) (r : Rd) (i : Nat) (hd : Hold) (h1 : c.head % 8 = 0) (hr : r.pos % 8 = 0)
    (hh : ∀ x ∈ c.holds, x.pos % 8 = 0) :
    (readMapCore c r i hd).2.1.pos % 8 = 0 ∧ ∀ x ∈ (readMapCore c r i hd).1.holds, x.pos % 8 = 0 := by
  unfold readMapCore
  dsimp only
  (repeat' split) <;> refine ⟨by first | exact hr | exact h1 | rfl, ?_⟩ <;> intro x hx <;>
    first
    | exact hh x hx
    | (simp only [setHold] at hx
       rcases mem_set_cases _ _ _ _ hx with e | e
       · exact hh x e
       · rw [e]; first | exact h1 | rfl)

theorem A8.rmap {s : Sys} (h : A8 s) (i : Nat) : A8 (step s (.rmap i)).1 := by
  simp only [step]
  cases hr : s.rds[i]? with
  | none => exact h
  | some r =>
    simp only
    have hrm : r ∈ s.rds := List.mem_of_getElem? hr
    have hrp := h.rds r hrm
    unfold readMap readerInit readMapAt
    by_cases e : r.id > 0
    · rw [if_pos e]
      have := readMapCore_a8 s.c r (r.id - 1) (s.c.holds.getD (r.id - 1) default) h.head hrp h.holds
      refine ⟨?_, ?_, ?_, h.total, this.2, ?_, h.idx, h.bounds⟩
      · rw [(readMapCore_fields _ _ _ _).2.1]; exact h.head
      · rw [(readMapCore_fields _ _ _ _).1]; exact h.high
      · rw [(readMapCore_fields _ _ _ _).2.2.2.1]; exact h.mapped
      · intro x hx
        rcases mem_set_cases _ _ _ _ hx with e' | e'
        · exact h.rds x e'
        · rw [e']; exact this.1
    · rw [if_neg e]
      dsimp only
      have hh' : ∀ x ∈ s.c.holds ++ [(⟨0, s.c.cycle⟩ : Hold)], x.pos % 8 = 0 := by
        intro x hx
        rcases List.mem_append.mp hx with e' | e'
        · exact h.holds x e'
        · simp only [List.mem_singleton] at e'; rw [e']; rfl
      have := readMapCore_a8 { s.c with holds := s.c.holds ++ [⟨0, s.c.cycle⟩] } { r with id := s.c.holds.length + 1 }
        (s.c.holds.length + 1 - 1)
        (({ s.c with holds := s.c.holds ++ [⟨0, s.c.cycle⟩] } : Chan).holds.getD (s.c.holds.length + 1 - 1) default)
        h.head hrp hh'
      refine ⟨?_, ?_, ?_, h.total, this.2, ?_, h.idx, h.bounds⟩
      · rw [(readMapCore_fields _ _ _ _).2.1]; exact h.head
      · rw [(readMapCore_fields _ _ _ _).1]; exact h.high
      · rw [(readMapCore_fields _ _ _ _).2.2.2.1]; exact h.mapped
      · intro x hx
        rcases mem_set_cases _ _ _ _ hx with e' | e'
        · exact h.rds x e'
        · rw [e']; exact this.1

theorem A8.join {s : Sys} (h : A8 s) : A8 (step s .join).1 := by
  have h1 := h.head; have h4 := h.total
  simp only [step, readMap, readerInit, Nat.lt_irrefl, ↓reduceIte, Nat.add_sub_cancel]
  have hh' : ∀ x ∈ s.c.holds ++ [(⟨0, s.c.cycle⟩ : Hold)], x.pos % 8 = 0 := by
    intro x hx
    rcases List.mem_append.mp hx with e' | e'
    · exact h.holds x e'
    · simp only [List.mem_singleton] at e'; rw [e']; rfl
  unfold readMapAt
  have := readMapCore_a8 { s.c with holds := s.c.holds ++ [⟨0, s.c.cycle⟩] } { id := s.c.holds.length + 1 }
    s.c.holds.length
    (({ s.c with holds := s.c.holds ++ [⟨0, s.c.cycle⟩] } : Chan).holds.getD s.c.holds.length default)
    h.head rfl hh'
  refine ⟨?_, ?_, ?_, h.total, this.2, ?_, ?_, h.bounds⟩
  · rw [(readMapCore_fields _ _ _ _).2.1]; exact h.head
  · rw [(readMapCore_fields _ _ _ _).1]; exact h.high
  · rw [(readMapCore_fields _ _ _ _).2.2.2.1]; exact h.mapped
  · intro x hx
    rcases List.mem_append.mp hx with e' | e'
    · exact h.rds x e'
    · simp only [List.mem_singleton] at e'; rw [e']; exact this.1
  · intro x hx
    rcases List.mem_append.mp hx with e' | e'
    · exact h.idx x e'
    · simp only [List.mem_singleton] at e'; rw [e']; omega

theorem A8.runmap {s : Sys} (h : A8 s) (i k : Nat) (hal : (Op.runmap i k).aligned s = true)
    (hid : (nth s.rds i).id = i + 1) : A8 (step s (.runmap i k)).1 := by
  simp only [step]
  cases hr : s.rds[i]? with
  | none => exact h
  | some r =>
    have hi : i < s.rds.length := by
      rcases Nat.lt_or_ge i s.rds.length with hl | hl
      · exact hl
      · rw [List.getElem?_eq_none hl] at hr; cases hr
    have hre : r = nth s.rds i := by
      have := getElem?_eq_some_nth s.rds i hi; rw [hr] at this; exact (Option.some.inj this)
    subst hre
    have hrp := h.rd_nth i
    have g2 : ∀ (l : List Hold) (j : Nat), l.getD j default = nth l j := fun _ _ => rfl
    have g1 : ∀ (l : List Nat) (j : Nat), l.getD j 0 = nth l j := fun _ _ => rfl
    have hid' : (nth s.rds i).id - 1 = i := by omega
    simp only [readUnmap, g1, g2, hid']
    by_cases hm : (nth s.rds i).mapped = true
    · simp only [hm, Bool.not_true, Bool.false_eq_true, ↓reduceIte]
      have hav := availBytes_mod8 (nth s.rds i) (nth s.c.holds i) s.c.high hrp (h.hold_nth i) h.high
      have hk : min (availBytes (nth s.rds i) (nth s.c.holds i) s.c.high) k % 8 = 0 := by
        simp only [Op.aligned, mappedLen, hm, ↓reduceIte, Bool.or_eq_true, beq_iff_eq, decide_eq_true_eq] at hal
        rcases hal with e | e
        · rcases Nat.le_total (availBytes (nth s.rds i) (nth s.c.holds i) s.c.high) k with e' | e'
          · rw [Nat.min_eq_left e']; exact hav
          · rw [Nat.min_eq_right e']; exact e
        · rw [Nat.min_eq_left e]; exact hav
      refine ⟨h.head, h.high, h.mapped, h.total, ?_, ?_, ?_, h.bounds⟩
      · intro x hx
        simp only [setHold] at hx
        rcases mem_set_cases _ _ _ _ hx with e' | e'
        · exact h.holds x e'
        · rw [e']
          have hh0 := h.hold_nth i
          unfold unmapHold
          dsimp only
          (repeat' split) <;> simp only <;> omega
      · intro x hx
        rcases mem_set_cases _ _ _ _ hx with e' | e'
        · exact h.rds x e'
        · rw [e']; exact hrp
      · intro x hx
        rcases mem_set_cases _ _ _ _ hx with e' | e'
        · exact h.idx x e'
        · rw [e']; have := h.idx_nth i; omega
    · have hm' : (nth s.rds i).mapped = false := by simpa using hm
      simp only [hm', Bool.not_false, ↓reduceIte, Bool.false_eq_true, Nat.zero_min, Nat.add_zero]
      refine ⟨h.head, h.high, h.mapped, h.total, h.holds, ?_, ?_, h.bounds⟩
      · intro x hx
        rcases mem_set_cases _ _ _ _ hx with e' | e'
        · exact h.rds x e'
        · rw [e']; exact hrp
      · intro x hx
        rcases mem_set_cases _ _ _ _ hx with e' | e'
        · exact h.idx x e'
        · rw [e']; exact h.idx_nth i

theorem A8.step {s : Sys} {g : Ghost} (hi : Inv s g) (h : A8 s) (op : Op) (hwf : op.wf s = true)
    (hal : op.aligned s = true) : A8 (Channel.step s op).1 := by
  cases op with
  | wmap n => exact h.wmap n (by simpa [Op.aligned] using hal)
  | wcommit => exact h.wcommit
  | wabort => exact h.wabort
  | accept b => exact ⟨h.head, h.high, h.mapped, h.total, h.holds, h.rds, h.idx, h.bounds⟩
  | join => exact h.join
  | rmap i => exact h.rmap i
  | runmap i k =>
    simp only [Op.wf, decide_eq_true_eq] at hwf
    exact h.runmap i k hal (hi.rd i (by rw [← hi.l_rds]; exact hwf)).1.id

/-! ## frame boundaries -/

/-- every reader's stream position is a write boundary -/
def BndI (s : Sys) : Prop := ∀ i, i < s.idx.length → nth s.idx i ∈ s.bounds

/-- the hypothesis on a history: a reader consumes up to a write boundary (a whole number of frames) -/
def Op.boundary (s : Sys) : Op → Bool
  | .runmap i k => decide (nth s.idx i + min (mappedLen s i) k ∈ s.bounds)
  | _ => true

def boundaryRun (s : Sys) : List Op → Bool
  | [] => true
  | op :: ops => op.boundary s && boundaryRun (step s op).1 ops

theorem BndI.step {s : Sys} {g : Ghost} (hi : Inv s g) (h : BndI s) (op : Op) (hb : op.boundary s = true) :
    BndI (Channel.step s op).1 := by
  cases op with
  | wmap n =>
    simp only [Channel.step]
    cases writeMap s.c n <;> exact h
  | wcommit =>
    simp only [Channel.step]
    split
    · intro i hi'
      simp only at hi' ⊢
      split
      · exact h i hi'
      · exact List.mem_cons_of_mem _ (h i hi')
    · exact h
  | wabort => exact h
  | accept b => exact h
  | join =>
    simp only [Channel.step]
    intro i hi'
    simp only [List.length_append, List.length_cons, List.length_nil] at hi'
    simp only
    by_cases e : i < s.idx.length
    · rw [nth_append_lt _ _ _ e]; exact h i e
    · have : i = s.idx.length := by omega
      subst this; rw [nth_append_length]; exact hi.b_lap
  | rmap i =>
    simp only [Channel.step]
    split
    · exact h
    · exact h
  | runmap i k =>
    simp only [Channel.step]
    cases hr : s.rds[i]? with
    | none => exact h
    | some r =>
      have hlt : i < s.rds.length := by
        rcases Nat.lt_or_ge i s.rds.length with hl | hl
        · exact hl
        · rw [List.getElem?_eq_none hl] at hr; cases hr
      have hre : r = nth s.rds i := by
        have := getElem?_eq_some_nth s.rds i hlt; rw [hr] at this; exact (Option.some.inj this)
      subst hre
      simp only [Op.boundary, mappedLen] at hb
      intro j hj
      simp only [List.length_set] at hj
      simp only
      by_cases e : i = j
      · subst e
        rw [nth_set_eq _ _ _ hj]
        exact of_decide_eq_true hb
      · rw [nth_set_ne _ _ _ _ e]; exact h j hj

/-- a region handed to a reader ends at a write boundary -/
theorem region_ends_at_boundary {s : Sys} {g : Ghost} (h : Inv s g) (i : Nat) (hi : i < s.c.holds.length)
    (hun : (nth s.rds i).mapped = false) : nth s.idx i + readLen s i ∈ s.bounds := by
  obtain ⟨hspec, hle⟩ := readLen_spec h i hi hun
  unfold unread at hspec
  rcases hspec with e | ⟨e, _⟩
  · have : nth s.idx i + readLen s i = s.total := by omega
    rw [this]; exact h.b_total
  · have : nth s.idx i + readLen s i = s.total - s.c.head := by omega
    rw [this]; exact h.b_lap

/-- all three hypotheses on a history, and what they give for every reachable state -/
theorem frame_invariants {cap : Nat} {s : Sys} {g : Ghost} (hr : Reachable cap s g) (ha : A8 s) (hb : BndI s)
    (ops : List Op) (h1 : wfRun s ops = true) (h2 : alignedRun s ops = true) (h3 : boundaryRun s ops = true) :
    A8 (run s ops) ∧ BndI (run s ops) ∧ Reachable cap (run s ops) (grun s g ops) := by
  induction ops generalizing s g with
  | nil => exact ⟨ha, hb, hr⟩
  | cons op ops ih =>
    simp only [wfRun, alignedRun, boundaryRun, Bool.and_eq_true] at h1 h2 h3
    exact ih (hr.step op h1.1) (ha.step hr.inv op h1.1 h2.1) (hb.step hr.inv op h3.1) h1.2 h2.2 h3.2

end AcqVerif.Channel
