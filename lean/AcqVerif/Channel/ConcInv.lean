import AcqVerif.Channel.Conc
import AcqVerif.Channel.InvStep
/-!
# Invariants of the concurrent channel model: the lock, and no lost wake-up

`CReach cap cs`: `cs` is reachable, under **any schedule**, from threads parked at the
start of arbitrary programs over a channel state that is itself reachable by a
well-formed history; each executed call obeys the API's usage rules when it runs,
and only one thread issues writer calls.
-/
namespace AcqVerif.Channel
open AcqVerif

def isWriterOp : Op → Bool
  | .wmap _ => true | .wcommit => true | .wabort => true | _ => false

def hasWriterOp (p : List Op) : Bool := p.any isWriterOp

/-- the call whose body a step of thread `t` would run under the lock, if any -/
def bodyOp (cs : CState) (t : Nat) : Option Op :=
  match (nth cs.threads t).pc, (nth cs.threads t).prog with
  | .lockReq, op :: _ => some op
  | .woken, op :: _ => some op
  | _, _ => none

def stepWf (cs : CState) (t : Nat) : Bool :=
  match bodyOp cs t with
  | some op => op.wf cs.sys
  | none => true

def singleWriter (ths : List Thread) : Prop :=
  ∀ t u, t < ths.length → u < ths.length →
    hasWriterOp (nth ths t).prog = true → hasWriterOp (nth ths u).prog = true → t = u

inductive CReach (cap : Nat) : CState → Prop
  | init (s : Sys) (g : Ghost) (progs : List (List Op)) (h : Reachable cap s g)
      (single : singleWriter (CState.init s progs).threads) : CReach cap (CState.init s progs)
  | step (cs : CState) (t : Nat) (cs' : CState) :
      CReach cap cs → cstep cs t = some cs' → stepWf cs t = true → CReach cap cs'

/-- `true` for the program counters at which the current call must be a `write_map` -/
def Pc.inWait : Pc → Bool
  | .waitEntry => true | .asleep => true | .woken => true | _ => false

structure CInv (cap : Nat) (cs : CState) : Prop where
  sysok : ∃ g, Reachable cap cs.sys g
  single : singleWriter cs.threads
  lock1 : ∀ t, cs.lock = some t → t < cs.threads.length ∧ (nth cs.threads t).pc = .waitEntry
  lock2 : ∀ t, t < cs.threads.length → (nth cs.threads t).pc = .waitEntry → cs.lock = some t
  /-- a thread at the entry of `condition_variable_wait` has just seen its wait condition hold -/
  w1 : ∀ t, t < cs.threads.length → (nth cs.threads t).pc = .waitEntry →
    ∀ m rest, (nth cs.threads t).prog = .wmap m :: rest → writeMap cs.sys.c m = .block
  /-- **no lost wake-up**: a sleeping writer's wait condition still holds, or a notification is on its way -/
  w2 : ∀ t, t < cs.threads.length → (nth cs.threads t).pc = .asleep →
    ∀ m rest, (nth cs.threads t).prog = .wmap m :: rest →
      writeMap cs.sys.c m = .block ∨ ∃ u, u < cs.threads.length ∧ (nth cs.threads u).pc = .notify

/-! ## small facts -/

theorem nth_map {α β : Type} [Inhabited α] [Inhabited β] (l : List α) (f : α → β) (i : Nat) (h : i < l.length) :
    nth (l.map f) i = f (nth l i) := by
  simp [nth, List.getD, h]

theorem settle_pc (s : Sys) (p : List Op) : (settle s p).pc = .lockReq ∨ (settle s p).pc = .done := by
  induction p with
  | nil => right; rfl
  | cons op rest ih => unfold settle; split; exact ih; left; rfl

theorem settle_suffix (s : Sys) (p : List Op) : ∃ pre, p = pre ++ (settle s p).prog := by
  induction p with
  | nil => exact ⟨[], rfl⟩
  | cons op rest ih =>
    unfold settle; split
    · obtain ⟨pre, e⟩ := ih; exact ⟨op :: pre, by rw [List.cons_append, ← e]⟩
    · exact ⟨[], rfl⟩

theorem hasWriterOp_suffix (pre p : List Op) (h : hasWriterOp p = true) : hasWriterOp (pre ++ p) = true := by
  simp only [hasWriterOp, List.any_append, Bool.or_eq_true] at *; right; exact h

theorem hasWriterOp_settle (s : Sys) (p : List Op) (h : hasWriterOp (settle s p).prog = true) :
    hasWriterOp p = true := by
  obtain ⟨pre, e⟩ := settle_suffix s p
  rw [e]; exact hasWriterOp_suffix _ _ h

theorem hasWriterOp_tail (op : Op) (rest : List Op) (h : hasWriterOp rest = true) : hasWriterOp (op :: rest) = true :=
  hasWriterOp_suffix [op] rest h

theorem settle_not_inWait (s : Sys) (p : List Op) : (settle s p).pc.inWait = false := by
  rcases settle_pc s p with e | e <;> rw [e] <;> rfl

/-- replacing thread `u` by one whose program is a suffix keeps the single-writer rule -/
theorem singleWriter_set (ths : List Thread) (u : Nat) (th : Thread) (hu : u < ths.length)
    (hs : singleWriter ths) (hsub : hasWriterOp th.prog = true → hasWriterOp (nth ths u).prog = true) :
    singleWriter (ths.set u th) := by
  intro a b ha hb wa wb
  simp only [List.length_set] at ha hb
  have fa : hasWriterOp (nth ths a).prog = true := by
    by_cases e : u = a
    · subst e; rw [nth_set_eq _ _ _ hu] at wa; exact hsub wa
    · rw [nth_set_ne _ _ _ _ e] at wa; exact wa
  have fb : hasWriterOp (nth ths b).prog = true := by
    by_cases e : u = b
    · subst e; rw [nth_set_eq _ _ _ hu] at wb; exact hsub wb
    · rw [nth_set_ne _ _ _ _ e] at wb; exact wb
  exact hs a b ha hb fa fb

/-! ## refusal and drained readers -/

/-- **C03.4** — once writes are refused, `channel_write_map` never waits: it returns "no region". -/
theorem writeMap_refused (c : Chan) (n : Nat) (h : c.accepting = false) : writeMap c n ≠ .block := by
  unfold writeMap
  split
  · intro e; cases e
  · split
    · split <;> (intro e; cases e)
    · rw [h]; intro e; cases e

theorem minHold_append_one (x : Hold) (l : List Hold) (y : Hold) :
    minHold x (l ++ [y]) = if (minHold x l).gt y then y else minHold x l := by
  induction l generalizing x with
  | nil => simp only [List.nil_append, minHold]; rfl
  | cons z zs ih => simp only [List.cons_append, minHold]; split <;> exact ih _

/-- a registered reader joining cannot make a blocked write admissible (it only adds a constraint) -/
theorem join_keeps_block {s : Sys} {g : Ghost} (h : Inv s g) (m : Nat)
    (hb : writeMap s.c m = .block) :
    writeMap { s.c with holds := s.c.holds ++ [⟨0, s.c.cycle⟩] } m = .block := by
  have h1 := h.hm; have h2 := h.mc
  unfold writeMap at hb ⊢
  simp only at hb ⊢
  split at hb
  · cases hb
  · rename_i hn
    rw [if_neg hn]
    split at hb
    · split at hb <;> cases hb
    · rename_i hne
      have hne2 : ¬ ((s.c.holds ++ [(⟨0, s.c.cycle⟩ : Hold)]).isEmpty = true) := by simp
      rw [if_neg hne2]
      split at hb
      · cases hb
      · rename_i hacc
        rw [if_neg hacc]
        cases hnw : nextWrite s.c m with
        | «at» b w => rw [hnw] at hb; cases hb
        | no =>
          -- the minimum over the extended list is the old minimum or the new hold (0, cycle)
          have hne' : s.c.holds ≠ [] := by intro e; simp [e] at hne
          obtain ⟨k, hk, hke⟩ := exists_nth_of_mem _ _ (readerMin_mem s.c.holds hne')
          have hrel := (h.rd k hk).1.hold
          rw [hke] at hrel
          have hmin : readerMin (s.c.holds ++ [(⟨0, s.c.cycle⟩ : Hold)]) =
              if (readerMin s.c.holds).gt ⟨0, s.c.cycle⟩ then (⟨0, s.c.cycle⟩ : Hold) else readerMin s.c.holds := by
            cases hh : s.c.holds with
            | nil => exact absurd hh hne'
            | cons a t =>
              simp only [List.cons_append, readerMin]
              exact minHold_append_one a t _
          have hnw2 : nextWrite { s.c with holds := s.c.holds ++ [⟨0, s.c.cycle⟩] } m = .no := by
            unfold nextWrite at hnw ⊢
            simp only at hnw ⊢
            rw [hmin]
            generalize readerMin s.c.holds = mn at *
            unfold HoldRel at hrel
            by_cases hgt : mn.gt ⟨0, s.c.cycle⟩ = true
            · rw [if_pos hgt]
              simp only [Hold.gt, decide_eq_true_eq] at hgt
              simp only
              (repeat' split at hnw) <;> first | (cases hnw; done) | skip
              all_goals (repeat' split) <;> first | rfl | omega
            · rw [if_neg hgt]; exact hnw
          rw [hnw2]

/-- **C03.3a** — when every registered reader has caught up with the writer (its bookmark is the
writer's cursor), any request smaller than the capacity is admissible (while writes are accepted). -/
theorem space_when_caught_up {s : Sys} {g : Ghost} (h : Inv s g) (n : Nat) (hn : n < s.c.cap)
    (hd : ∀ i, i < s.c.holds.length → nth s.c.holds i = ⟨s.c.head, s.c.cycle⟩) : writeMap s.c n ≠ .block := by
  have h1 := h.hm; have h2 := h.mc
  intro hb
  unfold writeMap at hb
  simp only at hb
  rw [if_neg (by omega)] at hb
  split at hb
  · split at hb <;> cases hb
  · rename_i hne
    have hne' : s.c.holds ≠ [] := by intro e; simp [e] at hne
    split at hb
    · cases hb
    · obtain ⟨k, hk, hke⟩ := exists_nth_of_mem _ _ (readerMin_mem s.c.holds hne')
      have hdk := hd k hk
      rw [hke] at hdk
      cases hnw : nextWrite s.c n with
      | «at» b w => rw [hnw] at hb; cases hb
      | no =>
        unfold nextWrite at hnw
        simp only at hnw
        rw [hdk] at hnw
        simp only at hnw
        (repeat' split at hnw) <;> first | (cases hnw; done) | contradiction | omega

end AcqVerif.Channel
