import AcqVerif.Channel.Translated
import AcqVerif.Channel.InvStep
import AcqVerif.Props.C02
import AcqVerif.Props.C01
/-!
# The translated `channel.c` refines the model, history by history

`CSys` is a channel *as the C has it* (the regenerated `CChannel`: flat arrays of `MAX_READERS` entries, a data address, the
ghosts `notified` / `blocked`) together with the reader handles the callers hold.  `cstep` executes one API call by calling
the **translated** function of `Generated/ChannelC.lean`.  `Sim cs s` relates it to a model state.  `refine_step` shows that
every well-formed operation preserves `Sim` and produces the same observable result; `refine_run` lifts that to every
well-formed history from a fresh channel — so each theorem of C01 / C02 / C05 about the model's results and states is a theorem
about what the translated code returns and leaves behind.
-/
namespace AcqVerif.Channel.Refine
open AcqVerif AcqVerif.Channel AcqVerif.Channel.Translated AcqVerif.Generated.ChannelC

structure CSys where
  ch : CChannel
  rds : List CReader

/-- what a caller of the C sees -/
inductive COut where
  | unit
  | wnull                                  -- `channel_write_map` returned NULL
  | wblock                                 -- … reached `condition_variable_wait`
  | wok (addr : Nat)                       -- … returned this address
  | slice (beg end_ status : Nat)          -- `channel_read_map` returned `{beg, end}`, reader status
  | bad
deriving DecidableEq, Repr

def cstep (cs : CSys) : Op → CSys × COut
  | .wmap n =>
    let r := channel_write_map cs.ch n
    if r.2.blocked ≠ 0 then (cs, .wblock)
    else if r.1 = 0 then ({ cs with ch := r.2 }, .wnull)
    else ({ cs with ch := r.2 }, .wok r.1)
  | .wcommit => ({ cs with ch := channel_write_unmap cs.ch }, .unit)
  | .wabort => ({ cs with ch := channel_abort_write cs.ch }, .unit)
  | .accept b => ({ cs with ch := channel_accept_writes cs.ch (if b then 1 else 0) }, .unit)
  | .join =>
    let r := channel_read_map cs.ch {}
    ({ ch := r.2.1, rds := cs.rds ++ [r.2.2] }, .slice r.1.1 r.1.2 r.2.2.status)
  | .rmap i =>
    match cs.rds[i]? with
    | none => (cs, .bad)
    | some rd =>
      let r := channel_read_map cs.ch rd
      ({ ch := r.2.1, rds := cs.rds.set i r.2.2 }, .slice r.1.1 r.1.2 r.2.2.status)
  | .runmap i k =>
    match cs.rds[i]? with
    | none => (cs, .bad)
    | some rd =>
      let r := channel_read_unmap cs.ch rd k
      ({ ch := r.1, rds := cs.rds.set i r.2 }, .unit)

def crun (cs : CSys) : List Op → CSys
  | [] => cs
  | op :: ops => crun (cstep cs op).1 ops

/-- the C state and the model state describe the same channel -/
structure Sim (cs : CSys) (s : Sys) : Prop where
  ch : abs cs.ch = s.c
  rds : cs.rds.map absRd = s.rds
  lp : cs.ch.holds_pos.length = 8
  lc : cs.ch.holds_cycles.length = 8
  nb : cs.ch.blocked = 0
  data : 0 < cs.ch.data
  n8 : s.rds.length ≤ 8

/-- the same observable result: a region is compared by its length and, when it is not empty, by where it starts -/
def OutRel (data : Nat) : COut → Out → Prop
  | .unit, .unit => True
  | .wnull, .wnull => True
  | .wblock, .wblock => True
  | .wok a, .wok beg => a = data + beg
  | .slice b e st, .slice beg len st' => e = b + len ∧ st = st' ∧ (len ≠ 0 → b = data + beg)
  | .bad, .bad => True
  | _, _ => False

theorem Sim.n_le {cs : CSys} {s : Sys} {g : Ghost} (h : Sim cs s) (hi : Inv s g) : cs.ch.holds_n = s.rds.length := by
  have := hi.l_rds
  rw [← h.ch] at this
  simp only [abs, holdsOf_length] at this
  exact this.symm

theorem Sim.wf {cs : CSys} {s : Sys} {g : Ghost} (h : Sim cs s) (hi : Inv s g) : Wf cs.ch := by
  have := h.n_le hi
  exact ⟨by rw [h.lp, this]; exact h.n8, by rw [h.lc, this]; exact h.n8⟩

theorem rds_get {cs : CSys} {s : Sys} (h : Sim cs s) (i : Nat) : (cs.rds[i]?).map absRd = s.rds[i]? := by
  rw [← h.rds]; simp

/-- **one API call of the translated code does what the model's `step` does**, for every well-formed operation in every state
the invariant allows -/
theorem refine_step {cs : CSys} {s : Sys} {g : Ghost} (h : Sim cs s) (hi : Inv s g) (op : Op) (hwf : op.wf s = true) :
    Sim (cstep cs op).1 (step s op).1 ∧ OutRel cs.ch.data (cstep cs op).2 (step s op).2 ∧ (cstep cs op).1.ch.data = cs.ch.data := by
  have hw := h.wf hi
  have hn := h.n_le hi
  cases op with
  | wmap n =>
    have e := channel_write_map_eq cs.ch n hw
    rw [h.ch] at e
    simp only [cstep, step]
    cases hm : writeMap s.c n with
    | null =>
      rw [hm] at e; simp only at e
      simp only [e, h.nb, ne_eq, not_true_eq_false, ↓reduceIte]
      exact ⟨⟨h.ch, h.rds, h.lp, h.lc, h.nb, h.data, h.n8⟩, trivial, trivial⟩
    | block =>
      rw [hm] at e; simp only at e
      simp only [e, ne_eq, Nat.succ_ne_zero, not_false_eq_true, ↓reduceIte]
      exact ⟨h, trivial, trivial⟩
    | ok beg c' =>
      rw [hm] at e; simp only at e
      obtain ⟨e1, e2, e3, _, e5, e6, e7⟩ := e
      have hd := h.data
      have : ¬ (channel_write_map cs.ch n).2.blocked ≠ 0 := by rw [e3, h.nb]; simp
      have h0 : ¬ (channel_write_map cs.ch n).1 = 0 := by rw [e1]; omega
      simp only [this, h0, ↓reduceIte]
      exact ⟨⟨e2, h.rds, by rw [e6]; exact h.lp, by rw [e7]; exact h.lc, by rw [e3]; exact h.nb, by rw [e5]; exact hd, h.n8⟩, e1, e5⟩
  | wcommit =>
    obtain ⟨e1, _, e3, e4⟩ := channel_write_unmap_eq cs.ch
    rw [h.ch] at e1
    have l1 : (channel_write_unmap cs.ch).holds_pos = cs.ch.holds_pos := by unfold channel_write_unmap; split <;> rfl
    have l2 : (channel_write_unmap cs.ch).holds_cycles = cs.ch.holds_cycles := by unfold channel_write_unmap; split <;> rfl
    simp only [cstep, step]
    split
    · exact ⟨⟨by rw [e1], h.rds, by rw [l1]; exact h.lp, by rw [l2]; exact h.lc, by rw [e3]; exact h.nb, by rw [e4]; exact h.data, h.n8⟩, trivial, e4⟩
    · rename_i hacc
      have : writeUnmap s.c = s.c := by unfold writeUnmap; simp [hacc]
      exact ⟨⟨by rw [e1, this], h.rds, by rw [l1]; exact h.lp, by rw [l2]; exact h.lc, by rw [e3]; exact h.nb, by rw [e4]; exact h.data, h.n8⟩, trivial, e4⟩
  | wabort =>
    obtain ⟨e1, _, e3, e4⟩ := channel_abort_write_eq cs.ch
    rw [h.ch] at e1
    have l1 : (channel_abort_write cs.ch).holds_pos = cs.ch.holds_pos := by unfold channel_abort_write; split <;> rfl
    have l2 : (channel_abort_write cs.ch).holds_cycles = cs.ch.holds_cycles := by unfold channel_abort_write; split <;> rfl
    simp only [cstep, step]
    exact ⟨⟨e1, h.rds, by rw [l1]; exact h.lp, by rw [l2]; exact h.lc, by rw [e3]; exact h.nb, by rw [e4]; exact h.data, h.n8⟩, trivial, e4⟩
  | accept b =>
    obtain ⟨e1, _⟩ := channel_accept_writes_eq cs.ch (if b then 1 else 0)
    rw [h.ch] at e1
    have hb : decide ((if b then 1 else 0) % 256 ≠ 0) = b := by cases b <;> simp
    rw [hb] at e1
    simp only [cstep, step]
    exact ⟨⟨e1, h.rds, h.lp, h.lc, h.nb, h.data, h.n8⟩, trivial, rfl⟩
  | join =>
    simp only [Op.wf, decide_eq_true_eq] at hwf
    have hroom : ({} : CReader).id = 0 → cs.ch.holds_n < cs.ch.holds_pos.length ∧ cs.ch.holds_n < cs.ch.holds_cycles.length := by
      intro _; rw [h.lp, h.lc, hn]; exact ⟨hwf, hwf⟩
    obtain ⟨e1, e2, e3, e4, e5, e6, e7, _, _⟩ := channel_read_map_eq cs.ch {} hw hroom (by simp)
    obtain ⟨l1, l2⟩ := channel_read_map_len cs.ch {}
    have hr0 : absRd {} = ({} : Rd) := by simp [absRd, ChannelState_Mapped]
    rw [h.ch, hr0] at e1 e2 e3 e4
    simp only [cstep, step]
    refine ⟨⟨e1, ?_, by rw [l1]; exact h.lp, by rw [l2]; exact h.lc, by rw [e5]; exact h.nb, by rw [e6]; exact h.data, ?_⟩, ⟨e3, ?_, ?_⟩, e6⟩
    · simp [h.rds, e2]
    · simp; omega
    · rw [← e2]; simp [absRd]
    · intro hl; rw [e4 hl]
  | rmap i =>
    obtain ⟨hlt, hget, hun⟩ := rmap_wf hi hwf
    have hg := rds_get h i
    rw [hget] at hg
    cases hc : cs.rds[i]? with
    | none => rw [hc] at hg; simp at hg
    | some rd =>
      rw [hc] at hg
      simp only [Option.map_some, Option.some.injEq] at hg
      have hid : rd.id ≤ cs.ch.holds_n := by
        have := ((hi.rd i hlt).1).id
        rw [← hg] at this
        simp only [absRd] at this
        rw [hn, hi.l_rds]; omega
      have hroom : rd.id = 0 → cs.ch.holds_n < cs.ch.holds_pos.length ∧ cs.ch.holds_n < cs.ch.holds_cycles.length := by
        intro h0
        have := ((hi.rd i hlt).1).id
        rw [← hg] at this
        simp only [absRd] at this
        omega
      obtain ⟨e1, e2, e3, e4, e5, e6, e7, _, _⟩ := channel_read_map_eq cs.ch rd hw hroom hid
      obtain ⟨l1, l2⟩ := channel_read_map_len cs.ch rd
      rw [h.ch, hg] at e1 e2 e3 e4
      simp only [cstep, step, hc, hget]
      refine ⟨⟨e1, ?_, by rw [l1]; exact h.lp, by rw [l2]; exact h.lc, by rw [e5]; exact h.nb, by rw [e6]; exact h.data, ?_⟩, ⟨e3, ?_, ?_⟩, e6⟩
      · show List.map absRd (cs.rds.set i _) = s.rds.set i _
        rw [List.map_set, h.rds, e2]
      · simp; exact h.n8
      · rw [← e2]; simp [absRd]
      · intro hl; rw [e4 hl]
  | runmap i k =>
    simp only [Op.wf, decide_eq_true_eq] at hwf
    have hlt : i < s.c.holds.length := by rw [← hi.l_rds]; exact hwf
    have hget : s.rds[i]? = some (nth s.rds i) := getElem?_eq_some_nth _ _ hwf
    have hg := rds_get h i
    rw [hget] at hg
    cases hc : cs.rds[i]? with
    | none => rw [hc] at hg; simp at hg
    | some rd =>
      rw [hc] at hg
      simp only [Option.map_some, Option.some.injEq] at hg
      have hidm := ((hi.rd i hlt).1).id
      rw [← hg] at hidm
      simp only [absRd] at hidm
      obtain ⟨e1, e2, _, e4, e5, e6⟩ := channel_read_unmap_eq cs.ch rd k hw (by omega) (by rw [hn, hi.l_rds]; omega)
      obtain ⟨l1, l2⟩ := channel_read_unmap_len cs.ch rd k
      rw [h.ch, hg] at e1 e2
      simp only [cstep, step, hc, hget]
      refine ⟨⟨e1, ?_, by rw [l1]; exact h.lp, by rw [l2]; exact h.lc, by rw [e4]; exact h.nb, by rw [e5]; exact h.data, ?_⟩, trivial, e5⟩
      · show List.map absRd (cs.rds.set i _) = s.rds.set i _
        rw [List.map_set, h.rds, e2]
      · simp; exact h.n8

/-- a fresh channel as `channel_new` leaves it (arrays of `MAX_READERS` zeroed entries, accepting writes) -/
def CSys.init (cap data : Nat) : CSys :=
  { ch := { data := data, capacity := cap, is_accepting_writes := 1, holds_pos := List.replicate 8 0, holds_cycles := List.replicate 8 0 }, rds := [] }

theorem Sim.init (cap data : Nat) (hd : 0 < data) : Sim (CSys.init cap data) (Sys.init cap) := by
  refine ⟨?_, rfl, by simp [CSys.init], by simp [CSys.init], rfl, hd, by simp [Sys.init]⟩
  simp [CSys.init, Sys.init, abs, holdsOf]

/-- **every well-formed history**: running the translated functions from a fresh channel stays in simulation with the model — the
state the code leaves behind is, up to `abs`, the state every C01 / C02 / C05 theorem speaks about -/
theorem refine_run {cs : CSys} {s : Sys} {g : Ghost} (h : Sim cs s) (hi : Inv s g) (ops : List Op) (hwf : wfRun s ops = true) :
    Sim (crun cs ops) (run s ops) := by
  induction ops generalizing cs s g with
  | nil => exact h
  | cons op ops ih =>
    simp only [wfRun, Bool.and_eq_true] at hwf
    exact ih (refine_step h hi op hwf.1).1 (hi.step op hwf.1) hwf.2

theorem refine_history (cap data : Nat) (hd : 0 < data) (ops : List Op) (hwf : wfRun (Sys.init cap) ops = true) :
    Sim (crun (CSys.init cap data) ops) (run (Sys.init cap) ops) :=
  refine_run (Sim.init cap data hd) (Inv.init cap) ops hwf

/-- … and the next call returns what the model returns: e.g. **C02.1 for the translated code** — a region handed to the writer after
any well-formed history lies inside the buffer `[data, data + cap)` -/
theorem write_region_in_buffer (cap data : Nat) (hd : 0 < data) (ops : List Op) (hwf : wfRun (Sys.init cap) ops = true) (n addr : Nat)
    (hw : (cstep (crun (CSys.init cap data) ops) (.wmap n)).2 = .wok addr) : data ≤ addr ∧ addr + n ≤ data + cap := by
  have hs := refine_history cap data hd ops hwf
  have hi : Inv (run (Sys.init cap) ops) (grun (Sys.init cap) {} ops) := (Inv.init cap).run ops hwf
  obtain ⟨_, ho, _⟩ := refine_step hs hi (.wmap n) rfl
  have hdat : (crun (CSys.init cap data) ops).ch.data = data := by
    clear ho hw
    have : ∀ (cs : CSys) (s : Sys) (g : Ghost), Sim cs s → Inv s g → ∀ ops, wfRun s ops = true → (crun cs ops).ch.data = cs.ch.data := by
      intro cs s g h hi ops
      induction ops generalizing cs s g with
      | nil => intro _; rfl
      | cons op ops ih =>
        intro hwf
        simp only [wfRun, Bool.and_eq_true] at hwf
        obtain ⟨h1, _, h3⟩ := refine_step h hi op hwf.1
        simp only [crun]
        rw [ih _ _ _ h1 (hi.step op hwf.1) hwf.2, h3]
    exact this _ _ _ (Sim.init cap data hd) (Inv.init cap) ops hwf
  rw [hw] at ho
  cases hm : (step (run (Sys.init cap) ops) (.wmap n)).2 with
  | wok beg =>
    rw [hm] at ho
    simp only [OutRel] at ho
    have := C02.write_region_in_buffer (cap := cap) ⟨⟨ops, hwf, rfl, rfl⟩⟩ n beg hm
    rw [hdat] at ho
    omega
  | unit => rw [hm] at ho; exact absurd ho (by simp [OutRel])
  | wnull => rw [hm] at ho; exact absurd ho (by simp [OutRel])
  | wblock => rw [hm] at ho; exact absurd ho (by simp [OutRel])
  | slice a b c => rw [hm] at ho; exact absurd ho (by simp [OutRel])
  | bad => rw [hm] at ho; exact absurd ho (by simp [OutRel])

end AcqVerif.Channel.Refine

namespace AcqVerif.Channel.Refine
open AcqVerif AcqVerif.Channel AcqVerif.Channel.Translated AcqVerif.Generated.ChannelC

theorem crun_data {cs : CSys} {s : Sys} {g : Ghost} (h : Sim cs s) (hi : Inv s g) (ops : List Op) (hwf : wfRun s ops = true) :
    (crun cs ops).ch.data = cs.ch.data := by
  induction ops generalizing cs s g with
  | nil => rfl
  | cons op ops ih =>
    simp only [wfRun, Bool.and_eq_true] at hwf
    obtain ⟨h1, _, h3⟩ := refine_step h hi op hwf.1
    simp only [crun]
    rw [ih h1 (hi.step op hwf.1) hwf.2, h3]

/-- **C01.1 / C01.5 / C01.6 for the translated code** — after any well-formed history from a fresh channel, `channel_read_map` for a
registered reader that is not mapped returns status `Channel_Ok` and a region `[b, e)` that lies inside the buffer; the region is empty
only if the reader is drained (its stream position is the number of bytes committed so far) -/
theorem read_map_translated (cap data : Nat) (hd : 0 < data) (ops : List Op) (hwf : wfRun (Sys.init cap) ops = true) (i : Nat)
    (hwfi : (Op.rmap i).wf (run (Sys.init cap) ops) = true) (b e st : Nat)
    (hr : (cstep (crun (CSys.init cap data) ops) (.rmap i)).2 = .slice b e st) :
    st = 0 ∧ b ≤ e ∧ (b < e → data ≤ b ∧ e ≤ data + cap) ∧
      (b = e → nth (run (Sys.init cap) ops).idx i = (run (Sys.init cap) ops).total) := by
  have hs := refine_history cap data hd ops hwf
  have hreach : Reachable cap (run (Sys.init cap) ops) (grun (Sys.init cap) {} ops) := ⟨⟨ops, hwf, rfl, rfl⟩⟩
  obtain ⟨_, ho, _⟩ := refine_step hs hreach.inv (.rmap i) hwfi
  have hdat := crun_data (Sim.init cap data hd) (Inv.init cap) ops hwf
  obtain ⟨beg, len, e1, e2, _, _, e5, _⟩ := C01.read_map_spec hreach i hwfi
  rw [hr, e1] at ho
  simp only [OutRel] at ho
  obtain ⟨o1, o2, o3⟩ := ho
  rw [hdat] at o3
  have hd' : (CSys.init cap data).ch.data = data := rfl
  rw [hd'] at o3
  refine ⟨o2, by omega, ?_, ?_⟩
  · intro hlt
    have : len ≠ 0 := by omega
    have := o3 this
    omega
  · intro heq
    have : len = 0 := by omega
    exact e2 this

/-- **C02.2(a) for the translated code** — a region `[addr, addr + n)` handed to the writer after any well-formed history does not
intersect the region any reader has mapped at that moment: reader `i`'s region starts at `data + holds_pos[i]` (the C field) and has
the length the model gives it (`C02.regionLen`, 0 when the reader is not mapped). -/
theorem write_avoids_mapped_readers (cap data : Nat) (hd : 0 < data) (ops : List Op) (hwf : wfRun (Sys.init cap) ops = true)
    (n addr : Nat) (hw : (cstep (crun (CSys.init cap data) ops) (.wmap n)).2 = .wok addr) (i : Nat)
    (hi : i < (crun (CSys.init cap data) ops).ch.holds_n) :
    C02.regionLen (run (Sys.init cap) ops) i = 0 ∨
      addr + n ≤ data + (crun (CSys.init cap data) ops).ch.holds_pos.getD i 0 ∨
      data + (crun (CSys.init cap data) ops).ch.holds_pos.getD i 0 + C02.regionLen (run (Sys.init cap) ops) i ≤ addr := by
  have hs := refine_history cap data hd ops hwf
  have hreach : Reachable cap (run (Sys.init cap) ops) (grun (Sys.init cap) {} ops) := ⟨⟨ops, hwf, rfl, rfl⟩⟩
  obtain ⟨_, ho, _⟩ := refine_step hs hreach.inv (.wmap n) rfl
  have hdat := crun_data (Sim.init cap data hd) (Inv.init cap) ops hwf
  have hd' : (CSys.init cap data).ch.data = data := rfl
  have hn := hs.n_le hreach.inv
  rw [hw] at ho
  cases hm : (step (run (Sys.init cap) ops) (.wmap n)).2 with
  | wok beg =>
    rw [hm] at ho
    simp only [OutRel] at ho
    rw [hdat, hd'] at ho
    have hav := (C02.write_avoids_readers hreach n beg hm i (by omega)).1
    have hb : C02.regionBeg (run (Sys.init cap) ops) i = (crun (CSys.init cap data) ops).ch.holds_pos.getD i 0 := by
      unfold C02.regionBeg nth
      rw [← hs.ch]
      simp only [abs]
      rw [holdsOf_getD _ _ _ _ hi]
    rw [hb] at hav
    omega
  | unit => rw [hm] at ho; exact absurd ho (by simp [OutRel])
  | wnull => rw [hm] at ho; exact absurd ho (by simp [OutRel])
  | wblock => rw [hm] at ho; exact absurd ho (by simp [OutRel])
  | slice a b c => rw [hm] at ho; exact absurd ho (by simp [OutRel])
  | bad => rw [hm] at ho; exact absurd ho (by simp [OutRel])

/-- **C01.6 for the translated code** — after any well-formed history every reader handle the callers hold has status `Channel_Ok`. -/
theorem status_stays_ok (cap data : Nat) (hd : 0 < data) (ops : List Op) (hwf : wfRun (Sys.init cap) ops = true)
    (r : CReader) (hr : r ∈ (crun (CSys.init cap data) ops).rds) : r.status = 0 := by
  have hs := refine_history cap data hd ops hwf
  have hreach : Reachable cap (run (Sys.init cap) ops) (grun (Sys.init cap) {} ops) := ⟨⟨ops, hwf, rfl, rfl⟩⟩
  obtain ⟨i, hi, rfl⟩ := List.getElem_of_mem hr
  have hl : (run (Sys.init cap) ops).rds.length = (crun (CSys.init cap data) ops).rds.length := by
    rw [← hs.rds, List.length_map]
  have h0 := C01.status_stays_ok hreach i (by omega)
  have he : nth (run (Sys.init cap) ops).rds i = absRd ((crun (CSys.init cap data) ops).rds[i]) := by
    unfold nth
    rw [← hs.rds, List.getD_eq_getElem?_getD, List.getElem?_map, List.getElem?_eq_getElem hi]
    rfl
  rw [he] at h0
  exact h0

/-- **reader identity for the translated code** — after any well-formed history the `i`-th handle handed out carries id `i + 1` and
the channel counts exactly the handles handed out (`holds_n`): every handle names its own bookmark slot, no two share one. -/
theorem handle_ids (cap data : Nat) (hd : 0 < data) (ops : List Op) (hwf : wfRun (Sys.init cap) ops = true) :
    (crun (CSys.init cap data) ops).rds.length = (crun (CSys.init cap data) ops).ch.holds_n ∧
    ∀ (i : Nat) (hi : i < (crun (CSys.init cap data) ops).rds.length), ((crun (CSys.init cap data) ops).rds[i]).id = i + 1 := by
  have hs := refine_history cap data hd ops hwf
  have hreach : Reachable cap (run (Sys.init cap) ops) (grun (Sys.init cap) {} ops) := ⟨⟨ops, hwf, rfl, rfl⟩⟩
  have hl : (run (Sys.init cap) ops).rds.length = (crun (CSys.init cap data) ops).rds.length := by
    rw [← hs.rds, List.length_map]
  refine ⟨by rw [hs.n_le hreach.inv, hl], ?_⟩
  intro i hi
  have h0 := (hreach.inv.rd i (by rw [← hreach.inv.l_rds]; omega)).1.id
  have he : nth (run (Sys.init cap) ops).rds i = absRd ((crun (CSys.init cap data) ops).rds[i]) := by
    unfold nth
    rw [← hs.rds, List.getD_eq_getElem?_getD, List.getElem?_map, List.getElem?_eq_getElem hi]
    rfl
  rw [he] at h0
  exact h0

/-- **the cursors of the translated code stay inside the ring** — after any well-formed history the C fields satisfy
`head ≤ mapped ≤ capacity` and `high ≤ capacity` (so `data + head`, `data + mapped`, `data + high` never leave the allocation). -/
theorem cursors_in_bounds (cap data : Nat) (hd : 0 < data) (ops : List Op) (hwf : wfRun (Sys.init cap) ops = true) :
    (crun (CSys.init cap data) ops).ch.head ≤ (crun (CSys.init cap data) ops).ch.mapped ∧
    (crun (CSys.init cap data) ops).ch.mapped ≤ (crun (CSys.init cap data) ops).ch.capacity ∧
    (crun (CSys.init cap data) ops).ch.high ≤ (crun (CSys.init cap data) ops).ch.capacity := by
  have hs := refine_history cap data hd ops hwf
  have hi : Inv (run (Sys.init cap) ops) (grun (Sys.init cap) {} ops) := (Inv.init cap).run ops hwf
  have h1 := hi.hm; have h2 := hi.mc; have h3 := hi.hc
  rw [← hs.ch] at h1 h2 h3
  exact ⟨h1, h2, h3⟩

/-- **the writer never passes a bookmark (C02, on the C fields)** — after any well-formed history every registered reader's bookmark
`(holds_cycles[i], holds_pos[i])` is either on the writer's lap and at or behind `head`, or exactly one lap behind and at or beyond
`mapped` (and within `high`): no reader is ever more than one lap behind, and nothing at or after a lagging bookmark has been mapped
for writing. -/
theorem bookmarks_behind_writer (cap data : Nat) (hd : 0 < data) (ops : List Op) (hwf : wfRun (Sys.init cap) ops = true)
    (i : Nat) (hi : i < (crun (CSys.init cap data) ops).ch.holds_n) :
    ((crun (CSys.init cap data) ops).ch.holds_cycles.getD i 0 = (crun (CSys.init cap data) ops).ch.cycle ∧
      (crun (CSys.init cap data) ops).ch.holds_pos.getD i 0 ≤ (crun (CSys.init cap data) ops).ch.head) ∨
    ((crun (CSys.init cap data) ops).ch.holds_cycles.getD i 0 + 1 = (crun (CSys.init cap data) ops).ch.cycle ∧
      (crun (CSys.init cap data) ops).ch.mapped ≤ (crun (CSys.init cap data) ops).ch.holds_pos.getD i 0 ∧
      (crun (CSys.init cap data) ops).ch.holds_pos.getD i 0 ≤ (crun (CSys.init cap data) ops).ch.high) := by
  have hs := refine_history cap data hd ops hwf
  have hinv : Inv (run (Sys.init cap) ops) (grun (Sys.init cap) {} ops) := (Inv.init cap).run ops hwf
  have hn := hs.n_le hinv
  have hl := hinv.l_rds
  have hold := (hinv.rd i (by omega)).1.hold
  have hb : nth (run (Sys.init cap) ops).c.holds i =
      ⟨(crun (CSys.init cap data) ops).ch.holds_pos.getD i 0, (crun (CSys.init cap data) ops).ch.holds_cycles.getD i 0⟩ := by
    unfold nth
    rw [← hs.ch]
    simp only [abs]
    rw [holdsOf_getD _ _ _ _ hi]
  rw [hb, ← hs.ch] at hold
  unfold HoldRel at hold
  simp only [abs] at hold
  rcases hold with ⟨a, b, _⟩ | ⟨a, b, c, _⟩
  · exact Or.inl ⟨a, b⟩
  · exact Or.inr ⟨a, b, c⟩

/-- model level: a mapped reader's region never intersects `[head, mapped)`, the part of the ring handed out for writing -/
theorem model_region_avoids_pending {s : Sys} {g : Ghost} (hinv : Inv s g) (i : Nat) (hi : i < s.c.holds.length) :
    C02.regionLen s i = 0 ∨ (nth s.c.holds i).pos + C02.regionLen s i ≤ s.c.head ∨ s.c.mapped ≤ (nth s.c.holds i).pos := by
  have ri := (hinv.rd i hi).1
  have hold := ri.hold
  have hm' := hinv.hm
  unfold C02.regionLen
  by_cases hm : (nth s.rds i).mapped = true
  · rw [if_pos hm]
    have mr := ri.mapped hm
    unfold HoldRel at hold
    rcases availBytes_of_mapped _ _ _ mr with ⟨e, _, _⟩ | ⟨e, _, _, _, e5⟩
    · rw [e]
      rcases mr with ⟨_, m2, m3, m4⟩ | ⟨_, m2, _, _⟩
      · rcases hold with ⟨a, _, _⟩ | ⟨a, b, _, _⟩
        · have := m3 a
          right; left; omega
        · right; right; exact b
      · omega
    · rw [e]
      rcases hold with ⟨a, _, _⟩ | ⟨_, b, _, _⟩
      · omega
      · right; right; exact b
  · rw [if_neg hm]; left; rfl

/-- **readers and the writer never share bytes (C02, on the C fields)** — after any well-formed history the region reader `i` has
mapped, `[holds_pos[i], holds_pos[i] + regionLen i)`, does not intersect `[head, mapped)`, the part of the ring currently handed out
for writing. -/
theorem mapped_regions_avoid_pending_write (cap data : Nat) (hd : 0 < data) (ops : List Op) (hwf : wfRun (Sys.init cap) ops = true)
    (i : Nat) (hi : i < (crun (CSys.init cap data) ops).ch.holds_n) :
    C02.regionLen (run (Sys.init cap) ops) i = 0 ∨
      (crun (CSys.init cap data) ops).ch.holds_pos.getD i 0 + C02.regionLen (run (Sys.init cap) ops) i
        ≤ (crun (CSys.init cap data) ops).ch.head ∨
      (crun (CSys.init cap data) ops).ch.mapped ≤ (crun (CSys.init cap data) ops).ch.holds_pos.getD i 0 := by
  have hs := refine_history cap data hd ops hwf
  have hinv : Inv (run (Sys.init cap) ops) (grun (Sys.init cap) {} ops) := (Inv.init cap).run ops hwf
  have hn := hs.n_le hinv
  have hl := hinv.l_rds
  have h := model_region_avoids_pending hinv i (by omega)
  have hb : (nth (run (Sys.init cap) ops).c.holds i).pos = (crun (CSys.init cap data) ops).ch.holds_pos.getD i 0 := by
    unfold nth
    rw [← hs.ch]
    simp only [abs]
    rw [holdsOf_getD _ _ _ _ hi]
  rw [hb, ← hs.ch] at h
  exact h

/-! ## non-vacuity: a concrete history with a wrap, a lap change and partial consumption, run through the translated functions -/
def demoOps : List Op :=
  [.join, .wmap 10, .wcommit, .rmap 0, .runmap 0 10, .join, .runmap 1 10, .wmap 10, .wcommit, .rmap 0, .runmap 0 3,
   .rmap 1, .wmap 4, .wabort, .accept false, .wmap 2, .accept true, .runmap 1 99]

example : wfRun (Sys.init 16) demoOps = true := by decide
-- the translated code, run on that history from a fresh 16-byte channel at address 4096, has wrapped once and holds two readers
example : (crun (CSys.init 16 4096) demoOps).ch.cycle = 1 ∧ (crun (CSys.init 16 4096) demoOps).ch.holds_n = 2 ∧
    (crun (CSys.init 16 4096) demoOps).ch.holds_pos.take 2 = [3, 10] := by decide
-- and its abstraction is the model's state (an instance of `refine_history`, checked by evaluation)
example : (abs (crun (CSys.init 16 4096) demoOps).ch).holds = (run (Sys.init 16) demoOps).c.holds ∧
    (abs (crun (CSys.init 16 4096) demoOps).ch).head = (run (Sys.init 16) demoOps).c.head ∧
    (abs (crun (CSys.init 16 4096) demoOps).ch).cycle = (run (Sys.init 16) demoOps).c.cycle := by decide

-- `write_avoids_mapped_readers` is not vacuous: reader 0 holds the mapped region [4096, 4106) while the writer is handed [4106, 4110)
example : wfRun (Sys.init 16) [.join, .wmap 10, .wcommit, .rmap 0] = true ∧
    (cstep (crun (CSys.init 16 4096) [.join, .wmap 10, .wcommit, .rmap 0]) (.wmap 4)).2 = .wok 4106 ∧
    C02.regionLen (run (Sys.init 16) [.join, .wmap 10, .wcommit, .rmap 0]) 0 = 10 ∧
    (crun (CSys.init 16 4096) [.join, .wmap 10, .wcommit, .rmap 0]).ch.holds_pos.getD 0 0 = 0 := by decide

end AcqVerif.Channel.Refine
