import AcqVerif.Channel.Inv
/-! # Every well-formed operation preserves the channel invariant -/
namespace AcqVerif.Channel
open AcqVerif

theorem Inv.init (cap : Nat) : Inv (Sys.init cap) {} := by
  refine ⟨?_, ?_, ?_, ?_, rfl, rfl, rfl, rfl, ?_, ?_, ?_, ?_, ?_, ?_, ?_⟩ <;> simp [Sys.init]

/-- transport of a reader's invariant along a change of the writer's side that keeps
`head`, `high`, `cycle` and the memory the reader needs -/
theorem RInv.of_writer_change {c c' : Chan} {total total' : Nat} {mem mem' : MemF} {h : Hold} {r : Rd}
    {ix j : Nat} {seen : List (Option Nat)} {i : Nat}
    (ri : RInv c total mem h r ix j seen i)
    (hhold : HoldRel c' total' h ix)
    (hprev : h.cyc + 1 = c'.cycle → ∀ o, h.pos ≤ o → o < c'.high → mem' o = some (total' - c'.head - (c'.high - o)))
    (hmapped : r.mapped = true → MappedRel c' h r) :
    RInv c' total' mem' h r ix j seen i :=
  ⟨hhold, hprev, ri.id, ri.st, hmapped, ri.seen_ok, ri.jle⟩

theorem Inv.accept {s : Sys} {g : Ghost} (h : Inv s g) (b : Bool) :
    Inv (step s (.accept b)).1 (gstep s g (.accept b)) := by
  refine ⟨h.hm, h.mc, h.hc, h.ht, h.l_idx, h.l_rds, h.l_join, h.l_seen, h.cur, h.b_total, h.b_lap, h.b_le, h.pend, ?_, h.old⟩
  intro i hi
  obtain ⟨ri, hb⟩ := h.rd i hi
  exact ⟨⟨ri.hold, ri.prev, ri.id, ri.st, ri.mapped, ri.seen_ok, ri.jle⟩, hb⟩

theorem Inv.wabort {s : Sys} {g : Ghost} (h : Inv s g) :
    Inv (step s .wabort).1 (gstep s g .wabort) := by
  have := h.hm; have := h.mc
  simp only [step, gstep, abortWrite]
  split
  · refine ⟨Nat.le_refl _, by simp; omega, h.hc, h.ht, h.l_idx, h.l_rds, h.l_join, h.l_seen, h.cur, h.b_total, h.b_lap, h.b_le, by simp, ?_, h.old⟩
    intro i hi
    obtain ⟨ri, hb⟩ := h.rd i hi
    refine ⟨ri.of_writer_change ?_ ri.prev ?_, hb⟩
    · have := ri.hold; unfold HoldRel at *; simp only; omega
    · exact ri.mapped
  · refine ⟨h.hm, h.mc, h.hc, h.ht, h.l_idx, h.l_rds, h.l_join, h.l_seen, h.cur, h.b_total, h.b_lap, h.b_le, by simp, ?_, h.old⟩
    intro i hi
    obtain ⟨ri, hb⟩ := h.rd i hi
    exact ⟨ri, hb⟩

theorem Inv.wcommit {s : Sys} {g : Ghost} (h : Inv s g) :
    Inv (step s .wcommit).1 (gstep s g .wcommit) := by
  have h1 := h.hm; have h2 := h.mc; have h3 := h.ht
  simp only [step, gstep, writeUnmap]
  split
  · -- accepting: the pending region becomes stream data
    refine ⟨Nat.le_refl _, h.mc, h.hc, by simp only; omega, h.l_idx, h.l_rds, h.l_join, h.l_seen, ?_, ?_, ?_, ?_, by simp, ?_, ?_⟩
    rotate_right
    · intro o x hx ho
      simp only at hx ho ⊢
      rw [if_neg (by omega)] at hx
      have := h.old o x hx (by omega)
      omega
    · intro o ho
      simp only at ho ⊢
      split
      · congr 1; omega
      · rw [h.cur o (by omega)]; congr 1; omega
    · simp only; split
      · rename_i e; rw [e]; exact h.b_total
      · exact List.mem_cons_self
    · have e : s.total + (s.c.mapped - s.c.head) - s.c.mapped = s.total - s.c.head := by omega
      simp only; rw [e]; split
      · exact h.b_lap
      · exact List.mem_cons_of_mem _ h.b_lap
    · intro b hb
      simp only at hb ⊢
      split at hb
      · have := h.b_le b hb; omega
      · rcases List.mem_cons.mp hb with e | hb
        · omega
        · have := h.b_le b hb; omega
    · intro i hi
      obtain ⟨ri, hb⟩ := h.rd i hi
      refine ⟨ri.of_writer_change ?_ ?_ ?_, ?_⟩
      · have := ri.hold; unfold HoldRel at *; simp only; omega
      · intro hc o ho1 ho2
        have hh := ri.hold; unfold HoldRel at hh
        simp only at hc ho2 ⊢
        have hne : ¬ (s.c.head ≤ o ∧ o < s.c.mapped) := by omega
        rw [if_neg hne, ri.prev hc o ho1 ho2]; congr 1; omega
      · intro hm
        have := ri.mapped hm; have hh := ri.hold
        unfold MappedRel at *; unfold HoldRel at hh; simp only; omega
      · simp only; split
        · exact hb
        · exact List.mem_cons_of_mem _ hb
  · -- refused: nothing changes but the pending flag
    refine ⟨h.hm, h.mc, h.hc, h.ht, h.l_idx, h.l_rds, h.l_join, h.l_seen, h.cur, h.b_total, h.b_lap, h.b_le, by simp, ?_, h.old⟩
    intro i hi
    exact h.rd i hi

/-- the three shapes a successful `channel_write_map` can take -/
theorem writeMap_ok_cases {s : Sys} {g : Ghost} (h : Inv s g) {n beg : Nat} {c' : Chan}
    (hw : writeMap s.c n = .ok beg c') :
    n < s.c.cap ∧
    ((beg = s.c.head ∧ c' = { s.c with mapped := s.c.head + n } ∧ s.c.head + n ≤ s.c.cap ∧
        ∀ i, i < s.c.holds.length → (nth s.c.holds i).cyc + 1 = s.c.cycle → s.c.head + n ≤ (nth s.c.holds i).pos) ∨
     (beg = 0 ∧ c' = { s.c with high := s.c.head, head := 0, cycle := s.c.cycle + 1, mapped := n } ∧
        ∀ i, i < s.c.holds.length → (nth s.c.holds i).cyc = s.c.cycle ∧ n ≤ (nth s.c.holds i).pos) ∨
     (beg = 0 ∧ c' = { s.c with high := s.c.head, head := 0, cycle := s.c.cycle + 1, mapped := n,
                                  holds := s.c.holds.map fun _ => ⟨0, s.c.cycle + 1⟩ } ∧
        ∀ i, i < s.c.holds.length → (nth s.c.holds i).cyc = s.c.cycle ∧ (nth s.c.holds i).pos = s.c.head)) := by
  have h1 := h.hm; have h2 := h.mc
  unfold writeMap at hw
  split at hw
  · cases hw
  · rename_i hn
    refine ⟨by omega, ?_⟩
    split at hw
    · -- no readers
      rename_i hemp
      have hlen : s.c.holds.length = 0 := by
        cases hh : s.c.holds with
        | nil => rfl
        | cons a b => simp [hh] at hemp
      split at hw <;> cases hw
      · right; left; exact ⟨rfl, rfl, fun i hi => by omega⟩
      · left; exact ⟨rfl, rfl, by omega, fun i hi => by omega⟩
    · rename_i hne
      have hne' : s.c.holds ≠ [] := by intro e; simp [e] at hne
      split at hw
      · cases hw
      · cases hnw : nextWrite s.c n with
        | no => simp [hnw] at hw
        | «at» b w =>
          simp only [hnw] at hw
          have hspec := nextWrite_spec s.c s.total s.idx n b w (by omega) h.hm h.mc h.hc hne'
            (fun i hi => (h.rd i hi).1.hold) hnw
          rcases hspec with ⟨hb, hw0, hfit, hp⟩ | ⟨hb, hh0, hw0, hp⟩ | ⟨hb, hh0, hw0, hp⟩
          · subst hb; subst hw0
            simp at hw; obtain ⟨hbeg, hc'⟩ := hw; subst hbeg; subst hc'
            left; exact ⟨rfl, rfl, hfit, hp⟩
          · subst hb; subst hw0
            have : (0 : Nat) ≠ s.c.head := by omega
            simp [this] at hw; obtain ⟨hbeg, hc'⟩ := hw; subst hbeg; subst hc'
            right; left; exact ⟨rfl, rfl, hp⟩
          · subst hb; subst hw0
            have : (0 : Nat) ≠ s.c.head := by omega
            simp [this] at hw; obtain ⟨hbeg, hc'⟩ := hw; subst hbeg; subst hc'
            right; right; exact ⟨rfl, rfl, hp⟩

/-- after a wrap, everything that is still in memory is at least one lap old -/
theorem wrap_old {s : Sys} {g : Ghost} (h : Inv s g) (n : Nat) :
    ∀ o x, (if 0 ≤ o ∧ o < 0 + n then none else g.mem o) = some x → 0 ≤ o →
      (o < s.c.head → x + (s.c.head - o) + 0 ≤ s.total) ∧ (s.c.head ≤ o → x + s.c.head + 0 < s.total) := by
  intro o x hx _
  have h3 := h.ht
  split at hx
  · cases hx
  · refine ⟨fun ho => ?_, fun ho => ?_⟩
    · have := h.cur o ho; rw [hx] at this; cases this; omega
    · have := h.old o x hx ho; omega

theorem Inv.wmap {s : Sys} {g : Ghost} (h : Inv s g) (n : Nat) :
    Inv (step s (.wmap n)).1 (gstep s g (.wmap n)) := by
  have h1 := h.hm; have h2 := h.mc; have h3 := h.ht
  simp only [step, gstep]
  cases hw : writeMap s.c n with
  | null => exact h
  | block => exact h
  | ok beg c' =>
    obtain ⟨hn, hcases⟩ := writeMap_ok_cases h hw
    simp only
    rcases hcases with ⟨hb, hc', hfit, hp⟩ | ⟨hb, hc', hp⟩ | ⟨hb, hc', hp⟩
    · -- the region starts at `head`
      subst hb; subst hc'
      refine ⟨by simp, by simp only; omega, h.hc, h.ht, h.l_idx, h.l_rds, h.l_join, h.l_seen, ?_, h.b_total, h.b_lap, h.b_le, by simp, ?_, ?_⟩
      rotate_right
      · intro o x hx ho
        simp only at hx ho ⊢
        split at hx
        · cases hx
        · exact h.old o x hx ho
      · intro o ho
        simp only at ho ⊢
        rw [if_neg (by omega)]; exact h.cur o ho
      · intro i hi
        obtain ⟨ri, hbd⟩ := h.rd i hi
        refine ⟨ri.of_writer_change ?_ ?_ ri.mapped, hbd⟩
        · have := ri.hold; have := hp i hi; unfold HoldRel at *; simp only; omega
        · intro hc o ho1 ho2
          have := hp i hi hc
          simp only at hc ho2 ⊢
          rw [if_neg (by omega)]; exact ri.prev hc o ho1 ho2
    · -- wrap: the region starts at 0, readers keep their cursors (now one lap behind)
      subst hb; subst hc'
      refine ⟨by simp, by simp only; omega, by simp only; omega, by simp, h.l_idx, h.l_rds, h.l_join, h.l_seen, ?_, h.b_total, ?_, h.b_le, by simp, ?_, ?_⟩
      rotate_right
      · exact wrap_old h n
      · intro o ho; simp at ho
      · simp only [Nat.sub_zero]; exact h.b_total
      · intro i hi
        obtain ⟨ri, hbd⟩ := h.rd i hi
        obtain ⟨hcy, hnp⟩ := hp i hi
        have hh := ri.hold; unfold HoldRel at hh
        refine ⟨ri.of_writer_change ?_ ?_ ?_, hbd⟩
        · unfold HoldRel; simp only; omega
        · intro _ o ho1 ho2
          simp only at ho2 ⊢
          rw [if_neg (by omega), h.cur o ho2, Nat.sub_zero]
        · intro hm
          have := ri.mapped hm
          unfold MappedRel at *; simp only; omega
    · -- wrap with reset: every reader is drained and is moved to the start of the new lap
      subst hb; subst hc'
      refine ⟨by simp, by simp only; omega, by simp only; omega, by simp, by simp [h.l_idx], by simp [h.l_rds], by simp [h.l_join], by simp [h.l_seen], ?_, h.b_total, ?_, h.b_le, by simp, ?_, ?_⟩
      rotate_right
      · exact wrap_old h n
      · intro o ho; simp at ho
      · simp only [Nat.sub_zero]; exact h.b_total
      · intro i hi
        simp only [List.length_map] at hi
        obtain ⟨ri, hbd⟩ := h.rd i hi
        obtain ⟨hcy, hnp⟩ := hp i hi
        have hh := ri.hold; unfold HoldRel at hh
        simp only
        rw [nth_map_const _ _ _ hi]
        refine ⟨⟨?_, ?_, ri.id, ri.st, ?_, ri.seen_ok, ri.jle⟩, hbd⟩
        · unfold HoldRel; left; refine ⟨rfl, Nat.le_refl 0, ?_⟩; simp only; omega
        · intro hc; simp at hc
        · intro hm
          exfalso
          have := ri.mapped hm
          unfold MappedRel at this; omega

/-! ## reader side -/

theorem RInv.congr_chan {c c' : Chan} {total : Nat} {mem : MemF} {h : Hold} {r : Rd}
    {ix j : Nat} {seen : List (Option Nat)} {i : Nat}
    (ri : RInv c total mem h r ix j seen i)
    (e1 : c'.head = c.head) (e2 : c'.high = c.high) (e3 : c'.cycle = c.cycle) (e4 : c'.mapped = c.mapped) :
    RInv c' total mem h r ix j seen i := by
  refine ⟨?_, ?_, ri.id, ri.st, ?_, ri.seen_ok, ri.jle⟩
  · have := ri.hold; unfold HoldRel at *; rw [e1, e2, e3, e4]; exact this
  · rw [e1, e2, e3]; exact ri.prev
  · intro hm; have := ri.mapped hm; unfold MappedRel at *; rw [e1, e2, e3]; exact this

/-- replacing the hold and the handle of reader `i` -/
theorem Inv.set_reader {s : Sys} {g : Ghost} (h : Inv s g) (i : Nat) (hi : i < s.c.holds.length)
    (h' : Hold) (r' : Rd) (ix' : Nat) (seen' : List (Option Nat))
    (hr : RInv s.c s.total g.mem h' r' ix' (nth s.join i) seen' i) :
    Inv { s with c := setHold s.c i h', rds := s.rds.set i r', idx := s.idx.set i ix' }
        { g with seen := g.seen.set i seen' } := by
  refine ⟨h.hm, h.mc, h.hc, h.ht, by simp [setHold, h.l_idx], by simp [setHold, h.l_rds], by simp [setHold, h.l_join],
    by simp [setHold, h.l_seen], h.cur, h.b_total, h.b_lap, h.b_le, h.pend, ?_, h.old⟩
  intro k hk
  simp only [setHold, List.length_set] at hk
  simp only [setHold]
  by_cases e : i = k
  · subst e
    rw [nth_set_eq _ _ _ hk, nth_set_eq _ _ _ (by rw [h.l_rds]; exact hk), nth_set_eq _ _ _ (by rw [h.l_idx]; exact hk),
      nth_set_eq _ _ _ (by rw [h.l_seen]; exact hk)]
    exact ⟨hr.congr_chan rfl rfl rfl rfl, (h.rd i hi).2⟩
  · rw [nth_set_ne _ _ _ _ e, nth_set_ne _ _ _ _ e, nth_set_ne _ _ _ _ e, nth_set_ne _ _ _ _ e]
    exact ⟨(h.rd k hk).1.congr_chan rfl rfl rfl rfl, (h.rd k hk).2⟩

theorem list_set_nth_self {α : Type} [Inhabited α] (l : List α) (i : Nat) : l.set i (nth l i) = l := by
  apply List.ext_getElem (by simp)
  intro k h1 h2
  simp only [List.getElem_set]
  split
  · rename_i e; subst e; simp only [List.length_set] at h1; rw [nth_eq_getElem l i h1]
  · rfl

theorem setHold_self (c : Chan) (i : Nat) : setHold c i (nth c.holds i) = c := by
  simp [setHold, list_set_nth_self]

/-- replacing only the handle of reader `i` -/
theorem Inv.set_rd {s : Sys} {g : Ghost} (h : Inv s g) (i : Nat) (hi : i < s.c.holds.length) (r' : Rd)
    (hr : RInv s.c s.total g.mem (nth s.c.holds i) r' (nth s.idx i) (nth s.join i) (nth g.seen i) i) :
    Inv { s with rds := s.rds.set i r' } g := by
  have := h.set_reader i hi (nth s.c.holds i) r' (nth s.idx i) (nth g.seen i) hr
  rw [setHold_self, list_set_nth_self, list_set_nth_self] at this
  exact this

/-- replacing hold and handle of reader `i`, ghost index and consumed bytes unchanged -/
theorem Inv.set_hold_rd {s : Sys} {g : Ghost} (h : Inv s g) (i : Nat) (hi : i < s.c.holds.length)
    (h' : Hold) (r' : Rd)
    (hr : RInv s.c s.total g.mem h' r' (nth s.idx i) (nth s.join i) (nth g.seen i) i) :
    Inv { s with c := setHold s.c i h', rds := s.rds.set i r' } g := by
  have := h.set_reader i hi h' r' (nth s.idx i) (nth g.seen i) hr
  rw [list_set_nth_self, list_set_nth_self] at this
  exact this

/-- the five outcomes of `channel_read_map` for a registered, unmapped reader whose hold satisfies `HoldRel` -/
theorem readMapCore_cases (c : Chan) (r : Rd) (i total ix : Nat) (h : Hold) (hun : r.mapped = false)
    (hrel : HoldRel c total h ix) (hm : c.head ≤ c.mapped) :
    (h.pos = c.head ∧ h.cyc = c.cycle ∧
      readMapCore c r i h = (c, r, ⟨h.pos, 0⟩)) ∨
    (h.pos < c.head ∧ h.cyc = c.cycle ∧
      readMapCore c r i h = (c, { r with pos := c.head, cyc := c.cycle, mapped := true }, ⟨h.pos, c.head - h.pos⟩)) ∨
    (h.cyc + 1 = c.cycle ∧ h.pos = c.high ∧ c.head = 0 ∧
      readMapCore c r i h = (setHold c i ⟨0, c.cycle⟩, { r with pos := 0, cyc := h.cyc + 1 }, ⟨0, 0⟩)) ∨
    (h.cyc + 1 = c.cycle ∧ h.pos = c.high ∧ c.head ≠ 0 ∧
      readMapCore c r i h = (setHold c i ⟨0, c.cycle⟩, { r with pos := c.head, cyc := c.cycle, mapped := true }, ⟨0, c.head⟩)) ∨
    (h.cyc + 1 = c.cycle ∧ h.pos < c.high ∧ c.head ≤ h.pos ∧
      readMapCore c r i h = (c, { r with pos := 0, cyc := h.cyc + 1, mapped := true }, ⟨h.pos, c.high - h.pos⟩)) := by
  unfold HoldRel at hrel
  unfold readMapCore
  simp only [hun, Bool.false_eq_true, ↓reduceIte]
  by_cases e1 : h.pos = c.head ∧ h.cyc = c.cycle
  · left; rw [if_pos e1]; exact ⟨e1.1, e1.2, rfl⟩
  · rw [if_neg e1]
    by_cases e2 : h.pos < c.head
    · rw [if_pos e2]
      have e3 : ¬ (h.cyc ≠ c.cycle) := by omega
      rw [if_neg e3]
      right; left; exact ⟨e2, by omega, rfl⟩
    · rw [if_neg e2]
      have e3 : ¬ (c.cycle ≠ h.cyc + 1) := by omega
      rw [if_neg e3]
      by_cases e4 : c.high - h.pos = 0
      · rw [if_pos e4]
        by_cases e5 : c.head = 0
        · rw [if_pos e5]; right; right; left; exact ⟨by omega, by omega, e5, rfl⟩
        · rw [if_neg e5]; right; right; right; left; exact ⟨by omega, by omega, e5, rfl⟩
      · rw [if_neg e4]; right; right; right; right; exact ⟨by omega, by omega, by omega, rfl⟩

/-- `channel_read_map` for a registered, unmapped reader -/
theorem Inv.read_map_at {s : Sys} {g : Ghost} (h : Inv s g) (i : Nat) (hi : i < s.c.holds.length)
    (hun : (nth s.rds i).mapped = false) :
    Inv { s with c := (readMapAt s.c (nth s.rds i) i).1, rds := s.rds.set i (readMapAt s.c (nth s.rds i) i).2.1 } g ∧
    ((readMapAt s.c (nth s.rds i) i).2.2.len = 0 →
        nth s.idx i = s.total ∧ (readMapAt s.c (nth s.rds i) i).2.1.mapped = false) ∧
    ((readMapAt s.c (nth s.rds i) i).2.2.len > 0 →
        (readMapAt s.c (nth s.rds i) i).2.1.mapped = true ∧
        (readMapAt s.c (nth s.rds i) i).2.2.beg = (nth (readMapAt s.c (nth s.rds i) i).1.holds i).pos ∧
        (readMapAt s.c (nth s.rds i) i).2.2.len =
          availBytes (readMapAt s.c (nth s.rds i) i).2.1 (nth (readMapAt s.c (nth s.rds i) i).1.holds i) s.c.high ∧
        nth s.idx i + (readMapAt s.c (nth s.rds i) i).2.2.len ≤ s.total ∧
        (readMapAt s.c (nth s.rds i) i).2.2.beg + (readMapAt s.c (nth s.rds i) i).2.2.len ≤ s.c.cap) ∧
    (readMapAt s.c (nth s.rds i) i).2.1.status = 0 := by
  obtain ⟨ri, hb⟩ := h.rd i hi
  have h1 := h.hm; have h2 := h.mc; have h3 := h.hc; have h4 := h.ht
  have hrel := ri.hold
  have hst := ri.st
  have heq : readMapAt s.c (nth s.rds i) i = readMapCore s.c (nth s.rds i) i (nth s.c.holds i) := rfl
  rw [heq]
  rcases readMapCore_cases s.c (nth s.rds i) i s.total (nth s.idx i) (nth s.c.holds i) hun hrel h.hm with
    ⟨e1, e2, e⟩ | ⟨e1, e2, e⟩ | ⟨e1, e2, e3, e⟩ | ⟨e1, e2, e3, e⟩ | ⟨e1, e2, e3, e⟩
  all_goals (rw [e]; unfold HoldRel at hrel; simp only)
  · -- caught up
    refine ⟨?_, ?_, ?_, hst⟩
    · rw [list_set_nth_self]; exact h
    · intro _; exact ⟨by omega, hun⟩
    · intro hl; omega
  · -- same lap, data available
    refine ⟨?_, ?_, ?_, hst⟩
    · apply h.set_rd i hi
      refine ⟨ri.hold, ri.prev, ri.id, ri.st, ?_, ri.seen_ok, ri.jle⟩
      intro _; left; exact ⟨e2.symm, e1, fun _ => Nat.le_refl _, fun hc => by omega⟩
    · intro hl; omega
    · intro _
      refine ⟨trivial, trivial, ?_, by omega, by omega⟩
      rw [availBytes_same _ _ _ e1]
  · -- lap change, nothing committed in the new lap yet
    refine ⟨?_, ?_, ?_, hst⟩
    · apply h.set_hold_rd i hi
      refine ⟨?_, ?_, ri.id, ri.st, ?_, ri.seen_ok, ri.jle⟩
      · left; refine ⟨rfl, Nat.zero_le _, ?_⟩; show _ + (s.c.head - 0) = _; omega
      · intro hc; simp only at hc; omega
      · intro hm; simp only at hm; rw [hun] at hm; cases hm
    · intro _; exact ⟨by omega, hun⟩
    · intro hl; omega
  · -- lap change, data committed in the new lap
    have hg : nth (s.c.holds.set i ⟨0, s.c.cycle⟩) i = ⟨0, s.c.cycle⟩ := nth_set_eq _ _ _ hi
    refine ⟨?_, ?_, ?_, hst⟩
    · apply h.set_hold_rd i hi
      refine ⟨?_, ?_, ri.id, ri.st, ?_, ri.seen_ok, ri.jle⟩
      · left; refine ⟨rfl, Nat.zero_le _, ?_⟩; show _ + (s.c.head - 0) = _; omega
      · intro hc; simp only at hc; omega
      · intro _; left; refine ⟨rfl, ?_, fun _ => Nat.le_refl _, fun hc => ?_⟩
        · show 0 < s.c.head; omega
        · simp only at hc; omega
    · intro hl; omega
    · intro _
      simp only [setHold]
      rw [hg]
      refine ⟨trivial, rfl, ?_, by omega, by omega⟩
      rw [availBytes_same _ _ _ (by show 0 < s.c.head; omega)]
      show s.c.head = s.c.head - 0
      omega
  · -- rest of the old lap
    refine ⟨?_, ?_, ?_, hst⟩
    · apply h.set_rd i hi
      refine ⟨ri.hold, ri.prev, ri.id, ri.st, ?_, ri.seen_ok, ri.jle⟩
      intro _; right; exact ⟨rfl, rfl, e2, e1⟩
    · intro hl; omega
    · intro _
      refine ⟨trivial, trivial, ?_, by omega, by omega⟩
      rw [availBytes_next _ _ _ rfl rfl]

theorem readMapCore_fields (c : Chan) (r : Rd) (i : Nat) (h : Hold) :
    (readMapCore c r i h).1.high = c.high ∧ (readMapCore c r i h).1.head = c.head ∧
    (readMapCore c r i h).1.cycle = c.cycle ∧ (readMapCore c r i h).1.mapped = c.mapped ∧
    (readMapCore c r i h).1.cap = c.cap ∧ (readMapCore c r i h).1.accepting = c.accepting := by
  unfold readMapCore
  dsimp only
  (repeat' split) <;> simp [setHold]

/-- **The region handed to a reader holds exactly the next bytes of the committed stream.** -/
theorem Inv.read_map_bytes {s : Sys} {g : Ghost} (h : Inv s g) (i : Nat) (hi : i < s.c.holds.length)
    (hun : (nth s.rds i).mapped = false) :
    ∀ j, j < (readMapAt s.c (nth s.rds i) i).2.2.len →
      g.mem ((readMapAt s.c (nth s.rds i) i).2.2.beg + j) = some (nth s.idx i + j) := by
  intro j hj
  obtain ⟨hinv, _, hpos, _⟩ := h.read_map_at i hi hun
  obtain ⟨hm, hbeg, hlen, _, _⟩ := hpos (by omega)
  have hi' : i < (readMapAt s.c (nth s.rds i) i).1.holds.length := by
    have := hinv.l_rds; simp only [List.length_set] at this; rw [← this, h.l_rds]; exact hi
  obtain ⟨ri, _⟩ := hinv.rd i hi'
  simp only at ri
  rw [nth_set_eq _ _ _ (by rw [h.l_rds]; exact hi)] at ri
  have hhigh : (readMapAt s.c (nth s.rds i) i).1.high = s.c.high := (readMapCore_fields _ _ _ _).1
  rw [hbeg]
  apply region_bytes _ _ _ _ _ _ ri.hold ri.prev hinv.cur (ri.mapped hm)
  rw [hhigh, ← hlen]; exact hj

theorem readMap_registered (c : Chan) (r : Rd) (i : Nat) (hid : r.id = i + 1) :
    readMap c r = readMapAt c r i := by
  unfold readMap readerInit
  rw [if_pos (by omega)]
  simp only [hid, Nat.add_sub_cancel]

/-- facts about a well-formed `rmap i` -/
theorem rmap_wf {s : Sys} {g : Ghost} (h : Inv s g) {i : Nat} (hwf : (Op.rmap i).wf s = true) :
    i < s.c.holds.length ∧ s.rds[i]? = some (nth s.rds i) ∧ (nth s.rds i).mapped = false := by
  simp only [Op.wf] at hwf
  cases hr : s.rds[i]? with
  | none => simp [hr] at hwf
  | some r =>
    simp only [hr] at hwf
    have hlt : i < s.rds.length := by
      rcases Nat.lt_or_ge i s.rds.length with hl | hl
      · exact hl
      · rw [List.getElem?_eq_none hl] at hr; cases hr
    have : some r = some (nth s.rds i) := by rw [← hr]; exact getElem?_eq_some_nth _ _ hlt
    cases this
    refine ⟨by rw [← h.l_rds]; exact hlt, rfl, ?_⟩
    simpa using hwf

theorem Inv.rmap {s : Sys} {g : Ghost} (h : Inv s g) (i : Nat) (hwf : (Op.rmap i).wf s = true) :
    Inv (step s (.rmap i)).1 (gstep s g (.rmap i)) := by
  obtain ⟨hi, hr, hun⟩ := rmap_wf h hwf
  simp only [step, gstep, hr]
  rw [readMap_registered _ _ i (h.rd i hi).1.id]
  exact (h.read_map_at i hi hun).1

theorem list_set_append_last {α : Type} (l : List α) (a b : α) : (l ++ [a]).set l.length b = l ++ [b] := by
  induction l with
  | nil => rfl
  | cons x t ih => simp [List.set, ih]

/-- the state right after `reader_initialize` registered a new reader -/
def Sys.joined (s : Sys) : Sys :=
  { s with c := { s.c with holds := s.c.holds ++ [⟨0, s.c.cycle⟩] },
           rds := s.rds ++ [{ id := s.c.holds.length + 1 }],
           idx := s.idx ++ [s.total - s.c.head], join := s.join ++ [s.total - s.c.head] }

theorem Inv.joined {s : Sys} {g : Ghost} (h : Inv s g) : Inv s.joined { g with seen := g.seen ++ [[]] } := by
  have h4 := h.ht
  refine ⟨h.hm, h.mc, h.hc, h.ht, by simp [Sys.joined, h.l_idx], by simp [Sys.joined, h.l_rds],
    by simp [Sys.joined, h.l_join], by simp [Sys.joined, h.l_seen], h.cur, h.b_total, h.b_lap, h.b_le, h.pend, ?_, h.old⟩
  intro k hk
  simp only [Sys.joined, List.length_append, List.length_cons, List.length_nil] at hk
  simp only [Sys.joined]
  by_cases e : k < s.c.holds.length
  · rw [nth_append_lt _ _ _ e, nth_append_lt _ _ _ (by rw [h.l_rds]; exact e), nth_append_lt _ _ _ (by rw [h.l_idx]; exact e),
      nth_append_lt _ _ _ (by rw [h.l_join]; exact e), nth_append_lt _ _ _ (by rw [h.l_seen]; exact e)]
    exact ⟨(h.rd k e).1.congr_chan rfl rfl rfl rfl, (h.rd k e).2⟩
  · have ek : k = s.c.holds.length := by omega
    subst ek
    have e1 := nth_append_length s.c.holds ⟨0, s.c.cycle⟩
    have e2 := nth_append_length s.rds ({ id := s.c.holds.length + 1 } : Rd)
    have e3 := nth_append_length s.idx (s.total - s.c.head)
    have e4 := nth_append_length s.join (s.total - s.c.head)
    have e5 := nth_append_length g.seen ([] : List (Option Nat))
    rw [h.l_rds] at e2; rw [h.l_idx] at e3; rw [h.l_join] at e4; rw [h.l_seen] at e5
    rw [e1, e2, e3, e4, e5]
    refine ⟨⟨?_, ?_, rfl, rfl, ?_, ?_, Nat.le_refl _⟩, h.b_lap⟩
    · left; refine ⟨rfl, Nat.zero_le _, ?_⟩; show _ + (s.c.head - 0) = _; omega
    · intro hc; simp only at hc; omega
    · intro hm; cases hm
    · simp

theorem Inv.join {s : Sys} {g : Ghost} (h : Inv s g) :
    Inv (step s .join).1 (gstep s g .join) := by
  have hj := h.joined
  have hlen : s.joined.c.holds.length = s.c.holds.length + 1 := by simp [Sys.joined]
  have hr0 : nth s.joined.rds s.c.holds.length = { id := s.c.holds.length + 1 } := by
    have := nth_append_length s.rds ({ id := s.c.holds.length + 1 } : Rd)
    rw [h.l_rds] at this; exact this
  have hun : (nth s.joined.rds s.c.holds.length).mapped = false := by rw [hr0]
  have := (hj.read_map_at s.c.holds.length (by omega) hun).1
  rw [hr0] at this
  simp only [step, gstep, readMap, readerInit]
  simp only [Nat.lt_irrefl, ↓reduceIte, Nat.add_sub_cancel]
  have hset : ∀ r', (s.rds ++ [({ id := s.c.holds.length + 1 } : Rd)]).set s.c.holds.length r' = s.rds ++ [r'] := by
    intro r'; rw [← h.l_rds]; exact list_set_append_last _ _ _
  simp only [Sys.joined, hset] at this
  exact this

theorem range_map_add_some (ix k : Nat) :
    (List.range k).map (fun j => some (ix + j)) = (List.range' ix k).map some := by
  rw [List.range'_eq_map_range, List.map_map]
  rfl

theorem Inv.runmap {s : Sys} {g : Ghost} (h : Inv s g) (i k : Nat) (hwf : (Op.runmap i k).wf s = true) :
    Inv (step s (.runmap i k)).1 (gstep s g (.runmap i k)) := by
  simp only [Op.wf, decide_eq_true_eq] at hwf
  have hi : i < s.c.holds.length := by rw [← h.l_rds]; exact hwf
  have hr : s.rds[i]? = some (nth s.rds i) := getElem?_eq_some_nth _ _ hwf
  obtain ⟨ri, hb⟩ := h.rd i hi
  have g1 : ∀ (l : List Nat) (i : Nat), l.getD i 0 = nth l i := fun _ _ => rfl
  have g2 : ∀ (l : List Hold) (i : Nat), l.getD i default = nth l i := fun _ _ => rfl
  simp only [step, gstep, hr, readUnmap, g1, g2]
  by_cases hm : (nth s.rds i).mapped = true
  · -- mapped: the hold advances by the consumed bytes
    have hid : (nth s.rds i).id - 1 = i := by rw [ri.id]; omega
    simp only [hm, Bool.not_true, Bool.false_eq_true, ↓reduceIte, hid]
    have hspec := unmapHold_spec s.c s.total g.mem (nth s.c.holds i) (nth s.rds i) (nth s.idx i) k h.hm ri.hold ri.prev (ri.mapped hm)
    have hbytes := region_bytes s.c s.total g.mem (nth s.c.holds i) (nth s.rds i) (nth s.idx i) ri.hold ri.prev h.cur (ri.mapped hm)
    apply h.set_reader i hi
    refine ⟨hspec.1, hspec.2, ri.id, ri.st, ?_, ?_, by have := ri.jle; omega⟩
    · intro hc; cases hc
    · rw [ri.seen_ok]
      have e : (List.range (min (availBytes (nth s.rds i) (nth s.c.holds i) s.c.high) k)).map
            (fun j => g.mem ((nth s.c.holds i).pos + j)) =
          (List.range (min (availBytes (nth s.rds i) (nth s.c.holds i) s.c.high) k)).map
            (fun j => some (nth s.idx i + j)) := by
        apply List.map_congr_left
        intro j hj
        exact hbytes j (by have := List.mem_range.mp hj; omega)
      rw [e, range_map_add_some, ← List.map_append]
      congr 1
      have := ri.jle
      have e2 : nth s.idx i = nth s.join i + 1 * (nth s.idx i - nth s.join i) := by omega
      conv => lhs; rhs; rw [e2]
      rw [List.range'_append]
      congr 1; omega
  · -- not mapped: nothing happens
    have hm' : (nth s.rds i).mapped = false := by simpa using hm
    simp only [hm', Bool.not_false, ↓reduceIte, Bool.false_eq_true, Nat.min_zero, Nat.zero_min, Nat.add_zero]
    rw [list_set_nth_self, list_set_nth_self]
    exact h

/-- **One-step invariance** for every operation that obeys the usage rules. -/
theorem Inv.step {s : Sys} {g : Ghost} (h : Inv s g) (op : Op) (hwf : op.wf s = true) :
    Inv (Channel.step s op).1 (gstep s g op) := by
  cases op with
  | wmap n => exact h.wmap n
  | wcommit => exact h.wcommit
  | wabort => exact h.wabort
  | accept b => exact h.accept b
  | join => exact h.join
  | rmap i => exact h.rmap i hwf
  | runmap i k => exact h.runmap i k hwf

/-- **Every reachable state** satisfies the invariant. -/
theorem Inv.run {s : Sys} {g : Ghost} (h : Inv s g) (ops : List Op) (hwf : wfRun s ops = true) :
    Inv (Channel.run s ops) (grun s g ops) := by
  induction ops generalizing s g with
  | nil => exact h
  | cons op ops ih =>
    simp only [wfRun, Bool.and_eq_true] at hwf
    exact ih (h.step op hwf.1) hwf.2

/-- a state reachable from a fresh channel of capacity `cap` by a well-formed history -/
structure Reachable (cap : Nat) (s : Sys) (g : Ghost) : Prop where
  hist : ∃ ops, wfRun (Sys.init cap) ops = true ∧ s = Channel.run (Sys.init cap) ops ∧ g = grun (Sys.init cap) {} ops

theorem Reachable.inv {cap : Nat} {s : Sys} {g : Ghost} (r : Reachable cap s g) : Inv s g := by
  obtain ⟨ops, hwf, rfl, rfl⟩ := r.hist
  exact (Inv.init cap).run ops hwf

theorem run_append (s : Sys) (a b : List Op) : Channel.run s (a ++ b) = Channel.run (Channel.run s a) b := by
  induction a generalizing s with
  | nil => rfl
  | cons x t ih => exact ih _

theorem grun_append (s : Sys) (g : Ghost) (a b : List Op) :
    grun s g (a ++ b) = grun (Channel.run s a) (grun s g a) b := by
  induction a generalizing s g with
  | nil => rfl
  | cons x t ih => exact ih _ _

theorem wfRun_append (s : Sys) (a b : List Op) :
    wfRun s (a ++ b) = (wfRun s a && wfRun (Channel.run s a) b) := by
  induction a generalizing s with
  | nil => simp [wfRun, Channel.run]
  | cons x t ih => simp [wfRun, Channel.run, ih, Bool.and_assoc]

theorem writeMap_cap (c : Chan) (n beg : Nat) (c' : Chan) (h : writeMap c n = .ok beg c') : c'.cap = c.cap := by
  unfold writeMap at h
  split at h
  · cases h
  · split at h
    · split at h <;> cases h <;> rfl
    · split at h
      · cases h
      · split at h
        · cases h
        · cases h
          dsimp only
          (repeat' split) <;> rfl

theorem readMap_cap (c : Chan) (r : Rd) : (readMap c r).1.cap = c.cap := by
  unfold readMap readerInit readMapAt
  by_cases e : r.id > 0
  · rw [if_pos e]; exact (readMapCore_fields _ _ _ _).2.2.2.2.1
  · rw [if_neg e]; dsimp only; rw [(readMapCore_fields _ _ _ _).2.2.2.2.1]

theorem step_cap (s : Sys) (op : Op) : (Channel.step s op).1.c.cap = s.c.cap := by
  cases op with
  | wmap n =>
    simp only [Channel.step]
    cases hw : writeMap s.c n with
    | null => rfl
    | block => rfl
    | ok beg c' => exact writeMap_cap _ _ _ _ hw
  | wcommit => simp only [Channel.step, writeUnmap]; (repeat' split) <;> rfl
  | wabort => simp only [Channel.step, abortWrite]; (repeat' split) <;> rfl
  | accept b => rfl
  | join => simp only [Channel.step]; exact readMap_cap _ _
  | rmap i =>
    simp only [Channel.step]
    split
    · rfl
    · simp only; exact readMap_cap _ _
  | runmap i k =>
    simp only [Channel.step]
    split
    · rfl
    · simp only [readUnmap]; split <;> rfl

theorem run_cap (s0 : Sys) (ops : List Op) : (Channel.run s0 ops).c.cap = s0.c.cap := by
  induction ops generalizing s0 with
  | nil => rfl
  | cons op ops ih => rw [Channel.run, ih, step_cap]

theorem Reachable.cap {cap : Nat} {s : Sys} {g : Ghost} (r : Reachable cap s g) : s.c.cap = cap := by
  obtain ⟨ops, _, rfl, _⟩ := r.hist
  rw [run_cap]; rfl

theorem Reachable.init (cap : Nat) : Reachable cap (Sys.init cap) {} := ⟨⟨[], rfl, rfl, rfl⟩⟩

theorem Reachable.step {cap : Nat} {s : Sys} {g : Ghost} (r : Reachable cap s g) (op : Op) (hwf : op.wf s = true) :
    Reachable cap (Channel.step s op).1 (gstep s g op) := by
  obtain ⟨ops, h1, rfl, rfl⟩ := r.hist
  refine ⟨⟨ops ++ [op], ?_, ?_, ?_⟩⟩
  · rw [wfRun_append, h1]; simp [wfRun, hwf]
  · rw [run_append]; rfl
  · rw [grun_append]; rfl

end AcqVerif.Channel
