import AcqVerif.Storage.Raw
/-!
# I/O skeleton of `acquire-driver-common/src/storage/tiff.cpp` (with the repair of fixes/14)

Which system calls `Tiff::set/start/append/stop` issue, on which descriptor, and how
their results steer control flow.  The *bytes and offsets* of the TIFF structures are
property C15's subject and are not modelled here: every write carries zeros at offset 0,
only its length is real (header 16, IFD 336, strip = image bytes, string section =
`strlen(description)+1`, terminator 8).

`state` is `Storage::state` of the `Tiff` object: written by whoever drives the device
(the HAL, or the side-by-side device for its inner writer) and by `Tiff::stop`, read by
`Tiff::stop`.

Repaired error path: `write_` reports failure instead of calling `stop()`; `append`
returns 0 at the first failed write, so `tiff_append` stops the device (terminator
attempt, close) and returns Armed; `start` closes the file and fails when the header
cannot be written.  There is no recursion left: `stop` calls `write_` once and `write_`
calls nothing.
-/
namespace AcqVerif.Storage

def tiffHeaderBytes : Nat := 16
def tiffIfdBytes : Nat := 336
def tiffTerminatorBytes : Nat := 8
/-- `sizeof(struct VideoFrame)` -/
def videoFrameBytes : Nat := 96

def zeros (n : Nat) : Bytes := List.replicate n 0

/-- per frame: what `Tiff::append` needs to know for its three writes -/
structure FrameIo where
  img : Nat        -- bytes_of_frame - sizeof(VideoFrame)
  descFirst : Nat  -- ifd_strings_.size when this is the first frame of the file (description carries the metadata)
  descRest : Nat   -- ifd_strings_.size otherwise
deriving Repr

/-- `struct Tiff` (I/O relevant part) -/
structure Tiff where
  state : DeviceState := .awaiting
  filename : Bytes := []       -- filename_ (std::string contents)
  fid : Fd := 0                -- file_.fid
  frameCount : Nat := 0        -- frame_count_

/-- `validate_json` of tiff.cpp / side-by-side-tiff.cpp on `nbytes` bytes -/
def validateJson (mem : Bytes) : Bool :=
  decide (mem.length ≥ 3) && (mem.getD (mem.length - 1) 1 == 0) && (mem.getD 0 0 == 123) &&
    (mem.getD (mem.length - 2) 0 == 125)

/-- `Tiff::set` + `tiff_set`; `uri` = memory at `settings->uri.str`, `nbytes` = `settings->uri.nbytes` -/
def tiffSet (os : Os) (t : Tiff) (uri : Bytes) (nbytes : Nat) (md : Bytes) : Os × Tiff × DeviceState :=
  if uri.length = 0 ∨ nbytes = 0 then (os, t, .awaiting) else
  let offset := uriOffset uri
  let filename := (uri.drop offset).take (nbytes - offset)
  match fileIsWritable os (cstr filename) with
  | (os, false) => (os, t, .awaiting)
  | (os, true) =>
    let t := { t with filename := filename }
    if md.length > 1 ∧ !validateJson md then (os, t, .awaiting)
    else (os, t, .armed)

/-- `Tiff::start` (1 = true) -/
def Tiff.start (os : Os) (t : Tiff) : Os × Tiff × Bool :=
  let t := { t with frameCount := 0 }
  match fileCreate os (cstr t.filename) with
  | (os, none) => (os, t, false)
  | (os, some fd) =>
    let t := { t with fid := fd }
    match fileWrite os fd 0 (zeros tiffHeaderBytes) with
    | (os, true) => (os, t, true)
    | (os, false) => (fileClose os fd, t, false)

/-- `tiff_start` -/
def tiffStart (os : Os) (t : Tiff) : Os × Tiff × DeviceState :=
  match t.start os with
  | (os, t, true) => (os, t, .running)
  | (os, t, false) => (os, t, .awaiting)

/-- `Tiff::stop` (always returns 1) -/
def Tiff.stop (os : Os) (t : Tiff) : Os × Tiff :=
  if t.state = .running then
    let os := (fileWrite os t.fid 0 (zeros tiffTerminatorBytes)).1     -- terminate_ifd_list
    (fileClose os t.fid, { t with state := .armed, frameCount := 0 })
  else (os, t)

/-- `tiff_stop` -/
def tiffStop (os : Os) (t : Tiff) : Os × Tiff × DeviceState :=
  let (os, t) := t.stop os
  (os, t, .armed)

/-- the frame loop of `Tiff::append`; `none` = a write failed (`return 0`) -/
def Tiff.appendFrames (os : Os) (t : Tiff) : List FrameIo → Os × Tiff × Bool
  | [] => (os, t, true)
  | f :: fs =>
    match fileWrite os t.fid 0 (zeros tiffIfdBytes) with
    | (os, false) => (os, t, false)
    | (os, true) =>
      match fileWrite os t.fid 0 (zeros f.img) with
      | (os, false) => (os, t, false)
      | (os, true) =>
        match fileWrite os t.fid 0 (zeros (if t.frameCount = 0 then f.descFirst else f.descRest)) with
        | (os, false) => (os, t, false)
        | (os, true) => Tiff.appendFrames os { t with frameCount := t.frameCount + 1 } fs

/-- `tiff_append` -/
def tiffAppend (os : Os) (t : Tiff) (fs : List FrameIo) : Os × Tiff × DeviceState :=
  match t.appendFrames os fs with
  | (os, t, true) => (os, t, .running)
  | (os, t, false) => tiffStop os t

/-- `tiff_destroy`: `stop` through the vtable, then `delete` (the destructor stops again) -/
def tiffDestroy (os : Os) (t : Tiff) : Os × Tiff :=
  let (os, t, _) := tiffStop os t
  t.stop os

end AcqVerif.Storage
