import AcqVerif.Storage.OsLemmas
/-!
# What each system call and each `platform.c` function does to the log, the
descriptor table and the files (used by the C14 and C16 proofs).
-/
namespace AcqVerif.Storage

theorem filter_ne_of_not_mem (fds : List (Fd × Path)) (fd : Fd) (h : fd ∉ fds.map (·.1)) :
    fds.filter (fun e => e.1 ≠ fd) = fds := by
  apply List.filter_eq_self.mpr
  intro e he
  have : e.1 ∈ fds.map (·.1) := List.mem_map.mpr ⟨e, he, rfl⟩
  simp only [ne_eq, decide_not, Bool.not_eq_eq_eq_not, Bool.not_true, decide_eq_false_iff_not]
  intro heq
  exact h (heq ▸ this)

theorem map_fst_filter (fds : List (Fd × Path)) (fd : Fd) :
    (fds.filter (fun e => e.1 ≠ fd)).map (·.1) = (fds.map (·.1)).filter (· ≠ fd) := by
  induction fds with
  | nil => rfl
  | cons e t ih =>
    simp only [ne_eq, decide_not] at ih
    by_cases h : e.1 = fd <;> simp [List.filter_cons, h, ih]

theorem lookup_isSome_of_mem (fds : List (Fd × Path)) (fd : Fd) (h : fd ∈ fds.map (·.1)) :
    ∃ p, fds.lookup fd = some p := by
  induction fds with
  | nil => cases h
  | cons e t ih =>
    obtain ⟨k, v⟩ := e
    by_cases hk : fd = k
    · exact ⟨v, by simp [List.lookup, hk]⟩
    · simp only [List.map_cons, List.mem_cons] at h
      cases h with
      | inl h => exact absurd h hk
      | inr h =>
        obtain ⟨p, hp⟩ := ih h
        refine ⟨p, ?_⟩
        simp only [List.lookup]
        have : (fd == k) = false := by simp [hk]
        rw [this]; exact hp

/-! ## system calls -/

theorem sysOpen_none {os os' : Os} {p : Path} (h : sysOpen os p = (os', none)) :
    os'.log = os.log ++ [.open p none] ∧ os'.fds = os.fds ∧ os'.files = os.files ∧ os'.dirs = os.dirs := by
  unfold sysOpen at h
  simp only at h
  split at h
  · simp only [Prod.mk.injEq, and_true] at h; subst h; simp
  · simp at h

theorem sysOpen_some {os os' : Os} {p : Path} {fd : Fd} (h : sysOpen os p = (os', some fd)) :
    os'.log = os.log ++ [.open p (some fd)] ∧ os'.fds = (fd, p) :: os.fds ∧ fd ∉ os.fdKeys ∧
    os'.files = setFile os.files p (os.content p) ∧ os'.dirs = os.dirs := by
  unfold sysOpen at h
  simp only at h
  split at h
  · simp at h
  · simp only [Prod.mk.injEq, Option.some.injEq] at h
    obtain ⟨h1, h2⟩ := h
    subst h1; subst h2
    refine ⟨rfl, rfl, ?_, rfl, rfl⟩
    exact allocFd_not_mem _ _

theorem sysFlock_spec (os : Os) (fd : Fd) :
    (sysFlock os fd).1.log = os.log ++ [.flock fd (sysFlock os fd).2] ∧ (sysFlock os fd).1.fds = os.fds ∧
    (sysFlock os fd).1.files = os.files ∧ (sysFlock os fd).1.dirs = os.dirs := by
  simp [sysFlock]

theorem sysClose_spec (os : Os) (fd : Fd) :
    (sysClose os fd).1.log = os.log ++ [.close fd (sysClose os fd).2] ∧
    (sysClose os fd).1.fds = os.fds.filter (fun e => e.1 ≠ fd) ∧
    (sysClose os fd).1.files = os.files ∧ (sysClose os fd).1.dirs = os.dirs := by
  simp [sysClose]

theorem sysMkdir_spec (os : Os) (p : Path) :
    (sysMkdir os p).1.log = os.log ++ [.mkdir p (sysMkdir os p).2] ∧ (sysMkdir os p).1.fds = os.fds ∧
    (sysMkdir os p).1.files = os.files := by
  unfold sysMkdir
  simp only
  split <;> simp

theorem sysUnlink_spec (os : Os) (p : Path) :
    (sysUnlink os p).log = os.log ++ [.unlink p] ∧ (sysUnlink os p).fds = os.fds ∧ (sysUnlink os p).dirs = os.dirs := by
  simp [sysUnlink]

theorem sysPwrite_none {os os' : Os} {fd off : Nat} {d : Bytes} (h : sysPwrite os fd off d = (os', none)) :
    os'.log = os.log ++ [.pwrite fd off d.length none] ∧ os'.fds = os.fds ∧ os'.files = os.files ∧ os'.dirs = os.dirs := by
  unfold sysPwrite at h
  simp only at h
  split at h
  · simp only [Prod.mk.injEq, and_true] at h; subst h; simp
  · split at h
    · simp only [Prod.mk.injEq, and_true] at h; subst h; simp
    · simp at h

theorem sysPwrite_some {os os' : Os} {fd off w : Nat} {d : Bytes} (h : sysPwrite os fd off d = (os', some w)) :
    os'.log = os.log ++ [.pwrite fd off d.length (some w)] ∧ os'.fds = os.fds ∧ os'.dirs = os.dirs ∧ w ≤ d.length ∧
    ∃ p, os.fds.lookup fd = some p ∧
      os'.files = if w = 0 then os.files else setFile os.files p (writeAt (os.content p) off (d.take w)) := by
  have hw := sysPwrite_le h
  unfold sysPwrite at h
  simp only at h
  split at h
  · simp at h
  · rename_i p hp
    split at h
    · simp at h
    · simp only [Prod.mk.injEq, Option.some.injEq] at h
      obtain ⟨h1, h2⟩ := h
      subst h1; subst h2
      exact ⟨rfl, rfl, rfl, hw, p, hp, rfl⟩

/-! ## `file_write` -/

/-- everything the C16 proofs need about `file_write`: it only appends `pwrite`s on `fd`
    to the log, changes no descriptor, and reports success only if none of them failed -/
theorem fileWriteLoop_log (os : Os) (fd off : Nat) (buf : Bytes) (r : Nat) :
    ∃ seg, (fileWriteLoop os fd off buf r).1.log = os.log ++ seg ∧
      (fileWriteLoop os fd off buf r).1.fds = os.fds ∧
      (fileWriteLoop os fd off buf r).1.dirs = os.dirs ∧
      (∀ e ∈ seg, ∃ o l x, e = .pwrite fd o l x) ∧
      ((fileWriteLoop os fd off buf r).2 = true → NoFail seg) ∧
      seg.length ≤ buf.length + (3 - r) := by
  fun_induction fileWriteLoop os fd off buf r with
  | case1 os off buf r hc os' hp =>
    obtain ⟨hl, hf, _, hd⟩ := sysPwrite_none hp
    refine ⟨[.pwrite fd off buf.length none], hl, hf, hd, ?_, ?_, ?_⟩
    · intro e he; simp at he; exact ⟨_, _, _, he⟩
    · intro h; simp at h
    · have : buf.length ≠ 0 := fun h0 => hc.1 (List.eq_nil_of_length_eq_zero h0)
      simp; omega
  | case2 os off buf r hc os' w hp ih =>
    obtain ⟨hl, hf, hd, hw, _⟩ := sysPwrite_some hp
    simp only [dite_eq_ite] at ih
    obtain ⟨seg, h1, h2, h2d, h3, h4, h5⟩ := ih
    refine ⟨.pwrite fd off buf.length (some w) :: seg, ?_, ?_, ?_, ?_, ?_, ?_⟩
    · rw [h1, hl]; simp
    · rw [h2, hf]
    · rw [h2d, hd]
    · intro e he
      cases List.mem_cons.mp he with
      | inl h => exact ⟨_, _, _, h⟩
      | inr h => exact h3 e h
    · intro hok e he
      cases List.mem_cons.mp he with
      | inl h => subst h; rfl
      | inr h => exact h4 hok e h
    · have : buf.length ≠ 0 := fun h0 => hc.1 (List.eq_nil_of_length_eq_zero h0)
      simp only [List.length_cons, List.length_drop] at h5 ⊢
      split at h5 <;> omega
  | case3 os off buf r hc =>
    exact ⟨[], by simp, rfl, rfl, by simp, fun _ => NoFail.nil, by simp⟩

theorem fileWrite_log (os : Os) (fd off : Nat) (buf : Bytes) :
    ∃ seg, (fileWrite os fd off buf).1.log = os.log ++ seg ∧
      (fileWrite os fd off buf).1.fds = os.fds ∧
      (fileWrite os fd off buf).1.dirs = os.dirs ∧
      (∀ e ∈ seg, ∃ o l x, e = .pwrite fd o l x) ∧
      ((fileWrite os fd off buf).2 = true → NoFail seg) ∧
      seg.length ≤ buf.length + 3 := by
  rw [fileWrite_log_eq, fileWrite_fds_eq, fileWrite_dirs_eq, fileWrite_snd]
  exact fileWriteLoop_log os fd off buf 0

end AcqVerif.Storage
