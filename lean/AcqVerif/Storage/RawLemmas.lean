import AcqVerif.Storage.FileWriteLemmas
import AcqVerif.Storage.DevSpec
/-!
# Lemmas about the raw device behind the HAL (for C14)
-/
namespace AcqVerif.Storage

/-! ## C strings and the URI -/

theorem cstr_append_zero (u : Bytes) (h : ∀ b ∈ u, b ≠ 0) : cstr (u ++ [0]) = u := by
  unfold cstr
  induction u with
  | nil => simp [List.takeWhile]
  | cons a t ih =>
    have ha : a ≠ 0 := h a (by simp)
    have : (a != 0) = true := by simp [ha]
    simp only [List.cons_append, List.takeWhile_cons, this, if_true]
    rw [ih (fun b hb => h b (by simp [hb]))]

/-- the URI without an initial `file://` -/
def stripScheme (u : Bytes) : Bytes := if filePrefix <+: u then u.drop 7 else u

theorem copyString_terminated (v : Bytes) : copyString (v ++ [0]) = v ++ [0] := by
  simp [copyString]

theorem take7_eq_iff (u : Bytes) (hu : ∀ b ∈ u, b ≠ 0) :
    ((cstr (u ++ [0])).length ≥ 7 ∧ (u ++ [0]).take 7 = filePrefix) ↔ filePrefix <+: u := by
  rw [cstr_append_zero u hu]
  constructor
  · rintro ⟨hl, ht⟩
    have : (u ++ [0]).take 7 = u.take 7 := by
      rw [List.take_append_of_le_length hl]
    rw [this] at ht
    rw [← ht]
    exact List.take_prefix 7 u
  · intro hp
    obtain ⟨t, rfl⟩ := hp
    refine ⟨by simp [filePrefix], ?_⟩
    simp [filePrefix]

theorem uriOffset_spec (u : Bytes) (hu : ∀ b ∈ u, b ≠ 0) :
    uriOffset (u ++ [0]) = if filePrefix <+: u then 7 else 0 := by
  unfold uriOffset
  by_cases h : filePrefix <+: u
  · rw [if_pos ((take7_eq_iff u hu).mpr h), if_pos h]
  · rw [if_neg (fun x => h ((take7_eq_iff u hu).mp x)), if_neg h]

theorem drop_uri (u : Bytes) (hu : ∀ b ∈ u, b ≠ 0) :
    (u ++ [0]).drop (uriOffset (u ++ [0])) = stripScheme u ++ [0] := by
  rw [uriOffset_spec u hu]
  unfold stripScheme
  by_cases h : filePrefix <+: u
  · rw [if_pos h, if_pos h]
    obtain ⟨t, rfl⟩ := h
    simp [filePrefix]
  · rw [if_neg h, if_neg h]; simp

theorem stripScheme_nonzero (u : Bytes) (hu : ∀ b ∈ u, b ≠ 0) : ∀ b ∈ stripScheme u, b ≠ 0 := by
  unfold stripScheme
  split
  · intro b hb; exact hu b (List.mem_of_mem_drop hb)
  · exact hu

/-! ## the device kind never changes -/

def Dev.isRaw : Dev → Bool
  | .raw _ => true
  | _ => false

theorem step_raw (s : Sys) (op : Op) (r : Raw) (h : s.dev = .raw r) : ∃ r', (step s op).1.dev = .raw r' := by
  unfold step
  split
  · exact ⟨r, h⟩
  · cases op with
    | set uri md => simp only [storageSet, h, Dev.set]; exact ⟨_, rfl⟩
    | start =>
      simp only [storageStart]
      split
      · exact ⟨r, h⟩
      · simp only [h, Dev.start]; exact ⟨_, rfl⟩
    | append fs =>
      simp only [storageAppend]
      split
      · exact ⟨r, h⟩
      · split
        · exact ⟨r, h⟩
        · simp only [h, Dev.append]; exact ⟨_, rfl⟩
    | stop =>
      simp only [storageStop]
      split
      · simp only [h, Dev.stop]; exact ⟨_, rfl⟩
      · exact ⟨r, h⟩
    | close =>
      simp only [storageClose, storageStop]
      split
      · simp only [h, Dev.stop, Dev.setState, Dev.destroy]; exact ⟨_, rfl⟩
      · simp only [h, Dev.destroy, Dev.setState]; exact ⟨_, rfl⟩

theorem runFrom_raw (s : Sys) (ops : List Op) (r : Raw) (h : s.dev = .raw r) : ∃ r', (runFrom s ops).dev = .raw r' := by
  induction ops generalizing s r with
  | nil => exact ⟨r, h⟩
  | cons op ops ih =>
    obtain ⟨r1, h1⟩ := step_raw s op r h
    exact ih _ r1 h1

end AcqVerif.Storage
