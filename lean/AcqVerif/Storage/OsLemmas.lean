import AcqVerif.Storage.FileWrite
/-!
# Lemmas about the OS model: `writeAt`, the ownership automaton, and what each
system call does to the log, the descriptor table and the files.
-/
namespace AcqVerif.Storage

/-! ## `writeAt` -/

theorem writeAt_prefix_length (f : Bytes) (off : Nat) :
    ((f ++ List.replicate (off - f.length) 0).take off).length = off := by
  simp [List.length_take]; omega

/-- two adjacent writes are one write of the concatenation -/
theorem writeAt_append (f : Bytes) (off : Nat) (a b : Bytes) :
    writeAt (writeAt f off a) (off + a.length) b = writeAt f off (a ++ b) := by
  unfold writeAt
  generalize hP : (f ++ List.replicate (off - f.length) 0).take off = P
  have hPl : P.length = off := by rw [← hP]; exact writeAt_prefix_length f off
  have hg : (P ++ a ++ List.drop (off + a.length) f).length ≥ off + a.length := by simp; omega
  have h0 : off + a.length - (P ++ a ++ List.drop (off + a.length) f).length = 0 := by omega
  rw [h0]
  simp only [List.replicate_zero, List.append_nil]
  have h1 : List.take (off + a.length) (P ++ a ++ List.drop (off + a.length) f) = P ++ a := by
    apply List.take_left'; simp [hPl]
  rw [h1]
  have h2 : List.drop (off + a.length + b.length) (P ++ a ++ List.drop (off + a.length) f)
      = List.drop (off + (a ++ b).length) f := by
    have hPa : (P ++ a).length = off + a.length := by simp [hPl]
    rw [← List.drop_drop, List.drop_left' hPa, List.drop_drop]
    congr 1; simp; omega
  rw [h2]
  simp [List.append_assoc]

theorem writeAt_end (f d : Bytes) : writeAt f f.length d = f ++ d := by
  unfold writeAt; simp

theorem writeAt_length (f : Bytes) (off : Nat) (d : Bytes) :
    (writeAt f off d).length = max f.length (off + d.length) := by
  unfold writeAt; simp [List.length_take]; omega

theorem writeAt_getD_lt (f : Bytes) (off : Nat) (d : Bytes) (i : Nat) (h : i < off) :
    (writeAt f off d).getD i 0 = f.getD i 0 := by
  unfold writeAt
  simp only [List.getD_eq_getElem?_getD]
  rw [List.append_assoc, List.getElem?_append_left (by simp [List.length_take]; omega)]
  rw [List.getElem?_take_of_lt h]
  by_cases hi : i < f.length
  · rw [List.getElem?_append_left hi]
  · rw [List.getElem?_append_right (by omega)]
    simp [List.getElem?_replicate]
    have : f[i]? = none := by simp; omega
    rw [this]; simp
    split <;> simp

theorem writeAt_getD_ge (f : Bytes) (off : Nat) (d : Bytes) (i : Nat) (h : i ≥ off + d.length) :
    (writeAt f off d).getD i 0 = f.getD i 0 := by
  unfold writeAt
  simp only [List.getD_eq_getElem?_getD]
  have hPl := writeAt_prefix_length f off
  rw [List.getElem?_append_right (by simp [List.length_take]; omega)]
  simp only [List.length_append, hPl, List.getElem?_drop]
  congr 2; omega

/-! ## descriptors -/

theorem le_foldl_max (l : List Nat) (a x : Nat) (h : x ≤ a ∨ x ∈ l) : x ≤ l.foldl max a := by
  induction l generalizing a with
  | nil => cases h with
    | inl h => simpa using h
    | inr h => cases h
  | cons y t ih =>
    simp only [List.foldl_cons]
    apply ih
    cases h with
    | inl h => left; omega
    | inr h =>
      cases List.mem_cons.mp h with
      | inl e => left; omega
      | inr m => right; exact m

/-- `open` never hands out a descriptor that is still open -/
theorem allocFd_not_mem (used : List Fd) (c : Fd) : allocFd used c ∉ used := by
  unfold allocFd
  split
  · intro h
    have := le_foldl_max used 0 _ (Or.inr h)
    omega
  · assumption

/-! ## the ownership automaton -/

theorem ownRun_append (o : List Fd) (a b : List Ev) :
    ownRun o (a ++ b) = (ownRun o a).bind (fun o' => ownRun o' b) := by
  induction a generalizing o with
  | nil => simp [ownRun]
  | cons e es ih =>
    simp only [List.cons_append, ownRun]
    cases ownStep o e with
    | none => simp
    | some o' => simpa using ih o'

/-- a disciplined trace has only disciplined prefixes -/
theorem ownRun_prefix {o o' : List Fd} {a b : List Ev} (h : ownRun o (a ++ b) = some o') :
    ∃ o'', ownRun o a = some o'' := by
  rw [ownRun_append] at h
  cases h' : ownRun o a with
  | none => simp [h'] at h
  | some x => exact ⟨x, rfl⟩

/-- events that never break the discipline and never change the owned set -/
def Ev.neutral : Ev → Bool
  | .open _ none => true
  | .mkdir _ _ => true
  | .unlink _ => true
  | _ => false

/-- a segment that touches only the owned descriptor `fd` with `pwrite` -/
theorem ownRun_pwrites (o : List Fd) (seg : List Ev) (fd : Fd) (hfd : fd ∈ o)
    (h : ∀ e ∈ seg, ∃ off len r, e = .pwrite fd off len r) : ownRun o seg = some o := by
  induction seg with
  | nil => rfl
  | cons e es ih =>
    obtain ⟨off, len, r, rfl⟩ := h e (by simp)
    simp only [ownRun, ownStep, hfd, if_true]
    exact ih (fun e he => h e (by simp [he]))

/-! ## predicates on segments -/

/-- no `pwrite` of the segment returned an error -/
def NoFail (seg : List Ev) : Prop := ∀ e ∈ seg, e.isFailedPwrite = false

/-- the segment contains neither `pwrite` nor `flock` -/
def NoIo (seg : List Ev) : Prop := ∀ e ∈ seg, e.isPwrite = false ∧ e.isFlock = false

theorem NoFail.append {a b : List Ev} (ha : NoFail a) (hb : NoFail b) : NoFail (a ++ b) := by
  intro e he
  cases List.mem_append.mp he with
  | inl h => exact ha e h
  | inr h => exact hb e h

theorem NoFail.nil : NoFail [] := by intro e he; cases he

theorem NoIo.append {a b : List Ev} (ha : NoIo a) (hb : NoIo b) : NoIo (a ++ b) := by
  intro e he
  cases List.mem_append.mp he with
  | inl h => exact ha e h
  | inr h => exact hb e h

theorem NoIo.nil : NoIo [] := by intro e he; cases he

end AcqVerif.Storage
