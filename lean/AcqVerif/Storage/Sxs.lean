import AcqVerif.Storage.TiffIo
/-!
# I/O skeleton of `acquire-driver-common/src/storage/side-by-side-tiff.cpp`
(with the repair fixes/15: the composite maintains the inner writer's `state`
after a successful inner `set` and `start`, as the HAL does for a top-level device)
and `trash.c`.
-/
namespace AcqVerif.Storage

/-- `"/metadata.json"` -/
def slashMetadataJson : Bytes := [47, 109, 101, 116, 97, 100, 97, 116, 97, 46, 106, 115, 111, 110]
/-- `"/data.tif"` -/
def slashDataTif : Bytes := [47, 100, 97, 116, 97, 46, 116, 105, 102]

/-- `struct SideBySideTiff` -/
structure Sxs where
  state : DeviceState := .closed       -- not initialised by side_by_side_tiff_init: 0
  uri : Bytes := []                    -- props.uri
  md : Bytes := []                   -- props.external_metadata_json
  tiff : Tiff := {}

/-- `side_by_side_tiff_set` (the parent of the URI is the working directory, which exists and is writable) -/
def sxsSet (os : Os) (s : Sxs) (uri md : Bytes) : Os × Sxs × DeviceState :=
  if md.length ≠ 0 ∧ !validateJson md then (os, s, .awaiting) else
  if uri.length = 0 then (os, s, .awaiting) else
  let s := { s with uri := copyString uri, md := copyString md }
  let offset := uriOffset uri
  let s := if offset ≠ 0 then { s with uri := copyString (uri.drop offset) } else s
  (os, s, .armed)

/-- `side_by_side_tiff_start`, step 1: create the folder unless it exists (then it must be a directory) -/
def sxsFolder (os : Os) (path : Path) : Os × Bool :=
  if os.exists path then (os, os.dirs path) else sysMkdir os path

/-- step 2: write `metadata.json` (create, write, close; then check the write) -/
def sxsMetadata (os : Os) (s : Sxs) (path : Path) : Os × Bool :=
  if s.md.length ≠ 0 then
    match fileCreate os (path ++ slashMetadataJson) with
    | (os, none) => (os, false)
    | (os, some fd) =>
      match fileWrite os fd 0 (s.md.take (s.md.length - 1)) with
      | (os, ok) => (fileClose os fd, ok)
  else (os, true)

/-- step 3: set and start the inner tiff writer on `<path>/data.tif`; the composite records what
    the inner `set` / `start` returned in the inner device's `state` once the CHECK on it has
    passed (fixes/15), as the HAL does for a top-level device -/
def sxsInner (os : Os) (s : Sxs) (path : Path) : Os × Sxs × DeviceState :=
  let video := path ++ slashDataTif
  match tiffSet os s.tiff (video ++ [0]) video.length (copyString s.md) with
  | (os, t, st) =>
    if st ≠ .armed then (os, { s with tiff := t }, .awaiting) else
    let t := { t with state := st }                              -- self->tiff->state = state;
    match tiffStart os t with
    | (os, t, st) =>
      if st ≠ .running then (os, { s with tiff := t }, .awaiting) else
      (os, { s with tiff := { t with state := st } }, .running)  -- self->tiff->state = state;

/-- `side_by_side_tiff_start` -/
def sxsStart (os : Os) (s : Sxs) : Os × Sxs × DeviceState :=
  let path := s.uri.take (s.uri.length - 1)                    -- as_path
  match sxsFolder os path with
  | (os, false) => (os, s, .awaiting)
  | (os, true) =>
    match sxsMetadata os s path with
    | (os, false) => (os, s, .awaiting)
    | (os, true) => sxsInner os s path

/-- `side_by_side_tiff_stop` (`tiff_stop` always returns Armed) -/
def sxsStop (os : Os) (s : Sxs) : Os × Sxs × DeviceState :=
  let (os, t, st) := tiffStop os s.tiff
  let s := { s with tiff := t }
  if st = .armed then (os, s, .armed) else (os, s, .awaiting)

/-- `side_by_side_tiff_append` -/
def sxsAppend (os : Os) (s : Sxs) (fs : List FrameIo) : Os × Sxs × DeviceState :=
  let (os, t, st) := tiffAppend os s.tiff fs
  let s := { s with tiff := t }
  if st = .running then (os, s, .running) else sxsStop os s

/-- `side_by_side_tiff_destroy` -/
def sxsDestroy (os : Os) (s : Sxs) : Os × Sxs :=
  let (os, s, _) := sxsStop os s
  let (os, t) := tiffDestroy os s.tiff
  (os, { s with tiff := t })

/-- `struct Trash`: no system calls at all -/
structure Trash where
  state : DeviceState := .awaiting

end AcqVerif.Storage
