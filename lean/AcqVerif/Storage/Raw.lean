import AcqVerif.Storage.FileWrite
/-!
# `acquire-driver-common/src/storage/raw.c` (with the repairs of fixes/12 and fixes/13)

`struct String` is modelled by the memory `str[0 .. nbytes)` (`nbytes` = length of
the list, terminator included); what a C string function sees of it is `cstr`.
`copyString` is `copy_string` of `props/storage.c` on the bytes (ownership and
reallocation are property C13's subject).
-/
namespace AcqVerif.Storage

inductive DeviceState where
  | closed | awaiting | armed | running
deriving DecidableEq, Repr, Inhabited

/-- the C string starting at `mem`: bytes up to the first NUL -/
def cstr (mem : Bytes) : Bytes := mem.takeWhile (· != 0)

/-- `"file://"` -/
def filePrefix : Bytes := [102, 105, 108, 101, 58, 47, 47]

/-- `strlen(uri) >= 7 && strncmp(uri, "file://", 7) == 0 ? 7 : 0` -/
def uriOffset (mem : Bytes) : Nat :=
  if (cstr mem).length ≥ 7 ∧ mem.take 7 = filePrefix then 7 else 0

/-- `copy_string`: `nbytes` bytes of the source, the last one forced to NUL; a
    null/empty source gives `""` -/
def copyString (src : Bytes) : Bytes :=
  if src.length = 0 then [0] else src.take (src.length - 1) ++ [0]

/-- `"out.raw"` with its terminator -/
def outRaw : Bytes := [111, 117, 116, 46, 114, 97, 119, 0]

/-- `struct Raw` -/
structure Raw where
  state : DeviceState := .awaiting
  uri : Bytes := outRaw          -- properties.uri
  fid : Fd := 0                  -- file.fid
  isOpen : Bool := false         -- is_open (fixes/13)
  offset : Nat := 0

/-- `raw_set` -/
def rawSet (os : Os) (r : Raw) (uri : Bytes) : Os × Raw × DeviceState :=
  if uri.length = 0 then (os, r, .awaiting) else
  let offset := uriOffset uri
  let filename := uri.drop offset
  match fileIsWritable os (cstr filename) with
  | (os, false) => (os, r, .awaiting)
  | (os, true) =>
    let r := { r with uri := copyString uri }
    let r := if offset ≠ 0 then { r with uri := copyString filename } else r
    (os, r, .armed)

/-- `raw_start` -/
def rawStart (os : Os) (r : Raw) : Os × Raw × DeviceState :=
  let r := { r with offset := 0 }            -- fixes/12
  match fileCreate os (cstr r.uri) with
  | (os, none) => (os, r, .awaiting)
  | (os, some fd) => (os, { r with fid := fd, isOpen := true }, .running)

/-- `raw_stop` -/
def rawStop (os : Os) (r : Raw) : Os × Raw × DeviceState :=
  if r.isOpen then (fileClose os r.fid, { r with isOpen := false }, .armed)
  else (os, r, .armed)

/-- `raw_append` (the packet is `*nbytes` bytes starting at `frames`) -/
def rawAppend (os : Os) (r : Raw) (pkt : Bytes) : Os × Raw × DeviceState :=
  match fileWrite os r.fid r.offset pkt with
  | (os, true) => (os, { r with offset := r.offset + pkt.length }, .running)
  | (os, false) => rawStop os r

/-- `raw_destroy` -/
def rawDestroy (os : Os) (r : Raw) : Os × Raw :=
  let (os, r, _) := rawStop os r
  (os, r)

end AcqVerif.Storage
