import AcqVerif.Storage.RawAcq
/-!
# Short writes alone never make the raw device fail

A *benign* oracle lets every call succeed but may cut every `pwrite` short (to at least one
byte).  Under such an oracle `file_write` always reports success, `start` succeeds and the
device stays Running through any number of appends.  (This also shows that the hypothesis
"still Running after the appends" of `C14_contents` is satisfiable for every packet list.)
-/
namespace AcqVerif.Storage

def Benign (o : Nat → Outcome) : Prop := ∀ n, o n = .full ∨ ∃ k, 0 < k ∧ o n = .short k

theorem Benign.ne_fail {o : Nat → Outcome} (h : Benign o) (n : Nat) : o n ≠ .fail := by
  rcases h n with h | ⟨k, _, h⟩ <;> rw [h] <;> simp

/-! ## the oracle is never modified -/

theorem sysOpen_oracle (os : Os) (p : Path) : (sysOpen os p).1.oracle = os.oracle := by
  unfold sysOpen; simp only; split <;> rfl
theorem sysFlock_oracle (os : Os) (fd : Fd) : (sysFlock os fd).1.oracle = os.oracle := rfl
theorem sysClose_oracle (os : Os) (fd : Fd) : (sysClose os fd).1.oracle = os.oracle := rfl
theorem sysUnlink_oracle (os : Os) (p : Path) : (sysUnlink os p).oracle = os.oracle := rfl
theorem sysPwrite_oracle (os : Os) (fd off : Nat) (d : Bytes) : (sysPwrite os fd off d).1.oracle = os.oracle := by
  unfold sysPwrite; simp only; split
  · rfl
  · split <;> rfl

theorem fileWriteLoop_oracle (os : Os) (fd off : Nat) (buf : Bytes) (r : Nat) :
    (fileWriteLoop os fd off buf r).1.oracle = os.oracle := by
  fun_induction fileWriteLoop os fd off buf r with
  | case1 os off buf r hc os' hp => have := sysPwrite_oracle os fd off buf; rw [hp] at this; exact this
  | case2 os off buf r hc os' w hp ih =>
    have := sysPwrite_oracle os fd off buf; rw [hp] at this
    simp only [dite_eq_ite] at ih
    rw [ih, this]
  | case3 => rfl

theorem fileCreate_oracle (os : Os) (p : Path) : (fileCreate os p).1.oracle = os.oracle := by
  unfold fileCreate
  have h1 := sysOpen_oracle os p
  cases ho : sysOpen os p with
  | mk os1 res =>
    rw [ho] at h1
    cases res with
    | none => exact h1
    | some fd =>
      simp only
      have h2 := sysFlock_oracle os1 fd
      cases hf : sysFlock os1 fd with
      | mk os2 ok =>
        rw [hf] at h2
        cases ok with
        | true => exact h2.trans h1
        | false => exact (sysClose_oracle os2 fd).trans (h2.trans h1)

theorem fileIsWritable_oracle (os : Os) (p : Path) : (fileIsWritable os p).1.oracle = os.oracle := by
  unfold fileIsWritable
  split
  · rfl
  · have h1 := sysOpen_oracle os p
    cases ho : sysOpen os p with
    | mk os1 res =>
      rw [ho] at h1
      cases res with
      | none => exact h1
      | some fd => exact h1

theorem rawStop_oracle (os : Os) (r : Raw) : (rawStop os r).1.oracle = os.oracle := by
  unfold rawStop; split <;> rfl

theorem step_oracle_raw (s : Sys) (op : Op) (r : Raw) (hd : s.dev = .raw r) : (step s op).1.os.oracle = s.os.oracle := by
  unfold step
  split
  · rfl
  · cases op with
    | set uri md =>
      simp only [storageSet, hd, Dev.set, rawSet]
      split
      · rfl
      · have := fileIsWritable_oracle s.os (cstr (uri.drop (uriOffset uri)))
        cases hw : fileIsWritable s.os (cstr (uri.drop (uriOffset uri))) with
        | mk os1 ok => rw [hw] at this; cases ok <;> exact this
    | start =>
      simp only [storageStart]
      split
      · rfl
      · simp only [hd, Dev.start, rawStart]
        have := fileCreate_oracle s.os (cstr r.uri)
        cases hw : fileCreate s.os (cstr r.uri) with
        | mk os1 res => rw [hw] at this; cases res <;> exact this
    | append fs =>
      simp only [storageAppend]
      split
      · rfl
      · split
        · rfl
        · simp only [hd, Dev.append, rawAppend]
          have := fileWriteLoop_oracle s.os r.fid r.offset (packetBytes fs) 0
          cases hw : fileWrite s.os r.fid r.offset (packetBytes fs) with
          | mk os1 ok =>
            rw [← fileWrite_oracle_eq, hw] at this
            cases ok with
            | true => exact this
            | false => exact (rawStop_oracle os1 r).trans this
    | stop =>
      simp only [storageStop]
      split
      · simp only [hd, Dev.stop]; exact rawStop_oracle s.os r
      · rfl
    | close =>
      simp only [storageClose, storageStop]
      split
      · simp only [hd, Dev.stop, Dev.setState, Dev.destroy, rawDestroy]
        exact (rawStop_oracle _ _).trans (rawStop_oracle s.os r)
      · simp only [hd, Dev.destroy, rawDestroy]; exact rawStop_oracle s.os r

theorem run_oracle_raw (oracle : Nat → Outcome) (pick : Nat → Fd) (ops : List Op) :
    (run .raw oracle pick ops).os.oracle = oracle := by
  suffices h : ∀ (s : Sys) (r : Raw), s.dev = .raw r → (runFrom s ops).os.oracle = s.os.oracle from
    h (Sys.init .raw oracle pick) {} rfl
  induction ops with
  | nil => intro s r _; rfl
  | cons op ops ih =>
    intro s r hd
    obtain ⟨r1, h1⟩ := step_raw s op r hd
    simp only [runFrom]
    rw [ih _ r1 h1, step_oracle_raw s op r hd]

/-! ## benign oracles -/

/-- under a benign oracle `file_write` to an open descriptor always succeeds -/
theorem fileWriteLoop_benign (os : Os) (fd off : Nat) (buf : Bytes) (hb : Benign os.oracle)
    (hfd : ∃ p, os.fds.lookup fd = some p) : (fileWriteLoop os fd off buf 0).2 = true := by
  suffices h : ∀ r, r = 0 → (fileWriteLoop os fd off buf r).2 = true from h 0 rfl
  intro r
  fun_induction fileWriteLoop os fd off buf r with
  | case1 os off buf r hc os' hp =>
    intro _
    exfalso
    obtain ⟨p, hl⟩ := hfd
    unfold sysPwrite at hp
    simp only [hl] at hp
    rcases hb os.calls with h | ⟨k, _, h⟩ <;> simp [h, pwriteCount] at hp
  | case2 os off buf r hc os' w hp ih =>
    intro hr
    obtain ⟨_, hfds, _, _, _⟩ := sysPwrite_some hp
    have horc := sysPwrite_oracle os fd off buf
    rw [hp] at horc
    have hw : w ≠ 0 := by
      obtain ⟨p, hl⟩ := hfd
      have hne : buf.length ≠ 0 := fun h0 => hc.1 (List.eq_nil_of_length_eq_zero h0)
      unfold sysPwrite at hp
      simp only [hl] at hp
      rcases hb os.calls with h | ⟨k, hk, h⟩
      · simp only [h, pwriteCount, Prod.mk.injEq, Option.some.injEq] at hp; omega
      · simp only [h, pwriteCount, Prod.mk.injEq, Option.some.injEq] at hp
        have := hp.2; split at this <;> omega
    simp only [dite_eq_ite, hw, if_false, Nat.add_zero] at ih ⊢
    exact ih (by rw [horc]; exact hb) (by rw [hfds]; exact hfd) hr
  | case3 os off buf r hc => intro hr; subst hr; rfl

/-- under a benign oracle `start` of an armed raw device succeeds -/
theorem start_benign (s : Sys) (r : Raw) (hd : s.dev = .raw r) (hc : s.closed = false) (harm : r.state = .armed)
    (hb : Benign s.os.oracle) : (step s .start).1.dev.state = .running := by
  have hwf : Op.start.wf s = true := by simp [Op.wf, hc]
  have heq : step s .start = storageStart s := by simp [step, hwf]
  have e : storageStart s = (Sys.mk (rawStart s.os r).1
      (Dev.raw { (rawStart s.os r).2.1 with state := (rawStart s.os r).2.2 }) s.closed,
      if (rawStart s.os r).2.2 = .running then Status.ok else Status.err) := by
    simp [storageStart, hd, Dev.state, harm, Dev.start, Dev.setState]
  rw [heq, e]
  simp only [Dev.state]
  unfold rawStart fileCreate
  have hnf := hb.ne_fail s.os.calls
  cases ho : sysOpen s.os (cstr r.uri) with
  | mk os1 res =>
    cases res with
    | none =>
      exfalso
      unfold sysOpen at ho
      simp [hnf] at ho
    | some fd =>
      simp only
      obtain ⟨_, hf, _, _, _⟩ := sysOpen_some ho
      have horc : os1.oracle = s.os.oracle := by have := sysOpen_oracle s.os (cstr r.uri); rw [ho] at this; exact this
      have hok : (sysFlock os1 fd).2 = true := by
        have := (horc ▸ hb).ne_fail os1.calls
        simp [sysFlock, Os.fdKeys, hf, this]
      cases hfl : sysFlock os1 fd with
      | mk os2 ok =>
        rw [hfl] at hok
        simp only at hok
        subst hok
        simp [ho, hfl]

/-- under a benign oracle a healthy acquisition stays healthy through every append -/
theorem append_benign (s : Sys) (p : Path) (acc : Bytes) (fs : List Frame) (h : RawAcq s p acc)
    (hb : Benign s.os.oracle) : RawAcq (step s (.append fs)).1 p (acc ++ packetBytes fs) := by
  rcases append_step s p acc fs h with h1 | h1
  · exact h1
  · exfalso
    obtain ⟨hc, r, hd, hst, hopen, hlk, _, _⟩ := h
    obtain ⟨r1, hd1, hns⟩ := h1
    have hwf : (Op.append fs).wf s = true := by simp [Op.wf, hc]
    have heq : step s (.append fs) = storageAppend s fs := by simp [step, hwf]
    rw [heq] at hd1
    unfold storageAppend at hd1
    have hrun : s.dev.state = .running := by simp [hd, Dev.state, hst]
    simp only [hrun, ne_eq, not_true_eq_false, if_false] at hd1
    split at hd1
    · rw [hd] at hd1; cases hd1; exact hns hst
    · simp only [hd, Dev.append, rawAppend] at hd1
      have hok := fileWriteLoop_benign s.os r.fid r.offset (packetBytes fs) hb ⟨p, hlk⟩
      cases hw : fileWrite s.os r.fid r.offset (packetBytes fs) with
      | mk os1 ok =>
        rw [← fileWrite_snd, hw] at hok
        simp only at hok
        subst hok
        rw [show fileWrite s.os r.fid r.offset (packetBytes fs) = (os1, true) from hw] at hd1
        simp only [Dev.setState, Dev.raw.injEq] at hd1
        rw [← hd1] at hns
        exact hns rfl

theorem appends_benign (pkts : List (List Frame)) (s : Sys) (p : Path) (acc : Bytes) (r : Raw) (hd : s.dev = .raw r)
    (h : RawAcq s p acc) (hb : Benign s.os.oracle) :
    RawAcq (runFrom s (pkts.map .append)) p (acc ++ (pkts.map packetBytes).flatten) := by
  induction pkts generalizing s acc r with
  | nil => simpa [runFrom] using h
  | cons fs t ih =>
    simp only [List.map_cons, runFrom]
    have h1 := append_benign s p acc fs h hb
    obtain ⟨r1, hd1⟩ := step_raw s (.append fs) r hd
    have hb1 : Benign (step s (.append fs)).1.os.oracle := by rw [step_oracle_raw s _ r hd]; exact hb
    have := ih _ _ r1 hd1 h1 hb1
    simpa [List.flatten_cons, List.append_assoc] using this

end AcqVerif.Storage
