/-!
# Operating-system model for the storage devices (properties C14, C16)

What the storage devices see of the kernel: `open`, `flock`, `pwrite`, `close`,
`mkdir`, `unlink` over an abstract file system (`path ↦ bytes`, a set of
directories) and the table of descriptors *this device* has opened.  Every
faultable call consumes one index of a **fault oracle** `oracle : Nat → Outcome`
(call index ↦ full | short k | zero | fail) — any function is allowed, so a
fault may hit any call, once or from some index on for ever.  `open` returns
*any* descriptor that is not in the table (`pick` proposes one, `allocFd` moves
it out of the way if it is taken).  Every call is appended to `log`; the
property theorems of C16 are statements about that log.

No import outside core: linked into the native driver `acq_storage`.
-/
namespace AcqVerif.Storage

abbrev Bytes := List UInt8
abbrev Path := List UInt8
abbrev Fd := Nat

/-- one entry of the fault script: what the kernel does with the next call -/
inductive Outcome where
  | full
  | short (k : Nat)
  | zero
  | fail
deriving DecidableEq, Repr, Inhabited

/-- a system call as the process issued it, with its result -/
inductive Ev where
  | open (p : Path) (r : Option Fd)
  | flock (fd : Fd) (ok : Bool)
  | pwrite (fd : Fd) (off len : Nat) (r : Option Nat)
  | close (fd : Fd) (ok : Bool)
  | mkdir (p : Path) (ok : Bool)
  | unlink (p : Path)
deriving DecidableEq, Repr

structure Os where
  oracle : Nat → Outcome
  pick : Nat → Fd
  calls : Nat := 0
  fds : List (Fd × Path) := []
  files : Path → Option Bytes := fun _ => none
  dirs : Path → Bool := fun _ => false
  log : List Ev := []
  /-- ghost: how many `file_write` calls have reported failure so far (never read by the model) -/
  wfails : Nat := 0

/-- file-system update: `p` now holds `b` -/
def setFile (files : Path → Option Bytes) (p : Path) (b : Bytes) : Path → Option Bytes :=
  fun q => if q = p then some b else files q

/-- contents of `p` (a missing file reads as empty) -/
def Os.content (os : Os) (p : Path) : Bytes := (os.files p).getD []

/-- descriptors currently open (opened through this model and not yet closed) -/
def Os.fdKeys (os : Os) : List Fd := os.fds.map (·.1)

/-- any descriptor not in `used`: the proposal `c` itself when it is free -/
def allocFd (used : List Fd) (c : Fd) : Fd :=
  if c ∈ used then used.foldl max 0 + 1 + c else c

/-- `pwrite` semantics on file contents: bytes `[off, off+|d|)` replaced, a hole
    before `off` reads as zeros -/
def writeAt (f : Bytes) (off : Nat) (d : Bytes) : Bytes :=
  (f ++ List.replicate (off - f.length) 0).take off ++ d ++ f.drop (off + d.length)

/-- how many of `n` bytes the kernel takes, `none` = error return -/
def pwriteCount (o : Outcome) (n : Nat) : Option Nat :=
  match o with
  | .full => some n
  | .short k => some (if k < n then k else n)
  | .zero => some 0
  | .fail => none

/-- `open(path, O_RDWR | O_CREAT | O_NONBLOCK, 0666)` -/
def sysOpen (os : Os) (p : Path) : Os × Option Fd :=
  let o := os.oracle os.calls
  let c := os.pick os.calls
  let os := { os with calls := os.calls + 1 }
  if o = .fail then ({ os with log := os.log ++ [.open p none] }, none)
  else
    let fd := allocFd os.fdKeys c
    ({ os with fds := (fd, p) :: os.fds,
               files := setFile os.files p (os.content p),
               log := os.log ++ [.open p (some fd)] }, some fd)

/-- `flock(fd, LOCK_EX | LOCK_NB)` -/
def sysFlock (os : Os) (fd : Fd) : Os × Bool :=
  let o := os.oracle os.calls
  let os := { os with calls := os.calls + 1 }
  let ok := decide (fd ∈ os.fdKeys) && decide (o ≠ .fail)
  ({ os with log := os.log ++ [.flock fd ok] }, ok)

/-- `pwrite(fd, data, |data|, off)` -/
def sysPwrite (os : Os) (fd : Fd) (off : Nat) (data : Bytes) : Os × Option Nat :=
  let o := os.oracle os.calls
  let os := { os with calls := os.calls + 1 }
  match os.fds.lookup fd with
  | none => ({ os with log := os.log ++ [.pwrite fd off data.length none] }, none)
  | some p =>
    match pwriteCount o data.length with
    | none => ({ os with log := os.log ++ [.pwrite fd off data.length none] }, none)
    | some w =>
      ({ os with
          files := if w = 0 then os.files else setFile os.files p (writeAt (os.content p) off (data.take w)),
          log := os.log ++ [.pwrite fd off data.length (some w)] }, some w)

/-- `close(fd)`: the descriptor is released even when an error is reported -/
def sysClose (os : Os) (fd : Fd) : Os × Bool :=
  let o := os.oracle os.calls
  let os := { os with calls := os.calls + 1 }
  let ok := decide (fd ∈ os.fdKeys) && decide (o ≠ .fail)
  ({ os with fds := os.fds.filter (fun e => e.1 ≠ fd), log := os.log ++ [.close fd ok] }, ok)

/-- `mkdir(path, 0777)` -/
def sysMkdir (os : Os) (p : Path) : Os × Bool :=
  let o := os.oracle os.calls
  let os := { os with calls := os.calls + 1 }
  if o = .fail then ({ os with log := os.log ++ [.mkdir p false] }, false)
  else ({ os with dirs := fun q => if q = p then true else os.dirs q, log := os.log ++ [.mkdir p true] }, true)

/-- `unlink(path)` (not a fault point) -/
def sysUnlink (os : Os) (p : Path) : Os :=
  { os with files := fun q => if q = p then none else os.files q, log := os.log ++ [.unlink p] }

/-- `access(path, F_OK) == 0` -/
def Os.exists (os : Os) (p : Path) : Bool := (os.files p).isSome || os.dirs p

/-! ## The descriptor discipline, as a predicate on a trace -/

/-- one step of the ownership automaton: `owned` = descriptors the device has
    opened and not closed; `none` = the call breaks the discipline -/
def ownStep (owned : List Fd) : Ev → Option (List Fd)
  | .open _ (some fd) => if fd ∈ owned then none else some (fd :: owned)
  | .open _ none => some owned
  | .flock fd _ => if fd ∈ owned then some owned else none
  | .pwrite fd _ _ _ => if fd ∈ owned then some owned else none
  | .close fd _ => if fd ∈ owned then some (owned.filter (· ≠ fd)) else none
  | .mkdir _ _ => some owned
  | .unlink _ => some owned

/-- run the automaton over a trace -/
def ownRun : List Fd → List Ev → Option (List Fd)
  | owned, [] => some owned
  | owned, e :: es => match ownStep owned e with
    | none => none
    | some o => ownRun o es

/-- the event is a `pwrite` that returned an error -/
def Ev.isFailedPwrite : Ev → Bool
  | .pwrite _ _ _ none => true
  | _ => false

def Ev.isPwrite : Ev → Bool
  | .pwrite _ _ _ _ => true
  | _ => false

def Ev.isFlock : Ev → Bool
  | .flock _ _ => true
  | _ => false

end AcqVerif.Storage
