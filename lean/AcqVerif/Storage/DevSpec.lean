import AcqVerif.Storage.Tr
import AcqVerif.Storage.Hal
/-!
# What each device function does to the OS (raw, tiff, tiff-json)
-/
namespace AcqVerif.Storage

theorem runFrom_append (s : Sys) (a b : List Op) : runFrom s (a ++ b) = runFrom (runFrom s a) b := by
  induction a generalizing s with
  | nil => rfl
  | cons op ops ih => simp [runFrom, ih]

/-- every event of the segment is a `pwrite` on `fd` -/
def PwOn (fd : Fd) (seg : List Ev) : Prop := ∀ e ∈ seg, ∃ o l x, e = Ev.pwrite fd o l x

theorem PwOn.nil (fd : Fd) : PwOn fd [] := by intro e he; cases he

theorem PwOn.append {fd : Fd} {a b : List Ev} (ha : PwOn fd a) (hb : PwOn fd b) : PwOn fd (a ++ b) := by
  intro e he
  cases List.mem_append.mp he with
  | inl h => exact ha e h
  | inr h => exact hb e h

/-- a write-only segment on an owned descriptor is a disciplined transition -/
theorem tr_of_pwOn {os os' : Os} {fd : Fd} {seg : List Ev} (hl : os'.log = os.log ++ seg) (hf : os'.fds = os.fds)
    (hp : PwOn fd seg) (hm : fd ∈ os.fdKeys) : Tr os os' seg := by
  have hk : os'.fdKeys = os.fdKeys := by rw [fdKeys_def, hf]; rfl
  exact ⟨hl, by rw [hk]; exact ownRun_pwrites _ _ fd hm hp⟩

theorem fileWrite_pw (os : Os) (fd off : Nat) (buf : Bytes) :
    ∃ seg, (fileWrite os fd off buf).1.log = os.log ++ seg ∧ (fileWrite os fd off buf).1.fds = os.fds ∧
      PwOn fd seg ∧ ((fileWrite os fd off buf).2 = true → NoFail seg) := by
  obtain ⟨seg, hl, hf, _, hpw, hnf, _⟩ := fileWrite_log os fd off buf
  exact ⟨seg, hl, hf, hpw, hnf⟩

/-! ## raw -/

theorem rawSet_spec (os : Os) (r : Raw) (uri : Bytes) :
    ∃ seg, Tr os (rawSet os r uri).1 seg ∧ (rawSet os r uri).1.fds = os.fds ∧ NoIo seg ∧ NoFail seg ∧
      (rawSet os r uri).2.1.isOpen = r.isOpen ∧ (rawSet os r uri).2.1.fid = r.fid ∧
      (rawSet os r uri).2.1.state = r.state ∧ (rawSet os r uri).2.2 ≠ .running := by
  unfold rawSet
  split
  · exact ⟨[], Tr.refl os, rfl, NoIo.nil, NoFail.nil, rfl, rfl, rfl, by simp⟩
  · obtain ⟨seg, ht, hf, hio, hnf⟩ := fileIsWritable_tr os (cstr (uri.drop (uriOffset uri)))
    simp only
    cases hw : fileIsWritable os (cstr (uri.drop (uriOffset uri))) with
    | mk os1 ok =>
      rw [hw] at ht hf
      cases ok with
      | false => exact ⟨seg, ht, hf, hio, hnf, rfl, rfl, rfl, by simp⟩
      | true =>
        refine ⟨seg, ht, hf, hio, hnf, ?_, ?_, ?_, by simp⟩ <;> (simp only; split <;> rfl)

theorem rawStart_spec (os : Os) (r : Raw) :
    (∃ os' seg, rawStart os r = (os', { r with offset := 0 }, .awaiting) ∧ Tr os os' seg ∧ os'.fds = os.fds ∧ NoFail seg) ∨
    (∃ os' fd, rawStart os r = (os', { r with offset := 0, fid := fd, isOpen := true }, .running) ∧
      Tr os os' [.open (cstr r.uri) (some fd), .flock fd true] ∧ os'.fds = (fd, cstr r.uri) :: os.fds ∧
      fd ∉ os.fdKeys ∧ os'.files = setFile os.files (cstr r.uri) (os.content (cstr r.uri))) := by
  unfold rawStart
  rcases fileCreate_tr os (cstr r.uri) with ⟨os', seg, he, ht, hf, hnf⟩ | ⟨os', fd, he, ht, hf, hn, hfiles⟩
  · left; exact ⟨os', seg, by simp [he], ht, hf, hnf⟩
  · right; exact ⟨os', fd, by simp [he], ht, hf, hn, hfiles⟩

theorem rawStop_closed (os : Os) (r : Raw) (h : r.isOpen = false) : rawStop os r = (os, r, .armed) := by
  simp [rawStop, h]

theorem rawStop_open (os : Os) (r : Raw) (h : r.isOpen = true) :
    rawStop os r = (fileClose os r.fid, { r with isOpen := false }, .armed) := by
  simp [rawStop, h]

/-- `raw_stop` when the descriptor table agrees with `is_open` -/
theorem rawStop_spec (os : Os) (r : Raw) (h : os.fdKeys = if r.isOpen then [r.fid] else []) :
    ∃ seg, Tr os (rawStop os r).1 seg ∧ (rawStop os r).1.fdKeys = [] ∧ (rawStop os r).2.1.isOpen = false ∧
      (rawStop os r).2.2 = .armed ∧ (rawStop os r).2.1.state = r.state ∧ (r.isOpen = false → seg = []) ∧
      NoIo seg ∧ (rawStop os r).1.files = os.files := by
  cases ho : r.isOpen with
  | false =>
    rw [rawStop_closed os r ho]
    simp only [ho, Bool.false_eq_true, if_false] at h
    exact ⟨[], Tr.refl os, h, ho, rfl, rfl, fun _ => rfl, NoIo.nil, rfl⟩
  | true =>
    rw [rawStop_open os r ho]
    simp only [ho, if_true] at h
    obtain ⟨ok, ht, hf⟩ := fileClose_tr os r.fid (by simp [h])
    refine ⟨_, ht, filter_singleton_keys h hf, rfl, rfl, rfl, by simp, ?_, by simp [fileClose, sysClose]⟩
    intro e he; simp at he; subst he; simp [Ev.isPwrite, Ev.isFlock]

theorem rawAppend_spec (os : Os) (r : Raw) (pkt : Bytes) (ho : r.isOpen = true) (hk : os.fdKeys = [r.fid]) :
    ∃ seg, Tr os (rawAppend os r pkt).1 seg ∧ (rawAppend os r pkt).2.1.state = r.state ∧
      (((rawAppend os r pkt).2.2 = .running ∧ (rawAppend os r pkt).2.1.isOpen = true ∧
          (rawAppend os r pkt).2.1.fid = r.fid ∧ (rawAppend os r pkt).1.fdKeys = [r.fid] ∧ NoFail seg) ∨
       ((rawAppend os r pkt).2.2 = .armed ∧ (rawAppend os r pkt).2.1.isOpen = false ∧
          (rawAppend os r pkt).1.fdKeys = [])) := by
  unfold rawAppend
  obtain ⟨seg, ht, hf, hnf⟩ := fileWrite_tr os r.fid r.offset pkt (by simp [hk])
  cases hw : fileWrite os r.fid r.offset pkt with
  | mk os1 ok =>
    rw [hw] at ht hf hnf
    simp only at ht hf hnf
    have hk1 : os1.fdKeys = [r.fid] := by rw [fdKeys_def, hf, ← fdKeys_def, hk]
    cases ok with
    | true =>
      exact ⟨seg, ht, rfl, Or.inl ⟨rfl, ho, rfl, hk1, hnf rfl⟩⟩
    | false =>
      obtain ⟨seg2, ht2, hk2, hio, hst, hstate, _, _, _⟩ := rawStop_spec os1 r (by simp [ho, hk1])
      exact ⟨seg ++ seg2, Tr.trans ht ht2, hstate, Or.inr ⟨hst, hio, hk2⟩⟩

/-- without any assumption: a raw append that returns Running saw no failing write -/
theorem rawAppend_nofail (os : Os) (r : Raw) (pkt : Bytes) :
    ∃ seg, (rawAppend os r pkt).1.log = os.log ++ seg ∧ ((rawAppend os r pkt).2.2 = .running → NoFail seg) := by
  unfold rawAppend
  obtain ⟨seg, hl, _, _, hnf⟩ := fileWrite_pw os r.fid r.offset pkt
  cases hw : fileWrite os r.fid r.offset pkt with
  | mk os1 ok =>
    rw [hw] at hl hnf
    cases ok with
    | true => exact ⟨seg, hl, fun _ => hnf rfl⟩
    | false =>
      show ∃ seg, (rawStop os1 r).1.log = os.log ++ seg ∧ ((rawStop os1 r).2.2 = .running → NoFail seg)
      cases ho : r.isOpen with
      | false => rw [rawStop_closed os1 r ho]; exact ⟨seg, hl, by simp⟩
      | true =>
        rw [rawStop_open os1 r ho]
        refine ⟨seg ++ [.close r.fid (sysClose os1 r.fid).2], ?_, by simp⟩
        simp only [fileClose, (sysClose_spec os1 r.fid).1]
        simp only at hl
        rw [hl, List.append_assoc]

/-! ## tiff -/

theorem tiffSet_spec (os : Os) (t : Tiff) (uri : Bytes) (n : Nat) (md : Bytes) :
    ∃ seg, Tr os (tiffSet os t uri n md).1 seg ∧ (tiffSet os t uri n md).1.fds = os.fds ∧ NoIo seg ∧ NoFail seg ∧
      (tiffSet os t uri n md).2.1.state = t.state ∧ (tiffSet os t uri n md).2.1.fid = t.fid ∧
      (tiffSet os t uri n md).2.2 ≠ .running := by
  unfold tiffSet
  split
  · exact ⟨[], Tr.refl os, rfl, NoIo.nil, NoFail.nil, rfl, rfl, by simp⟩
  · simp only
    obtain ⟨seg, ht, hf, hio, hnf⟩ := fileIsWritable_tr os (cstr ((uri.drop (uriOffset uri)).take (n - uriOffset uri)))
    cases hw : fileIsWritable os (cstr ((uri.drop (uriOffset uri)).take (n - uriOffset uri))) with
    | mk os1 ok =>
      rw [hw] at ht hf
      cases ok with
      | false => exact ⟨seg, ht, hf, hio, hnf, rfl, rfl, by simp⟩
      | true =>
        simp only
        split <;> exact ⟨seg, ht, hf, hio, hnf, rfl, rfl, by simp⟩

theorem Tiff.start_spec (os : Os) (t : Tiff) (hk : os.fdKeys = []) :
    ∃ seg, Tr os (t.start os).1 seg ∧ (t.start os).2.1.state = t.state ∧
      (((t.start os).2.2 = true ∧ (t.start os).1.fdKeys = [(t.start os).2.1.fid]) ∨
       ((t.start os).2.2 = false ∧ (t.start os).1.fdKeys = [])) := by
  unfold Tiff.start
  simp only
  rcases fileCreate_tr os (cstr t.filename) with ⟨os1, seg, he, ht, hf, _⟩ | ⟨os1, fd, he, ht, hf, hn, _⟩
  · rw [he]
    exact ⟨seg, ht, rfl, Or.inr ⟨rfl, by rw [fdKeys_def, hf, ← fdKeys_def, hk]⟩⟩
  · rw [he]
    simp only
    have hk1 : os1.fdKeys = [fd] := by rw [fdKeys_def, hf]; simp [← fdKeys_def, hk]
    obtain ⟨seg2, ht2, hf2, _⟩ := fileWrite_tr os1 fd 0 (zeros tiffHeaderBytes) (by simp [hk1])
    cases hw : fileWrite os1 fd 0 (zeros tiffHeaderBytes) with
    | mk os2 ok =>
      rw [hw] at ht2 hf2
      simp only at ht2 hf2
      have hk2 : os2.fdKeys = [fd] := by rw [fdKeys_def, hf2, ← fdKeys_def, hk1]
      cases ok with
      | true => exact ⟨_, Tr.trans ht ht2, rfl, Or.inl ⟨rfl, hk2⟩⟩
      | false =>
        obtain ⟨ok3, ht3, hf3⟩ := fileClose_tr os2 fd (by simp [hk2])
        exact ⟨_, Tr.trans (Tr.trans ht ht2) ht3, rfl, Or.inr ⟨rfl, filter_singleton_keys hk2 hf3⟩⟩

theorem tiffStart_spec (os : Os) (t : Tiff) (hk : os.fdKeys = []) :
    ∃ seg, Tr os (tiffStart os t).1 seg ∧ (tiffStart os t).2.1.state = t.state ∧
      (((tiffStart os t).2.2 = .running ∧ (tiffStart os t).1.fdKeys = [(tiffStart os t).2.1.fid]) ∨
       ((tiffStart os t).2.2 = .awaiting ∧ (tiffStart os t).1.fdKeys = [])) := by
  obtain ⟨seg, ht, hs, h⟩ := Tiff.start_spec os t hk
  unfold tiffStart
  cases hst : t.start os with
  | mk os1 r =>
    obtain ⟨t1, ok⟩ := r
    rw [hst] at ht hs h
    simp only at ht hs h
    cases ok with
    | true =>
      rcases h with ⟨_, h⟩ | ⟨h, _⟩
      · exact ⟨seg, ht, hs, Or.inl ⟨rfl, h⟩⟩
      · cases h
    | false =>
      rcases h with ⟨h, _⟩ | ⟨_, h⟩
      · cases h
      · exact ⟨seg, ht, hs, Or.inr ⟨rfl, h⟩⟩

theorem Tiff.stop_idle (os : Os) (t : Tiff) (h : t.state ≠ .running) : t.stop os = (os, t) := by
  simp [Tiff.stop, h]

theorem Tiff.stop_running (os : Os) (t : Tiff) (h : t.state = .running) :
    t.stop os = (fileClose (fileWrite os t.fid 0 (zeros tiffTerminatorBytes)).1 t.fid,
      { t with state := .armed, frameCount := 0 }) := by
  simp [Tiff.stop, h]

/-- `Tiff::stop` when the descriptor table agrees with `state` -/
theorem Tiff.stop_spec (os : Os) (t : Tiff) (h : os.fdKeys = if t.state = .running then [t.fid] else []) :
    ∃ seg, Tr os (t.stop os).1 seg ∧ (t.stop os).1.fdKeys = [] ∧ (t.stop os).2.state ≠ .running ∧
      (t.state ≠ .running → seg = [] ∧ (t.stop os).2 = t) ∧ (t.state = .running → (t.stop os).2.state = .armed) := by
  by_cases hr : t.state = .running
  · rw [Tiff.stop_running os t hr]
    simp only [hr, if_true] at h
    obtain ⟨seg, ht, hf, _⟩ := fileWrite_tr os t.fid 0 (zeros tiffTerminatorBytes) (by simp [h])
    have hk1 : (fileWrite os t.fid 0 (zeros tiffTerminatorBytes)).1.fdKeys = [t.fid] := by
      rw [fdKeys_def, hf, ← fdKeys_def, h]
    obtain ⟨ok, ht2, hf2⟩ := fileClose_tr (fileWrite os t.fid 0 (zeros tiffTerminatorBytes)).1 t.fid (by simp [hk1])
    exact ⟨_, Tr.trans ht ht2, filter_singleton_keys hk1 hf2, by simp, fun x => absurd hr x, fun _ => rfl⟩
  · rw [Tiff.stop_idle os t hr]
    simp only [hr, if_false] at h
    exact ⟨[], Tr.refl os, h, hr, fun _ => ⟨rfl, rfl⟩, fun x => absurd x hr⟩

theorem tiffStop_eq (os : Os) (t : Tiff) : tiffStop os t = ((t.stop os).1, (t.stop os).2, .armed) := rfl

/-- unconditional: `Tiff::stop` only appends to the log -/
theorem Tiff.stop_log (os : Os) (t : Tiff) : ∃ seg, (t.stop os).1.log = os.log ++ seg := by
  by_cases hr : t.state = .running
  · rw [Tiff.stop_running os t hr]
    obtain ⟨seg, hl, _⟩ := fileWrite_pw os t.fid 0 (zeros tiffTerminatorBytes)
    refine ⟨seg ++ [.close t.fid (sysClose (fileWrite os t.fid 0 (zeros tiffTerminatorBytes)).1 t.fid).2], ?_⟩
    simp only [fileClose, (sysClose_spec _ t.fid).1, hl, List.append_assoc]
  · rw [Tiff.stop_idle os t hr]; exact ⟨[], by simp⟩

/-- the frame loop only writes to `fid`; it reports success only if no write failed -/
theorem Tiff.appendFrames_pw (fs : List FrameIo) (os : Os) (t : Tiff) :
    ∃ seg, (t.appendFrames os fs).1.log = os.log ++ seg ∧ (t.appendFrames os fs).1.fds = os.fds ∧
      PwOn t.fid seg ∧ ((t.appendFrames os fs).2.2 = true → NoFail seg) ∧
      (t.appendFrames os fs).2.1.state = t.state ∧ (t.appendFrames os fs).2.1.fid = t.fid := by
  induction fs generalizing os t with
  | nil => exact ⟨[], by simp [Tiff.appendFrames], rfl, PwOn.nil _, fun _ => NoFail.nil, rfl, rfl⟩
  | cons f fs ih =>
    unfold Tiff.appendFrames
    obtain ⟨s1, l1, f1, p1, n1⟩ := fileWrite_pw os t.fid 0 (zeros tiffIfdBytes)
    cases h1 : fileWrite os t.fid 0 (zeros tiffIfdBytes) with
    | mk os1 ok1 =>
      rw [h1] at l1 f1 n1
      simp only at l1 f1 n1
      cases ok1 with
      | false => exact ⟨s1, l1, f1, p1, by simp, rfl, rfl⟩
      | true =>
        simp only
        obtain ⟨s2, l2, f2, p2, n2⟩ := fileWrite_pw os1 t.fid 0 (zeros f.img)
        cases h2 : fileWrite os1 t.fid 0 (zeros f.img) with
        | mk os2 ok2 =>
          rw [h2] at l2 f2 n2
          simp only at l2 f2 n2
          cases ok2 with
          | false =>
            exact ⟨s1 ++ s2, by rw [l2, l1, List.append_assoc], by rw [f2, f1], p1.append p2, by simp, rfl, rfl⟩
          | true =>
            simp only
            obtain ⟨s3, l3, f3, p3, n3⟩ :=
              fileWrite_pw os2 t.fid 0 (zeros (if t.frameCount = 0 then f.descFirst else f.descRest))
            cases h3 : fileWrite os2 t.fid 0 (zeros (if t.frameCount = 0 then f.descFirst else f.descRest)) with
            | mk os3 ok3 =>
              rw [h3] at l3 f3 n3
              simp only at l3 f3 n3
              cases ok3 with
              | false =>
                exact ⟨s1 ++ s2 ++ s3, by rw [l3, l2, l1]; simp [List.append_assoc], by rw [f3, f2, f1],
                  (p1.append p2).append p3, by simp, rfl, rfl⟩
              | true =>
                simp only
                obtain ⟨s4, l4, f4, p4, n4, st4, fid4⟩ := ih os3 { t with frameCount := t.frameCount + 1 }
                refine ⟨s1 ++ s2 ++ s3 ++ s4, ?_, ?_, ?_, ?_, st4, fid4⟩
                · rw [l4, l3, l2, l1]; simp [List.append_assoc]
                · rw [f4, f3, f2, f1]
                · exact ((p1.append p2).append p3).append p4
                · intro hok
                  exact (((n1 rfl).append (n2 rfl)).append (n3 rfl)).append (n4 hok)

theorem tiffAppend_spec (os : Os) (t : Tiff) (fs : List FrameIo) (hr : t.state = .running) (hk : os.fdKeys = [t.fid]) :
    ∃ seg, Tr os (tiffAppend os t fs).1 seg ∧
      (((tiffAppend os t fs).2.2 = .running ∧ (tiffAppend os t fs).2.1.state = .running ∧
          (tiffAppend os t fs).1.fdKeys = [(tiffAppend os t fs).2.1.fid] ∧ NoFail seg) ∨
       ((tiffAppend os t fs).2.2 = .armed ∧ (tiffAppend os t fs).2.1.state ≠ .running ∧
          (tiffAppend os t fs).1.fdKeys = [])) := by
  unfold tiffAppend
  obtain ⟨seg, hl, hf, hp, hn, hs, hfid⟩ := Tiff.appendFrames_pw fs os t
  cases ha : t.appendFrames os fs with
  | mk os1 r =>
    obtain ⟨t1, ok⟩ := r
    rw [ha] at hl hf hn hs hfid
    simp only at hl hf hn hs hfid
    have ht : Tr os os1 seg := tr_of_pwOn hl hf hp (by simp [hk])
    have hk1 : os1.fdKeys = [t1.fid] := by rw [fdKeys_def, hf, ← fdKeys_def, hk, hfid]
    cases ok with
    | true => exact ⟨seg, ht, Or.inl ⟨rfl, by rw [hs, hr], hk1, hn rfl⟩⟩
    | false =>
      simp only [tiffStop_eq]
      obtain ⟨seg2, ht2, hk2, hns, _⟩ := Tiff.stop_spec os1 t1 (by simp [hs, hr, hk1])
      exact ⟨seg ++ seg2, Tr.trans ht ht2, Or.inr ⟨trivial, hns, hk2⟩⟩

/-- without any assumption: a tiff append that returns Running saw no failing write -/
theorem tiffAppend_nofail (os : Os) (t : Tiff) (fs : List FrameIo) :
    ∃ seg, (tiffAppend os t fs).1.log = os.log ++ seg ∧ ((tiffAppend os t fs).2.2 = .running → NoFail seg) := by
  unfold tiffAppend
  obtain ⟨seg, hl, _, _, hn, _⟩ := Tiff.appendFrames_pw fs os t
  cases ha : t.appendFrames os fs with
  | mk os1 r =>
    obtain ⟨t1, ok⟩ := r
    rw [ha] at hl hn
    simp only at hl hn
    cases ok with
    | true => exact ⟨seg, hl, fun _ => hn rfl⟩
    | false =>
      simp only [tiffStop_eq]
      obtain ⟨seg2, hl2⟩ := Tiff.stop_log os1 t1
      exact ⟨seg ++ seg2, by rw [hl2, hl, List.append_assoc], by simp⟩

theorem tiffDestroy_spec (os : Os) (t : Tiff) (h : os.fdKeys = if t.state = .running then [t.fid] else []) :
    ∃ seg, Tr os (tiffDestroy os t).1 seg ∧ (tiffDestroy os t).1.fdKeys = [] ∧
      (tiffDestroy os t).2.state ≠ .running ∧ (t.state ≠ .running → seg = []) := by
  unfold tiffDestroy
  simp only [tiffStop_eq]
  obtain ⟨seg, ht, hk, hns, hidle, _⟩ := Tiff.stop_spec os t h
  rw [Tiff.stop_idle _ _ hns]
  exact ⟨seg, ht, hk, hns, fun x => (hidle x).1⟩

/-! ## tiff-json (side by side) -/

theorem sxsSet_spec (os : Os) (x : Sxs) (uri md : Bytes) :
    (sxsSet os x uri md).1 = os ∧ (sxsSet os x uri md).2.1.tiff = x.tiff ∧ (sxsSet os x uri md).2.2 ≠ .running ∧
    (sxsSet os x uri md).2.1.state = x.state := by
  unfold sxsSet
  split
  · exact ⟨(by trivial), (by trivial), by simp, (by trivial)⟩
  · split
    · exact ⟨(by trivial), (by trivial), by simp, (by trivial)⟩
    · simp only
      split <;> exact ⟨(by trivial), (by trivial), by simp, (by trivial)⟩

theorem sxsFolder_spec (os : Os) (path : Path) :
    ∃ seg, Tr os (sxsFolder os path).1 seg ∧ (sxsFolder os path).1.fds = os.fds := by
  unfold sxsFolder
  split
  · exact ⟨[], Tr.refl os, (by trivial)⟩
  · obtain ⟨ht, hf⟩ := tr_mkdir os path
    exact ⟨_, ht, hf⟩

theorem sxsMetadata_spec (os : Os) (x : Sxs) (path : Path) (hk : os.fdKeys = []) :
    ∃ seg, Tr os (sxsMetadata os x path).1 seg ∧ (sxsMetadata os x path).1.fdKeys = [] := by
  unfold sxsMetadata
  split
  · rcases fileCreate_tr os (path ++ slashMetadataJson) with ⟨os1, seg, he, ht, hf, _⟩ | ⟨os1, fd, he, ht, hf, hn, _⟩
    · rw [he]; exact ⟨seg, ht, by rw [fdKeys_def, hf, ← fdKeys_def, hk]⟩
    · rw [he]
      simp only
      have hk1 : os1.fdKeys = [fd] := by rw [fdKeys_def, hf]; simp [← fdKeys_def, hk]
      obtain ⟨seg2, ht2, hf2, _⟩ := fileWrite_tr os1 fd 0 (x.md.take (x.md.length - 1)) (by simp [hk1])
      cases hw : fileWrite os1 fd 0 (x.md.take (x.md.length - 1)) with
      | mk os2 ok =>
        rw [hw] at ht2 hf2
        simp only at ht2 hf2
        have hk2 : os2.fdKeys = [fd] := by rw [fdKeys_def, hf2, ← fdKeys_def, hk1]
        obtain ⟨ok3, ht3, hf3⟩ := fileClose_tr os2 fd (by simp [hk2])
        exact ⟨_, Tr.trans (Tr.trans ht ht2) ht3, filter_singleton_keys hk2 hf3⟩
  · exact ⟨[], Tr.refl os, hk⟩

theorem sxsInner_spec (os : Os) (x : Sxs) (path : Path) (hk : os.fdKeys = []) (hidle : x.tiff.state ≠ .running) :
    ∃ seg, Tr os (sxsInner os x path).1 seg ∧ (sxsInner os x path).2.1.state = x.state ∧
      (((sxsInner os x path).2.2 = .running ∧ (sxsInner os x path).2.1.tiff.state = .running ∧
          (sxsInner os x path).1.fdKeys = [(sxsInner os x path).2.1.tiff.fid]) ∨
       ((sxsInner os x path).2.2 = .awaiting ∧ (sxsInner os x path).2.1.tiff.state ≠ .running ∧
          (sxsInner os x path).1.fdKeys = [])) := by
  unfold sxsInner
  simp only
  obtain ⟨seg, ht, hf, _, _, hts, _, hst⟩ :=
    tiffSet_spec os x.tiff (path ++ slashDataTif ++ [0]) (path ++ slashDataTif).length (copyString x.md)
  cases hs : tiffSet os x.tiff (path ++ slashDataTif ++ [0]) (path ++ slashDataTif).length (copyString x.md) with
  | mk os1 r =>
    obtain ⟨t1, st1⟩ := r
    rw [hs] at ht hf hst hts
    simp only at ht hf hst hts
    have hk1 : os1.fdKeys = [] := by rw [fdKeys_def, hf, ← fdKeys_def, hk]
    simp only
    split
    · exact ⟨seg, ht, (by trivial), Or.inr ⟨(by trivial), by rw [hts]; exact hidle, hk1⟩⟩
    · rename_i harm
      have harm : st1 = .armed := by simpa using harm
      obtain ⟨seg2, ht2, hs2', h2⟩ := tiffStart_spec os1 { t1 with state := st1 } hk1
      cases hs2 : tiffStart os1 { t1 with state := st1 } with
      | mk os2 r2 =>
        obtain ⟨t2, st2⟩ := r2
        rw [hs2] at ht2 h2 hs2'
        simp only at ht2 h2 hs2'
        simp only
        rcases h2 with ⟨hr, hk2⟩ | ⟨hr, hk2⟩
        · subst hr
          simp only [ne_eq, not_true_eq_false, if_false]
          exact ⟨seg ++ seg2, Tr.trans ht ht2, (by trivial), Or.inl ⟨(by trivial), (by trivial), hk2⟩⟩
        · subst hr
          simp only [ne_eq, reduceCtorEq, not_false_eq_true, if_true]
          refine ⟨seg ++ seg2, Tr.trans ht ht2, (by trivial), Or.inr ⟨(by trivial), ?_, hk2⟩⟩
          rw [hs2', harm]; simp

theorem sxsStart_spec (os : Os) (x : Sxs) (hk : os.fdKeys = []) (hidle : x.tiff.state ≠ .running) :
    ∃ seg, Tr os (sxsStart os x).1 seg ∧ (sxsStart os x).2.1.state = x.state ∧
      (((sxsStart os x).2.2 = .running ∧ (sxsStart os x).2.1.tiff.state = .running ∧
          (sxsStart os x).1.fdKeys = [(sxsStart os x).2.1.tiff.fid]) ∨
       ((sxsStart os x).2.2 = .awaiting ∧ (sxsStart os x).2.1.tiff.state ≠ .running ∧
          (sxsStart os x).1.fdKeys = [])) := by
  unfold sxsStart
  simp only
  obtain ⟨seg, ht, hf⟩ := sxsFolder_spec os (x.uri.take (x.uri.length - 1))
  cases h1 : sxsFolder os (x.uri.take (x.uri.length - 1)) with
  | mk os1 ok1 =>
    rw [h1] at ht hf
    simp only at ht hf
    have hk1 : os1.fdKeys = [] := by rw [fdKeys_def, hf, ← fdKeys_def, hk]
    cases ok1 with
    | false => exact ⟨seg, ht, (by trivial), Or.inr ⟨(by trivial), hidle, hk1⟩⟩
    | true =>
      simp only
      obtain ⟨seg2, ht2, hk2⟩ := sxsMetadata_spec os1 x (x.uri.take (x.uri.length - 1)) hk1
      cases h2 : sxsMetadata os1 x (x.uri.take (x.uri.length - 1)) with
      | mk os2 ok2 =>
        rw [h2] at ht2 hk2
        simp only at ht2 hk2
        cases ok2 with
        | false => exact ⟨seg ++ seg2, Tr.trans ht ht2, (by trivial), Or.inr ⟨(by trivial), hidle, hk2⟩⟩
        | true =>
          simp only
          obtain ⟨seg3, ht3, hs3, h3⟩ := sxsInner_spec os2 x (x.uri.take (x.uri.length - 1)) hk2 hidle
          exact ⟨seg ++ seg2 ++ seg3, Tr.trans (Tr.trans ht ht2) ht3, hs3, h3⟩

theorem sxsStop_spec (os : Os) (x : Sxs) (h : os.fdKeys = if x.tiff.state = .running then [x.tiff.fid] else []) :
    ∃ seg, Tr os (sxsStop os x).1 seg ∧ (sxsStop os x).1.fdKeys = [] ∧ (sxsStop os x).2.1.tiff.state ≠ .running ∧
      (sxsStop os x).2.2 = .armed ∧ (sxsStop os x).2.1.state = x.state ∧ (x.tiff.state ≠ .running → seg = []) := by
  unfold sxsStop
  simp only [tiffStop_eq, if_true]
  obtain ⟨seg, ht, hk, hns, hidle, _⟩ := Tiff.stop_spec os x.tiff h
  exact ⟨seg, ht, hk, hns, (by trivial), (by trivial), fun hx => (hidle hx).1⟩

theorem sxsAppend_spec (os : Os) (x : Sxs) (fs : List FrameIo) (hr : x.tiff.state = .running)
    (hk : os.fdKeys = [x.tiff.fid]) :
    ∃ seg, Tr os (sxsAppend os x fs).1 seg ∧ (sxsAppend os x fs).2.1.state = x.state ∧
      (((sxsAppend os x fs).2.2 = .running ∧ (sxsAppend os x fs).2.1.tiff.state = .running ∧
          (sxsAppend os x fs).1.fdKeys = [(sxsAppend os x fs).2.1.tiff.fid] ∧ NoFail seg) ∨
       ((sxsAppend os x fs).2.2 = .armed ∧ (sxsAppend os x fs).2.1.tiff.state ≠ .running ∧
          (sxsAppend os x fs).1.fdKeys = [])) := by
  unfold sxsAppend
  obtain ⟨seg, ht, h⟩ := tiffAppend_spec os x.tiff fs hr hk
  cases ha : tiffAppend os x.tiff fs with
  | mk os1 r =>
    obtain ⟨t1, st1⟩ := r
    rw [ha] at ht h
    simp only at ht h
    simp only
    rcases h with ⟨hst, hts, hk1, hnf⟩ | ⟨hst, hts, hk1⟩
    · subst hst
      simp only [if_true]
      exact ⟨seg, ht, (by trivial), Or.inl ⟨(by trivial), hts, hk1, hnf⟩⟩
    · subst hst
      simp only [reduceCtorEq, if_false]
      obtain ⟨seg2, ht2, hk2, hns, hst2, hstate, _⟩ :=
        sxsStop_spec os1 { x with tiff := t1 } (by simp [hts, hk1])
      exact ⟨seg ++ seg2, Tr.trans ht ht2, hstate, Or.inr ⟨hst2, hns, hk2⟩⟩

theorem sxsStop_eq_armed (os : Os) (x : Sxs) : (sxsStop os x).2.2 = .armed := by
  simp [sxsStop, tiffStop_eq]

theorem sxsStop_log (os : Os) (x : Sxs) : ∃ seg, (sxsStop os x).1.log = os.log ++ seg := by
  unfold sxsStop
  simp only [tiffStop_eq, if_true]
  exact Tiff.stop_log os x.tiff

/-- without any assumption: a tiff-json append that returns Running saw no failing write -/
theorem sxsAppend_nofail (os : Os) (x : Sxs) (fs : List FrameIo) :
    ∃ seg, (sxsAppend os x fs).1.log = os.log ++ seg ∧ ((sxsAppend os x fs).2.2 = .running → NoFail seg) := by
  unfold sxsAppend
  obtain ⟨seg, hl, hn⟩ := tiffAppend_nofail os x.tiff fs
  cases ha : tiffAppend os x.tiff fs with
  | mk os1 r =>
    obtain ⟨t1, st1⟩ := r
    rw [ha] at hl hn
    simp only at hl hn
    simp only
    split
    · rename_i h; exact ⟨seg, hl, fun _ => hn h⟩
    · obtain ⟨seg2, hl2⟩ := sxsStop_log os1 { x with tiff := t1 }
      refine ⟨seg ++ seg2, by rw [hl2, hl, List.append_assoc], ?_⟩
      intro hrun
      have := (sxsStop_eq_armed os1 { x with tiff := t1 })
      rw [this] at hrun; cases hrun

theorem sxsDestroy_spec (os : Os) (x : Sxs) (h : os.fdKeys = if x.tiff.state = .running then [x.tiff.fid] else []) :
    ∃ seg, Tr os (sxsDestroy os x).1 seg ∧ (sxsDestroy os x).1.fdKeys = [] ∧
      (sxsDestroy os x).2.tiff.state ≠ .running ∧ (x.tiff.state ≠ .running → seg = []) := by
  unfold sxsDestroy
  obtain ⟨seg, ht, hk, hns, _, _, hidle⟩ := sxsStop_spec os x h
  cases hs : sxsStop os x with
  | mk os1 r =>
    obtain ⟨x1, st1⟩ := r
    rw [hs] at ht hk hns
    simp only at ht hk hns
    simp only
    obtain ⟨seg2, ht2, hk2, hns2, hidle2⟩ := tiffDestroy_spec os1 x1.tiff (by simp [hns, hk])
    refine ⟨seg ++ seg2, Tr.trans ht ht2, hk2, hns2, ?_⟩
    intro hx
    rw [hidle hx, hidle2 hns]; rfl

end AcqVerif.Storage
