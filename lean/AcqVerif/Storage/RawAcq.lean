import AcqVerif.Storage.RawLemmas
/-!
# The raw device during one acquisition: the invariant behind C14
-/
namespace AcqVerif.Storage

/-- an acquisition on path `p` is in progress and every append so far succeeded:
    the file holds exactly `acc` and the next append goes to its end -/
def RawAcq (s : Sys) (p : Path) (acc : Bytes) : Prop :=
  s.closed = false ∧ ∃ r, s.dev = .raw r ∧ r.state = .running ∧ r.isOpen = true ∧
    s.os.fds.lookup r.fid = some p ∧ r.offset = acc.length ∧ s.os.content p = acc

/-- the device is not running: appends are refused by the HAL and change nothing -/
def RawIdle (s : Sys) : Prop := ∃ r, s.dev = .raw r ∧ r.state ≠ .running

theorem idle_append (s : Sys) (fs : List Frame) (h : RawIdle s) : (step s (.append fs)).1 = s := by
  obtain ⟨r, hd, hs⟩ := h
  unfold step
  split
  · rfl
  · simp [storageAppend, hd, Dev.state, hs]

theorem idle_appends (s : Sys) (pkts : List (List Frame)) (h : RawIdle s) :
    runFrom s (pkts.map .append) = s := by
  induction pkts with
  | nil => rfl
  | cons fs t ih => simp only [List.map_cons, runFrom, idle_append s fs h, ih]

theorem fileClose_files (os : Os) (fd : Fd) : (fileClose os fd).files = os.files := by
  simp [fileClose, sysClose]

/-- one append during a healthy acquisition: either it succeeds and the file grew by
    exactly the packet, or the device left the running state -/
theorem append_step (s : Sys) (p : Path) (acc : Bytes) (fs : List Frame) (h : RawAcq s p acc) :
    RawAcq (step s (.append fs)).1 p (acc ++ packetBytes fs) ∨ RawIdle (step s (.append fs)).1 := by
  obtain ⟨hc, r, hd, hst, hopen, hlk, hoff, hcont⟩ := h
  have hwf : (Op.append fs).wf s = true := by simp [Op.wf, hc]
  unfold step
  simp only [hwf, Bool.not_true, Bool.false_eq_true, if_false]
  unfold storageAppend
  have hrun : s.dev.state = .running := by simp [hd, Dev.state, hst]
  simp only [hrun, ne_eq, not_true_eq_false, if_false]
  by_cases hempty : packetBytes fs = []
  · left
    simp only [hempty, if_true, List.append_nil]
    exact ⟨hc, r, hd, hst, hopen, hlk, hoff, hcont⟩
  · simp only [hempty, if_false, hd, Dev.append, rawAppend]
    obtain ⟨k, _, hk, hfiles⟩ := fileWriteLoop_files s.os r.fid r.offset (packetBytes fs) 0 p hlk
    obtain ⟨seg, _, hfds, _⟩ := fileWrite_log s.os r.fid r.offset (packetBytes fs)
    cases hres : fileWrite s.os r.fid r.offset (packetBytes fs) with
    | mk os' ok =>
      have hfds' : os'.fds = s.os.fds := by simpa [hres] using hfds
      have hfiles' : os'.files = wrote s.os.files p r.offset (packetBytes fs) k := by
        have := hfiles; rw [← fileWrite_files_eq, hres] at this; exact this
      cases ok with
      | true =>
        left
        have hk' : k = (packetBytes fs).length := by
          apply hk; rw [← fileWrite_snd, hres]
        have hne : (packetBytes fs).length ≠ 0 := fun h0 => hempty (List.eq_nil_of_length_eq_zero h0)
        refine ⟨hc, _, rfl, rfl, hopen, ?_, ?_, ?_⟩
        · simp only [hfds']; exact hlk
        · simp [hoff]
        · simp only [Os.content, hfiles', wrote, hk', hne, if_false, setFile_same, Option.getD_some,
            List.take_length]
          have : (s.os.files p).getD [] = acc := hcont
          rw [this, hoff, writeAt_end]
      | false =>
        right
        simp only [rawStop, hopen, if_true, Dev.setState]
        exact ⟨_, rfl, by simp⟩

/-- a run of appends that ends in the running state never failed: the file is the
    concatenation of all packets -/
theorem appends_inv (pkts : List (List Frame)) (s : Sys) (p : Path) (acc : Bytes) (h : RawAcq s p acc)
    (hrun : (runFrom s (pkts.map .append)).dev.state = .running) :
    RawAcq (runFrom s (pkts.map .append)) p (acc ++ (pkts.map packetBytes).flatten) := by
  induction pkts generalizing s acc with
  | nil => simpa [runFrom] using h
  | cons fs t ih =>
    simp only [List.map_cons, runFrom] at hrun ⊢
    cases append_step s p acc fs h with
    | inl h1 =>
      have := ih _ _ h1 hrun
      simpa [List.flatten_cons, List.append_assoc] using this
    | inr h1 =>
      rw [idle_appends _ t h1] at hrun
      obtain ⟨r, hd, hs⟩ := h1
      simp [hd, Dev.state] at hrun
      exact absurd hrun hs

theorem lookup_cons_self (fd : Fd) (p : Path) (fds : List (Fd × Path)) : List.lookup fd ((fd, p) :: fds) = some p := by
  simp [List.lookup]

/-- `start` on an armed raw device whose path does not exist: if it succeeds, a healthy
    acquisition on an empty file begins — whatever the device did before -/
theorem start_fresh (s : Sys) (r : Raw) (hd : s.dev = .raw r) (hc : s.closed = false) (harm : r.state = .armed)
    (hfresh : s.os.files (cstr r.uri) = none)
    (hrun : (step s .start).1.dev.state = .running) : RawAcq (step s .start).1 (cstr r.uri) [] := by
  have hwf : Op.start.wf s = true := by simp [Op.wf, hc]
  have harmed : s.dev.state = .armed := by simp [hd, Dev.state, harm]
  have heq : step s .start = storageStart s := by simp [step, hwf]
  have e : storageStart s = (Sys.mk (rawStart s.os r).1
      (Dev.raw { (rawStart s.os r).2.1 with state := (rawStart s.os r).2.2 }) s.closed,
      if (rawStart s.os r).2.2 = .running then Status.ok else Status.err) := by
    simp [storageStart, hd, Dev.state, harm, Dev.start, Dev.setState]
  rw [heq, e] at hrun ⊢
  rcases rawStart_spec s.os r with ⟨os', seg, he, _⟩ | ⟨os', fd, he, _, hfds, _, hfiles⟩
  · rw [he] at hrun
    simp [Dev.state] at hrun
  · rw [he]
    refine ⟨hc, _, rfl, rfl, rfl, ?_, rfl, ?_⟩
    · simp only [hfds]; exact lookup_cons_self _ _ _
    · simp only [Os.content, hfiles, setFile_same, hfresh, Option.getD_none, Option.getD_some]

/-- `stop` and `close` after the acquisition leave the file as it is -/
theorem stop_keeps (s : Sys) (p : Path) (acc : Bytes) (h : RawAcq s p acc) :
    (step s .stop).1.os.content p = acc ∧ (step s .close).1.os.content p = acc ∧
    (runFrom s [.stop, .close]).os.content p = acc := by
  obtain ⟨hc, r, hd, hst, hopen, hlk, hoff, hcont⟩ := h
  have hrun : s.dev.state = .running := by simp [hd, Dev.state, hst]
  have hstop : storageStop s = (Sys.mk (fileClose s.os r.fid)
      (Dev.raw { r with isOpen := false, state := .armed }) s.closed, Status.ok) := by
    have hrun' : (Dev.raw r).state = .running := hst
    simp [storageStop, hd, hrun', Dev.stop, rawStop_open s.os r hopen, Dev.setState]
  have h1 : (step s .stop).1.os.content p = acc := by
    have : step s .stop = storageStop s := by simp [step, Op.wf, hc]
    rw [this, hstop]
    simpa [Os.content, fileClose_files] using hcont
  have hclose : (storageClose s).os.files = s.os.files := by
    simp [storageClose, hstop, Dev.destroy, rawDestroy, rawStop_closed, fileClose_files]
  have h2 : (step s .close).1.os.content p = acc := by
    have : step s .close = (storageClose s, .ok) := by simp [step, Op.wf, hc]
    rw [this]
    simpa [Os.content, hclose] using hcont
  refine ⟨h1, h2, ?_⟩
  have e1 : step s .stop = storageStop s := by simp [step, Op.wf, hc]
  simp only [runFrom, e1, hstop]
  have e2 : ∀ s' : Sys, s'.closed = false → step s' .close = (storageClose s', .ok) := by
    intro s' hc'; simp [step, Op.wf, hc']
  rw [e2 _ (by exact hc)]
  simp only [storageClose, storageStop, Dev.state, Dev.destroy, rawDestroy, rawStop_closed, Dev.setState,
    reduceCtorEq, if_false, Os.content, fileClose_files]
  exact hcont

end AcqVerif.Storage
