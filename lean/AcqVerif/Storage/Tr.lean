import AcqVerif.Storage.SysSpec
/-!
# Disciplined OS transitions

`Tr os os' seg`: `os'` is `os` after the calls `seg`, and `seg` respects the descriptor
discipline starting from the descriptors open in `os` and ending with those open in `os'`.
Each `platform.c` function is such a transition when it is called on a descriptor the
caller owns.
-/
namespace AcqVerif.Storage

def Tr (os os' : Os) (seg : List Ev) : Prop :=
  os'.log = os.log ++ seg ∧ ownRun os.fdKeys seg = some os'.fdKeys

theorem Tr.refl (os : Os) : Tr os os [] := ⟨by simp, rfl⟩

theorem Tr.trans {a b c : Os} {s t : List Ev} (h1 : Tr a b s) (h2 : Tr b c t) : Tr a c (s ++ t) := by
  refine ⟨by rw [h2.1, h1.1, List.append_assoc], ?_⟩
  rw [ownRun_append, h1.2]
  exact h2.2

theorem Tr.of_keys {a b : Os} {s : List Ev} (h : Tr a b s) (k : List Fd) (hk : a.fdKeys = k) :
    ownRun k s = some b.fdKeys := hk ▸ h.2

theorem fdKeys_def (os : Os) : os.fdKeys = os.fds.map (·.1) := rfl

theorem mem_of_keys_singleton {os : Os} {fd : Fd} (h : os.fdKeys = [fd]) : fd ∈ os.fdKeys := by simp [h]

/-! ## system calls -/

theorem ownRun_single {o o' : List Fd} {e : Ev} (h : ownStep o e = some o') : ownRun o [e] = some o' := by
  simp [ownRun, h]

theorem tr_open_none {os os' : Os} {p : Path} (h : sysOpen os p = (os', none)) :
    Tr os os' [.open p none] ∧ os'.fds = os.fds := by
  obtain ⟨hl, hf, _, _⟩ := sysOpen_none h
  have hk : os'.fdKeys = os.fdKeys := by rw [fdKeys_def, hf]; rfl
  exact ⟨⟨hl, by rw [hk]; exact ownRun_single rfl⟩, hf⟩

theorem tr_open_some {os os' : Os} {p : Path} {fd : Fd} (h : sysOpen os p = (os', some fd)) :
    Tr os os' [.open p (some fd)] ∧ os'.fds = (fd, p) :: os.fds ∧ fd ∉ os.fdKeys := by
  obtain ⟨hl, hf, hn, _, _⟩ := sysOpen_some h
  have hk : os'.fdKeys = fd :: os.fdKeys := by rw [fdKeys_def, hf]; rfl
  refine ⟨⟨hl, ?_⟩, hf, hn⟩
  rw [hk]; exact ownRun_single (by simp [ownStep, hn])

theorem tr_flock (os : Os) (fd : Fd) (h : fd ∈ os.fdKeys) :
    Tr os (sysFlock os fd).1 [.flock fd (sysFlock os fd).2] ∧ (sysFlock os fd).1.fds = os.fds := by
  obtain ⟨hl, hf, _, _⟩ := sysFlock_spec os fd
  have hk : (sysFlock os fd).1.fdKeys = os.fdKeys := by rw [fdKeys_def, hf]; rfl
  exact ⟨⟨hl, by rw [hk]; exact ownRun_single (by simp [ownStep, h])⟩, hf⟩

theorem tr_close (os : Os) (fd : Fd) (h : fd ∈ os.fdKeys) :
    Tr os (sysClose os fd).1 [.close fd (sysClose os fd).2] ∧
    (sysClose os fd).1.fds = os.fds.filter (fun e => e.1 ≠ fd) := by
  obtain ⟨hl, hf, _, _⟩ := sysClose_spec os fd
  have hk : (sysClose os fd).1.fdKeys = os.fdKeys.filter (· ≠ fd) := by
    rw [fdKeys_def, hf, map_fst_filter]; rfl
  refine ⟨⟨hl, ?_⟩, hf⟩
  rw [hk]; exact ownRun_single (by simp [ownStep, h])

theorem tr_mkdir (os : Os) (p : Path) :
    Tr os (sysMkdir os p).1 [.mkdir p (sysMkdir os p).2] ∧ (sysMkdir os p).1.fds = os.fds := by
  obtain ⟨hl, hf, _⟩ := sysMkdir_spec os p
  have hk : (sysMkdir os p).1.fdKeys = os.fdKeys := by rw [fdKeys_def, hf]; rfl
  exact ⟨⟨hl, by rw [hk]; exact ownRun_single rfl⟩, hf⟩

theorem tr_unlink (os : Os) (p : Path) : Tr os (sysUnlink os p) [.unlink p] ∧ (sysUnlink os p).fds = os.fds := by
  obtain ⟨hl, hf, _⟩ := sysUnlink_spec os p
  have hk : (sysUnlink os p).fdKeys = os.fdKeys := by rw [fdKeys_def, hf]; rfl
  exact ⟨⟨hl, by rw [hk]; exact ownRun_single rfl⟩, hf⟩

/-! ## `platform.c` -/

/-- `file_write` on an owned descriptor -/
theorem fileWrite_tr (os : Os) (fd off : Nat) (buf : Bytes) (h : fd ∈ os.fdKeys) :
    ∃ seg, Tr os (fileWrite os fd off buf).1 seg ∧ (fileWrite os fd off buf).1.fds = os.fds ∧
      ((fileWrite os fd off buf).2 = true → NoFail seg) := by
  obtain ⟨seg, hl, hf, _, hpw, hnf, _⟩ := fileWrite_log os fd off buf
  refine ⟨seg, ⟨hl, ?_⟩, hf, hnf⟩
  have hk : (fileWrite os fd off buf).1.fdKeys = os.fdKeys := by rw [fdKeys_def, hf]; rfl
  rw [hk]
  exact ownRun_pwrites _ _ fd h hpw

/-- `file_close` on an owned descriptor -/
theorem fileClose_tr (os : Os) (fd : Fd) (h : fd ∈ os.fdKeys) :
    ∃ ok, Tr os (fileClose os fd) [.close fd ok] ∧ (fileClose os fd).fds = os.fds.filter (fun e => e.1 ≠ fd) :=
  ⟨_, tr_close os fd h⟩

theorem filter_singleton_keys {os os' : Os} {fd : Fd} (hk : os.fdKeys = [fd])
    (hf : os'.fds = os.fds.filter (fun e => e.1 ≠ fd)) : os'.fdKeys = [] := by
  have : os'.fdKeys = os.fdKeys.filter (· ≠ fd) := by rw [fdKeys_def, hf, map_fst_filter]; rfl
  rw [this, hk]; simp

/-- `file_create`: either it fails having released whatever it opened, or it returns a
    fresh descriptor for `p` -/
theorem fileCreate_tr (os : Os) (p : Path) :
    (∃ os' seg, fileCreate os p = (os', none) ∧ Tr os os' seg ∧ os'.fds = os.fds ∧ NoFail seg) ∨
    (∃ os' fd, fileCreate os p = (os', some fd) ∧ Tr os os' [.open p (some fd), .flock fd true] ∧
      os'.fds = (fd, p) :: os.fds ∧ fd ∉ os.fdKeys ∧ os'.files = setFile os.files p (os.content p)) := by
  unfold fileCreate
  cases ho : sysOpen os p with
  | mk os1 res =>
    cases res with
    | none =>
      left
      obtain ⟨ht, hf⟩ := tr_open_none ho
      exact ⟨os1, _, rfl, ht, hf, by intro e he; simp at he; subst he; rfl⟩
    | some fd =>
      obtain ⟨ht, hf, hn⟩ := tr_open_some ho
      obtain ⟨_, _, _, hfiles, _⟩ := sysOpen_some ho
      have hmem : fd ∈ os1.fdKeys := by simp [fdKeys_def, hf]
      obtain ⟨ht2, hf2⟩ := tr_flock os1 fd hmem
      obtain ⟨_, _, hfiles2, _⟩ := sysFlock_spec os1 fd
      cases hfl : sysFlock os1 fd with
      | mk os2 ok =>
        rw [hfl] at ht2 hf2 hfiles2
        simp only at ht2 hf2 hfiles2
        cases ok with
        | true =>
          right
          refine ⟨os2, fd, by simp [hfl], ?_, by rw [hf2, hf], hn, by rw [hfiles2, hfiles]⟩
          exact Tr.trans ht ht2
        | false =>
          left
          have hmem2 : fd ∈ os2.fdKeys := by simp [fdKeys_def, hf2, hf]
          obtain ⟨ht3, hf3⟩ := tr_close os2 fd hmem2
          refine ⟨(sysClose os2 fd).1, _, by simp [hfl], Tr.trans (Tr.trans ht ht2) ht3, ?_, ?_⟩
          · rw [hf3, hf2, hf]
            simp only [List.filter_cons, ne_eq, not_true_eq_false, decide_false, Bool.false_eq_true, if_false]
            exact filter_ne_of_not_mem _ _ hn
          · intro e he; simp at he
            rcases he with rfl | rfl | rfl <;> rfl

/-- `file_is_writable`: probes with create–close–unlink, leaves the descriptor table as it was -/
theorem fileIsWritable_tr (os : Os) (p : Path) :
    ∃ seg, Tr os (fileIsWritable os p).1 seg ∧ (fileIsWritable os p).1.fds = os.fds ∧ NoIo seg ∧ NoFail seg := by
  unfold fileIsWritable
  split
  · exact ⟨[], Tr.refl os, rfl, NoIo.nil, NoFail.nil⟩
  · cases ho : sysOpen os p with
    | mk os1 res =>
      cases res with
      | none =>
        obtain ⟨ht, hf⟩ := tr_open_none ho
        refine ⟨_, ht, hf, ?_, ?_⟩ <;> (intro e he; simp at he; subst he; simp [Ev.isPwrite, Ev.isFlock, Ev.isFailedPwrite])
      | some fd =>
        obtain ⟨ht, hf, hn⟩ := tr_open_some ho
        have hmem : fd ∈ os1.fdKeys := by simp [fdKeys_def, hf]
        obtain ⟨ht2, hf2⟩ := tr_close os1 fd hmem
        obtain ⟨ht3, hf3⟩ := tr_unlink (sysClose os1 fd).1 p
        refine ⟨_, Tr.trans (Tr.trans ht ht2) ht3, ?_, ?_, ?_⟩
        · simp only
          rw [hf3, hf2, hf]
          simp only [List.filter_cons, ne_eq, not_true_eq_false, decide_false, Bool.false_eq_true, if_false]
          exact filter_ne_of_not_mem _ _ hn
        · intro e he; simp at he
          rcases he with rfl | rfl | rfl <;> simp [Ev.isPwrite, Ev.isFlock]
        · intro e he; simp at he
          rcases he with rfl | rfl | rfl <;> rfl

end AcqVerif.Storage
