import AcqVerif.Storage.Os
/-!
# `acquire-core-platform/linux/platform.c`: `file_create`, `file_close`,
# `file_write`, `file_exists`, `file_is_writable`

Literal transcription over the OS model.  `file_write` is the retry loop
```c
int retries = 0;
while (cur < end && retries < 3) {
    ssize_t written = pwrite(file->fid, cur, end - cur, offset);
    if (written < 0) goto Error;          // return 0
    retries += (written == 0);
    offset += written;  cur += written;
}
return retries < 3;
```
with termination by the explicit measure `remaining + (3 - retries)`.
-/
namespace AcqVerif.Storage

theorem pwriteCount_le {o : Outcome} {n w : Nat} (h : pwriteCount o n = some w) : w ≤ n := by
  cases o <;> simp [pwriteCount] at h <;> (try omega)
  split at h <;> omega

theorem sysPwrite_le {os os' : Os} {fd off : Nat} {d : Bytes} {w : Nat}
    (h : sysPwrite os fd off d = (os', some w)) : w ≤ d.length := by
  unfold sysPwrite at h
  simp only at h
  split at h
  · simp at h
  · split at h
    · simp at h
    · rename_i _ _ w' hw
      have := pwriteCount_le hw
      simp at h
      omega

/-- the loop of `file_write`; `buf` = bytes `[cur, end)` still to be written -/
def fileWriteLoop (os : Os) (fd : Fd) (offset : Nat) (buf : Bytes) (retries : Nat) : Os × Bool :=
  if buf ≠ [] ∧ retries < 3 then
    match h : sysPwrite os fd offset buf with
    | (os', none) => (os', false)
    | (os', some w) =>
      fileWriteLoop os' fd (offset + w) (buf.drop w) (retries + (if w = 0 then 1 else 0))
  else (os, decide (retries < 3))
termination_by buf.length + (3 - retries)
decreasing_by
  have hw := sysPwrite_le h
  rename_i hc
  have _hne : buf.length ≠ 0 := by
    intro h0; exact hc.1 (List.eq_nil_of_length_eq_zero h0)
  simp only [List.length_drop]
  split <;> omega

/-- `file_write(file, offset, cur, end)`; a reported failure is counted in the ghost `wfails` -/
def fileWrite (os : Os) (fd : Fd) (offset : Nat) (buf : Bytes) : Os × Bool :=
  match fileWriteLoop os fd offset buf 0 with
  | (os, true) => (os, true)
  | (os, false) => ({ os with wfails := os.wfails + 1 }, false)

theorem fileWrite_snd (os : Os) (fd off : Nat) (buf : Bytes) :
    (fileWrite os fd off buf).2 = (fileWriteLoop os fd off buf 0).2 := by
  unfold fileWrite; cases fileWriteLoop os fd off buf 0 with | mk o b => cases b <;> rfl

theorem fileWrite_log_eq (os : Os) (fd off : Nat) (buf : Bytes) :
    (fileWrite os fd off buf).1.log = (fileWriteLoop os fd off buf 0).1.log := by
  unfold fileWrite; cases fileWriteLoop os fd off buf 0 with | mk o b => cases b <;> rfl

theorem fileWrite_fds_eq (os : Os) (fd off : Nat) (buf : Bytes) :
    (fileWrite os fd off buf).1.fds = (fileWriteLoop os fd off buf 0).1.fds := by
  unfold fileWrite; cases fileWriteLoop os fd off buf 0 with | mk o b => cases b <;> rfl

theorem fileWrite_files_eq (os : Os) (fd off : Nat) (buf : Bytes) :
    (fileWrite os fd off buf).1.files = (fileWriteLoop os fd off buf 0).1.files := by
  unfold fileWrite; cases fileWriteLoop os fd off buf 0 with | mk o b => cases b <;> rfl

theorem fileWrite_dirs_eq (os : Os) (fd off : Nat) (buf : Bytes) :
    (fileWrite os fd off buf).1.dirs = (fileWriteLoop os fd off buf 0).1.dirs := by
  unfold fileWrite; cases fileWriteLoop os fd off buf 0 with | mk o b => cases b <;> rfl

theorem fileWrite_oracle_eq (os : Os) (fd off : Nat) (buf : Bytes) :
    (fileWrite os fd off buf).1.oracle = (fileWriteLoop os fd off buf 0).1.oracle := by
  unfold fileWrite; cases fileWriteLoop os fd off buf 0 with | mk o b => cases b <;> rfl

theorem fileWrite_wfails_eq (os : Os) (fd off : Nat) (buf : Bytes) :
    (fileWrite os fd off buf).1.wfails =
      (fileWriteLoop os fd off buf 0).1.wfails + (if (fileWriteLoop os fd off buf 0).2 = true then 0 else 1) := by
  unfold fileWrite; cases fileWriteLoop os fd off buf 0 with | mk o b => cases b <;> simp

/-- `file_create`: `some fd` = success with `file->fid = fd`; on failure the
    caller's `fid` is garbage (-1 or a closed number) and is modelled as unchanged -/
def fileCreate (os : Os) (p : Path) : Os × Option Fd :=
  match sysOpen os p with
  | (os, none) => (os, none)
  | (os, some fd) =>
    match sysFlock os fd with
    | (os, true) => (os, some fd)
    | (os, false) => ((sysClose os fd).1, none)

/-- `file_close` (the result of `close` is only logged) -/
def fileClose (os : Os) (fd : Fd) : Os := (sysClose os fd).1

/-- `file_is_writable`: an existing path is probed with `access(W_OK)` (assumed to
    succeed: the harness creates its files writable), a missing one by
    create–close–unlink -/
def fileIsWritable (os : Os) (p : Path) : Os × Bool :=
  if os.exists p then (os, true)
  else
    match sysOpen os p with
    | (os, none) => (os, false)
    | (os, some fd) => (sysUnlink (sysClose os fd).1 p, true)

end AcqVerif.Storage
