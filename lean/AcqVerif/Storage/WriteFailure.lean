import AcqVerif.Storage.DevSpec
/-!
# "A write failed" as a ghost counter

`Os.wfails` counts the `file_write` calls that reported failure — an error return of
`pwrite`, or three `pwrite`s that wrote nothing.  An append that returns Running left the
counter unchanged; contrapositive: whenever a write fails inside an append, the append does not
return Running.
-/
namespace AcqVerif.Storage

theorem sysPwrite_wfails (os : Os) (fd off : Nat) (d : Bytes) : (sysPwrite os fd off d).1.wfails = os.wfails := by
  unfold sysPwrite; simp only; split
  · rfl
  · split <;> rfl

theorem fileWriteLoop_wfails (os : Os) (fd off : Nat) (buf : Bytes) (r : Nat) :
    (fileWriteLoop os fd off buf r).1.wfails = os.wfails := by
  fun_induction fileWriteLoop os fd off buf r with
  | case1 os off buf r hc os' hp => have := sysPwrite_wfails os fd off buf; rw [hp] at this; exact this
  | case2 os off buf r hc os' w hp ih =>
    have := sysPwrite_wfails os fd off buf; rw [hp] at this
    simp only [dite_eq_ite] at ih
    rw [ih, this]
  | case3 => rfl

/-- `file_write` counts exactly its own failure -/
theorem fileWrite_wfails (os : Os) (fd off : Nat) (buf : Bytes) :
    (fileWrite os fd off buf).1.wfails = os.wfails + (if (fileWrite os fd off buf).2 = true then 0 else 1) := by
  rw [fileWrite_wfails_eq, fileWriteLoop_wfails, fileWrite_snd]

theorem rawAppend_wfails (os : Os) (r : Raw) (pkt : Bytes) (h : (rawAppend os r pkt).2.2 = .running) :
    (rawAppend os r pkt).1.wfails = os.wfails := by
  unfold rawAppend at h ⊢
  have hw := fileWrite_wfails os r.fid r.offset pkt
  cases hf : fileWrite os r.fid r.offset pkt with
  | mk os1 ok =>
    rw [hf] at hw h
    cases ok with
    | true => simpa using hw
    | false =>
      exfalso
      simp only at h
      cases ho : r.isOpen with
      | false => rw [rawStop_closed os1 r ho] at h; cases h
      | true => rw [rawStop_open os1 r ho] at h; cases h

theorem Tiff.appendFrames_wfails (fs : List FrameIo) (os : Os) (t : Tiff) (h : (t.appendFrames os fs).2.2 = true) :
    (t.appendFrames os fs).1.wfails = os.wfails := by
  induction fs generalizing os t with
  | nil => rfl
  | cons f fs ih =>
    unfold Tiff.appendFrames at h ⊢
    have w1 := fileWrite_wfails os t.fid 0 (zeros tiffIfdBytes)
    cases h1 : fileWrite os t.fid 0 (zeros tiffIfdBytes) with
    | mk os1 ok1 =>
      rw [h1] at w1 h
      cases ok1 with
      | false => simp at h
      | true =>
        simp only at h ⊢
        have w2 := fileWrite_wfails os1 t.fid 0 (zeros f.img)
        cases h2 : fileWrite os1 t.fid 0 (zeros f.img) with
        | mk os2 ok2 =>
          rw [h2] at w2 h
          cases ok2 with
          | false => simp at h
          | true =>
            simp only at h ⊢
            have w3 := fileWrite_wfails os2 t.fid 0 (zeros (if t.frameCount = 0 then f.descFirst else f.descRest))
            cases h3 : fileWrite os2 t.fid 0 (zeros (if t.frameCount = 0 then f.descFirst else f.descRest)) with
            | mk os3 ok3 =>
              rw [h3] at w3 h
              cases ok3 with
              | false => simp at h
              | true =>
                simp only at h ⊢
                rw [ih os3 _ h]
                simp only [if_true, Nat.add_zero] at w1 w2 w3
                rw [w3, w2, w1]

theorem tiffAppend_wfails (os : Os) (t : Tiff) (fs : List FrameIo) (h : (tiffAppend os t fs).2.2 = .running) :
    (tiffAppend os t fs).1.wfails = os.wfails := by
  unfold tiffAppend at h ⊢
  have hw := Tiff.appendFrames_wfails fs os t
  cases ha : t.appendFrames os fs with
  | mk os1 r =>
    obtain ⟨t1, ok⟩ := r
    rw [ha] at hw h
    cases ok with
    | true => exact hw rfl
    | false => simp [tiffStop_eq] at h

theorem sxsAppend_wfails (os : Os) (x : Sxs) (fs : List FrameIo) (h : (sxsAppend os x fs).2.2 = .running) :
    (sxsAppend os x fs).1.wfails = os.wfails := by
  unfold sxsAppend at h ⊢
  have hw := tiffAppend_wfails os x.tiff fs
  cases ha : tiffAppend os x.tiff fs with
  | mk os1 r =>
    obtain ⟨t1, st1⟩ := r
    rw [ha] at hw h
    simp only at hw h ⊢
    split
    · rename_i hr; exact hw hr
    · rename_i hr
      simp only [hr, if_false] at h
      rw [sxsStop_eq_armed] at h; cases h

end AcqVerif.Storage
