import AcqVerif.Storage.SysSpec
/-!
# `file_write` and file contents: whatever the short-write pattern, the file ends up
with a prefix of the buffer written at `offset` — the whole buffer if success is reported.
-/
namespace AcqVerif.Storage

theorem setFile_same (files : Path → Option Bytes) (p : Path) (b : Bytes) : setFile files p b p = some b := by
  simp [setFile]

theorem setFile_other (files : Path → Option Bytes) (p q : Path) (b : Bytes) (h : q ≠ p) :
    setFile files p b q = files q := by
  simp [setFile, h]

theorem setFile_setFile (files : Path → Option Bytes) (p : Path) (a b : Bytes) :
    setFile (setFile files p a) p b = setFile files p b := by
  funext q; simp only [setFile]; split <;> rfl

/-- the file-system after `file_write` wrote the first `k` bytes of `buf` at `off` into `p` -/
def wrote (files : Path → Option Bytes) (p : Path) (off : Nat) (buf : Bytes) (k : Nat) : Path → Option Bytes :=
  if k = 0 then files else setFile files p (writeAt ((files p).getD []) off (buf.take k))

theorem fileWriteLoop_files (os : Os) (fd off : Nat) (buf : Bytes) (r : Nat) (p : Path)
    (hp : os.fds.lookup fd = some p) :
    ∃ k, k ≤ buf.length ∧ ((fileWriteLoop os fd off buf r).2 = true → k = buf.length) ∧
      (fileWriteLoop os fd off buf r).1.files = wrote os.files p off buf k := by
  fun_induction fileWriteLoop os fd off buf r with
  | case1 os off buf r hc os' hpw =>
    obtain ⟨_, _, hf, _⟩ := sysPwrite_none hpw
    exact ⟨0, by omega, by simp, by simp [wrote, hf]⟩
  | case2 os off buf r hc os' w hpw ih =>
    obtain ⟨_, hfds, _, hw, p', hp', hfiles⟩ := sysPwrite_some hpw
    have hpp : p = p' := by rw [hp] at hp'; exact Option.some.inj hp'
    subst hpp
    simp only [dite_eq_ite] at ih
    obtain ⟨k, hk, hok, hfl⟩ := ih (by rw [hfds]; exact hp)
    refine ⟨w + k, ?_, ?_, ?_⟩
    · simp only [List.length_drop] at hk; omega
    · intro h; have := hok h; simp only [List.length_drop] at this; omega
    · rw [hfl]
      by_cases hw0 : w = 0
      · subst hw0
        simp only [if_true] at hfiles
        simp [wrote, hfiles]
      · simp only [hw0, if_false] at hfiles
        by_cases hk0 : k = 0
        · subst hk0
          simp [wrote, hw0, hfiles, Os.content]
        · have hwk : w + k ≠ 0 := by omega
          simp only [wrote, hk0, hwk, if_false, hfiles, setFile_same, Option.getD_some, setFile_setFile]
          congr 1
          have hlen : (buf.take w).length = w := by simp; omega
          have := writeAt_append (os.content p) off (buf.take w) ((buf.drop w).take k)
          rw [hlen] at this
          rw [this, ← List.take_add]; rfl
  | case3 os off buf r hc =>
    refine ⟨0, by omega, ?_, by simp [wrote]⟩
    intro h
    have hr : r < 3 := by simpa using h
    have hb : buf = [] := by
      by_cases hb : buf = []
      · exact hb
      · exact absurd ⟨hb, hr⟩ hc
    simp [hb]

end AcqVerif.Storage
