import AcqVerif.Storage.DevSpec
/-!
# The invariant that ties each device's own idea of "my file is open" to the
descriptor table, and its preservation by every HAL call (for C16)
-/
namespace AcqVerif.Storage

/-- the descriptors open in the OS are exactly the one the device believes it holds -/
def DevInv (os : Os) : Dev → Prop
  | .raw r => os.fdKeys = (if r.isOpen then [r.fid] else []) ∧ (r.isOpen = true ↔ r.state = .running)
  | .tiff t => os.fdKeys = (if t.state = .running then [t.fid] else [])
  | .sxs x => os.fdKeys = (if x.tiff.state = .running then [x.tiff.fid] else []) ∧
      (x.state = .running ↔ x.tiff.state = .running)
  | .trash _ => os.fdKeys = []

def Inv (s : Sys) : Prop := DevInv s.os s.dev ∧ (s.closed = true → s.os.fdKeys = [])

/-- what one HAL call establishes -/
def StepOk (s s' : Sys) : Prop := Inv s' ∧ ∃ seg, Tr s.os s'.os seg

theorem StepOk.same (s : Sys) (h : Inv s) : StepOk s s := ⟨h, [], Tr.refl _⟩

/-- with the device not running no descriptor is open -/
theorem keys_nil_of_idle {s : Sys} (h : Inv s) (hi : s.dev.state ≠ .running) : s.os.fdKeys = [] := by
  obtain ⟨hd, _⟩ := h
  cases hdev : s.dev with
  | raw r =>
    rw [hdev] at hd hi
    simp only [DevInv, Dev.state] at hd hi
    have : r.isOpen = false := by
      cases ho : r.isOpen with
      | false => rfl
      | true => exact absurd (hd.2.mp ho) hi
    simpa [this] using hd.1
  | tiff t =>
    rw [hdev] at hd hi
    simp only [DevInv, Dev.state] at hd hi
    simpa [hi] using hd
  | sxs x =>
    rw [hdev] at hd hi
    simp only [DevInv, Dev.state] at hd hi
    have : x.tiff.state ≠ .running := fun h => hi (hd.2.mpr h)
    simpa [this] using hd.1
  | trash t =>
    rw [hdev] at hd
    exact hd

theorem set_ok (s : Sys) (uri md : Bytes) (h : Inv s) (hc : s.closed = false) (hi : s.dev.state ≠ .running) :
    StepOk s (storageSet s uri md).1 ∧ (storageSet s uri md).1.dev.state ≠ .running ∧
    (storageSet s uri md).1.closed = false ∧
    ∃ seg, (storageSet s uri md).1.os.log = s.os.log ++ seg ∧ NoIo seg := by
  have hk := keys_nil_of_idle h hi
  obtain ⟨hd, _⟩ := h
  unfold storageSet
  cases hdev : s.dev with
  | raw r =>
    rw [hdev] at hd hi
    simp only [DevInv, Dev.state] at hd hi
    obtain ⟨seg, ht, hf, hio, _, ho, hfid, hst, hnr⟩ := rawSet_spec s.os r uri
    simp only [Dev.set]
    have hk1 : (rawSet s.os r uri).1.fdKeys = [] := by rw [fdKeys_def, hf, ← fdKeys_def, hk]
    have hclosed : r.isOpen = false := by
      cases ho' : r.isOpen with
      | false => rfl
      | true => exact absurd (hd.2.mp ho') hi
    refine ⟨⟨⟨?_, ?_⟩, seg, ht⟩, ?_, hc, seg, ht.1, hio⟩
    · simp only [DevInv, Dev.setState, ho, hclosed, hk1, Bool.false_eq_true, if_false, true_and]
      constructor
      · intro x; cases x
      · intro x; exact absurd x hnr
    · intro x; simp [hc] at x
    · simpa [Dev.setState, Dev.state] using hnr
  | tiff t =>
    rw [hdev] at hd hi
    simp only [DevInv, Dev.state] at hd hi
    obtain ⟨seg, ht, hf, hio, _, _, _, hnr⟩ := tiffSet_spec s.os t uri uri.length md
    simp only [Dev.set]
    have hk1 : (tiffSet s.os t uri uri.length md).1.fdKeys = [] := by rw [fdKeys_def, hf, ← fdKeys_def, hk]
    refine ⟨⟨⟨?_, ?_⟩, seg, ht⟩, ?_, hc, seg, ht.1, hio⟩
    · simp only [DevInv, Dev.setState, hk1, hnr, if_false]
    · intro x; simp [hc] at x
    · simpa [Dev.setState, Dev.state] using hnr
  | sxs x =>
    rw [hdev] at hd hi
    simp only [DevInv, Dev.state] at hd hi
    obtain ⟨hos, htiff, hnr, _⟩ := sxsSet_spec s.os x uri md
    simp only [Dev.set]
    have hti : x.tiff.state ≠ .running := fun h => hi (hd.2.mpr h)
    refine ⟨⟨⟨?_, ?_⟩, [], ?_⟩, ?_, hc, [], by simp [hos], NoIo.nil⟩
    · simp only [DevInv, Dev.setState, hos, htiff, hti, if_false, hk, true_and]
      constructor
      · intro y; exact absurd y hnr
      · intro y; exact y.elim
    · intro y; simp [hc] at y
    · simp only [hos]; exact Tr.refl _
    · simpa [Dev.setState, Dev.state] using hnr
  | trash t =>
    rw [hdev] at hd
    simp only [Dev.set]
    refine ⟨⟨⟨?_, ?_⟩, [], Tr.refl _⟩, ?_, hc, [], by simp, NoIo.nil⟩
    · simpa [DevInv, Dev.setState] using hd
    · intro y; simp [hc] at y
    · simp [Dev.setState, Dev.state]

theorem start_ok (s : Sys) (h : Inv s) (hc : s.closed = false) :
    StepOk s (storageStart s).1 ∧ (storageStart s).1.closed = false := by
  unfold storageStart
  split
  · exact ⟨StepOk.same s h, hc⟩
  · rename_i harm
    have harm : s.dev.state = .armed := by simpa using harm
    have hi : s.dev.state ≠ .running := by rw [harm]; simp
    have hk := keys_nil_of_idle h hi
    obtain ⟨hd, _⟩ := h
    cases hdev : s.dev with
    | raw r =>
      rw [hdev] at hd hi
      simp only [DevInv, Dev.state] at hd hi
      have hclosed : r.isOpen = false := by
        cases ho' : r.isOpen with
        | false => rfl
        | true => exact absurd (hd.2.mp ho') hi
      simp only [Dev.start]
      rcases rawStart_spec s.os r with ⟨os', seg, he, ht, hf, _⟩ | ⟨os', fd, he, ht, hf, _, _⟩
      · rw [he]
        have hk1 : os'.fdKeys = [] := by rw [fdKeys_def, hf, ← fdKeys_def, hk]
        refine ⟨⟨⟨?_, ?_⟩, seg, ht⟩, hc⟩
        · simp [DevInv, Dev.setState, hclosed, hk1]
        · intro x; simp [hc] at x
      · rw [he]
        have hk1 : os'.fdKeys = [fd] := by rw [fdKeys_def, hf]; simp [← fdKeys_def, hk]
        refine ⟨⟨⟨?_, ?_⟩, _, ht⟩, hc⟩
        · simp [DevInv, Dev.setState, hk1]
        · intro x; simp [hc] at x
    | tiff t =>
      rw [hdev] at hd hi
      simp only [DevInv, Dev.state] at hd hi
      simp only [Dev.start]
      obtain ⟨seg, ht, _, hcase⟩ := tiffStart_spec s.os t hk
      refine ⟨⟨⟨?_, ?_⟩, seg, ht⟩, hc⟩
      · rcases hcase with ⟨hr, hk1⟩ | ⟨hr, hk1⟩
        · simp [DevInv, Dev.setState, hr, hk1]
        · simp [DevInv, Dev.setState, hr, hk1]
      · intro x; simp [hc] at x
    | sxs x =>
      rw [hdev] at hd hi
      simp only [DevInv, Dev.state] at hd hi
      have hti : x.tiff.state ≠ .running := fun h => hi (hd.2.mpr h)
      simp only [Dev.start]
      obtain ⟨seg, ht, _, hcase⟩ := sxsStart_spec s.os x hk hti
      refine ⟨⟨⟨?_, ?_⟩, seg, ht⟩, hc⟩
      · rcases hcase with ⟨hr, hts, hk1⟩ | ⟨hr, hts, hk1⟩
        · simp [DevInv, Dev.setState, hr, hk1, hts]
        · simp [DevInv, Dev.setState, hr, hk1, hts]
      · intro y; simp [hc] at y
    | trash t =>
      rw [hdev] at hd
      simp only [Dev.start]
      refine ⟨⟨⟨?_, ?_⟩, [], Tr.refl _⟩, hc⟩
      · simpa [DevInv, Dev.setState] using hd
      · intro y; simp [hc] at y

theorem append_ok (s : Sys) (fs : List Frame) (h : Inv s) (hc : s.closed = false) :
    StepOk s (storageAppend s fs).1 ∧ (storageAppend s fs).1.closed = false := by
  unfold storageAppend
  split
  · exact ⟨StepOk.same s h, hc⟩
  · rename_i hrun
    have hrun : s.dev.state = .running := by simpa using hrun
    split
    · exact ⟨StepOk.same s h, hc⟩
    · obtain ⟨hd, _⟩ := h
      cases hdev : s.dev with
      | raw r =>
        rw [hdev] at hd hrun
        simp only [DevInv, Dev.state] at hd hrun
        have hopen : r.isOpen = true := hd.2.mpr hrun
        have hk : s.os.fdKeys = [r.fid] := by simpa [hopen] using hd.1
        simp only [Dev.append]
        obtain ⟨seg, ht, _, hcase⟩ := rawAppend_spec s.os r (packetBytes fs) hopen hk
        refine ⟨⟨⟨?_, ?_⟩, seg, ht⟩, hc⟩
        · rcases hcase with ⟨hr, ho, hfid, hk1, _⟩ | ⟨hr, ho, hk1⟩
          · simp [DevInv, Dev.setState, hr, ho, hfid, hk1]
          · simp [DevInv, Dev.setState, hr, ho, hk1]
        · intro x; simp [hc] at x
      | tiff t =>
        rw [hdev] at hd hrun
        simp only [DevInv, Dev.state] at hd hrun
        have hk : s.os.fdKeys = [t.fid] := by simpa [hrun] using hd
        simp only [Dev.append]
        obtain ⟨seg, ht, hcase⟩ := tiffAppend_spec s.os t (fs.map Frame.io) hrun hk
        refine ⟨⟨⟨?_, ?_⟩, seg, ht⟩, hc⟩
        · rcases hcase with ⟨hr, _, hk1, _⟩ | ⟨hr, _, hk1⟩
          · simp [DevInv, Dev.setState, hr, hk1]
          · simp [DevInv, Dev.setState, hr, hk1]
        · intro x; simp [hc] at x
      | sxs x =>
        rw [hdev] at hd hrun
        simp only [DevInv, Dev.state] at hd hrun
        have hti : x.tiff.state = .running := hd.2.mp hrun
        have hk : s.os.fdKeys = [x.tiff.fid] := by simpa [hti] using hd.1
        simp only [Dev.append]
        obtain ⟨seg, ht, _, hcase⟩ := sxsAppend_spec s.os x (fs.map Frame.io) hti hk
        refine ⟨⟨⟨?_, ?_⟩, seg, ht⟩, hc⟩
        · rcases hcase with ⟨hr, hts, hk1, _⟩ | ⟨hr, hts, hk1⟩
          · simp [DevInv, Dev.setState, hr, hk1, hts]
          · simp [DevInv, Dev.setState, hr, hk1, hts]
        · intro y; simp [hc] at y
      | trash t =>
        rw [hdev] at hd
        simp only [Dev.append]
        refine ⟨⟨⟨?_, ?_⟩, [], Tr.refl _⟩, hc⟩
        · simpa [DevInv, Dev.setState] using hd
        · intro y; simp [hc] at y

theorem stop_ok (s : Sys) (h : Inv s) (hc : s.closed = false) :
    StepOk s (storageStop s).1 ∧ (storageStop s).1.closed = false ∧ (storageStop s).1.dev.state ≠ .running ∧
    (s.dev.state ≠ .running → (storageStop s).1 = s) := by
  unfold storageStop
  split
  · rename_i hrun
    obtain ⟨hd, _⟩ := h
    cases hdev : s.dev with
    | raw r =>
      rw [hdev] at hd hrun
      simp only [DevInv, Dev.state] at hd hrun
      simp only [Dev.stop]
      obtain ⟨seg, ht, hk1, ho, hst, _, _, _, _⟩ := rawStop_spec s.os r hd.1
      refine ⟨⟨⟨?_, ?_⟩, seg, ht⟩, hc, ?_, ?_⟩
      · simp [DevInv, Dev.setState, hst, ho, hk1]
      · intro x; simp [hc] at x
      · simp [Dev.setState, Dev.state, hst]
      · intro x; exact absurd (by simp [Dev.state, hrun]) x
    | tiff t =>
      rw [hdev] at hd hrun
      simp only [DevInv, Dev.state] at hd hrun
      simp only [Dev.stop, tiffStop_eq]
      obtain ⟨seg, ht, hk1, _, _, _⟩ := Tiff.stop_spec s.os t hd
      refine ⟨⟨⟨?_, ?_⟩, seg, ht⟩, hc, ?_, ?_⟩
      · simp [DevInv, Dev.setState, hk1]
      · intro x; simp [hc] at x
      · simp [Dev.setState, Dev.state]
      · intro x; exact absurd (by simp [Dev.state, hrun]) x
    | sxs x =>
      rw [hdev] at hd hrun
      simp only [DevInv, Dev.state] at hd hrun
      simp only [Dev.stop]
      obtain ⟨seg, ht, hk1, hns, hst, _, _⟩ := sxsStop_spec s.os x hd.1
      refine ⟨⟨⟨?_, ?_⟩, seg, ht⟩, hc, ?_, ?_⟩
      · simp [DevInv, Dev.setState, hk1, hns, hst]
      · intro y; simp [hc] at y
      · simp [Dev.setState, Dev.state, hst]
      · intro y; exact absurd (by simp [Dev.state, hrun]) y
    | trash t =>
      rw [hdev] at hd
      simp only [Dev.stop]
      refine ⟨⟨⟨?_, ?_⟩, [], Tr.refl _⟩, hc, ?_, ?_⟩
      · simpa [DevInv, Dev.setState] using hd
      · intro y; simp [hc] at y
      · simp [Dev.setState, Dev.state]
      · intro y; rw [hdev] at hrun; exact absurd hrun y
  · rename_i hnr
    exact ⟨StepOk.same s h, hc, hnr, fun _ => rfl⟩

theorem destroy_ok (os : Os) (d : Dev) (hd : DevInv os d) :
    ∃ seg, Tr os (d.destroy os).1 seg ∧ (d.destroy os).1.fdKeys = [] ∧
      DevInv (d.destroy os).1 ((d.destroy os).2.setState .closed) ∧ (d.state ≠ .running → seg = []) := by
  cases d with
  | raw r =>
    simp only [DevInv, Dev.state] at hd ⊢
    simp only [Dev.destroy, rawDestroy]
    obtain ⟨seg, ht, hk1, ho, _, _, hnil, _, _⟩ := rawStop_spec os r hd.1
    refine ⟨seg, ht, hk1, ?_, ?_⟩
    · simp [Dev.setState, ho, hk1]
    · intro hi
      apply hnil
      cases ho' : r.isOpen with
      | false => rfl
      | true => exact absurd (hd.2.mp ho') hi
  | tiff t =>
    simp only [DevInv, Dev.state] at hd ⊢
    simp only [Dev.destroy]
    obtain ⟨seg, ht, hk1, _, hnil⟩ := tiffDestroy_spec os t hd
    exact ⟨seg, ht, hk1, by simp [Dev.setState, hk1], hnil⟩
  | sxs x =>
    simp only [DevInv, Dev.state] at hd ⊢
    simp only [Dev.destroy]
    obtain ⟨seg, ht, hk1, hns, hnil⟩ := sxsDestroy_spec os x hd.1
    refine ⟨seg, ht, hk1, by simp [Dev.setState, hk1, hns], ?_⟩
    intro hi; exact hnil (fun h => hi (hd.2.mpr h))
  | trash t =>
    simp only [DevInv] at hd ⊢
    exact ⟨[], Tr.refl _, hd, by simpa [Dev.destroy, Dev.setState] using hd, fun _ => rfl⟩

theorem close_ok (s : Sys) (h : Inv s) (hc : s.closed = false) :
    StepOk s (storageClose s) ∧ (storageClose s).closed = true ∧ (storageClose s).os.fdKeys = [] := by
  unfold storageClose
  obtain ⟨⟨hinv1, seg1, ht1⟩, _, _, _⟩ := stop_ok s h hc
  obtain ⟨seg2, ht2, hk2, hd2, _⟩ := destroy_ok (storageStop s).1.os (storageStop s).1.dev hinv1.1
  exact ⟨⟨⟨hd2, fun _ => hk2⟩, seg1 ++ seg2, Tr.trans ht1 ht2⟩, rfl, hk2⟩

/-- every HAL call keeps the invariant and is a disciplined transition of the OS -/
theorem step_ok (s : Sys) (op : Op) (h : Inv s) : StepOk s (step s op).1 := by
  unfold step
  split
  · exact StepOk.same s h
  · rename_i hwf
    cases op with
    | set uri md =>
      simp only [Op.wf, Bool.not_eq_true, Bool.and_eq_false_imp, Bool.not_eq_eq_eq_not, Bool.not_true, not_and,
        Bool.not_eq_false] at hwf
      have hc : s.closed = false := by
        cases hcl : s.closed with
        | false => rfl
        | true => simp [Op.wf, hcl] at hwf
      have hi : s.dev.state ≠ .running := by
        intro hr; simp [Op.wf, hc, hr] at hwf
      exact (set_ok s uri md h hc hi).1
    | start =>
      have hc : s.closed = false := by simpa [Op.wf] using hwf
      exact (start_ok s h hc).1
    | append fs =>
      have hc : s.closed = false := by simpa [Op.wf] using hwf
      exact (append_ok s fs h hc).1
    | stop =>
      have hc : s.closed = false := by simpa [Op.wf] using hwf
      exact (stop_ok s h hc).1
    | close =>
      have hc : s.closed = false := by simpa [Op.wf] using hwf
      exact (close_ok s h hc).1

end AcqVerif.Storage
