import AcqVerif.Storage.Sxs
/-!
# The four storage devices behind the HAL state machine
(`acquire-device-hal/device/hal/storage.c`, device construction and destruction as in
`basics.driver.c` / `basic.storage.c`)

`Storage::state` lives inside each device record (the C struct embeds `struct Storage`);
the HAL functions assign it from what the device function returns, exactly as
`storage.c` does.  One `Sys` = one device opened with `storage_open` plus the OS.

Histories: lists of `Op`.  Two usages are outside the life cycles the properties
quantify over and are *skipped identically* by model and harness (`Status.illformed`):
any call after `close` (the object is freed), and `set` while the HAL state is Running
(the HAL does not guard it; the runtime's configure path is property C08's subject).
-/
namespace AcqVerif.Storage

inductive Kind where
  | raw | tiff | sxs | trash
deriving DecidableEq, Repr, Inhabited

inductive Dev where
  | raw (r : Raw)
  | tiff (t : Tiff)
  | sxs (s : Sxs)
  | trash (t : Trash)

/-- `raw_init` / `tiff_init` / `side_by_side_tiff_init` / `trash_init` -/
def Dev.init : Kind → Dev
  | .raw => .raw {}
  | .tiff => .tiff {}
  | .sxs => .sxs {}
  | .trash => .trash {}

def Dev.state : Dev → DeviceState
  | .raw r => r.state
  | .tiff t => t.state
  | .sxs s => s.state
  | .trash t => t.state

def Dev.setState (st : DeviceState) : Dev → Dev
  | .raw r => .raw { r with state := st }
  | .tiff t => .tiff { t with state := st }
  | .sxs s => .sxs { s with state := st }
  | .trash t => .trash { t with state := st }

/-- one frame of a packet: its bytes (header + pixels) and, for the TIFF writers, the
    lengths of the description string section (first frame of a file / later frames) -/
structure Frame where
  bytes : Bytes
  descFirst : Nat := 0
  descRest : Nat := 0

def Frame.io (f : Frame) : FrameIo :=
  { img := f.bytes.length - videoFrameBytes, descFirst := f.descFirst, descRest := f.descRest }

/-- the packet `[beg, end)` handed to `storage_append` -/
def packetBytes (fs : List Frame) : Bytes := (fs.map (·.bytes)).flatten

/-! ## the vtable -/

def Dev.set (os : Os) (d : Dev) (uri md : Bytes) : Os × Dev × DeviceState :=
  match d with
  | .raw r => let (os, r, st) := rawSet os r uri; (os, .raw r, st)
  | .tiff t => let (os, t, st) := tiffSet os t uri uri.length md; (os, .tiff t, st)
  | .sxs s => let (os, s, st) := sxsSet os s uri md; (os, .sxs s, st)
  | .trash t => (os, .trash t, .armed)

def Dev.start (os : Os) (d : Dev) : Os × Dev × DeviceState :=
  match d with
  | .raw r => let (os, r, st) := rawStart os r; (os, .raw r, st)
  | .tiff t => let (os, t, st) := tiffStart os t; (os, .tiff t, st)
  | .sxs s => let (os, s, st) := sxsStart os s; (os, .sxs s, st)
  | .trash t => (os, .trash t, .running)

def Dev.append (os : Os) (d : Dev) (fs : List Frame) : Os × Dev × DeviceState :=
  match d with
  | .raw r => let (os, r, st) := rawAppend os r (packetBytes fs); (os, .raw r, st)
  | .tiff t => let (os, t, st) := tiffAppend os t (fs.map Frame.io); (os, .tiff t, st)
  | .sxs s => let (os, s, st) := sxsAppend os s (fs.map Frame.io); (os, .sxs s, st)
  | .trash t => (os, .trash t, .running)

def Dev.stop (os : Os) (d : Dev) : Os × Dev × DeviceState :=
  match d with
  | .raw r => let (os, r, st) := rawStop os r; (os, .raw r, st)
  | .tiff t => let (os, t, st) := tiffStop os t; (os, .tiff t, st)
  | .sxs s => let (os, s, st) := sxsStop os s; (os, .sxs s, st)
  | .trash t => (os, .trash t, .armed)

def Dev.destroy (os : Os) (d : Dev) : Os × Dev :=
  match d with
  | .raw r => let (os, r) := rawDestroy os r; (os, .raw r)
  | .tiff t => let (os, t) := tiffDestroy os t; (os, .tiff t)
  | .sxs s => let (os, s) := sxsDestroy os s; (os, .sxs s)
  | .trash t => (os, .trash t)

/-! ## `storage.c` -/

inductive Status where
  | ok | err | illformed
deriving DecidableEq, Repr

structure Sys where
  os : Os
  dev : Dev
  closed : Bool := false

/-- `storage_set` -/
def storageSet (s : Sys) (uri md : Bytes) : Sys × Status :=
  let (os, d, st) := s.dev.set s.os uri md
  ({ s with os := os, dev := d.setState st }, if st = .armed then .ok else .err)

/-- `storage_start` -/
def storageStart (s : Sys) : Sys × Status :=
  if s.dev.state ≠ .armed then (s, .err) else
  let (os, d, st) := s.dev.start s.os
  ({ s with os := os, dev := d.setState st }, if st = .running then .ok else .err)

/-- `storage_stop` (the states a device returns from `stop` are Armed or AwaitingConfiguration) -/
def storageStop (s : Sys) : Sys × Status :=
  if s.dev.state = .running then
    let (os, d, st) := s.dev.stop s.os
    ({ s with os := os, dev := d.setState st }, if st = .armed ∨ st = .awaiting then .ok else .err)
  else (s, .ok)

/-- `storage_append(self, beg, end)` -/
def storageAppend (s : Sys) (fs : List Frame) : Sys × Status :=
  if s.dev.state ≠ .running then (s, .err) else
  if packetBytes fs = [] then (s, .ok) else
  let (os, d, st) := s.dev.append s.os fs
  ({ s with os := os, dev := d.setState st }, if st = .running then .ok else .err)

/-- `storage_close`: stop, then the driver's close = the device's `destroy` -/
def storageClose (s : Sys) : Sys :=
  let (s, _) := storageStop s
  let (os, d) := s.dev.destroy s.os
  { s with os := os, dev := d.setState .closed, closed := true }

inductive Op where
  | set (uri md : Bytes)
  | start
  | append (fs : List Frame)
  | stop
  | close

/-- usage the properties quantify over (see the header) -/
def Op.wf (s : Sys) : Op → Bool
  | .set _ _ => !s.closed && s.dev.state != .running
  | _ => !s.closed

def step (s : Sys) (op : Op) : Sys × Status :=
  if !op.wf s then (s, .illformed) else
  match op with
  | .set uri md => storageSet s uri md
  | .start => storageStart s
  | .append fs => storageAppend s fs
  | .stop => storageStop s
  | .close => (storageClose s, .ok)

/-- `storage_open` on a fresh process state -/
def Sys.init (k : Kind) (oracle : Nat → Outcome) (pick : Nat → Fd) : Sys :=
  { os := { oracle := oracle, pick := pick }, dev := Dev.init k }

def runFrom (s : Sys) : List Op → Sys
  | [] => s
  | op :: ops => runFrom (step s op).1 ops

/-- the whole life of one device: open, the history, nothing else -/
def run (k : Kind) (oracle : Nat → Outcome) (pick : Nat → Fd) (ops : List Op) : Sys :=
  runFrom (Sys.init k oracle pick) ops

end AcqVerif.Storage
