import AcqVerif.Runtime.Model
/-!
# M1 — the client thread (`acquire_start`, `acquire_stop`, `acquire_abort`, `acquire_map_read`,
`acquire_unmap_read`, `acquire_get_state`) and the whole-system step
-/
namespace AcqVerif.Runtime
open AcqVerif.Channel

/-- `acquire_get_state` (no synchronisation call inside) -/
def getState (rt : RT) : RT :=
  if rt.state ≠ .running then rt else
  let alive := rt.streams.any fun st => st.valid && (st.srcRunning || st.fltRunning || st.snkRunning)
  -- (the C stops at the first valid stream whose workers are alive; any stream gives the same answer)
  { rt with state := if alive then .running else .armed }

def nextValid (rt : RT) (s : Nat) : Option Nat :=
  ((List.range rt.streams.length).filter fun i => decide (i ≥ s) && (getS rt i).valid).head?

/-- readers flushed by `acquire_stop` for stream `s`, in order: the filter's reader on `filter.in` (code 2),
the sink's reader (0) and, if registered, the monitor's reader (1) on `sink.in` -/
def flushOrder (st : Stream) : List Nat := if st.monReg then [2, 0, 1] else [2, 0]

def readerChan (st : Stream) (r : Nat) : Sys := if r = 2 then st.filtCh else st.sinkCh
def readerIdx (r : Nat) : Nat := if r = 2 then 0 else r
def setReaderChan (st : Stream) (r : Nat) (c : Sys) : Stream :=
  if r = 2 then { st with filtCh := c } else { st with sinkCh := c }

/-- begin the next API call of the program (the harness code between calls has no yield point);
`fuel` bounds the number of calls that complete without reaching a parking point -/
def clientNextF : Nat → RT → RT
  | 0, rt => rt
  | fuel + 1, rt =>
  let clientNext := clientNextF fuel
  match rt.client.prog with
  | [] => { rt with client := { rt.client with pc := .done } }
  | op :: rest =>
    let rt := { rt with client := { rt.client with prog := rest } }
    match op with
    | .start =>
      match nextValid rt 0 with
      | some s => { rt with client := { rt.client with pc := .stoStart s } }
      | none => clientNext (say rt "API start -> err")
    | .stop =>
      match nextValid rt 0 with
      | some s => { rt with client := { rt.client with pc := .joinSrc s, aborting := false } }
      | none => clientNext (say { rt with state := .armed } "API stop -> ok")
    | .abort =>
      match nextValid rt 0 with
      | some s =>
        -- source.is_stopping = 1; channel_accept_writes(sink.in, 0) parks at its lock
        let st := getS rt s
        let rt := setS rt s { st with srcStopping := true }
        { rt with client := { rt.client with pc := .accLock s false 1, aborting := true } }
      | none => clientNext (say { rt with state := .armed } "API abort -> ok")
    | .map s =>
      let st := getS rt s
      if (st.monReg && (st.sinkCh.rds.getD 1 {}).mapped) then clientNext (say rt s!"API map {s} -> err")
      else { rt with client := { rt.client with pc := .mapLock s } }
    | .unmap s nf =>
      let st := getS rt s
      let len := rt.client.monLen.getD s 0
      let k := match nf with | none => len | some n => min len (n * st.F)
      if st.monReg && (st.sinkCh.rds.getD 1 {}).mapped then
        { rt with client := { rt.client with pc := .unmapLock s k } }
      else clientNext (say { rt with client := { rt.client with monLen := rt.client.monLen.set s 0 } } s!"API unmap {s} {k} -> ok")
    | .state =>
      let rt := getState rt
      clientNext (say rt s!"API state -> {rt.state.name}")
    | .monwait s =>
      let rt := getState rt
      if rt.state = .running then
        -- map; unmap all; sleep; again
        { rt with client := { rt.client with pc := .mapLock s, inMonwait := true, prog := .monwait s :: rest } }
      else clientNext (say { rt with client := { rt.client with inMonwait := false } } s!"API monwait {s} -> {rt.state.name}")
    | .sleep n => if n = 0 then clientNext rt else { rt with client := { rt.client with pc := .sleeping n } }
    | .configure n0 n1 =>
      -- (valid_video_streams is recomputed; the harness configures the same streams again)
      match nextValid rt 0 with
      | some s => { rt with client := { rt.client with pc := .cfgCamSet s, cfgN := [n0, n1] } }
      | none => clientNext rt

def clientNext (rt : RT) : RT := clientNextF (rt.client.prog.length + 1) rt

/-- `acquire_start`'s error path from stream `s` on: signal the workers of every valid stream, stop its camera
(a parking point only if the camera is Running), then `acquire_stop` -/
def startErrorFrom (rt : RT) (s : Nat) : RT :=
  match nextValid rt s with
  | some i =>
    let st := getS rt i
    let st := { st with srcStopping := true, fltStopping := true }
    let rt := setS rt i st
    if st.cam.state = .running then { rt with client := { rt.client with pc := .errCamStop i, startFailed := true } }
    else
      -- (no driver call) continue with the next stream; fuel: at most two streams
      match nextValid rt (i + 1) with
      | some j =>
        let stj := getS rt j
        let stj := { stj with srcStopping := true, fltStopping := true }
        let rt := setS rt j stj
        if stj.cam.state = .running then { rt with client := { rt.client with pc := .errCamStop j, startFailed := true } }
        else startErrorJoin rt
      | none => startErrorJoin rt
  | none => startErrorJoin rt
where
  startErrorJoin (rt : RT) : RT :=
    match nextValid rt 0 with
    | some s0 => { rt with client := { rt.client with pc := .joinSrc s0, startFailed := true, aborting := false } }
    | none => rt

def startError (rt : RT) : RT := startErrorFrom rt 0

/-- what `acquire_stop` does for stream `s` after reader `r` has been flushed -/
def afterFlush (rt : RT) (s : Nat) (r : Nat) : RT :=
  let st := getS rt s
  match (flushOrder st).dropWhile (· ≠ r) with
  | _ :: r' :: _ =>
    -- next reader; the monitor's mapped region (if any) is released first
    if r' = 1 && ((st.sinkCh.rds.getD 1 {}).mapped) then
      { rt with client := { rt.client with pc := .flushUnmapLock s r' true } }
    else { rt with client := { rt.client with pc := .flushRmapLock s r' } }
  | _ =>
    -- next stream, or the end of acquire_stop
    match nextValid rt (s + 1) with
    | some s' => { rt with client := { rt.client with pc := .joinSrc s' } }
    | none =>
      if rt.client.startFailed then
        clientNext (say { rt with state := .awaiting, client := { rt.client with pc := .idle, startFailed := false } } "API start -> err")
      else
      let rt := { rt with state := .armed }
      let what := if rt.client.aborting then "abort" else "stop"
      clientNext (say { rt with client := { rt.client with pc := .idle, aborting := false } } s!"API {what} -> ok")

/-- the client's step from its current parking point -/
def clientStep (rt : RT) : Option RT :=
  let cl := rt.client
  match cl.pc with
  | .idle => some (clientNext rt)        -- only at the very first step (thread start)
  | .done => none
  | .sleeping n => if n ≤ 1 then some (clientNext rt) else some { rt with client := { cl with pc := .sleeping (n - 1) } }
  -- ---- acquire_start ----
  | .stoStart s =>
    let st := getS rt s
    let run := st.sto.run + 1
    let st := { st with sto := { st.sto with state := .running, run := run, nappend := 0, failed := false, log := [] } }
    some (say { (setS rt s st) with client := { cl with pc := .accLock s true 0 } } s!"DRV {stoDev s} start run={run} -> running")
  | .accLock s v next =>
    let st := getS rt s
    let (c', _) := chanOp st.sinkCh (.accept v)
    some { (setS rt s { st with sinkCh := c' }) with client := { cl with pc := .accNotify s next } }
  | .accNotify s next =>
    let rt := setS rt s (notifySink (getS rt s))
    let st := getS rt s
    if next = 0 then
      -- video_sink_start: flags, create the sink thread
      some { (setS rt s { st with snkStopping := false, snkRunning := true }) with client := { cl with pc := .createSnk s } }
    else if next = 1 then
      -- acquire_abort: camera_execute_trigger (no yield with the trigger off), next stream or acquire_stop
      let rt := if st.cam.state = .running then say rt s!"DRV {camDev s} trigger -> ok" else rt
      match nextValid rt (s + 1) with
      | some s' =>
        let st' := getS rt s'
        some { (setS rt s' { st' with srcStopping := true }) with client := { cl with pc := .accLock s' false 1 } }
      | none =>
        match nextValid rt 0 with
        | some s0 => some { rt with client := { cl with pc := .joinSrc s0 } }
        | none => some rt
    else
      -- acquire_stop after the joins: flush the readers
      some { rt with client := { cl with pc := .flushRmapLock s 2 } }
  | .createSnk s =>
    let st := getS rt s
    let st := { st with tidSnk := rt.nthreads, snk := {}, fltStopping := false, fltRunning := true }
    some { (setS rt s st) with nthreads := rt.nthreads + 1, client := { cl with pc := .createFlt s } }
  | .createFlt s =>
    let st := getS rt s
    let st := { st with tidFlt := rt.nthreads, flt := {} }
    let rt := { (setS rt s st) with nthreads := rt.nthreads + 1 }
    -- video_source_start: the camera must be Armed; camera_start parks at the mock's entry
    if st.cam.state = .armed then some { rt with client := { cl with pc := .camStart s } }
    else some (startError rt)
  | .errCamStop s =>
    let st := getS rt s
    let st := { st with cam := { st.cam with state := .armed, drvStops := st.cam.drvStops + 1 } }
    some (startErrorFrom (say (setS rt s st) s!"DRV {camDev s} stop -> ok") (s + 1))
  -- ---- acquire_configure (same devices) ----
  | .cfgCamSet s =>
    let st := getS rt s
    let st := { st with cam := { st.cam with state := if st.cam.state = .running then .running else .armed } }
    some (say { (setS rt s st) with client := { cl with pc := .cfgStoSet s } } s!"DRV {camDev s} set {st.setText} -> ok")
  | .cfgStoSet s =>
    let st := getS rt s
    let st := { st with sto := { st.sto with state := .armed } }
    some (say { (setS rt s st) with client := { cl with pc := .cfgGetShape s } } s!"DRV {stoDev s} set -> armed")
  | .cfgGetShape s =>
    let st := getS rt s
    let rt := setS rt s { st with maxFrames := cl.cfgN.getD s st.maxFrames }
    match nextValid rt (s + 1) with
    | some s' => some { rt with client := { cl with pc := .cfgCamSet s' } }
    | none =>
      let rt := { rt with state := if rt.state.code < 2 then .armed else rt.state }
      let mask := (if (getS rt 0).valid then 1 else 0) + (if (getS rt 1).valid then 2 else 0)
      some (clientNext (say rt s!"API configure -> ok valid={mask} state={(getState rt).state.name}"))
  | .camStart s =>
    let st := getS rt s
    let run := st.cam.run + 1
    let st := { st with cam := { st.cam with state := .running, run := run, frame := 0, ncalls := 0 },
                        srcStopping := false, srcRunning := true }
    some (say { (setS rt s st) with client := { cl with pc := .createSrc s } } s!"DRV {camDev s} start run={run} -> ok")
  | .createSrc s =>
    let st := getS rt s
    let st := { st with tidSrc := rt.nthreads, src := {} }
    let rt := { (setS rt s st) with nthreads := rt.nthreads + 1 }
    match nextValid rt (s + 1) with
    | some s' => some { rt with client := { cl with pc := .stoStart s' } }
    | none => some (clientNext (say { rt with state := .running } "API start -> ok"))
  -- ---- acquire_stop ----
  | .joinSrc s => if (getS rt s).src.pc = .done then some { rt with client := { cl with pc := .joinFlt s } } else none
  | .joinFlt s => if (getS rt s).flt.pc = .done then some { rt with client := { cl with pc := .joinSnk s } } else none
  | .joinSnk s => if (getS rt s).snk.pc = .done then some { rt with client := { cl with pc := .accLock s true 2 } } else none
  | .flushRmapLock s r =>
    let st := getS rt s
    let before := readerChan st r
    let (c', o) := chanOp before (.rmap (readerIdx r))
    let len := match o with | .slice _ len _ => len | _ => 0
    let rt := { (setS rt s (setReaderChan st r c')) with client := { cl with flushLen := len } }
    if moved before c' then some { rt with client := { rt.client with pc := .flushRmapNotify s r } }
    else if len > 0 then some { rt with client := { rt.client with pc := .flushUnmapLock s r false } }
    else some (afterFlush rt s r)
  | .flushRmapNotify s r =>
    let rt := if r = 2 then rt else setS rt s (notifySink (getS rt s))
    if cl.flushLen > 0 then some { rt with client := { cl with pc := .flushUnmapLock s r false } }
    else some (afterFlush rt s r)
  | .flushUnmapLock s r pre =>
    let st := getS rt s
    let (c', _) := chanOp (readerChan st r) (.runmap (readerIdx r) (if pre then 0 else cl.flushLen))
    some { (setS rt s (setReaderChan st r c')) with client := { cl with pc := .flushUnmapNotify s r pre } }
  | .flushUnmapNotify s r _ =>
    let rt := if r = 2 then rt else setS rt s (notifySink (getS rt s))
    some { rt with client := { cl with pc := .flushRmapLock s r } }
  -- ---- acquire_map_read / acquire_unmap_read ----
  | .mapLock s =>
    let st := getS rt s
    let before := st.sinkCh
    let (c', o) := if st.monReg then chanOp st.sinkCh (.rmap 1) else chanOp st.sinkCh .join
    let (len, status) := match o with | .slice _ len stt => (len, stt) | _ => (0, 1)
    let idx := if st.monReg then before.idx.getD 1 0 else before.total - before.c.head
    let ids := (framesIn st.sinkFrames idx len).map (·.id)
    let rt := setS rt s { st with sinkCh := c', monReg := true }
    let rt := { rt with client := { cl with monLen := cl.monLen.set s len } }
    let line := if status = 0 then s!"API map {s} -> ok bytes={len} frames={",".intercalate (ids.map toString)}" else s!"API map {s} -> err"
    -- a joining reader never moves a bookmark; a registered one may (then the call returns after its notify step)
    if st.monReg && moved before c' then some { rt with client := { rt.client with pc := .mapNotify s, pendingSay := line } }
    else
      let rt := say rt line
      if cl.inMonwait then
        (if len > 0 then some { rt with client := { rt.client with pc := .unmapLock s len } }
         else some { (say rt s!"API unmap {s} 0 -> ok") with client := { rt.client with pc := .sleeping 1 } })
      else some (clientNext rt)
  | .mapNotify s =>
    let rt := say (setS rt s (notifySink (getS rt s))) cl.pendingSay
    if cl.inMonwait then
      let len := cl.monLen.getD s 0
      (if len > 0 then some { rt with client := { rt.client with pc := .unmapLock s len } }
       else some { (say rt s!"API unmap {s} 0 -> ok") with client := { rt.client with pc := .sleeping 1 } })
    else some (clientNext rt)
  | .unmapLock s k =>
    let st := getS rt s
    let (c', _) := chanOp st.sinkCh (.runmap 1 k)
    let rt := setS rt s { st with sinkCh := c' }
    some { rt with client := { cl with pc := .unmapNotify s, monLen := cl.monLen.set s 0, pendingSay := s!"API unmap {s} {k} -> ok" } }
  | .unmapNotify s =>
    let rt := say (setS rt s (notifySink (getS rt s))) cl.pendingSay
    if cl.inMonwait then some { rt with client := { cl with pc := .sleeping 1 } } else some (clientNext rt)

/-! ## the whole system -/

/-- which thread has tid `t`? -/
def whoIs (rt : RT) (t : Nat) : Option (Nat × Role) :=
  if t = 0 then none else
  (List.range rt.streams.length).findSome? fun s =>
    let st := getS rt s
    if st.tidSnk = t then some (s, Role.sink) else if st.tidFlt = t then some (s, Role.filter)
    else if st.tidSrc = t then some (s, Role.source) else none

/-- is some thread parked at the entry of `condition_variable_wait` of this stream's `sink.in` (so holds its lock)? -/
def sinkLockHeld (st : Stream) : Bool := st.src.pc = .wmapWait

/-- does the step of this thread start by taking the lock of stream `s`'s `sink.in`? -/
def needsSinkLock (rt : RT) (t : Nat) : Option Nat :=
  match whoIs rt t with
  | some (s, .source) => match (getS rt s).src.pc with
    | .wmapLock | .wmapWoken | .abortLock | .commitLock => some s
    | _ => none
  | some (s, .sink) => match (getS rt s).snk.pc with
    | .rmapLock | .runmapLock | .errAccLock | .errUnmapLock => some s
    | _ => none
  | some (_, .filter) => none
  | none => match rt.client.pc with
    | .accLock s _ _ => some s
    | .flushRmapLock s r => if r = 2 then none else some s
    | .flushUnmapLock s r _ => if r = 2 then none else some s
    | .mapLock s => some s
    | .unmapLock s _ => some s
    | _ => none

/-- one scheduler step of thread `t`; `none` = not enabled / no such thread -/
def rtStep (rt : RT) (t : Nat) : Option RT :=
  let rt := { rt with out := [] }
  match needsSinkLock rt t with
  | some s => if sinkLockHeld (getS rt s) then none else go rt t
  | none => go rt t
where
  go (rt : RT) (t : Nat) : Option RT :=
    if t = 0 then clientStep rt else
    match whoIs rt t with
    | none => none
    | some (s, .source) =>
      (srcStep s (getS rt s)).map fun (st, o) => { (setS rt s st) with out := rt.out ++ o }
    | some (s, .sink) =>
      (snkStep s (getS rt s)).map fun (st, o) => { (setS rt s st) with out := rt.out ++ o }
    | some (s, .filter) => (fltStep (getS rt s)).map fun st => setS rt s st

end AcqVerif.Runtime
