import AcqVerif.Runtime.Model
/-!
# M1 — the client thread (`acquire_configure`, `acquire_start`, `acquire_stop`, `acquire_abort`,
`acquire_map_read`, `acquire_unmap_read`, `acquire_get_state`) and the whole-system step
-/
namespace AcqVerif.Runtime
open AcqVerif.Channel

/-- client (API) operations of the data path -/
inductive COp where
  | start | stop | abort
  | map (s : Nat) | unmap (s : Nat) (nframes : Option Nat)
  | state | monwait (s : Nat) | sleep (n : Nat)
  | configure (n0 n1 : Nat)     -- acquire_configure with the same devices and shapes; new frame counts
deriving DecidableEq, Repr, Inhabited

/-- program counter of the client thread (parking points, and transient decision points) -/
inductive CPc where
  -- acquire_start, stream s
  | stoStart (s : Nat) | createSnk (s : Nat) | createFlt (s : Nat) | camStart (s : Nat) | createSrc (s : Nat)
  | errCamStop (s : Nat)                    -- acquire_start's error path: camera_stop of stream s
  -- channel_accept_writes(sink.in of s, v); `k` says what follows: 0 video_sink_start, 1 acquire_abort, 2 acquire_stop
  | accLock (s : Nat) (v : Bool) (k : Nat) | accNotify (s : Nat) (k : Nat)
  -- acquire_configure, stream s
  | cfgCamSet (s : Nat) | cfgStoSet (s : Nat) | cfgGetShape (s : Nat)
  -- acquire_stop, stream s; reader r: 2 = filter's reader on filter.in, 0 = sink's, 1 = monitor's on sink.in
  | joinSrc (s : Nat) | joinFlt (s : Nat) | joinSnk (s : Nat)
  | flushRmapLock (s : Nat) (r : Nat) | flushRmapNotify (s : Nat) (r : Nat)
  | flushUnmapLock (s : Nat) (r : Nat) (pre : Bool) | flushUnmapNotify (s : Nat) (r : Nat) (pre : Bool)
  -- acquire_map_read / acquire_unmap_read
  | mapLock (s : Nat) | mapNotify (s : Nat) | unmapLock (s : Nat) (k : Nat) | unmapNotify (s : Nat)
  | sleeping (n : Nat)
  | done
  -- transient
  | next                                     -- fetch the next API call of the program
  | startAt (s : Nat) | srcCheck (s : Nat) | startErr (s : Nat)
  | abortAt (s : Nat) | stopAt (s : Nat) | flushAt (s : Nat) (r : Nat) | flushAfterRead (s : Nat) (r : Nat) | flushed (s : Nat) (r : Nat)
  | cfgAt (s : Nat)
  | afterMap (s : Nat) | afterUnmap (s : Nat)
deriving DecidableEq, Repr, Inhabited

structure Client where
  pc : CPc := .next
  prog : List COp := []
  aborting : Bool := false     -- the current acquire_stop was entered from acquire_abort
  startFailed : Bool := false  -- … or from acquire_start's error path
  monLen : List Nat := [0, 0]  -- length of the region the client has mapped, per stream (ghost)
  flushLen : Nat := 0
  inMonwait : Bool := false
  pendingSay : String := ""    -- line the harness prints when the current call returns
  cfgN : List Nat := [0, 0]    -- frame counts of the configure call in progress
  misused : Bool := false      -- ghost: the client broke a usage rule of the API (mapped twice without unmapping)
deriving Repr, Inhabited

structure RT where
  streams : List Stream := [{}, {}]
  client : Client := {}
  nthreads : Nat := 1          -- tids handed out so far (client = 0)
  state : DevState := .armed   -- `runtime.state`
deriving Repr, Inhabited

def getS (rt : RT) (s : Nat) : Stream := rt.streams.getD s {}
def setS (rt : RT) (s : Nat) (st : Stream) : RT := { rt with streams := rt.streams.set s st }
def modS (rt : RT) (s : Nat) (f : Stream → Stream) : RT := setS rt s (f (getS rt s))
def setPc (rt : RT) (pc : CPc) : RT := { rt with client := { rt.client with pc := pc } }

/-- `acquire_get_state` (no synchronisation call inside) -/
def alive (rt : RT) : Bool := rt.streams.any fun st => st.valid && (st.srcRunning || st.fltRunning || st.snkRunning)
def getState (rt : RT) : RT :=
  { rt with state := if rt.state = .running then (if alive rt then .running else .armed) else rt.state }

def nextValid (rt : RT) (s : Nat) : Option Nat :=
  ((List.range rt.streams.length).filter fun i => decide (i ≥ s) && (getS rt i).valid).head?
def nv (rt : RT) (s : Nat) : Nat := (nextValid rt s).getD 0

def readerChan (st : Stream) (r : Nat) : Sys := if r = 2 then st.filtCh else st.sinkCh
def readerIdx (r : Nat) : Nat := if r = 2 then 0 else r
def setReaderChan (st : Stream) (r : Nat) (c : Sys) : Stream :=
  if r = 2 then { st with filtCh := c } else { st with sinkCh := c }
def flushRead (rt : RT) (s r : Nat) : Sys × Out := chanOp (readerChan (getS rt s) r) (.rmap (readerIdx r))
/-- client steps that start by taking the lock of stream `s`'s `sink.in` need it free -/
def lockOk (rt : RT) (s r : Nat) : Bool := r = 2 || sinkLockFree (getS rt s)
def monMapped (rt : RT) (s : Nat) : Bool := (getS rt s).monReg && ((getS rt s).sinkCh.rds.getD 1 {}).mapped
def notifyIf (rt : RT) (s r : Nat) : RT := if r = 2 then rt else modS rt s notifySink

def mapRead (rt : RT) (s : Nat) : Sys × Out :=
  if (getS rt s).monReg then chanOp (getS rt s).sinkCh (.rmap 1) else chanOp (getS rt s).sinkCh .join
def mapIdx (rt : RT) (s : Nat) : Nat :=
  if (getS rt s).monReg then (getS rt s).sinkCh.idx.getD 1 0 else (getS rt s).sinkCh.total - (getS rt s).sinkCh.c.head
def mapLine (rt : RT) (s : Nat) : String :=
  let o := (mapRead rt s).2
  let ids := (framesIn (getS rt s).sinkFrames (mapIdx rt s) (outLen o)).map (·.id)
  if outStatus o = 0 then s!"API map {s} -> ok bytes={outLen o} frames={",".intercalate (ids.map toString)}" else s!"API map {s} -> err"
def mapMoved (rt : RT) (s : Nat) : Bool := (getS rt s).monReg && moved (getS rt s).sinkCh (mapRead rt s).1
def unmapCount (rt : RT) (s : Nat) (nf : Option Nat) : Nat :=
  match nf with
  | none => rt.client.monLen.getD s 0
  | some n => min (rt.client.monLen.getD s 0) (n * (getS rt s).F)
def validMask (rt : RT) : Nat := (if (getS rt 0).valid then 1 else 0) + (if (getS rt 1).valid then 2 else 0)

def headOp (rt : RT) : Option COp := rt.client.prog.head?
/-- `filter.is_stopping = 1` for every valid stream (first loop of `acquire_start`'s error path) -/
def markFlt (st : Stream) : Stream := if st.valid then { st with fltStopping := true, sto := { st.sto with disturbed := true } } else st
def stopAllFilters (rt : RT) : RT := { rt with streams := rt.streams.map markFlt }

def popOp (rt : RT) : RT := { rt with client := { rt.client with prog := rt.client.prog.tail } }
def atPc (rt : RT) (pc : CPc) : Bool := rt.client.pc = pc

/-- the API call currently at the head of the program is … -/
def isOp (rt : RT) (op : COp) : Bool := rt.client.pc = .next && headOp rt = some op

def isStartAt (pc : CPc) : Option Nat := match pc with | .startAt s => some s | _ => none

/-- actions that do not depend on a stream index (or read it from the program counter) -/
def clientBase : List (Act RT) :=
  [ -- ---- fetch the next call ----
    { name := "cl.end", guard := fun rt => rt.client.pc = .next && rt.client.prog.isEmpty, upd := fun rt => setPc rt .done },
    { name := "cl.start", guard := fun rt => isOp rt .start && (getState rt).state ≠ .running, upd := fun rt => setPc (popOp (getState rt)) (.startAt 0) },
    -- an acquisition is in progress: the call is refused and that acquisition is left alone
    { name := "cl.start.refused", guard := fun rt => isOp rt .start && (getState rt).state = .running, upd := fun rt => popOp (getState rt),
      out := fun _ => ["API start -> err"] },
    { name := "cl.stop", guard := fun rt => isOp rt .stop,
      upd := fun rt => { (popOp rt) with client := { (popOp rt).client with pc := .stopAt 0, aborting := false } } },
    { name := "cl.abort", guard := fun rt => isOp rt .abort,
      upd := fun rt => { (popOp rt) with client := { (popOp rt).client with pc := .abortAt 0, aborting := true } } },
    { name := "cl.state", guard := fun rt => isOp rt .state, upd := fun rt => popOp (getState rt),
      out := fun rt => [s!"API state -> {(getState rt).state.name}"] }
  ] ++
  [ -- ---- acquire_unmap_read (one action per stream and argument form is generated by `unmapActs`) ----
    { name := "cl.unmap.notmapped",
      guard := fun rt => rt.client.pc = .next && (match headOp rt with | some (.unmap s _) => !monMapped rt s | _ => false),
      upd := fun rt => match headOp rt with
        | some (.unmap s _) => { (popOp rt) with client := { (popOp rt).client with monLen := rt.client.monLen.set s 0 } }
        | _ => rt,
      out := fun rt => match headOp rt with
        | some (.unmap s nf) => [s!"API unmap {s} {unmapCount rt s nf} -> ok"]
        | _ => [] },
    { name := "cl.unmap",
      guard := fun rt => rt.client.pc = .next && (match headOp rt with | some (.unmap s _) => monMapped rt s | _ => false),
      upd := fun rt => match headOp rt with
        | some (.unmap s nf) => setPc (popOp rt) (.unmapLock s (unmapCount rt s nf))
        | _ => rt },
    { name := "cl.sleep0", guard := fun rt => rt.client.pc = .next && (match headOp rt with | some (.sleep n) => n = 0 | _ => false),
      upd := fun rt => popOp rt },
    { name := "cl.sleep", guard := fun rt => rt.client.pc = .next && (match headOp rt with | some (.sleep n) => n > 0 | _ => false),
      upd := fun rt => match headOp rt with | some (.sleep n) => setPc (popOp rt) (.sleeping n) | _ => rt },
    { name := "cl.sleeping.more", guard := fun rt => (match rt.client.pc with | .sleeping n => n > 1 | _ => false),
      upd := fun rt => match rt.client.pc with | .sleeping n => setPc rt (.sleeping (n - 1)) | _ => rt },
    { name := "cl.sleeping.last", guard := fun rt => (match rt.client.pc with | .sleeping n => n ≤ 1 | _ => false),
      upd := fun rt => setPc rt .next },
    { name := "cl.unmap.body",
      guard := fun rt => (match rt.client.pc with | .unmapLock s _ => sinkLockFree (getS rt s) | _ => false),
      upd := fun rt => match rt.client.pc with
        | .unmapLock s k => { (modS rt s fun st => { st with sinkCh := (chanOp st.sinkCh (.runmap 1 k)).1 }) with
                              client := { rt.client with pc := .unmapNotify s, monLen := rt.client.monLen.set s 0,
                                                         pendingSay := s!"API unmap {s} {k} -> ok" } }
        | _ => rt },
    { name := "cl.configure",
      guard := fun rt => rt.client.pc = .next && (match headOp rt with | some (.configure _ _) => true | _ => false),
      upd := fun rt => match headOp rt with
        | some (.configure a b) => { (popOp rt) with client := { (popOp rt).client with pc := .cfgAt 0, cfgN := [a, b] } }
        | _ => rt }
  ]

/-- `acquire_map_read`, `acquire_unmap_read` and the monitoring loop of the harness, stream `s` -/
def clMon (s : Nat) : List (Act RT) :=
  [
    -- ---- acquire_map_read ----
    { name := "cl.map.mapped", guard := fun rt => isOp rt (.map s) && monMapped rt s, upd := fun rt => popOp rt,
      out := fun _ => [s!"API map {s} -> err"] },
    { name := "cl.map", guard := fun rt => isOp rt (.map s) && !monMapped rt s, upd := fun rt => setPc (popOp rt) (.mapLock s) },
    { name := "cl.map.body.moved", guard := fun rt => atPc rt (.mapLock s) && sinkLockFree (getS rt s) && mapMoved rt s,
      upd := fun rt => { (modS rt s fun st => { st with sinkCh := (mapRead rt s).1, monReg := true }) with
                          client := { rt.client with pc := .mapNotify s, monLen := rt.client.monLen.set s (outLen (mapRead rt s).2),
                                                     pendingSay := mapLine rt s } } },
    { name := "cl.map.body", guard := fun rt => atPc rt (.mapLock s) && sinkLockFree (getS rt s) && !mapMoved rt s,
      upd := fun rt => { (modS rt s fun st => { st with sinkCh := (mapRead rt s).1, monReg := true }) with
                          client := { rt.client with pc := .afterMap s, monLen := rt.client.monLen.set s (outLen (mapRead rt s).2) } },
      out := fun rt => [mapLine rt s] },
    { name := "cl.map.notify", guard := fun rt => atPc rt (.mapNotify s), upd := fun rt => setPc (modS rt s notifySink) (.afterMap s),
      out := fun rt => [rt.client.pendingSay] },
    -- after the map: an ordinary call returns; `monwait` unmaps everything (if anything) and sleeps
    { name := "cl.map.ret", guard := fun rt => atPc rt (.afterMap s) && !rt.client.inMonwait, upd := fun rt => setPc rt .next },
    { name := "cl.monwait.unmap", guard := fun rt => atPc rt (.afterMap s) && rt.client.inMonwait && decide (rt.client.monLen.getD s 0 > 0),
      upd := fun rt => setPc rt (.unmapLock s (rt.client.monLen.getD s 0)) },
    { name := "cl.monwait.empty", guard := fun rt => atPc rt (.afterMap s) && rt.client.inMonwait && decide (rt.client.monLen.getD s 0 = 0),
      upd := fun rt => setPc rt (.sleeping 1), out := fun _ => [s!"API unmap {s} 0 -> ok"] },
    -- ---- monwait: while (state == Running) { map; unmap all; sleep } ----
    { name := "cl.monwait.go", guard := fun rt => isOp rt (.monwait s) && (getState rt).state = .running && !monMapped rt s,
      upd := fun rt => { (getState rt) with client := { rt.client with pc := .mapLock s, inMonwait := true } } },
    -- the same while the client still holds a mapped region: a usage error (`channel_read_map` through a mapped reader)
    { name := "cl.monwait.go.mapped", guard := fun rt => isOp rt (.monwait s) && (getState rt).state = .running && monMapped rt s,
      upd := fun rt => { (getState rt) with client := { rt.client with pc := .mapLock s, inMonwait := true, misused := true } } },
    { name := "cl.monwait.end", guard := fun rt => isOp rt (.monwait s) && (getState rt).state ≠ .running,
      upd := fun rt => { (popOp (getState rt)) with client := { (popOp (getState rt)).client with inMonwait := false } },
      out := fun rt => [s!"API monwait {s} -> {(getState rt).state.name}"] },
    { name := "cl.unmap.notify", guard := fun rt => atPc rt (.unmapNotify s), upd := fun rt => setPc (modS rt s notifySink) (.afterUnmap s),
      out := fun rt => [rt.client.pendingSay] },
    { name := "cl.unmap.ret", guard := fun rt => atPc rt (.afterUnmap s) && !rt.client.inMonwait, upd := fun rt => setPc rt .next },
    { name := "cl.unmap.monwait", guard := fun rt => atPc rt (.afterUnmap s) && rt.client.inMonwait, upd := fun rt => setPc rt (.sleeping 1) }
  ]

/-- `acquire_configure` (same devices), stream `s` -/
def clCfg (s : Nat) : List (Act RT) :=
  [
    -- ---- acquire_configure (same devices), stream by stream ----
    { name := "cl.cfg.at", guard := fun rt => atPc rt (.cfgAt s) && (nextValid rt s).isSome, upd := fun rt => setPc rt (.cfgCamSet (nv rt s)) },
    { name := "cl.cfg.end", guard := fun rt => atPc rt (.cfgAt s) && (nextValid rt s).isNone,
      upd := fun rt => setPc { rt with state := if rt.state.code < 2 then .armed else rt.state } .next,
      out := fun rt => [s!"API configure -> ok valid={validMask rt} state={(getState { rt with state := if rt.state.code < 2 then .armed else rt.state }).state.name}"] },
    { name := "cl.cfg.camset", guard := fun rt => atPc rt (.cfgCamSet s),
      upd := fun rt => setPc (modS rt s fun st => { st with cam := { st.cam with state := if st.cam.state = .running then .running else .armed } }) (.cfgStoSet s),
      out := fun rt => [s!"DRV {camDev s} set {(getS rt s).setText} -> ok"] },
    { name := "cl.cfg.stoset", guard := fun rt => atPc rt (.cfgStoSet s),
      upd := fun rt => setPc (modS rt s fun st => { st with sto := { st.sto with state := .armed } }) (.cfgGetShape s),
      out := fun _ => [s!"DRV {stoDev s} set -> armed"] },
    { name := "cl.cfg.shape", guard := fun rt => atPc rt (.cfgGetShape s),
      upd := fun rt => setPc (modS rt s fun st => { st with maxFrames := rt.client.cfgN.getD s st.maxFrames, sto := { st.sto with disturbed := true } }) (.cfgAt (s + 1)) }
  ]

/-- `acquire_start`, stream `s` -/
def clStart (s : Nat) : List (Act RT) :=
  [
    -- ---- acquire_start, stream by stream ----
    { name := "cl.start.at", guard := fun rt => atPc rt (.startAt s) && (nextValid rt s).isSome, upd := fun rt => setPc rt (.stoStart (nv rt s)) },
    { name := "cl.start.end", guard := fun rt => atPc rt (.startAt s) && (nextValid rt s).isNone,
      upd := fun rt => setPc { rt with state := .running } .next, out := fun _ => ["API start -> ok"] },
    { name := "cl.start.sto", guard := fun rt => atPc rt (.stoStart s),
      upd := fun rt => setPc (modS rt s fun st => { st with sto := { st.sto with state := .running, run := st.sto.run + 1, nappend := 0, failed := false, log := [], base := st.sinkCh.total, appended := st.sinkCh.total, ncommit := 0, dropped := false, disturbed := false, drained := false, monFresh := st.monReg && decide (st.sinkCh.idx.getD 1 0 = st.sinkCh.total), clean := decide (st.sinkCh.idx.getD 0 0 = st.sinkCh.total) } })
                             (.accLock s true 0),
      out := fun rt => [s!"DRV {stoDev s} start run={(getS rt s).sto.run + 1} -> running"] },
    { name := "cl.start.snk", guard := fun rt => atPc rt (.createSnk s),
      upd := fun rt => { (modS rt s fun st => { st with tidSnk := rt.nthreads, snk := {}, fltStopping := false, fltRunning := true }) with
                          nthreads := rt.nthreads + 1, client := { rt.client with pc := .createFlt s } } },
    { name := "cl.start.flt", guard := fun rt => atPc rt (.createFlt s),
      upd := fun rt => { (modS rt s fun st => { st with tidFlt := rt.nthreads, flt := {} }) with
                          nthreads := rt.nthreads + 1, client := { rt.client with pc := .srcCheck s } } },
    -- video_source_start: the camera must be Armed
    { name := "cl.start.srccheck.ok", guard := fun rt => atPc rt (.srcCheck s) && (getS rt s).cam.state = .armed, upd := fun rt => setPc rt (.camStart s) },
    { name := "cl.start.srccheck.err", guard := fun rt => atPc rt (.srcCheck s) && (getS rt s).cam.state ≠ .armed,
      upd := fun rt => { (stopAllFilters rt) with client := { rt.client with pc := .abortAt 0, startFailed := true, aborting := false } } },
    { name := "cl.start.cam", guard := fun rt => atPc rt (.camStart s),
      upd := fun rt => setPc (modS rt s fun st => { st with cam := { st.cam with state := .running, run := st.cam.run + 1, frame := 0, ncalls := 0, drvStarts := st.cam.drvStarts + 1, failed := false }, srcStopping := false, srcRunning := true }) (.createSrc s),
      out := fun rt => [s!"DRV {camDev s} start run={(getS rt s).cam.run + 1} -> ok"] },
    { name := "cl.start.src", guard := fun rt => atPc rt (.createSrc s),
      upd := fun rt => { (modS rt s fun st => { st with tidSrc := rt.nthreads, src := {}, monFlushed := false }) with
                          nthreads := rt.nthreads + 1, client := { rt.client with pc := .startAt (s + 1) } } }
  ]

/-- `acquire_start`'s error path -/
def clErr (s : Nat) : List (Act RT) :=
  [
    -- acquire_start's error path: tell every valid stream's filter to stop, acquire_abort (which ends in acquire_stop), and
    -- only then camera_stop for every valid stream (the HAL calls the driver only if the camera is still Running)
    { name := "cl.starterr.at.running", guard := fun rt => atPc rt (.startErr s) && (nextValid rt s).isSome && (getS rt (nv rt s)).cam.state = .running,
      upd := fun rt => setPc rt (.errCamStop (nv rt s)) },
    { name := "cl.starterr.at.idle", guard := fun rt => atPc rt (.startErr s) && (nextValid rt s).isSome && (getS rt (nv rt s)).cam.state ≠ .running,
      upd := fun rt => setPc rt (.startErr (nv rt s + 1)) },
    { name := "cl.starterr.end", guard := fun rt => atPc rt (.startErr s) && (nextValid rt s).isNone,
      upd := fun rt => { rt with state := .awaiting, client := { rt.client with pc := .next, startFailed := false } },
      out := fun _ => ["API start -> err"] },
    { name := "cl.starterr.camstop", guard := fun rt => atPc rt (.errCamStop s),
      upd := fun rt => setPc (modS rt s fun st => { st with cam := { st.cam with state := .armed, drvStops := st.cam.drvStops + 1 } }) (.startErr (s + 1)),
      out := fun _ => [s!"DRV {camDev s} stop -> ok"] }
  ]

/-- `acquire_abort`'s first loop and `acquire_stop`'s joins, stream `s` -/
def clStop (s : Nat) : List (Act RT) :=
  [
    -- ---- acquire_abort: per valid stream: source.is_stopping = 1; refuse writes; trigger; then acquire_stop ----
    { name := "cl.abort.at", guard := fun rt => atPc rt (.abortAt s) && (nextValid rt s).isSome,
      upd := fun rt => setPc (modS rt (nv rt s) fun st => { st with srcStopping := true, sto := { st.sto with disturbed := true } }) (.accLock (nv rt s) false 1) },
    { name := "cl.abort.end", guard := fun rt => atPc rt (.abortAt s) && (nextValid rt s).isNone, upd := fun rt => setPc rt (.stopAt 0) },
    -- ---- acquire_stop, stream by stream ----
    { name := "cl.stop.at", guard := fun rt => atPc rt (.stopAt s) && (nextValid rt s).isSome, upd := fun rt => setPc rt (.joinSrc (nv rt s)) },
    { name := "cl.stop.end.err", guard := fun rt => atPc rt (.stopAt s) && (nextValid rt s).isNone && rt.client.startFailed,
      upd := fun rt => setPc { rt with state := .armed } (.startErr 0) },
    { name := "cl.stop.end", guard := fun rt => atPc rt (.stopAt s) && (nextValid rt s).isNone && !rt.client.startFailed,
      upd := fun rt => { rt with state := .armed, client := { rt.client with pc := .next, aborting := false } },
      out := fun rt => [if rt.client.aborting then "API abort -> ok" else "API stop -> ok"] },
    { name := "cl.join.src", guard := fun rt => atPc rt (.joinSrc s) && (getS rt s).src.pc = .done, upd := fun rt => setPc rt (.joinFlt s) },
    { name := "cl.join.flt", guard := fun rt => atPc rt (.joinFlt s) && (getS rt s).flt.pc = .done, upd := fun rt => setPc rt (.joinSnk s) },
    { name := "cl.join.snk", guard := fun rt => atPc rt (.joinSnk s) && (getS rt s).snk.pc = .done, upd := fun rt => setPc rt (.accLock s true 2) }
  ]

/-- `channel_accept_writes(sink.in of s, v)` and what follows it -/
def clAcc (s : Nat) : List (Act RT) :=
  [
    -- channel_accept_writes(sink.in, v) and what follows it
    { name := "cl.acc.t0", guard := fun rt => atPc rt (.accLock s true 0) && sinkLockFree (getS rt s),
      upd := fun rt => setPc (modS rt s fun st => { st with sinkCh := (chanOp st.sinkCh (.accept true)).1 }) (.accNotify s 0) },
    { name := "cl.acc.f1", guard := fun rt => atPc rt (.accLock s false 1) && sinkLockFree (getS rt s),
      upd := fun rt => setPc (modS rt s fun st => { st with sinkCh := (chanOp st.sinkCh (.accept false)).1 }) (.accNotify s 1) },
    { name := "cl.acc.t2", guard := fun rt => atPc rt (.accLock s true 2) && sinkLockFree (getS rt s),
      upd := fun rt => setPc (modS rt s fun st => { st with sinkCh := (chanOp st.sinkCh (.accept true)).1 }) (.accNotify s 2) },
    { name := "cl.acc.notify.start", guard := fun rt => atPc rt (.accNotify s 0),
      upd := fun rt => setPc (modS rt s fun st => { (notifySink st) with snkStopping := false, snkRunning := true }) (.createSnk s) },
    { name := "cl.acc.notify.abort", guard := fun rt => atPc rt (.accNotify s 1),
      upd := fun rt => setPc (modS rt s notifySink) (.abortAt (s + 1)),
      out := fun rt => if (getS rt s).cam.state = .running then [s!"DRV {camDev s} trigger -> ok"] else [] },
    { name := "cl.acc.notify.stop", guard := fun rt => atPc rt (.accNotify s 2), upd := fun rt => setPc (modS rt s notifySink) (.flushAt s 2) }
  ]

/-- actions of the client concerning stream `s` -/
def clientPerStream (s : Nat) : List (Act RT) :=
  clMon s ++ clCfg s ++ clStart s ++ clErr s ++ clStop s ++ clAcc s

/-- `flush_reader` for reader `r` of stream `s`: 2 = the filter's on `filter.in`, 0 = the sink's and 1 = the monitor's on `sink.in` -/
def clientFlush (s r : Nat) : List (Act RT) :=
  [
    -- the monitor is flushed only if registered; a region the client still has mapped is released first
    { name := "cl.flush.skip", guard := fun rt => atPc rt (.flushAt s r) && r = 1 && !(getS rt s).monReg, upd := fun rt => setPc rt (.flushed s r) },
    { name := "cl.flush.pre", guard := fun rt => atPc rt (.flushAt s r) && r = 1 && monMapped rt s, upd := fun rt => setPc rt (.flushUnmapLock s r true) },
    { name := "cl.flush.go", guard := fun rt => atPc rt (.flushAt s r) && !(r = 1 && !(getS rt s).monReg) && !(r = 1 && monMapped rt s),
      upd := fun rt => setPc rt (.flushRmapLock s r) },
    { name := "cl.flush.read.moved", guard := fun rt => atPc rt (.flushRmapLock s r) && lockOk rt s r && moved (readerChan (getS rt s) r) (flushRead rt s r).1,
      upd := fun rt => { (modS rt s fun st => setReaderChan st r (flushRead rt s r).1) with
                          client := { rt.client with pc := .flushRmapNotify s r, flushLen := outLen (flushRead rt s r).2 } } },
    { name := "cl.flush.read", guard := fun rt => atPc rt (.flushRmapLock s r) && lockOk rt s r && !moved (readerChan (getS rt s) r) (flushRead rt s r).1,
      upd := fun rt => { (modS rt s fun st => setReaderChan st r (flushRead rt s r).1) with
                          client := { rt.client with pc := .flushAfterRead s r, flushLen := outLen (flushRead rt s r).2 } } },
    { name := "cl.flush.read.notify", guard := fun rt => atPc rt (.flushRmapNotify s r), upd := fun rt => setPc (notifyIf rt s r) (.flushAfterRead s r) },
    { name := "cl.flush.more", guard := fun rt => atPc rt (.flushAfterRead s r) && decide (rt.client.flushLen > 0), upd := fun rt => setPc rt (.flushUnmapLock s r false) },
    { name := "cl.flush.empty", guard := fun rt => atPc rt (.flushAfterRead s r) && decide (rt.client.flushLen = 0),
      upd := fun rt => setPc (modS rt s fun st => { st with monFlushed := st.monFlushed || decide (r = 1) }) (.flushed s r) },
    { name := "cl.flush.unmap", guard := fun rt => atPc rt (.flushUnmapLock s r false) && lockOk rt s r,
      upd := fun rt => setPc (modS rt s fun st => setReaderChan st r (chanOp (readerChan st r) (.runmap (readerIdx r) rt.client.flushLen)).1) (.flushUnmapNotify s r false) },
    { name := "cl.flush.preunmap", guard := fun rt => atPc rt (.flushUnmapLock s r true) && lockOk rt s r,
      upd := fun rt => setPc (modS rt s fun st => setReaderChan st r (chanOp (readerChan st r) (.runmap (readerIdx r) 0)).1) (.flushUnmapNotify s r true) },
    { name := "cl.flush.unmap.notify", guard := fun rt => atPc rt (.flushUnmapNotify s r false) || atPc rt (.flushUnmapNotify s r true),
      upd := fun rt => setPc (notifyIf rt s r) (.flushRmapLock s r) },
    -- next reader (2 → 0 → 1), then the next stream
    { name := "cl.flushed", guard := fun rt => atPc rt (.flushed s r),
      upd := fun rt => setPc rt (if r = 2 then .flushAt s 0 else if r = 0 then .flushAt s 1 else .stopAt (s + 1)) }
  ]

/-- all actions of the client; the output lines are what the harness prints when a call returns -/
def clientActs : List (Act RT) :=
  clientBase ++ ([0, 1, 2] : List Nat).flatMap clientPerStream ++
  ([0, 1, 2] : List Nat).flatMap fun s => ([2, 0, 1] : List Nat).flatMap (clientFlush s)

def clientParked (rt : RT) : Bool :=
  match rt.client.pc with
  | .next | .startAt _ | .srcCheck _ | .startErr _ | .abortAt _ | .stopAt _ | .flushAt .. | .flushAfterRead .. | .flushed ..
  | .cfgAt _ | .afterMap _ | .afterUnmap _ => false
  | _ => true

def clientStep (rt : RT) : Option (RT × List String) :=
  stepThread clientActs clientParked (rt.client.prog.length + 12) rt

/-- the client is already running when the window opens: run it to its first parking point -/
def clientBoot (rt : RT) : RT × List String :=
  settleT clientActs clientParked (rt.client.prog.length + 12) (rt, [])

/-! ## the whole system -/

/-- which thread has tid `t`? -/
def whoIs (rt : RT) (t : Nat) : Option (Nat × Role) :=
  if t = 0 then none else
  (List.range rt.streams.length).findSome? fun s =>
    let st := getS rt s
    if st.tidSnk = t then some (s, Role.sink) else if st.tidFlt = t then some (s, Role.filter)
    else if st.tidSrc = t then some (s, Role.source) else none

/-- one scheduler step of thread `t`; `none` = not enabled / no such thread -/
def rtStep (rt : RT) (t : Nat) : Option (RT × List String) :=
  if t = 0 then clientStep rt else
  match whoIs rt t with
  | none => none
  | some (s, .source) => (srcStep s (getS rt s)).map fun (st, o) => (setS rt s st, o)
  | some (s, .sink) => (snkStep s (getS rt s)).map fun (st, o) => (setS rt s st, o)
  | some (s, .filter) => (fltStep (getS rt s)).map fun (st, o) => (setS rt s st, o)

end AcqVerif.Runtime
