import AcqVerif.Runtime.CamInv
/-! # M1 — `CamOk` is kept by the client actions (clStart, clErr) -/
namespace AcqVerif.Runtime
open AcqVerif.Channel

set_option maxHeartbeats 8000000 in
theorem CamOk.client_start (s0 : Nat) : ∀ a ∈ clStart s0, CamOk.Kept a := by
  intro a ha rt hT hg h s'
  have t1 := (hT s').start_src; have t2 := (hT s').after_err_stop; have t3 := (hT s').pending
  have hnv := nv_spec rt s0
  have hnn := nv_none rt s0
  obtain ⟨k1, k2, k3, k4, k5, k6, k7, k8, k9⟩ := h s'
  unfold clStart at ha
  each_action ha
  client_expose
  all_goals (try (simp only [isOp, atPc, notifySink, setReaderChan, Bool.and_eq_true, Bool.or_eq_true, decide_eq_true_eq, Bool.not_eq_true', ne_eq] at hg ⊢))
  all_goals (try (simp at hg; done))
  all_goals (repeat' split)
  all_goals constructor
  all_goals (first | assumption | (unfold AllDone at *; grind [stage, pendingFrom, afterErrStop]))

set_option maxHeartbeats 8000000 in
theorem CamOk.client_err (s0 : Nat) : ∀ a ∈ clErr s0, CamOk.Kept a := by
  intro a ha rt hT hg h s'
  have t1 := (hT s').start_src; have t2 := (hT s').after_err_stop; have t3 := (hT s').pending
  have hnv := nv_spec rt s0
  have hnn := nv_none rt s0
  obtain ⟨k1, k2, k3, k4, k5, k6, k7, k8, k9⟩ := h s'
  unfold clErr at ha
  each_action ha
  client_expose
  all_goals (try (simp only [isOp, atPc, notifySink, setReaderChan, Bool.and_eq_true, Bool.or_eq_true, decide_eq_true_eq, Bool.not_eq_true', ne_eq] at hg ⊢))
  all_goals (try (simp at hg; done))
  all_goals (repeat' split)
  all_goals constructor
  all_goals (first | assumption | (unfold AllDone at *; grind [stage, pendingFrom, afterErrStop]))

end AcqVerif.Runtime
