import AcqVerif.Runtime.Cam.A
import AcqVerif.Runtime.Cam.B
import AcqVerif.Runtime.Cam.C
/-! # M1 — `CamOk` and `StoOk` hold in every state any schedule reaches (micro-steps included) -/
namespace AcqVerif.Runtime
open AcqVerif.Channel

theorem CamOk.init (ring : Nat) (c : Option StreamCfg) (prog : List COp) (s : Nat) : CamOk s (initStream ring c) { prog := prog } := by
  cases c <;> (constructor <;> simp [initStream, stage])

theorem CamOk.default (prog : List COp) (s : Nat) : CamOk s {} { prog := prog } := by
  constructor <;> simp [stage]

theorem CamOk.micro : ∀ rt, MReach rt → ∀ s, CamOk s (getS rt s) rt.client := by
  apply MReach.inv' (fun rt => ∀ s, CamOk s (getS rt s) rt.client)
  · intro ring cfgs prog s
    rw [getS_initRT]
    split
    · exact CamOk.init ring _ prog s
    · exact CamOk.default prog s
  · intro s a ha rt hr hg h
    exact all_setS_cl CamOk rt s _ (CamOk.src s rt.client rt.state a ha _ hg (TInvAll.micro rt hr s) (h s)) h
  · intro s a ha rt _ hg h; exact all_setS_cl CamOk rt s _ (CamOk.flt s rt.client a ha _ hg (h s)) h
  · intro s a ha rt _ hg h; exact all_setS_cl CamOk rt s _ (CamOk.snk s rt.client a ha _ hg (h s)) h
  · intro a ha rt hr hg h
    exact client_families CamOk.Kept CamOk.client_base CamOk.client_mon CamOk.client_cfg CamOk.client_start CamOk.client_err
      CamOk.client_stop CamOk.client_acc (fun s r _ => CamOk.client_flush s r) a ha rt (TInvAll.micro rt hr) hg h

theorem StoOk.micro : ∀ rt, MReach rt → ∀ s, StoOk (getS rt s) := by
  apply MReach.inv (fun rt => ∀ s, StoOk (getS rt s))
  · intro ring cfgs prog s
    rw [getS_initRT]; split
    · rename_i h; cases cfgs[s] <;> exact ⟨by simp [initStream], by simp [initStream], by simp [initStream]⟩
    · exact ⟨by simp, by simp, by simp⟩
  · intro s a ha rt hg h; exact all_setS StoOk rt s _ (StoOk.src s a ha _ hg (h s)) h
  · intro s a ha rt hg h; exact all_setS StoOk rt s _ (StoOk.flt a ha _ hg (h s)) h
  · intro s a ha rt hg h; exact all_setS StoOk rt s _ (StoOk.snk s a ha _ hg (h s)) h
  · exact StoOk.client

end AcqVerif.Runtime
