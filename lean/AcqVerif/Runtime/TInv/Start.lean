import AcqVerif.Runtime.TInv.Support
/-! # M1 — the thread invariant `TInv` is kept by the client actions in `clStart` -/
namespace AcqVerif.Runtime
open AcqVerif.Channel

set_option maxHeartbeats 8000000 in
theorem TInv.client_start (s0 : Nat) : ∀ a ∈ clStart s0, TInv.Kept a := by
  intro a ha rt hg h s'
  have hal := alive_false rt
  have hnv := nv_spec rt s0
  have hnn := nv_none rt s0
  have hnv1 := nv_spec rt (s0 + 1)
  have hnn1 := nv_none rt (s0 + 1)
  have hs0 := h s0
  have hsn := h (nv rt s0)
  obtain ⟨i0, f1, f2, f3, d1, d2, d3, s1, s2, s3, sv, g4, g5, g8, p, jb, j1, j2, j3, ae, q, nr, c1, c2, c3⟩ := h s'
  unfold clStart at ha
  each_action ha
  client_expose
  all_goals (try (simp only [isOp, atPc, notifySink, setReaderChan, Bool.and_eq_true, Bool.or_eq_true, decide_eq_true_eq, Bool.not_eq_true', ne_eq] at hg ⊢))
  all_goals (try (simp at hg; done))
  all_goals (repeat' split)
  all_goals constructor
  all_goals (first | assumption | (unfold AllDone at *; grind [stage, pendingFrom, stopStage, stopBelow, afterErrStop, inAbort, quiet, snkLeaving, DevState.code]))

end AcqVerif.Runtime
