import AcqVerif.Runtime.TInv.Workers
import AcqVerif.Runtime.TInv.Base
import AcqVerif.Runtime.TInv.Mon
import AcqVerif.Runtime.TInv.Cfg
import AcqVerif.Runtime.TInv.Start
import AcqVerif.Runtime.TInv.Err
import AcqVerif.Runtime.TInv.Stop
import AcqVerif.Runtime.TInv.Acc
import AcqVerif.Runtime.TInv.Flush
/-!
# M1 — the thread invariant holds in every state any schedule reaches, micro-steps included
-/
namespace AcqVerif.Runtime
open AcqVerif.Channel

/-- states reached by firing one enabled action of one thread at a time (finer than scheduler steps: a scheduler step
of the model is a burst of such firings of one thread) -/
inductive MReach : RT → Prop
  | init (ring : Nat) (cfgs : List (Option StreamCfg)) (prog : List COp) : MReach (initRT ring cfgs prog)
  | client (rt : RT) (a : Act RT) : MReach rt → a ∈ clientActs → a.guard rt = true → MReach (a.upd rt)
  | src (rt : RT) (s : Nat) (a : Act Stream) : MReach rt → a ∈ srcActs s → a.guard (getS rt s) = true → MReach (setS rt s (a.upd (getS rt s)))
  | flt (rt : RT) (s : Nat) (a : Act Stream) : MReach rt → a ∈ fltActs → a.guard (getS rt s) = true → MReach (setS rt s (a.upd (getS rt s)))
  | snk (rt : RT) (s : Nat) (a : Act Stream) : MReach rt → a ∈ snkActs s → a.guard (getS rt s) = true → MReach (setS rt s (a.upd (getS rt s)))

/-- every state at a scheduler-step boundary is a micro-step state -/
theorem Reach.micro : ∀ rt, Reach rt → MReach rt :=
  Reach.inv MReach (fun ring cfgs prog => .init ring cfgs prog)
    (fun s a ha rt hg h => .src rt s a h ha hg) (fun s a ha rt hg h => .flt rt s a h ha hg)
    (fun s a ha rt hg h => .snk rt s a h ha hg) (fun a ha rt hg h => .client rt a h ha hg)

theorem MReach.inv (I : RT → Prop)
    (h0 : ∀ ring cfgs prog, I (initRT ring cfgs prog))
    (hsrc : ∀ s, ∀ a ∈ srcActs s, ∀ rt, a.guard (getS rt s) = true → I rt → I (setS rt s (a.upd (getS rt s))))
    (hflt : ∀ s, ∀ a ∈ fltActs, ∀ rt, a.guard (getS rt s) = true → I rt → I (setS rt s (a.upd (getS rt s))))
    (hsnk : ∀ s, ∀ a ∈ snkActs s, ∀ rt, a.guard (getS rt s) = true → I rt → I (setS rt s (a.upd (getS rt s))))
    (hcl : ∀ a ∈ clientActs, ∀ rt, a.guard rt = true → I rt → I (a.upd rt)) :
    ∀ rt, MReach rt → I rt := by
  intro rt h
  induction h with
  | init ring cfgs prog => exact h0 ring cfgs prog
  | client rt a _ ha hg ih => exact hcl a ha rt hg ih
  | src rt s a _ ha hg ih => exact hsrc s a ha rt hg ih
  | flt rt s a _ ha hg ih => exact hflt s a ha rt hg ih
  | snk rt s a _ ha hg ih => exact hsnk s a ha rt hg ih

/-- the thread invariant, for all streams -/
def TInvAll (rt : RT) : Prop := ∀ s, TInv s (getS rt s) rt.client rt.state

theorem TInvAll.worker (rt : RT) (s : Nat) (st : Stream) (h : TInvAll rt)
    (hst : TInv s st rt.client rt.state) : TInvAll (setS rt s st) := by
  intro s'
  have hc : (setS rt s st).client = rt.client := rfl
  have hr : (setS rt s st).state = rt.state := rfl
  rw [hc, hr]
  by_cases e : s = s'
  · subst e
    by_cases hl : s < rt.streams.length
    · rw [getS_setS_same _ _ _ hl]; exact hst
    · have : setS rt s st = rt := by unfold setS; rw [List.set_eq_of_length_le (Nat.le_of_not_lt hl)]
      rw [this]; exact h s
  · rw [getS_setS_other _ _ _ _ e]; exact h s'

theorem TInv.init (ring : Nat) (c : Option StreamCfg) (prog : List COp) (s : Nat) :
    TInv s (initStream ring c) { prog := prog } .armed := by
  cases c <;> (constructor <;> simp [initStream, AllDone, stage, pendingFrom, stopStage, stopBelow, afterErrStop, snkLeaving, quiet, inAbort])

theorem TInv.default (prog : List COp) (s : Nat) : TInv s {} { prog := prog } .armed := by
  constructor <;> simp [AllDone, stage, pendingFrom, stopStage, stopBelow, afterErrStop, snkLeaving, quiet, inAbort]

/-- **Threads, flags and devices agree in every state of every schedule** -/
theorem TInvAll.micro : ∀ rt, MReach rt → TInvAll rt := by
  apply MReach.inv TInvAll
  · intro ring cfgs prog s
    rw [getS_initRT]
    split
    · exact TInv.init ring _ prog s
    · exact TInv.default prog s
  · intro s a ha rt hg h; exact TInvAll.worker rt s _ h (TInv.src s rt.client rt.state a ha _ hg (h s))
  · intro s a ha rt hg h; exact TInvAll.worker rt s _ h (TInv.flt s rt.client rt.state a ha _ hg (h s))
  · intro s a ha rt hg h; exact TInvAll.worker rt s _ h (TInv.snk s rt.client rt.state a ha _ hg (h s))
  · exact client_families TInv.Kept TInv.client_base TInv.client_mon TInv.client_cfg TInv.client_start TInv.client_err
      TInv.client_stop TInv.client_acc (fun s r _ => TInv.client_flush s r)

theorem TInvAll.reach (rt : RT) (h : Reach rt) : TInvAll rt := TInvAll.micro rt (Reach.micro rt h)

end AcqVerif.Runtime
