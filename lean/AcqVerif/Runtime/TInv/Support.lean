import AcqVerif.Runtime.Phase
/-! # M1 — facts about `nextValid` / `alive` used by the thread invariant -/
namespace AcqVerif.Runtime
open AcqVerif.Channel

theorem nextValid_some (rt : RT) (k j : Nat) (h : nextValid rt k = some j) :
    k ≤ j ∧ (getS rt j).valid = true ∧ ∀ i, k ≤ i → i < j → (getS rt i).valid = false := by
  unfold nextValid at h
  have hmem := List.mem_of_mem_head? (by rw [h]; rfl : j ∈ (List.filter (fun i => decide (i ≥ k) && (getS rt i).valid) (List.range rt.streams.length)).head?)
  simp only [List.mem_filter, List.mem_range, Bool.and_eq_true, decide_eq_true_eq] at hmem
  refine ⟨hmem.2.1, hmem.2.2, ?_⟩
  intro i hki hij
  cases hv' : (getS rt i).valid with
  | false => rfl
  | true =>
  exfalso
  -- i would come before j in the filtered range
  have hi : i < rt.streams.length := Nat.lt_trans hij hmem.1
  have := List.head?_eq_some_iff.mp h
  obtain ⟨tl, htl⟩ := this
  have hsorted : (List.filter (fun i => decide (i ≥ k) && (getS rt i).valid) (List.range rt.streams.length)).Pairwise (· < ·) :=
    List.Pairwise.filter _ (List.pairwise_lt_range)
  rw [htl] at hsorted
  have himem : i ∈ j :: tl := by
    rw [← htl]; simp only [List.mem_filter, List.mem_range, Bool.and_eq_true, decide_eq_true_eq]; exact ⟨hi, hki, hv'⟩
  rcases List.mem_cons.mp himem with e | e
  · omega
  · have := List.rel_of_pairwise_cons hsorted e; omega

theorem nextValid_none (rt : RT) (k : Nat) (h : nextValid rt k = none) : ∀ i, k ≤ i → (getS rt i).valid = false := by
  intro i hki
  by_cases hi : i < rt.streams.length
  · unfold nextValid at h
    rw [List.head?_eq_none_iff] at h
    cases hv' : (getS rt i).valid with
    | false => rfl
    | true =>
    exfalso
    have : i ∈ List.filter (fun i => decide (i ≥ k) && (getS rt i).valid) (List.range rt.streams.length) := by
      simp only [List.mem_filter, List.mem_range, Bool.and_eq_true, decide_eq_true_eq]; exact ⟨hi, hki, hv'⟩
    rw [h] at this; cases this
  · unfold getS; simp [List.getD, List.getElem?_eq_none (Nat.le_of_not_lt hi)]

theorem nv_spec (rt : RT) (k : Nat) (h : (nextValid rt k).isSome = true) :
    k ≤ nv rt k ∧ (getS rt (nv rt k)).valid = true ∧ ∀ i, k ≤ i → i < nv rt k → (getS rt i).valid = false := by
  obtain ⟨j, hj⟩ := Option.isSome_iff_exists.mp h
  have := nextValid_some rt k j hj
  unfold nv; rw [hj]; exact this

theorem nv_none (rt : RT) (k : Nat) (h : (nextValid rt k).isNone = true) : ∀ i, k ≤ i → (getS rt i).valid = false :=
  nextValid_none rt k (by simpa using h)
theorem alive_false (rt : RT) (h : alive rt = false) (s : Nat) :
    (getS rt s).valid = true → (getS rt s).srcRunning = false ∧ (getS rt s).fltRunning = false ∧ (getS rt s).snkRunning = false := by
  intro hv
  unfold alive at h
  unfold getS at *
  by_cases hl : s < rt.streams.length
  · have hm : rt.streams[s] ∈ rt.streams := List.getElem_mem hl
    have := List.any_eq_false.mp h _ hm
    simp [List.getD, hl] at hv ⊢
    simp_all
  · simp [List.getD, List.getElem?_eq_none (Nat.le_of_not_lt hl)] at hv


/-- the statement each client family has to establish -/
def TInv.Kept (a : Act RT) : Prop :=
  ∀ rt, a.guard rt = true → (∀ s, TInv s (getS rt s) rt.client rt.state) →
    ∀ s, TInv s (getS (a.upd rt) s) (a.upd rt).client (a.upd rt).state

end AcqVerif.Runtime
