import AcqVerif.Runtime.TInv.Support
/-! # M1 — the thread invariant `TInv` is kept by every action of the worker threads -/
namespace AcqVerif.Runtime
open AcqVerif.Channel

set_option maxHeartbeats 4000000 in
theorem TInv.src (s : Nat) (cl : Client) (rs : DevState) : ∀ a ∈ srcActs s, ∀ st, a.guard st = true → TInv s st cl rs → TInv s (a.upd st) cl rs := by
  intro a ha st hg h
  obtain ⟨i0, f1, f2, f3, d1, d2, d3, s1, s2, s3, sv, g4, g5, g8, p, jb, j1, j2, j3, ae, q, nr, c1, c2, c3⟩ := h
  unfold srcActs at ha
  each_action ha
  all_goals (simp only [setSrcPc, atWmap, Bool.and_eq_true, Bool.or_eq_true, decide_eq_true_eq, Bool.not_eq_true', bne_iff_ne, ne_eq, beq_iff_eq] at hg ⊢)
  all_goals constructor
  all_goals (first | assumption | (unfold AllDone at *; grind))
set_option maxHeartbeats 4000000 in
theorem TInv.flt (s : Nat) (cl : Client) (rs : DevState) : ∀ a ∈ fltActs, ∀ st, a.guard st = true → TInv s st cl rs → TInv s (a.upd st) cl rs := by
  intro a ha st hg h
  obtain ⟨i0, f1, f2, f3, d1, d2, d3, s1, s2, s3, sv, g4, g5, g8, p, jb, j1, j2, j3, ae, q, nr, c1, c2, c3⟩ := h
  unfold fltActs at ha
  each_action ha
  all_goals (simp only [setFltPc, Bool.and_eq_true, Bool.or_eq_true, decide_eq_true_eq, Bool.not_eq_true', ne_eq] at hg ⊢)
  all_goals constructor
  all_goals (first | assumption | (unfold AllDone at *; grind))
set_option maxHeartbeats 4000000 in
theorem TInv.snk (s : Nat) (cl : Client) (rs : DevState) : ∀ a ∈ snkActs s, ∀ st, a.guard st = true → TInv s st cl rs → TInv s (a.upd st) cl rs := by
  intro a ha st hg h
  obtain ⟨i0, f1, f2, f3, d1, d2, d3, s1, s2, s3, sv, g4, g5, g8, p, jb, j1, j2, j3, ae, q, nr, c1, c2, c3⟩ := h
  unfold snkActs at ha
  each_action ha
  all_goals (simp only [setSnkPc, notifySink, Bool.and_eq_true, Bool.or_eq_true, decide_eq_true_eq, Bool.not_eq_true', ne_eq] at hg ⊢)
  all_goals constructor
  all_goals (first | assumption | (unfold AllDone snkLeaving at *; grind))

end AcqVerif.Runtime
