import AcqVerif.Channel.Sys
/-!
# M1 — the data path of the runtime as an interleaving model, in guarded-command form

One state machine per thread (client, and per stream: source, filter, sink) whose *parking* states
are the parking points of the real threads on the deterministic scheduler — every synchronisation
call (`lock_acquire`, `condition_variable_wait` entry, sleeping, re-acquire, `notify_all`,
`thread_create`, `thread_join`, `clock_sleep_ms`) and every entry of a driver function — and whose
transitions transcribe the C between two parking points (`source.c`, `sink.c`, `filter.c`,
`acquire.c`, the HAL wrappers `camera.c`/`storage.c`).

A thread program is a list of **actions** `(guard, update, output)`.  One scheduler step of a thread
fires the enabled action at its parking point and then keeps firing actions while the thread is at a
*transient* program counter (the places where the C takes a decision — loop tests, error exits —
without reaching a synchronisation call), so every update is a plain record update.
Channels are the byte-level model of `channel.c` (`Channel.Sys`), one operation body per action
(every body runs under the channel lock).

Devices are the scripted mock driver of the harness (frames identified by `(run, hw index)`, faults
at scripted call indices).  `sinkFrames` is ghost state: which frame occupies which bytes of the
stream committed to `sink.in`.

Scope: frame averaging off (the filter thread runs, polls and forwards the stop signal), software
trigger off, write delay 0.  Init / shutdown are not stepped; `acquire_configure` with the same
devices is.
-/
namespace AcqVerif.Runtime
open AcqVerif.Channel

/-! ## guarded commands -/

structure Act (σ : Type) where
  name : String
  guard : σ → Bool
  upd : σ → σ
  out : σ → List String := fun _ => []

/-- fire the first enabled action -/
def fire {σ : Type} (acts : List (Act σ)) (x : σ) : Option (σ × List String) :=
  (acts.find? (·.guard x)).map fun a => (a.upd x, a.out x)

/-- keep firing while the thread is at a transient program counter -/
def settleT {σ : Type} (acts : List (Act σ)) (parked : σ → Bool) : Nat → σ × List String → σ × List String
  | 0, r => r
  | n + 1, (y, o) =>
    if parked y then (y, o) else
    match fire acts y with
    | none => (y, o)
    | some (z, o') => settleT acts parked n (z, o ++ o')

/-- one scheduler step of a thread; `none` = not enabled -/
def stepThread {σ : Type} (acts : List (Act σ)) (parked : σ → Bool) (fuel : Nat) (x : σ) : Option (σ × List String) :=
  match fire acts x with
  | none => none
  | some r => some (settleT acts parked fuel r)

/-! ## state -/

inductive DevState where
  | closed | awaiting | armed | running
deriving DecidableEq, Repr, Inhabited

def DevState.code : DevState → Nat
  | .closed => 0 | .awaiting => 1 | .armed => 2 | .running => 3

def DevState.name : DevState → String
  | .closed => "Closed" | .awaiting => "AwaitingConfiguration" | .armed => "Armed" | .running => "Running"

structure Frame where
  run : Nat      -- run ordinal of the camera that produced it
  id : Nat       -- `frame_id` assigned by the source
  hw : Nat       -- `hardware_frame_id` = index in the camera's delivery order
deriving DecidableEq, Repr, Inhabited

/-- HAL camera + mock camera device -/
structure Cam where
  state : DevState := .armed
  run : Nat := 0
  frame : Nat := 0            -- next hardware frame index of this run
  ncalls : Nat := 0           -- `get_frame` calls in this run
  failAt : Option Nat := none -- call index (of run 1) at which `get_frame` fails
  failPersistent : Bool := false
  emptyEvery : Nat := 0       -- every n-th call returns 0 bytes
  drvStarts : Nat := 0        -- driver `start` / `stop` calls (ghost)
  drvStops : Nat := 0
  failed : Bool := false      -- a `get_frame` of the current run has failed (ghost)
  callsAfterFailure : Nat := 0   -- ghost: `get_frame` calls that reached the driver after a failed one
deriving Repr, Inhabited

/-- HAL storage + mock storage device -/
structure Sto where
  state : DevState := .armed
  run : Nat := 0
  nappend : Nat := 0
  failAt : Option Nat := none
  failPersistent : Bool := false
  failed : Bool := false
  log : List Frame := []      -- frames stored in the current run (ghost, = what the mock records)
  base : Nat := 0             -- ghost: bytes committed to `sink.in` when this run of the storage was started
  clean : Bool := true        -- ghost: the sink's reader had consumed everything at that moment
  monFresh : Bool := false    -- ghost: … and so had the (registered) monitor reader
  ncommit : Nat := 0          -- ghost: frames committed to `sink.in` since this run of the storage was started
  dropped : Bool := false     -- ghost: a frame of this run was not committed because the channel refused writes
  disturbed : Bool := false   -- ghost: this run was aborted, hit a storage failure, a failed start or a re-configuration
  drained : Bool := false     -- ghost: the sink ended this run normally (an empty read in its final flush, storage still Running)
  appended : Nat := 0         -- ghost: stream position up to which the frames of `sink.in` have been appended in this run
  appendsAfterFailure : Nat := 0   -- ghost: appends that reached the driver after a failed one
deriving Repr, Inhabited

inductive SrcPc where
  | start | getShape | wmapLock | wmapWait | wmapAsleep | wmapWoken | getFrame
  | abortLock | commitLock | failStop | camStop | done
  | loopTest | afterMap | finalize                  -- transient
deriving DecidableEq, Repr, Inhabited

structure Src where
  pc : SrcPc := .start
  iframe : Nat := 0
  cur : Option Frame := none   -- frame whose header/pixels are in the mapped write region
deriving Repr, Inhabited

inductive SnkPc where
  | start | rmapLock | rmapNotify | append | runmapLock | runmapNotify | sleep | stoStop
  | errAccLock | errAccNotify | errUnmapLock | errUnmapNotify | done
  | loopTest | afterMap | error | errAfterAcc | exit        -- transient
deriving DecidableEq, Repr, Inhabited

structure Snk where
  pc : SnkPc := .start
  flush : Bool := false        -- in the flush loop after the main loop
  idx : Nat := 0               -- stream byte index of the mapped region's first byte
  len : Nat := 0               -- its length
deriving Repr, Inhabited

inductive FltPc where
  | start | rmapLock | rmapNotify | sleep | done
  | loopTest | afterRead                             -- transient
deriving DecidableEq, Repr, Inhabited

structure Flt where
  pc : FltPc := .start
  flush : Bool := false
  nread : Nat := 0
deriving Repr, Inhabited

inductive Role where
  | sink | filter | source
deriving DecidableEq, Repr, Inhabited

structure Stream where
  valid : Bool := false
  F : Nat := 104               -- `nbytes_aligned` of the configured shape
  maxFrames : Nat := 0
  setText : String := ""       -- what the mock prints for `camera_set` of this stream's shape
  sinkCh : Sys := (step (Sys.init 4096) .join).1   -- a channel with the reader its worker registered at init
  filtCh : Sys := (step (Sys.init 4096) .join).1
  sinkFrames : List (Nat × Frame) := []   -- ghost: (start byte in the committed stream, frame)
  monReg : Bool := false       -- the client's monitor reader is registered (reader 1 of `sink.in`)
  monFlushed : Bool := false   -- ghost: `acquire_stop` has flushed the monitor reader and no source thread has been created since
  srcStopping : Bool := false
  srcRunning : Bool := false
  fltStopping : Bool := false
  fltRunning : Bool := false
  snkStopping : Bool := false
  snkRunning : Bool := false
  cam : Cam := {}
  sto : Sto := {}
  src : Src := { pc := .done }   -- no thread yet: a thread object that was never started is joinable at once
  flt : Flt := { pc := .done }
  snk : Snk := { pc := .done }
  tidSnk : Nat := 0
  tidFlt : Nat := 0
  tidSrc : Nat := 0
deriving Repr, Inhabited

/-! ## helpers -/

def chanOp (c : Sys) (op : Op) : Sys × Out := step c op

/-- length / status of the region a read returned -/
def outLen : Out → Nat
  | .slice _ len _ => len
  | _ => 0
def outStatus : Out → Nat
  | .slice _ _ st => st
  | _ => 1
def isWok : Out → Bool
  | .wok _ => true
  | _ => false

/-- did `channel_read_map` move the reader's bookmark (then it notifies)? -/
def moved (before after : Sys) : Bool := decide (before.c.holds ≠ after.c.holds)

/-- frames of `sink.in` whose first byte lies in the stream byte range `[idx, idx+len)` -/
def framesIn (fs : List (Nat × Frame)) (idx len : Nat) : List Frame :=
  (fs.filter fun p => decide (idx ≤ p.1 ∧ p.1 < idx + len)).map (·.2)

/-- does the scripted fault hit this call? (faults are scripted for the first run only) -/
def faultHits (failAt : Option Nat) (run call : Nat) (again : Bool) : Bool :=
  match failAt with
  | some k => run == 1 && decide (call ≥ k) && (again || call == k)
  | none => false

/-- ghost: the frame whose bytes were just committed -/
def addFrame (fs : List (Nat × Frame)) (total0 total1 : Nat) (cur : Option Frame) : List (Nat × Frame) :=
  match cur with
  | some fr => if total1 > total0 then fs ++ [(total0, fr)] else fs
  | none => fs

def camDev (s : Nat) : Nat := s          -- mock device ids: camera of stream s
def stoDev (s : Nat) : Nat := s + 2      -- storage of stream s

/-- `condition_variable_notify_all` on `sink.in`: a writer asleep in `channel_write_map` is woken -/
def notifySink (st : Stream) : Stream :=
  { st with src := { st.src with pc := if st.src.pc = .wmapAsleep then .wmapWoken else st.src.pc } }

/-- the lock of `sink.in` is held across steps only by a writer parked at the entry of `condition_variable_wait` -/
def sinkLockFree (st : Stream) : Bool := st.src.pc ≠ .wmapWait

/-! ## the source thread (`video_source_thread`) -/

def srcCont (st : Stream) : Bool := !st.srcStopping && decide (st.src.iframe < st.maxFrames)
def setSrcPc (st : Stream) (pc : SrcPc) : Stream := { st with src := { st.src with pc := pc } }
def wmapOut (st : Stream) : Out := (chanOp st.sinkCh (.wmap st.F)).2
def wmapSys (st : Stream) : Sys := (chanOp st.sinkCh (.wmap st.F)).1
def atWmap (st : Stream) : Bool := st.src.pc = .wmapLock || st.src.pc = .wmapWoken
def camFault (st : Stream) : Bool := faultHits st.cam.failAt st.cam.run st.cam.ncalls st.cam.failPersistent
def camEmpty (st : Stream) : Bool :=
  decide (st.cam.emptyEvery > 0) && st.cam.ncalls % st.cam.emptyEvery == st.cam.emptyEvery - 1

def srcActs (s : Nat) : List (Act Stream) := [
  { name := "src.start", guard := fun st => st.src.pc = .start, upd := fun st => setSrcPc st .loopTest },
  -- the loop test `!is_stopping && iframe < max_frame_count`
  { name := "src.loop.cont", guard := fun st => st.src.pc = .loopTest && srcCont st, upd := fun st => setSrcPc st .getShape },
  { name := "src.loop.exit", guard := fun st => st.src.pc = .loopTest && !srcCont st, upd := fun st => setSrcPc st .finalize },
  -- Finalize: stop the filter; stop the camera (a driver call only while the HAL state is Running)
  { name := "src.fin.stop", guard := fun st => st.src.pc = .finalize && st.cam.state = .running,
    upd := fun st => { st with fltStopping := true, src := { st.src with pc := .camStop } } },
  { name := "src.fin.done", guard := fun st => st.src.pc = .finalize && st.cam.state ≠ .running,
    upd := fun st => { st with fltStopping := true, srcStopping := false, srcRunning := false, src := { st.src with pc := .done } } },
  -- camera_get_image_shape; `channel_write_map` returns 0 without the lock for a frame ≥ capacity
  { name := "src.shape.big", guard := fun st => st.src.pc = .getShape && decide (st.F ≥ st.sinkCh.c.cap),
    upd := fun st => setSrcPc st .loopTest },
  { name := "src.shape.ok", guard := fun st => st.src.pc = .getShape && decide (st.F < st.sinkCh.c.cap),
    upd := fun st => setSrcPc st .wmapLock },
  -- the body of `channel_write_map` (first attempt, or after a wake-up)
  { name := "src.wmap.block", guard := fun st => atWmap st && sinkLockFree st && wmapOut st = .wblock,
    upd := fun st => setSrcPc st .wmapWait },
  { name := "src.wmap.ok", guard := fun st => atWmap st && sinkLockFree st && isWok (wmapOut st),
    upd := fun st => { st with sinkCh := wmapSys st, src := { st.src with pc := .afterMap } } },
  { name := "src.wmap.refused", guard := fun st => atWmap st && sinkLockFree st && wmapOut st ≠ .wblock && !isWok (wmapOut st),
    upd := fun st => { st with sinkCh := wmapSys st, src := { st.src with pc := .loopTest } } },
  { name := "src.wait", guard := fun st => st.src.pc = .wmapWait, upd := fun st => setSrcPc st .wmapAsleep },
  -- camera_get_frame: the HAL checks its state before calling the driver
  { name := "src.map.frame", guard := fun st => st.src.pc = .afterMap && st.cam.state = .running, upd := fun st => setSrcPc st .getFrame },
  { name := "src.map.notrunning", guard := fun st => st.src.pc = .afterMap && st.cam.state ≠ .running,
    upd := fun st => { st with sto := { st.sto with disturbed := true }, src := { st.src with pc := .finalize } } },
  { name := "src.frame.fault", guard := fun st => st.src.pc = .getFrame && camFault st,
    upd := fun st => { st with cam := { st.cam with ncalls := st.cam.ncalls + 1, failed := true,
                                                      callsAfterFailure := st.cam.callsAfterFailure + (if st.cam.failed then 1 else 0) },
                               sto := { st.sto with disturbed := true },
                               src := { st.src with pc := .failStop } },
    out := fun st => [s!"DRV {camDev s} get_frame call={st.cam.ncalls} -> err"] },
  { name := "src.frame.empty", guard := fun st => st.src.pc = .getFrame && !camFault st && camEmpty st,
    upd := fun st => { st with cam := { st.cam with ncalls := st.cam.ncalls + 1,
                                                      callsAfterFailure := st.cam.callsAfterFailure + (if st.cam.failed then 1 else 0) },
                               src := { st.src with pc := .abortLock } },
    out := fun st => [s!"DRV {camDev s} get_frame call={st.cam.ncalls} -> ok empty"] },
  { name := "src.frame.ok", guard := fun st => st.src.pc = .getFrame && !camFault st && !camEmpty st,
    upd := fun st => { st with cam := { st.cam with ncalls := st.cam.ncalls + 1, frame := st.cam.frame + 1,
                                                      callsAfterFailure := st.cam.callsAfterFailure + (if st.cam.failed then 1 else 0) },
                               src := { pc := .commitLock, cur := some { run := st.cam.run, id := st.src.iframe, hw := st.cam.frame },
                                        iframe := st.src.iframe + 1 } },
    out := fun st => [s!"DRV {camDev s} get_frame call={st.cam.ncalls} -> ok frame={st.cam.frame} run={st.cam.run}"] },
  -- the driver's `stop` called from camera_get_frame's failure path; then `goto Error`
  { name := "src.failstop", guard := fun st => st.src.pc = .failStop,
    upd := fun st => { st with cam := { st.cam with state := .awaiting, drvStops := st.cam.drvStops + 1 }, src := { st.src with pc := .finalize } },
    out := fun _ => [s!"DRV {camDev s} stop -> ok"] },
  { name := "src.abort", guard := fun st => st.src.pc = .abortLock && sinkLockFree st,
    upd := fun st => { st with sinkCh := (chanOp st.sinkCh .wabort).1, src := { st.src with pc := .commitLock, cur := none } } },
  { name := "src.commit", guard := fun st => st.src.pc = .commitLock && sinkLockFree st,
    upd := fun st => { st with sinkCh := (chanOp st.sinkCh .wcommit).1,
                               sinkFrames := addFrame st.sinkFrames st.sinkCh.total (chanOp st.sinkCh .wcommit).1.total st.src.cur,
                               sto := { st.sto with ncommit := st.sto.ncommit + (if st.src.cur.isSome && decide ((chanOp st.sinkCh .wcommit).1.total > st.sinkCh.total) then 1 else 0),
                                                    dropped := st.sto.dropped || (st.src.cur.isSome && !decide ((chanOp st.sinkCh .wcommit).1.total > st.sinkCh.total)) },
                               src := { st.src with pc := .loopTest, cur := none } } },
  { name := "src.camstop", guard := fun st => st.src.pc = .camStop,
    upd := fun st => { st with cam := { st.cam with state := .armed, drvStops := st.cam.drvStops + 1 },
                               srcStopping := false, srcRunning := false, src := { st.src with pc := .done } },
    out := fun _ => [s!"DRV {camDev s} stop -> ok"] }
]

def srcParked (st : Stream) : Bool :=
  st.src.pc ≠ .loopTest && st.src.pc ≠ .afterMap && st.src.pc ≠ .finalize

def srcStep (s : Nat) (st : Stream) : Option (Stream × List String) := stepThread (srcActs s) srcParked 4 st

/-! ## the filter thread (`video_filter_thread`, averaging off: it polls and forwards the stop) -/

def setFltPc (st : Stream) (pc : FltPc) : Stream := { st with flt := { st.flt with pc := pc } }
def fltRead (st : Stream) : Sys × Out := chanOp st.filtCh (.rmap 0)

def fltActs : List (Act Stream) := [
  { name := "flt.start", guard := fun st => st.flt.pc = .start, upd := fun st => setFltPc st .loopTest },
  { name := "flt.sleep", guard := fun st => st.flt.pc = .sleep, upd := fun st => setFltPc st .loopTest },
  { name := "flt.loop.main", guard := fun st => st.flt.pc = .loopTest && !st.fltStopping,
    upd := fun st => { st with flt := { st.flt with pc := .rmapLock, flush := false } } },
  { name := "flt.loop.flush", guard := fun st => st.flt.pc = .loopTest && st.fltStopping,
    upd := fun st => { st with flt := { st.flt with pc := .rmapLock, flush := true } } },
  { name := "flt.read.moved", guard := fun st => st.flt.pc = .rmapLock && moved st.filtCh (fltRead st).1,
    upd := fun st => { st with filtCh := (fltRead st).1, flt := { st.flt with pc := .rmapNotify, nread := outLen (fltRead st).2 } } },
  { name := "flt.read", guard := fun st => st.flt.pc = .rmapLock && !moved st.filtCh (fltRead st).1,
    upd := fun st => { st with filtCh := (fltRead st).1, flt := { st.flt with pc := .afterRead, nread := outLen (fltRead st).2 } } },
  { name := "flt.notify", guard := fun st => st.flt.pc = .rmapNotify, upd := fun st => setFltPc st .afterRead },
  -- after process_data: the main loop sleeps; the flush loop reads again until a read comes back empty, then
  -- the thread exits: stop the sink, clear the flags
  { name := "flt.after.main", guard := fun st => st.flt.pc = .afterRead && !st.flt.flush, upd := fun st => setFltPc st .sleep },
  { name := "flt.after.more", guard := fun st => st.flt.pc = .afterRead && st.flt.flush && decide (st.flt.nread > 0),
    upd := fun st => setFltPc st .rmapLock },
  { name := "flt.exit", guard := fun st => st.flt.pc = .afterRead && st.flt.flush && decide (st.flt.nread = 0),
    upd := fun st => { st with snkStopping := true, fltRunning := false, fltStopping := false, flt := { st.flt with pc := .done } } }
]

def fltParked (st : Stream) : Bool := st.flt.pc ≠ .loopTest && st.flt.pc ≠ .afterRead
def fltStep (st : Stream) : Option (Stream × List String) := stepThread fltActs fltParked 4 st

/-! ## the sink thread (`video_sink_thread`) -/

def setSnkPc (st : Stream) (pc : SnkPc) : Stream := { st with snk := { st.snk with pc := pc } }
def snkRead (st : Stream) : Sys × Out := chanOp st.sinkCh (.rmap 0)
def stoFault (st : Stream) : Bool :=
  faultHits st.sto.failAt st.sto.run st.sto.nappend true && (st.sto.failPersistent || !st.sto.failed)
def snkFrames (st : Stream) : List Frame := framesIn st.sinkFrames st.snk.idx st.snk.len

def snkActs (s : Nat) : List (Act Stream) := [
  { name := "snk.start", guard := fun st => st.snk.pc = .start, upd := fun st => setSnkPc st .loopTest },
  { name := "snk.sleep", guard := fun st => st.snk.pc = .sleep, upd := fun st => setSnkPc st .loopTest },
  -- `while (!is_stopping && storage && storage_get_state(storage) == Running)`
  { name := "snk.loop.main", guard := fun st => st.snk.pc = .loopTest && (!st.snkStopping && st.sto.state = .running),
    upd := fun st => { st with snk := { st.snk with pc := .rmapLock, flush := false } } },
  { name := "snk.loop.flush", guard := fun st => st.snk.pc = .loopTest && !(!st.snkStopping && st.sto.state = .running),
    upd := fun st => { st with snk := { st.snk with pc := .rmapLock, flush := true } } },
  { name := "snk.read.moved", guard := fun st => st.snk.pc = .rmapLock && sinkLockFree st && moved st.sinkCh (snkRead st).1,
    upd := fun st => { st with sinkCh := (snkRead st).1,
                               snk := { st.snk with pc := .rmapNotify, idx := st.sinkCh.idx.getD 0 0, len := outLen (snkRead st).2 } } },
  { name := "snk.read", guard := fun st => st.snk.pc = .rmapLock && sinkLockFree st && !moved st.sinkCh (snkRead st).1,
    upd := fun st => { st with sinkCh := (snkRead st).1,
                               snk := { st.snk with pc := .afterMap, idx := st.sinkCh.idx.getD 0 0, len := outLen (snkRead st).2 } } },
  { name := "snk.read.notify", guard := fun st => st.snk.pc = .rmapNotify, upd := fun st => setSnkPc (notifySink st) .afterMap },
  -- storage_append: the HAL refuses unless Running; an empty packet does not reach the driver
  { name := "snk.map.notrunning", guard := fun st => st.snk.pc = .afterMap && st.sto.state ≠ .running, upd := fun st => setSnkPc st .error },
  { name := "snk.map.append", guard := fun st => st.snk.pc = .afterMap && st.sto.state = .running && decide (st.snk.len > 0),
    upd := fun st => setSnkPc st .append },
  { name := "snk.map.empty.main", guard := fun st => st.snk.pc = .afterMap && st.sto.state = .running && decide (st.snk.len = 0) && !st.snk.flush,
    upd := fun st => setSnkPc st .sleep },
  { name := "snk.map.empty.flush", guard := fun st => st.snk.pc = .afterMap && st.sto.state = .running && decide (st.snk.len = 0) && st.snk.flush,
    upd := fun st => { st with sto := { st.sto with drained := true }, snk := { st.snk with pc := .stoStop } } },
  { name := "snk.append.fault", guard := fun st => st.snk.pc = .append && stoFault st,
    upd := fun st => { st with sto := { st.sto with nappend := st.sto.nappend + 1, failed := true, state := .armed,
                                                      appendsAfterFailure := st.sto.appendsAfterFailure + (if st.sto.failed then 1 else 0) },
                               snk := { st.snk with pc := .error } },
    out := fun st => [s!"DRV {stoDev s} append call={st.sto.nappend} bytes={st.snk.len} frames={(snkFrames st).length} -> armed (fault)"] },
  { name := "snk.append.ok", guard := fun st => st.snk.pc = .append && !stoFault st,
    upd := fun st => { st with sto := { st.sto with nappend := st.sto.nappend + 1, log := st.sto.log ++ snkFrames st, appended := st.snk.idx + st.snk.len,
                                                      appendsAfterFailure := st.sto.appendsAfterFailure + (if st.sto.failed then 1 else 0) },
                               snk := { st.snk with pc := .runmapLock } },
    out := fun st => [s!"DRV {stoDev s} append call={st.sto.nappend} bytes={st.snk.len} frames={(snkFrames st).length} -> running"] },
  { name := "snk.unmap", guard := fun st => st.snk.pc = .runmapLock && sinkLockFree st,
    upd := fun st => { st with sinkCh := (chanOp st.sinkCh (.runmap 0 st.snk.len)).1, snk := { st.snk with pc := .runmapNotify } } },
  -- `while (slice.end > slice.beg)`: the slice was not empty, read again (main and flush loop alike)
  { name := "snk.unmap.notify", guard := fun st => st.snk.pc = .runmapNotify, upd := fun st => setSnkPc (notifySink st) .rmapLock },
  { name := "snk.stostop", guard := fun st => st.snk.pc = .stoStop,
    upd := fun st => { st with sto := { st.sto with state := .armed }, snk := { st.snk with pc := .exit } },
    out := fun _ => [s!"DRV {stoDev s} stop -> armed"] },
  -- Error: signal the source, refuse writes, release the region, storage_stop (no driver call: not Running)
  { name := "snk.error", guard := fun st => st.snk.pc = .error,
    upd := fun st => { st with srcStopping := true, sto := { st.sto with disturbed := true }, snk := { st.snk with pc := .errAccLock } } },
  { name := "snk.err.acc", guard := fun st => st.snk.pc = .errAccLock && sinkLockFree st,
    upd := fun st => { st with sinkCh := (chanOp st.sinkCh (.accept false)).1, snk := { st.snk with pc := .errAccNotify } } },
  { name := "snk.err.acc.notify", guard := fun st => st.snk.pc = .errAccNotify, upd := fun st => setSnkPc (notifySink st) .errAfterAcc },
  { name := "snk.err.mapped", guard := fun st => st.snk.pc = .errAfterAcc && (st.sinkCh.rds.getD 0 {}).mapped,
    upd := fun st => setSnkPc st .errUnmapLock },
  { name := "snk.err.unmapped", guard := fun st => st.snk.pc = .errAfterAcc && !(st.sinkCh.rds.getD 0 {}).mapped,
    upd := fun st => setSnkPc st .exit },
  { name := "snk.err.unmap", guard := fun st => st.snk.pc = .errUnmapLock && sinkLockFree st,
    upd := fun st => { st with sinkCh := (chanOp st.sinkCh (.runmap 0 0)).1, snk := { st.snk with pc := .errUnmapNotify } } },
  { name := "snk.err.unmap.notify", guard := fun st => st.snk.pc = .errUnmapNotify, upd := fun st => setSnkPc (notifySink st) .exit },
  { name := "snk.exit", guard := fun st => st.snk.pc = .exit,
    upd := fun st => { st with snkRunning := false, snkStopping := false, snk := { st.snk with pc := .done } } }
]

def snkParked (st : Stream) : Bool :=
  st.snk.pc ≠ .loopTest && st.snk.pc ≠ .afterMap && st.snk.pc ≠ .error && st.snk.pc ≠ .errAfterAcc && st.snk.pc ≠ .exit

def snkStep (s : Nat) (st : Stream) : Option (Stream × List String) := stepThread (snkActs s) snkParked 4 st

end AcqVerif.Runtime
