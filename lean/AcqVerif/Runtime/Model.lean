import AcqVerif.Channel.Sys
/-!
# M1 — the data path of the runtime as an interleaving model

One state machine per thread (client, and per stream: source, filter, sink), whose states are the
*parking points* of the real threads on the deterministic scheduler — every synchronisation call
(`lock_acquire`, `condition_variable_wait` entry, sleeping, re-acquire, `notify_all`, `thread_create`,
`thread_join`, `clock_sleep_ms`) and every entry of a driver function — and whose transitions
transcribe the C between two parking points (`source.c`, `sink.c`, `filter.c`, `acquire.c`, the HAL
wrappers `camera.c`/`storage.c`).  Channels are the byte-level model of `channel.c` (`Channel.Sys`),
one operation body per step (every body runs under the channel lock).

Devices are the scripted mock driver of the harness (frames identified by `(run, hw index)`, faults at
scripted call indices).  `sinkFrames` is ghost state: which frame occupies which bytes of the stream
committed to `sink.in`.

Scope of this model: frame averaging off (the filter thread runs, polls and forwards the stop signal),
software trigger off, write delay 0.  Configuration / init / shutdown are not stepped: the state is
(re)loaded at `acquire_start`.
-/
namespace AcqVerif.Runtime
open AcqVerif.Channel

inductive DevState where
  | closed | awaiting | armed | running
deriving DecidableEq, Repr, Inhabited

def DevState.code : DevState → Nat
  | .closed => 0 | .awaiting => 1 | .armed => 2 | .running => 3

def DevState.name : DevState → String
  | .closed => "Closed" | .awaiting => "AwaitingConfiguration" | .armed => "Armed" | .running => "Running"

structure Frame where
  run : Nat      -- run ordinal of the camera that produced it
  id : Nat       -- `frame_id` assigned by the source
  hw : Nat       -- `hardware_frame_id` = index in the camera's delivery order
deriving DecidableEq, Repr, Inhabited

/-- HAL camera + mock camera device -/
structure Cam where
  state : DevState := .armed
  run : Nat := 0
  frame : Nat := 0            -- next hardware frame index of this run
  ncalls : Nat := 0           -- `get_frame` calls in this run
  failAt : Option Nat := none -- call index (of run 1) at which `get_frame` fails
  failPersistent : Bool := false
  emptyEvery : Nat := 0       -- every n-th call returns 0 bytes
  drvStops : Nat := 0         -- driver `stop` calls (ghost)
deriving Repr, Inhabited

/-- HAL storage + mock storage device -/
structure Sto where
  state : DevState := .armed
  run : Nat := 0
  nappend : Nat := 0
  failAt : Option Nat := none
  failPersistent : Bool := false
  failed : Bool := false
  log : List Frame := []      -- frames stored in the current run (ghost, = what the mock records)
deriving Repr, Inhabited

inductive SrcPc where
  | start | getShape | wmapLock | wmapWait | wmapAsleep | wmapWoken | getFrame
  | abortLock | commitLock | failStop | camStop | done
deriving DecidableEq, Repr, Inhabited

structure Src where
  pc : SrcPc := .start
  iframe : Nat := 0
  cur : Option Frame := none   -- frame whose header/pixels are in the mapped write region
deriving Repr, Inhabited

inductive SnkPc where
  | start | rmapLock | rmapNotify | append | runmapLock | runmapNotify | sleep | stoStop
  | errAccLock | errAccNotify | errUnmapLock | errUnmapNotify | done
deriving DecidableEq, Repr, Inhabited

structure Snk where
  pc : SnkPc := .start
  flush : Bool := false        -- in the flush loop after the main loop
  idx : Nat := 0               -- stream byte index of the mapped region's first byte
  len : Nat := 0               -- its length
deriving Repr, Inhabited

inductive FltPc where
  | start | rmapLock | rmapNotify | sleep | done
deriving DecidableEq, Repr, Inhabited

structure Flt where
  pc : FltPc := .start
  flush : Bool := false
deriving Repr, Inhabited

inductive Role where
  | sink | filter | source
deriving DecidableEq, Repr, Inhabited

structure Stream where
  valid : Bool := false
  F : Nat := 104               -- `nbytes_aligned` of the configured shape
  maxFrames : Nat := 0
  setText : String := ""       -- what the mock prints for `camera_set` of this stream's shape
  sinkCh : Sys := Sys.init 4096
  filtCh : Sys := Sys.init 4096
  sinkFrames : List (Nat × Frame) := []   -- ghost: (start byte in the committed stream, frame)
  monReg : Bool := false       -- the client's monitor reader is registered (reader 1 of `sink.in`)
  srcStopping : Bool := false
  srcRunning : Bool := false
  fltStopping : Bool := false
  fltRunning : Bool := false
  snkStopping : Bool := false
  snkRunning : Bool := false
  cam : Cam := {}
  sto : Sto := {}
  src : Src := {}
  flt : Flt := {}
  snk : Snk := {}
  -- thread liveness (created and not yet finished) and tids, in creation order sink, filter, source
  tidSnk : Nat := 0
  tidFlt : Nat := 0
  tidSrc : Nat := 0
deriving Repr, Inhabited

/-- client (API) operations of the data path -/
inductive COp where
  | start | stop | abort
  | map (s : Nat) | unmap (s : Nat) (nframes : Option Nat)
  | state | monwait (s : Nat) | sleep (n : Nat)
  | configure (n0 n1 : Nat)     -- acquire_configure with the same devices and shapes; new frame counts
deriving DecidableEq, Repr, Inhabited

/-- parking points of the client thread inside the current API call -/
inductive CPc where
  | idle                                   -- between API calls (the harness runs without yielding)
  -- acquire_start, stream s
  | stoStart (s : Nat) | accLock (s : Nat) (v : Bool) (next : Nat) | accNotify (s : Nat) (next : Nat)
  | createSnk (s : Nat) | createFlt (s : Nat) | camStart (s : Nat) | createSrc (s : Nat)
  | errCamStop (s : Nat)                    -- acquire_start's error path: camera_stop of stream s
  -- acquire_configure, stream s
  | cfgCamSet (s : Nat) | cfgStoSet (s : Nat) | cfgGetShape (s : Nat)
  -- acquire_stop, stream s
  | joinSrc (s : Nat) | joinFlt (s : Nat) | joinSnk (s : Nat)
  | flushRmapLock (s : Nat) (r : Nat) | flushRmapNotify (s : Nat) (r : Nat)
  | flushUnmapLock (s : Nat) (r : Nat) (pre : Bool) | flushUnmapNotify (s : Nat) (r : Nat) (pre : Bool)
  -- acquire_map_read / acquire_unmap_read
  | mapLock (s : Nat) | mapNotify (s : Nat) | unmapLock (s : Nat) (k : Nat) | unmapNotify (s : Nat)
  | sleeping (n : Nat)
  | done
deriving DecidableEq, Repr, Inhabited

structure Client where
  pc : CPc := .idle
  prog : List COp := []
  aborting : Bool := false     -- the current acquire_stop was entered from acquire_abort
  monLen : List Nat := [0, 0]  -- length of the region the client has mapped, per stream (ghost)
  flushLen : Nat := 0
  inMonwait : Bool := false
  pendingSay : String := ""    -- line the harness prints when the current call returns
  startFailed : Bool := false  -- the current acquire_stop was entered from acquire_start's error path
  cfgN : List Nat := [0, 0]    -- frame counts of the configure call in progress
deriving Repr, Inhabited

structure RT where
  streams : List Stream := [{}, {}]
  client : Client := {}
  nthreads : Nat := 1          -- tids handed out so far (client = 0)
  state : DevState := .armed   -- `runtime.state`
  out : List String := []      -- API / DRV lines produced by the last step (for the correspondence)
deriving Repr, Inhabited

/-! ## helpers -/

def getS (rt : RT) (s : Nat) : Stream := rt.streams.getD s {}
def setS (rt : RT) (s : Nat) (st : Stream) : RT := { rt with streams := rt.streams.set s st }
def say (rt : RT) (l : String) : RT := { rt with out := rt.out ++ [l] }

/-- run one channel operation body -/
def chanOp (c : Sys) (op : Op) : Sys × Out := step c op

/-- did `channel_read_map` move the reader's bookmark (then it notifies)? -/
def moved (before after : Sys) : Bool := decide (before.c.holds ≠ after.c.holds)

/-- frames of `sink.in` whose first byte lies in the stream byte range `[idx, idx+len)` -/
def framesIn (fs : List (Nat × Frame)) (idx len : Nat) : List Frame :=
  (fs.filter fun p => decide (idx ≤ p.1 ∧ p.1 < idx + len)).map (·.2)

/-- `condition_variable_notify_all` on `sink.in`: a writer asleep in `channel_write_map` is woken -/
def notifySink (st : Stream) : Stream :=
  if st.src.pc = .wmapAsleep then { st with src := { st.src with pc := .wmapWoken } } else st

/-! ## the source thread (`video_source_thread`) -/

/-- the loop test and what follows it up to the next parking point -/
def srcLoop (st : Stream) : Stream × List String :=
  if !st.srcStopping && decide (st.src.iframe < st.maxFrames) then
    ({ st with src := { st.src with pc := .getShape } }, [])
  else
    -- Finalize: stop the filter, stop the camera
    let st := { st with fltStopping := true }
    if st.cam.state = .running then ({ st with src := { st.src with pc := .camStop } }, [])
    else ({ st with srcStopping := false, srcRunning := false, src := { st.src with pc := .done } }, [])

/-- error exit (`goto Error`): Finalize with the camera possibly already stopped -/
def srcFinalize (st : Stream) : Stream × List String :=
  let st := { st with fltStopping := true }
  if st.cam.state = .running then ({ st with src := { st.src with pc := .camStop } }, [])
  else ({ st with srcStopping := false, srcRunning := false, src := { st.src with pc := .done } }, [])

/-- after `channel_write_map` returned a region: `camera_get_frame` up to the mock's entry -/
def srcAfterMap (st : Stream) : Stream × List String :=
  if st.cam.state = .running then ({ st with src := { st.src with pc := .getFrame } }, [])
  else srcFinalize st     -- CHECK(self->state == Running) fails in the HAL

def camDev (s : Nat) : Nat := s          -- mock device ids: camera of stream s
def stoDev (s : Nat) : Nat := s + 2      -- storage of stream s

/-- the body of `channel_write_map` on `sink.in` and what follows -/
def srcWmapBody (st : Stream) : Stream × List String :=
  match chanOp st.sinkCh (.wmap st.F) with
  | (_, .wblock) => ({ st with src := { st.src with pc := .wmapWait } }, [])
  | (c', .wok _) => srcAfterMap { st with sinkCh := c' }
  | (c', _) => srcLoop { st with sinkCh := c' }        -- refused: `if (im)` is false

def srcStep (s : Nat) (st : Stream) : Option (Stream × List String) :=
  match st.src.pc with
  | .start => some (srcLoop st)
  | .getShape =>
    -- shape, sizes; `channel_write_map` returns 0 without the lock for a frame ≥ capacity
    if st.F ≥ st.sinkCh.c.cap then some (srcLoop st)
    else some ({ st with src := { st.src with pc := .wmapLock } }, [])
  | .wmapLock => some (srcWmapBody st)
  | .wmapWoken => some (srcWmapBody st)
  | .wmapWait => some ({ st with src := { st.src with pc := .wmapAsleep } }, [])
  | .wmapAsleep => none
  | .getFrame =>
    let cam := st.cam
    let call := cam.ncalls
    let cam := { cam with ncalls := call + 1 }
    let fails := match cam.failAt with
      | some k => cam.run == 1 && (decide (call ≥ k)) && (cam.failPersistent || call == k)
      | none => false
    if fails then
      -- HAL: camera_stop (driver stop), state := AwaitingConfiguration; source: goto Error
      some ({ st with cam := cam, src := { st.src with pc := .failStop } },
            [s!"DRV {camDev s} get_frame call={call} -> err"])
    else if cam.emptyEvery > 0 && call % cam.emptyEvery == cam.emptyEvery - 1 then
      some ({ st with cam := cam, src := { st.src with pc := .abortLock } },
            [s!"DRV {camDev s} get_frame call={call} -> ok empty"])
    else
      let fr : Frame := { run := cam.run, id := st.src.iframe, hw := cam.frame }
      some ({ st with cam := { cam with frame := cam.frame + 1 },
                      src := { st.src with pc := .commitLock, cur := some fr, iframe := st.src.iframe + 1 } },
            [s!"DRV {camDev s} get_frame call={call} -> ok frame={cam.frame} run={cam.run}"])
  | .failStop =>
    -- the mock's `stop` called from `camera_get_frame`'s failure path
    let st := { st with cam := { st.cam with state := .awaiting, drvStops := st.cam.drvStops + 1 } }
    let (st, o) := srcFinalize st
    some (st, s!"DRV {camDev s} stop -> ok" :: o)
  | .abortLock =>
    let (c', _) := chanOp st.sinkCh .wabort
    some ({ st with sinkCh := c', src := { st.src with pc := .commitLock, cur := none } }, [])
  | .commitLock =>
    let total0 := st.sinkCh.total
    let (c', _) := chanOp st.sinkCh .wcommit
    let fs := match st.src.cur with
      | some fr => if c'.total > total0 then st.sinkFrames ++ [(total0, fr)] else st.sinkFrames
      | none => st.sinkFrames
    some (srcLoop { st with sinkCh := c', sinkFrames := fs, src := { st.src with cur := none } })
  | .camStop =>
    some ({ st with cam := { st.cam with state := .armed, drvStops := st.cam.drvStops + 1 },
                    srcStopping := false, srcRunning := false, src := { st.src with pc := .done } },
          [s!"DRV {camDev s} stop -> ok"])
  | .done => none

/-! ## the filter thread (`video_filter_thread`, averaging off: it polls and forwards the stop) -/

def fltLoop (st : Stream) : Stream :=
  if !st.fltStopping then { st with flt := { pc := .rmapLock, flush := false } }
  else { st with flt := { pc := .rmapLock, flush := true } }

/-- after `process_data` returned (its read came back with `n` bytes) -/
def fltAfterRead (st : Stream) (n : Nat) : Stream :=
  if !st.flt.flush then { st with flt := { st.flt with pc := .sleep } }
  else if n > 0 then { st with flt := { st.flt with pc := .rmapLock } }
  else { st with snkStopping := true, fltRunning := false, fltStopping := false, flt := { st.flt with pc := .done } }

def fltStep (st : Stream) : Option Stream :=
  match st.flt.pc with
  | .start => some (fltLoop st)
  | .rmapLock =>
    let before := st.filtCh
    let (c', o) := chanOp st.filtCh (.rmap 0)
    let n := match o with | .slice _ len _ => len | _ => 0
    let st := { st with filtCh := c' }
    if moved before c' then some { st with flt := { st.flt with pc := .rmapNotify } }
    else some (fltAfterRead st n)       -- (with averaging off `filter.in` stays empty: n = 0)
  | .rmapNotify => some (fltAfterRead st 0)
  | .sleep => some (fltLoop st)
  | .done => none

/-! ## the sink thread (`video_sink_thread`) -/

def snkLoop (st : Stream) : Stream :=
  if !st.snkStopping && st.sto.state = .running then { st with snk := { st.snk with pc := .rmapLock, flush := false } }
  else { st with snk := { st.snk with pc := .rmapLock, flush := true } }

/-- after `channel_read_map` (and its notify, if any): split at the write delay (0), `storage_append` -/
def snkAfterMap (st : Stream) : Stream :=
  if st.snk.len > 0 then
    -- the HAL calls the driver only while Running
    if st.sto.state = .running then { st with snk := { st.snk with pc := .append } }
    else { st with srcStopping := true, snk := { st.snk with pc := .errAccLock } }   -- Error: sig_stop_source
  else
    -- empty packet: no driver call, nothing to unmap
    if st.sto.state ≠ .running then { st with srcStopping := true, snk := { st.snk with pc := .errAccLock } }
    else if st.snk.flush then { st with snk := { st.snk with pc := .stoStop } }
    else { st with snk := { st.snk with pc := .sleep } }

def snkStep (s : Nat) (st : Stream) : Option (Stream × List String) :=
  match st.snk.pc with
  | .start => some (snkLoop st, [])
  | .sleep => some (snkLoop st, [])
  | .rmapLock =>
    let before := st.sinkCh
    let idx := before.idx.getD 0 0
    let (c', o) := chanOp st.sinkCh (.rmap 0)
    let len := match o with | .slice _ len _ => len | _ => 0
    let st := { st with sinkCh := c', snk := { st.snk with idx := idx, len := len } }
    if moved before c' then some ({ st with snk := { st.snk with pc := .rmapNotify } }, [])
    else some (snkAfterMap st, [])
  | .rmapNotify => some (snkAfterMap (notifySink st), [])
  | .append =>
    let sto := st.sto
    let call := sto.nappend
    let frames := framesIn st.sinkFrames st.snk.idx st.snk.len
    let fails := match sto.failAt with
      | some k => sto.run == 1 && decide (call ≥ k) && (sto.failPersistent || !sto.failed)
      | none => false
    if fails then
      some ({ st with sto := { sto with nappend := call + 1, failed := true, state := .armed },
                      srcStopping := true,       -- sig_stop_source
                      snk := { st.snk with pc := .errAccLock } },
            [s!"DRV {stoDev s} append call={call} bytes={st.snk.len} frames={frames.length} -> armed (fault)"])
    else
      some ({ st with sto := { sto with nappend := call + 1, log := sto.log ++ frames },
                      snk := { st.snk with pc := .runmapLock } },
            [s!"DRV {stoDev s} append call={call} bytes={st.snk.len} frames={frames.length} -> running"])
  | .runmapLock =>
    let (c', _) := chanOp st.sinkCh (.runmap 0 st.snk.len)
    some ({ st with sinkCh := c', snk := { st.snk with pc := .runmapNotify } }, [])
  | .runmapNotify =>
    -- `while (slice.end > slice.beg)`: the slice was not empty, read again (main and flush loop alike)
    let st := notifySink st
    some ({ st with snk := { st.snk with pc := .rmapLock } }, [])
  | .stoStop =>
    some ({ st with sto := { st.sto with state := .armed }, snkRunning := false, snkStopping := false,
                    snk := { st.snk with pc := .done } },
          [s!"DRV {stoDev s} stop -> armed"])
  | .errAccLock =>
    let (c', _) := chanOp st.sinkCh (.accept false)
    some ({ st with sinkCh := c', snk := { st.snk with pc := .errAccNotify } }, [])
  | .errAccNotify =>
    -- `channel_read_unmap(.., 0)`: only if a region is mapped
    let st := notifySink st
    if (st.sinkCh.rds.getD 0 {}).mapped then some ({ st with snk := { st.snk with pc := .errUnmapLock } }, [])
    else some ({ st with snkRunning := false, snkStopping := false, snk := { st.snk with pc := .done } }, [])
  | .errUnmapLock =>
    let (c', _) := chanOp st.sinkCh (.runmap 0 0)
    some ({ st with sinkCh := c', snk := { st.snk with pc := .errUnmapNotify } }, [])
  | .errUnmapNotify =>
    -- storage_stop: the HAL state is not Running any more, no driver call
    let st := notifySink st
    some ({ st with snkRunning := false, snkStopping := false, snk := { st.snk with pc := .done } }, [])
  | .done => none

end AcqVerif.Runtime
