import AcqVerif.Runtime.Inv
/-! (tactics now live in `AcqVerif.Runtime.Inv`) -/
