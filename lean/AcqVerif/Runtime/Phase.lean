import AcqVerif.Runtime.Tactics
/-!
# M1 — where the client is inside `acquire_start` / `acquire_stop`, per stream

`acquire_start` handles the valid streams one after the other (storage start, accept writes, sink thread, filter thread,
camera start, source thread); `acquire_stop` joins source, filter, sink of each valid stream and then flushes its readers.
These functions read off the client's program counter how far it has got for stream `s`.
-/
namespace AcqVerif.Runtime
open AcqVerif.Channel

/-- progress of `acquire_start` for stream `s` (0 = the client is not inside the start of stream `s`) -/
def stage (pc : CPc) (s : Nat) : Nat :=
  match pc with
  | .stoStart x => if x = s then 1 else 0
  | .accLock x true 0 => if x = s then 2 else 0
  | .accNotify x 0 => if x = s then 3 else 0
  | .createSnk x => if x = s then 4 else 0
  | .createFlt x => if x = s then 5 else 0
  | .srcCheck x => if x = s then 6 else 0
  | .camStart x => if x = s then 7 else 0
  | .createSrc x => if x = s then 8 else 0
  | _ => 0

/-- streams with an index ≥ this one have not been touched yet by the `acquire_start` in progress -/
def pendingFrom (pc : CPc) : Option Nat :=
  match pc with
  | .startAt k => some k
  | .stoStart x | .accLock x true 0 | .accNotify x 0 | .createSnk x | .createFlt x | .srcCheck x | .camStart x | .createSrc x => some (x + 1)
  | _ => none

/-- progress of `acquire_stop` for stream `s`: 1 = source joined, 2 = filter joined too, 3 = all three joined -/
def stopStage (pc : CPc) (s : Nat) : Nat :=
  match pc with
  | .joinFlt x => if x = s then 1 else 0
  | .joinSnk x => if x = s then 2 else 0
  | .accLock x true 2 | .accNotify x 2 | .flushAt x _ | .flushRmapLock x _ | .flushRmapNotify x _ | .flushUnmapLock x _ _
  | .flushUnmapNotify x _ _ | .flushAfterRead x _ | .flushed x _ => if x = s then 3 else 0
  | _ => 0

/-- streams with an index below this one have been joined by the `acquire_stop` in progress -/
def stopBelow (pc : CPc) : Option Nat :=
  match pc with
  | .stopAt k => some k
  | .joinSrc x | .joinFlt x | .joinSnk x | .accLock x true 2 | .accNotify x 2 | .flushAt x _ | .flushRmapLock x _ | .flushRmapNotify x _
  | .flushUnmapLock x _ _ | .flushUnmapNotify x _ _ | .flushAfterRead x _ | .flushed x _ => some x
  | _ => none

/-- the tail of `acquire_start`'s error path, after its `acquire_abort` has returned -/
def afterErrStop (pc : CPc) : Bool :=
  match pc with
  | .startErr _ | .errCamStop _ => true
  | _ => false

/-- the client is inside `acquire_abort`'s first loop -/
def inAbort (pc : CPc) : Bool :=
  match pc with
  | .abortAt _ | .accLock _ false 1 | .accNotify _ 1 => true
  | _ => false

/-- program counters outside `acquire_start`, `acquire_abort` and `acquire_stop` -/
def quiet (pc : CPc) : Bool := (pendingFrom pc).isNone && (stopBelow pc).isNone && !inAbort pc && !afterErrStop pc

def AllDone (st : Stream) : Prop := st.src.pc = .done ∧ st.flt.pc = .done ∧ st.snk.pc = .done

/-- the sink's error path and exit -/
def snkLeaving (pc : SnkPc) : Bool :=
  match pc with
  | .error | .errAccLock | .errAccNotify | .errAfterAcc | .errUnmapLock | .errUnmapNotify | .exit | .done => true
  | _ => false

/-- **Threads, flags, devices** — per stream `s`, relative to the client's program counter and `runtime.state` -/
structure TInv (s : Nat) (st : Stream) (cl : Client) (rtstate : DevState) : Prop where
  /-- a stream that is not configured never has workers -/
  invalid : st.valid = false → AllDone st ∧ st.srcRunning = false ∧ st.fltRunning = false ∧ st.snkRunning = false
  /-- a cleared `is_running` flag means the thread has finished (or was never created) -/
  src_flag : st.srcRunning = false → st.src.pc = .done
  flt_flag : st.fltRunning = false → st.flt.pc = .done
  snk_flag : st.snkRunning = false → st.snk.pc = .done
  /-- and a finished thread has cleared its flag, except between the flag's assignment and `thread_create` -/
  src_done : st.src.pc = .done → stage cl.pc s ≠ 8 → st.srcRunning = false
  flt_done : st.flt.pc = .done → stage cl.pc s ≠ 5 → st.fltRunning = false
  snk_done : st.snk.pc = .done → stage cl.pc s ≠ 4 → st.snkRunning = false
  /-- `acquire_start` creates a thread only over one that has finished -/
  start_snk : 1 ≤ stage cl.pc s → stage cl.pc s ≤ 4 → st.snk.pc = .done
  start_flt : 1 ≤ stage cl.pc s → stage cl.pc s ≤ 5 → st.flt.pc = .done
  start_src : 1 ≤ stage cl.pc s → stage cl.pc s ≤ 8 → st.src.pc = .done
  start_valid : 1 ≤ stage cl.pc s → st.valid = true
  /-- the flag is already set when the thread is about to be created -/
  flag_snk : stage cl.pc s = 4 → st.snkRunning = true
  flag_flt : stage cl.pc s = 5 → st.fltRunning = true
  flag_src : stage cl.pc s = 8 → st.srcRunning = true
  pending : ∀ k, pendingFrom cl.pc = some k → k ≤ s → AllDone st
  /-- `acquire_stop` has joined what it has passed -/
  joined_below : ∀ k, stopBelow cl.pc = some k → s < k → AllDone st
  joined_src : 1 ≤ stopStage cl.pc s → st.src.pc = .done
  joined_flt : 2 ≤ stopStage cl.pc s → st.flt.pc = .done
  joined_snk : 3 ≤ stopStage cl.pc s → st.snk.pc = .done
  after_err_stop : afterErrStop cl.pc = true → AllDone st
  /-- outside start/abort/stop the runtime's state field is Running whenever a worker exists -/
  quiet_done : quiet cl.pc = true → rtstate ≠ .running → AllDone st
  /-- `runtime.state` becomes Running only at the end of `acquire_start` -/
  start_not_running : (pendingFrom cl.pc).isSome = true → rtstate ≠ .running
  /-- devices: a Running camera belongs to a source that has not finished; a Running storage to a sink that has not left -/
  cam_running : st.cam.state = .running → st.srcRunning = true
  sto_running : st.sto.state = .running → st.snkRunning = true ∨ stage cl.pc s = 2 ∨ stage cl.pc s = 3
  snk_leaving : snkLeaving st.snk.pc = true → st.sto.state ≠ .running ∨ (1 ≤ stage cl.pc s ∧ stage cl.pc s ≤ 4)

end AcqVerif.Runtime
