import AcqVerif.Runtime.Basic
/-!
# M1 — initial states and reachability

The model starts where the harness opens its co-simulation window: `acquire_init` and one
`acquire_configure` have run (devices opened and armed, both channels of every stream hold the reader that
`video_sink_init` / `video_filter_init` registered), no thread exists yet, and the client is at the first
synchronisation call of its program. The driver `acq_runtime` builds its initial state with `initRT`, so the
states the co-simulation compares are the states the theorems quantify over.
-/
namespace AcqVerif.Runtime
open AcqVerif.Channel

/-- what the scenario says about one stream -/
structure StreamCfg where
  F : Nat := 104
  n : Nat := 0
  setText : String := ""
  camFail : Option Nat := none
  camFailP : Bool := false
  camEmpty : Nat := 0
  stoFail : Option Nat := none
  stoFailP : Bool := false
deriving Repr, Inhabited

/-- a channel right after `channel_new` and the registration of its worker's reader -/
def freshChan (ring : Nat) : Sys := (step (Sys.init ring) .join).1

/-- thread objects that were never started are joinable at once: the worker pcs start at `done` -/
def initStream (ring : Nat) (c : Option StreamCfg) : Stream :=
  match c with
  | none => { sinkCh := freshChan ring, filtCh := freshChan ring, src := { pc := .done }, flt := { pc := .done }, snk := { pc := .done } }
  | some c =>
    { valid := true, F := c.F, maxFrames := c.n, setText := c.setText, sinkCh := freshChan ring, filtCh := freshChan ring,
      cam := { failAt := c.camFail, failPersistent := c.camFailP, emptyEvery := c.camEmpty },
      sto := { failAt := c.stoFail, failPersistent := c.stoFailP },
      src := { pc := .done }, flt := { pc := .done }, snk := { pc := .done } }

def initRT (ring : Nat) (cfgs : List (Option StreamCfg)) (prog : List COp) : RT :=
  { streams := cfgs.map (initStream ring), client := { prog := prog } }

/-- the client is already running when the window opens: it is parked at the first yield of its first call -/
def bootRT (ring : Nat) (cfgs : List (Option StreamCfg)) (prog : List COp) : RT := (clientBoot (initRT ring cfgs prog)).1

def IsBoot (rt : RT) : Prop := ∃ ring cfgs prog, rt = bootRT ring cfgs prog

/-- every state any schedule can reach from any scenario -/
abbrev Reach : RT → Prop := RReach IsBoot

theorem getS_initRT (ring : Nat) (cfgs : List (Option StreamCfg)) (prog : List COp) (s : Nat) :
    getS (initRT ring cfgs prog) s = if h : s < cfgs.length then initStream ring cfgs[s] else {} := by
  unfold getS initRT
  by_cases h : s < cfgs.length
  · simp [List.getD, h]
  · simp [List.getD, h, List.getElem?_eq_none (Nat.le_of_not_lt h)]

end AcqVerif.Runtime
