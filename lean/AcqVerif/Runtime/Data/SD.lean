import AcqVerif.Runtime.Data.StopWorkers
/-! # M1 — `DStop` is kept by the client actions (clStart) -/
namespace AcqVerif.Runtime
open AcqVerif.Channel

set_option maxHeartbeats 32000000 in
theorem DStop.client_start (s0 : Nat) : ∀ a ∈ clStart s0, DStop.Kept a := by
  intro a ha rt hT hU hE hg h s'
  have tS := (hT s').start_src; have tK := (hT s').start_snk; have tF := (hT s').start_flt; have tJ := (hT s').joined_snk; have tE := (hT s').after_err_stop; have tV := (hT s').start_valid
  have tJs := (hT s').joined_src; have tJf := (hT s').joined_flt; have tP := (hT s').pending; have tI := (hT s').invalid; have tB := (hT s').joined_below
  have hs8 := stage_le rt.client.pc s'
  have hch := clHolds0_stop rt.client.pc s'
  have hvr := valid_in_range rt
  have hnvv := nv_spec rt
  have hnvn := nv_none rt
  unfold DStopP at h ⊢
  unfold DEndP at hE
  unfold DUseP at hU
  unfold clStart at ha
  each_action ha
  client_expose
  all_goals (try (simp only [isOp, atPc, notifySink, setReaderChan, readerChan, readerIdx, flushRead, mapRead, mapMoved, chanOp, lockOk, monMapped, outLen_eq, getS, getD0_eq, getD_idx0, getD1_eq, getD_idx1, getD_stopAllFilters, markFlt, Bool.and_eq_true, Bool.or_eq_true, decide_eq_true_eq, Bool.not_eq_true', ne_eq] at hg ⊢))
  all_goals (try (simp at hg; done))
  all_goals (repeat' split)
  all_goals (intro he hm hF)
  all_goals (first | (cases hm; done) | (obtain ⟨k1, k2, k3, k4, k5, k6, k7, k8, k9, k10, k11, k12, k13, k14⟩ := hU _ he hm))
  all_goals (first | (have hEE := hE _ he hm hF; have w2 := hEE.w2; have w4 := hEE.w4; have w5 := hEE.w5; have w6 := hEE.w6; have e10b := hEE.drained_pc))
  all_goals (first | (obtain ⟨c1, c2, c3, c4, c7, c7a, c8, y, yq, yqs, yqx, yqe, yend⟩ := h _ he hm hF))
  all_goals (
    have hn1 := nrd_pos k3
    have hrm0 := cv_rmap0 k1 hn1
    have hru0 := fun k => cv_runmap0 k1 k hn1
    have hrm1 := cv_rmap1 k1
    have hru1 := fun k => cv_runmap1 k1 k
    have hac := fun b => cv_accept k1 b
    have hj := cv_join1 k1
    have hbad := fun k => runmap1_bad k1 k)
  all_goals constructor
  all_goals (try dsimp only)
  all_goals (repeat' split)
  all_goals (first | assumption | ((try simp only [snkHold, snkErr, snkErrLate, srcHold, srcFin, clHolds0, clFlush1, clFlush1Free, AllDone] at *) <;> (try simp only [stage, stopStage, stopBelow, afterErrStop, pastAccFalse, pastAccIdx, quiet, pendingFrom, inAbort] at ⊢) <;> grind [stage, stopStage, stopBelow, afterErrStop, pastAccFalse, pastAccIdx, quiet, pendingFrom, inAbort]) | (by_cases hs0 : s0 = s' <;> (try subst hs0) <;> (try simp only [stage, stopStage, stopBelow, afterErrStop, srcFin] at *) <;> grind [stage, stopStage, stopBelow, afterErrStop, pastAccFalse, pastAccIdx, quiet, pendingFrom, inAbort]))

end AcqVerif.Runtime
