import AcqVerif.Runtime.Data.Def
/-! # M1 — `DUse` is kept by every action of the worker threads -/
namespace AcqVerif.Runtime
open AcqVerif.Channel

theorem fresh_rmap (ring : Nat) : (step (freshChan ring) (.rmap 0)).1 = freshChan ring := by
  simp [freshChan, step, Sys.init, readMap, readerInit, readMapAt, readMapCore]
theorem fresh_runmap (ring k : Nat) : (step (freshChan ring) (.runmap 0 k)).1 = freshChan ring := by
  simp [freshChan, step, Sys.init, readMap, readerInit, readMapAt, readMapCore, readUnmap]
theorem fresh_cap (ring : Nat) : (freshChan ring).c.cap = ring := by
  simp [freshChan, step, Sys.init, readMap, readerInit, readMapAt, readMapCore]

theorem mapped_pos0 {c : Sys} (h : Ok c) (hn : 1 ≤ c.rds.length) : (cv c).m0 = true → 0 < (cv c).l0 := by
  obtain ⟨cap, g, hr⟩ := h
  intro hm
  exact (C02.read_region_committed hr 0 (by omega) hm).1

theorem clHolds0_stop (pc : CPc) (s : Nat) : clHolds0 pc s = true → 3 ≤ stopStage pc s := by
  unfold clHolds0
  intro h
  simp only [Bool.or_eq_true, decide_eq_true_eq] at h
  rcases h with (rfl | rfl) | rfl <;> simp [stopStage]

theorem getD_idx0 (c : Sys) : c.idx.getD 0 0 = (cv c).i0 := rfl

theorem getD0_eq (c : Sys) : (c.rds.getD 0 {}).mapped = (cv c).m0 := rfl

theorem DUse.flt (s : Nat) (cl : Client) : ∀ a ∈ fltActs, ∀ st, a.guard st = true → DUse s st cl → DUse s (a.upd st) cl := by
  intro a ha st hg h
  obtain ⟨k1, k2, k3, k4, k5, k6, k7, k8, k9, k10, k11, k12, k13, k14⟩ := h
  have hf : (step st.filtCh (.rmap 0)).1 = st.filtCh := by
    have := fresh_rmap st.filtCh.c.cap; rw [← k2] at this; exact this
  unfold fltActs at ha
  each_action ha
  all_goals (simp only [setFltPc, fltRead, chanOp, hf] at hg ⊢)
  all_goals (exact ⟨k1, k2, k3, k4, k5, k6, k7, k8, k9, k10, k11, k12, k13, k14⟩)

set_option maxHeartbeats 4000000 in
theorem DUse.snk (s : Nat) (cl : Client) (rs : DevState) : ∀ a ∈ snkActs s, ∀ st, a.guard st = true → TInv s st cl rs →
    DUse s st cl → DUse s (a.upd st) cl := by
  intro a ha st hg ht h
  obtain ⟨k1, k2, k3, k4, k5, k6, k7, k8, k9, k10, k11, k12, k13, k14⟩ := h
  have t1 := ht.start_snk; have t3 := ht.joined_snk; have t4 := ht.start_src; have hs8 := stage_le cl.pc s
  have hn1 : 1 ≤ st.sinkCh.rds.length := by have := k3; simp only [cv] at this; split at this <;> omega
  have hrm := cv_rmap0 k1 hn1
  have hru := fun k => cv_runmap0 k1 k hn1
  have hac := cv_accept k1 false
  have hml := mapped_pos0 k1 hn1
  have hch := clHolds0_stop cl.pc s
  have hirm := fun h => @idle_rmap st.sinkCh h 0
  have hiru := fun h k => @idle_runmap st.sinkCh h 0 k
  have hirf := fun h => @idle_refuse st.sinkCh h
  unfold snkActs at ha
  each_action ha
  all_goals (simp only [setSnkPc, snkRead, notifySink, chanOp, outLen_eq, getD0_eq, getD_idx0, Bool.and_eq_true, Bool.or_eq_true, decide_eq_true_eq, Bool.not_eq_true', ne_eq] at hg ⊢)
  -- snk.read.moved / snk.read
  case inr.inr.inr.inr.inl =>
    have hm0 : (nth st.sinkCh.rds 0).mapped = false := by
      cases hm : (nth st.sinkCh.rds 0).mapped with
      | false => rfl
      | true =>
        rcases k9 hm with h1 | h1
        · simp_all [snkHold]
        · have := t3 (hch h1); simp_all
    obtain ⟨hok, h0, hle, hcv⟩ := hrm hm0
    constructor
    all_goals (try simp only [hcv])
    all_goals (first | assumption | ((try simp only [snkHold, srcHold] at *) <;> grind))
  case inr.inr.inr.inr.inr.inl =>
    have hm0 : (nth st.sinkCh.rds 0).mapped = false := by
      cases hm : (nth st.sinkCh.rds 0).mapped with
      | false => rfl
      | true =>
        rcases k9 hm with h1 | h1
        · simp_all [snkHold]
        · have := t3 (hch h1); simp_all
    obtain ⟨hok, h0, hle, hcv⟩ := hrm hm0
    constructor
    all_goals (try simp only [hcv])
    all_goals (first | assumption | ((try simp only [snkHold, srcHold] at *) <;> grind))
  all_goals (first | (constructor <;> (first | assumption | ((try simp only [snkHold, srcHold] at *) <;> grind))))

set_option maxHeartbeats 4000000 in
theorem DUse.src (s : Nat) (cl : Client) (rs : DevState) : ∀ a ∈ srcActs s, ∀ st, a.guard st = true → TInv s st cl rs →
    DUse s st cl → DUse s (a.upd st) cl := by
  intro a ha st hg ht h
  obtain ⟨k1, k2, k3, k4, k5, k6, k7, k8, k9, k10, k11, k12, k13, k14⟩ := h
  have t1 := ht.start_src; have t2 := ht.after_err_stop
  have hnf : st.cam.failAt = none → camFault st = false := by intro hf; simp [camFault, faultHits, hf]
  have hne : st.cam.emptyEvery = 0 → camEmpty st = false := by intro he; simp [camEmpty, he]
  have hiab := idle_wabort st.sinkCh
  have hcid := @wcommit_idle st.sinkCh
  -- what the channel operations of this thread do, in the view
  have hwf := cv_wmap_fail st.sinkCh st.F
  have hwo := fun b => cv_wmap_ok k1 st.F b
  have hcm := cv_wcommit k1
  have hab := cv_wabort k1
  unfold srcActs at ha
  each_action ha
  all_goals (simp only [setSrcPc, atWmap, wmapOut, wmapSys, chanOp, Bool.and_eq_true, Bool.or_eq_true, decide_eq_true_eq, Bool.not_eq_true', ne_eq] at hg ⊢)
  -- src.wmap.ok
  case inr.inr.inr.inr.inr.inr.inr.inr.inl =>
    obtain ⟨b, hb⟩ := (isWok_iff _).mp hg.2
    obtain ⟨hok, hcv⟩ := hwo b hb
    constructor
    all_goals (try simp only [hcv])
    all_goals (first | assumption | ((try simp only [srcHold] at *) <;> grind))
  -- src.wmap.refused
  case inr.inr.inr.inr.inr.inr.inr.inr.inr.inl =>
    have hs : (step st.sinkCh (Op.wmap st.F)).1 = st.sinkCh := by
      apply hwf; intro b hb; have := hg.2; rw [hb] at this; simp [isWok] at this
    constructor
    all_goals (try simp only [hs])
    all_goals (first | assumption | ((try simp only [srcHold] at *) <;> grind))
  -- src.abort
  case inr.inr.inr.inr.inr.inr.inr.inr.inr.inr.inr.inr.inr.inr.inr.inr.inr.inl =>
    have hsh : srcHold st.src.pc = true := by (have := hg.1; simp_all [srcHold])
    have hp : st.sinkCh.pending = true := by
      rcases k7 hsh with h | h
      · exact h
      · have := hg.1; rw [h.1] at this; cases this
    obtain ⟨hok, hcv⟩ := hab hp
    constructor
    all_goals (try simp only [hcv])
    all_goals (first | assumption | ((try simp only [srcHold] at *) <;> grind))
  -- src.commit
  case inr.inr.inr.inr.inr.inr.inr.inr.inr.inr.inr.inr.inr.inr.inr.inr.inr.inr.inl =>
    have hsh : srcHold st.src.pc = true := by (have := hg.1; simp_all [srcHold])
    by_cases hcn : st.src.cur = none
    · -- after an aborted write (empty frame): the unmap changes nothing
      have hs : (step st.sinkCh Op.wcommit).1 = st.sinkCh := hcid (k14 hg.1 hcn)
      constructor
      all_goals (try simp only [hs])
      all_goals (first | assumption | ((try simp only [srcHold] at *) <;> grind))
    · have hp : st.sinkCh.pending = true := by
        rcases k7 hsh with h | h
        · exact h
        · exact absurd h.2 hcn
      obtain ⟨hok, hcv⟩ := hcm hp
      constructor
      all_goals (try simp only [hcv])
      all_goals (first | assumption | ((try simp only [srcHold] at *) <;> grind))
  all_goals (first | (constructor <;> (first | assumption | ((try simp only [srcHold] at *) <;> grind))))

theorem runmap1_bad {c : Sys} (_h : Ok c) (k : Nat) (hn : (cv c).nrd ≤ 1) : (step c (.runmap 1 k)).1 = c :=
  step_runmap_bad c 1 k hn

theorem getD1_eq (c : Sys) : (c.rds.getD 1 {}).mapped = (cv c).m1 := rfl
theorem getD_idx1 (c : Sys) : c.idx.getD 1 0 = (cv c).i1 := rfl

theorem filt_rmap {c : Sys} (h : c = freshChan c.c.cap) : (step c (.rmap 0)).1 = c := by
  have := fresh_rmap c.c.cap; rw [← h] at this; exact this
theorem filt_runmap {c : Sys} (h : c = freshChan c.c.cap) (k : Nat) : (step c (.runmap 0 k)).1 = c := by
  have := fresh_runmap c.c.cap k; rw [← h] at this; exact this

theorem nrd_pos {n : Nat} {b : Bool} (h : n = if b = true then 2 else 1) : 1 ≤ n := by split at h <;> omega

/-- what each client family has to establish -/
def DUse.Kept (a : Act RT) : Prop :=
  ∀ rt, TInvAll rt → a.guard rt = true → (∀ s, DUseP s (getS rt s) rt.client) → ∀ s, DUseP s (getS (a.upd rt) s) (a.upd rt).client

end AcqVerif.Runtime
