import AcqVerif.Runtime.Data.SA
import AcqVerif.Runtime.Data.SB
import AcqVerif.Runtime.Data.SC
import AcqVerif.Runtime.Data.SC2
import AcqVerif.Runtime.Data.SD
import AcqVerif.Runtime.Data.SE
import AcqVerif.Runtime.Data.SF
import AcqVerif.Runtime.Data.SG0
import AcqVerif.Runtime.Data.SG1
import AcqVerif.Runtime.Data.SG2
/-! # M1 — `DStop` holds in every state any schedule reaches -/
namespace AcqVerif.Runtime
open AcqVerif.Channel

theorem DStop.client_flush (s0 r0 : Nat) (hr : r0 ∈ ([2, 0, 1] : List Nat)) : ∀ a ∈ clientFlush s0 r0, DStop.Kept a := by
  simp only [List.mem_cons, List.mem_nil_iff, or_false] at hr
  rcases hr with rfl | rfl | rfl
  · exact DStop.client_flush2 s0
  · exact DStop.client_flush0 s0
  · exact DStop.client_flush1 s0

theorem DStop.init (ring : Nat) (c : Option StreamCfg) (prog : List COp) (s : Nat) : DStop s (initStream ring c) { prog := prog } := by
  cases c <;> (constructor <;> simp [initStream, stage, srcFin, snkErrLate, pastAccFalse, pastAccIdx, stopBelow, afterErrStop, quiet, pendingFrom])

theorem DStop.default (prog : List COp) (s : Nat) : DStop s {} { prog := prog } := by
  constructor <;> simp [stage, srcFin, snkErrLate, pastAccFalse, pastAccIdx, stopBelow, afterErrStop, quiet, pendingFrom]

/-- **who may stop whom, and refused writes stay refused — in every state of every schedule** -/
theorem DStop.micro : ∀ rt, MReach rt → ∀ s, DStopP s (getS rt s) rt.client := by
  apply MReach.inv' (fun rt => ∀ s, DStopP s (getS rt s) rt.client)
  · intro ring cfgs prog s _ _ _
    rw [getS_initRT]
    split
    · exact DStop.init ring _ prog s
    · exact DStop.default prog s
  · intro s a ha rt hr hg h
    refine all_setS_cl DStopP rt s _ ?_ h
    intro he hm hF
    rw [src_keeps_F s a ha] at hF
    exact DStop.src s rt.client rt.state a ha _ hg (TInvAll.micro rt hr s) (DUse.micro rt hr s (Here.intro _) hm) (h s (Here.intro _) hm hF)
  · intro s a ha rt hr hg h
    refine all_setS_cl DStopP rt s _ ?_ h
    intro he hm hF
    rw [flt_keeps_F a ha] at hF
    exact DStop.flt s rt.client rt.state a ha _ hg (TInvAll.micro rt hr s) (DUse.micro rt hr s (Here.intro _) hm) (h s (Here.intro _) hm hF)
  · intro s a ha rt hr hg h
    refine all_setS_cl DStopP rt s _ ?_ h
    intro he hm hF
    rw [snk_keeps_F s a ha] at hF
    exact DStop.snk s rt.client rt.state a ha _ hg (TInvAll.micro rt hr s) (DUse.micro rt hr s (Here.intro _) hm) (DEnd.micro rt hr s (Here.intro _) hm hF)
      (h s (Here.intro _) hm hF)
  · intro a ha rt hr hg h
    exact client_families DStop.Kept DStop.client_base DStop.client_mon DStop.client_cfg DStop.client_start DStop.client_err
      DStop.client_stop DStop.client_acc DStop.client_flush a ha rt (TInvAll.micro rt hr) (DUse.micro rt hr) (DEnd.micro rt hr) hg h

end AcqVerif.Runtime
