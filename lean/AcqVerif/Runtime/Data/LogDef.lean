import AcqVerif.Runtime.Data.Frames
/-!
# M1 — what the storage has received is a run of consecutive committed frames

`DLog`: the frames committed to `sink.in` lie one after the other; the storage's log of the current run is exactly the
frames that start in `[base, appended)` — `base` being the committed byte count when the storage was started — and while
the sink thread is alive `appended` is the sink's position in the stream (its reader's position, or the end of the region
it has just appended and not yet released).
-/
namespace AcqVerif.Runtime
open AcqVerif.Channel

/-- where the sink is in the stream: everything before this has been appended -/
def logpos (st : Stream) : Nat := if st.snk.pc = .runmapLock then st.snk.idx + st.snk.len else (cv st.sinkCh).i0

structure DLog (s : Nat) (st : Stream) (cl : Client) : Prop where
  frames : FramesOk st.sinkFrames st.F (cv st.sinkCh).total
  log : st.sto.clean = true → st.sto.base ≤ st.sto.appended ∧ st.sto.appended ≤ (cv st.sinkCh).total ∧
          st.sto.log = framesIn st.sinkFrames st.sto.base (st.sto.appended - st.sto.base)
  alive : st.sto.clean = true → st.snk.pc ≠ .done → logpos st = st.sto.appended
  startwin : st.sto.clean = true → 2 ≤ stage cl.pc s → stage cl.pc s ≤ 4 → (cv st.sinkCh).i0 = st.sto.appended

/-- `DLog` under the premises of `DUseP` -/
def DLogP (s : Nat) (st : Stream) (cl : Client) : Prop :=
  Here st → cl.misused = false → DLog s st cl

end AcqVerif.Runtime
