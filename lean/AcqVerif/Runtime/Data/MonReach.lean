import AcqVerif.Runtime.Data.MA
import AcqVerif.Runtime.Data.MB
import AcqVerif.Runtime.Data.MC
import AcqVerif.Runtime.Data.MD
import AcqVerif.Runtime.Data.ME
import AcqVerif.Runtime.Data.MF
import AcqVerif.Runtime.Data.MG0
import AcqVerif.Runtime.Data.MG1
import AcqVerif.Runtime.Data.MG2
/-! # M1 — `DMon` holds in every state any schedule reaches -/
namespace AcqVerif.Runtime
open AcqVerif.Channel

theorem DMon.client_flush (s0 r0 : Nat) (hr : r0 ∈ ([2, 0, 1] : List Nat)) : ∀ a ∈ clientFlush s0 r0, DMon.Kept a := by
  simp only [List.mem_cons, List.mem_nil_iff, or_false] at hr
  rcases hr with rfl | rfl | rfl
  · exact DMon.client_flush2 s0
  · exact DMon.client_flush0 s0
  · exact DMon.client_flush1 s0

theorem DMon.init (ring : Nat) (c : Option StreamCfg) (prog : List COp) (s : Nat) : DMon s (initStream ring c) { prog := prog } := by
  cases c <;> (constructor <;> simp [initStream])

theorem DMon.default (prog : List COp) (s : Nat) : DMon s {} { prog := prog } := by
  constructor <;> simp

theorem DMon.micro : ∀ rt, MReach rt → ∀ s, DMonP s (getS rt s) rt.client := by
  apply MReach.inv' (fun rt => ∀ s, DMonP s (getS rt s) rt.client)
  · intro ring cfgs prog s _ _
    rw [getS_initRT]
    split
    · exact DMon.init ring _ prog s
    · exact DMon.default prog s
  · intro s a ha rt hr hg h
    refine all_setS_cl DMonP rt s _ ?_ h
    intro he hm
    exact DMon.src s rt.client rt.state a ha _ hg (TInvAll.micro rt hr s) (DUse.micro rt hr s (Here.intro _) hm) (h s (Here.intro _) hm)
  · intro s a ha rt _ hg h
    refine all_setS_cl DMonP rt s _ ?_ h
    intro he hm
    exact DMon.flt s rt.client a ha _ hg (h s (Here.intro _) hm)
  · intro s a ha rt hr hg h
    refine all_setS_cl DMonP rt s _ ?_ h
    intro he hm
    exact DMon.snk s rt.client rt.state a ha _ hg (TInvAll.micro rt hr s) (DUse.micro rt hr s (Here.intro _) hm) (h s (Here.intro _) hm)
  · intro a ha rt hr hg h
    exact client_families DMon.Kept DMon.client_base DMon.client_mon DMon.client_cfg DMon.client_start DMon.client_err
      DMon.client_stop DMon.client_acc DMon.client_flush a ha rt (TInvAll.micro rt hr) (DUse.micro rt hr) hg h

end AcqVerif.Runtime
