import AcqVerif.Runtime.Cam.Reach
import AcqVerif.Channel.View
/-!
# M1 — the data path: how the threads use the sink's channel

`DUse` says, per stream and relative to the client's program counter, that the channel `sink.in` is only ever used
within the rules of `channel.c`'s API (so that everything C01/C02 prove about it applies in every reachable state of
the runtime), and ties the threads' program counters to the channel's view: a write is pending exactly while the
source holds a region; the sink's reader is mapped only while the sink (or the client's flush) holds a region, and the
sink's bookkeeping (`idx`, `len`) is the reader's stream position and region length.

It is stated for clients that keep the monitoring API's usage rule. Cameras that hand out empty frames are covered: the source
aborts that write and then unmaps, and an unmap with nothing in flight is within the channel's rules and changes nothing (`Idle`).
Scripted camera failures are covered: a failing `camera_get_frame` leaves the write region mapped for good, and the next
acquisition's first `channel_write_map` replaces it, which is within the rules (`Op.wf`).
-/
namespace AcqVerif.Runtime
open AcqVerif.Channel

theorem stage_le (pc : CPc) (s : Nat) : stage pc s ≤ 8 := by
  unfold stage; split <;> (try split) <;> omega

theorem outLen_eq (o : Out) : outLen o = sliceLen o := by cases o <;> rfl
theorem isWok_iff (o : Out) : isWok o = true ↔ ∃ b, o = .wok b := by cases o <;> simp [isWok]

/-- the source holds a write region -/
def srcHold (pc : SrcPc) : Bool :=
  match pc with
  | .afterMap | .getFrame | .abortLock | .commitLock => true
  | _ => false

/-- the sink is between its `channel_read_map` and the matching `channel_read_unmap` -/
def snkHold (pc : SnkPc) : Bool :=
  match pc with
  | .rmapNotify | .afterMap | .append | .runmapLock | .error | .errAccLock | .errAccNotify | .errAfterAcc | .errUnmapLock => true
  | _ => false

/-- the client's `flush_reader` of the sink's reader of stream `s` is between its map and its unmap -/
def clHolds0 (pc : CPc) (s : Nat) : Bool :=
  pc = .flushRmapNotify s 0 || pc = .flushAfterRead s 0 || pc = .flushUnmapLock s 0 false

/-- the client's `flush_reader` of the monitor reader of stream `s`, past the "is it registered" test -/
def clFlush1 (pc : CPc) (s : Nat) : Bool :=
  pc = .flushRmapLock s 1 || pc = .flushRmapNotify s 1 || pc = .flushAfterRead s 1 || pc = .flushUnmapLock s 1 true ||
  pc = .flushUnmapLock s 1 false || pc = .flushUnmapNotify s 1 true || pc = .flushUnmapNotify s 1 false

/-- … at a point where the monitor reader is not mapped -/
def clFlush1Free (pc : CPc) (s : Nat) : Bool :=
  pc = .flushRmapLock s 1 || pc = .flushUnmapNotify s 1 true || pc = .flushUnmapNotify s 1 false

structure DUse (s : Nat) (st : Stream) (cl : Client) : Prop where
  ok : Ok st.sinkCh
  filt : st.filtCh = freshChan st.filtCh.c.cap
  nrd : (cv st.sinkCh).nrd = if st.monReg then 2 else 1
  /-- a failed `camera_get_frame` sends the source straight to its exit (a scripted fault is the only way to fail) -/
  nofail : (st.cam.emptyEvery = 0 → st.src.pc ≠ .abortLock) ∧ (st.cam.failAt = none → st.cam.failed = false) ∧ (st.src.pc = .failStop → st.cam.failed = true) ∧
      (st.cam.failed = true → st.src.pc = .failStop ∨ ((st.src.pc = .finalize ∨ st.src.pc = .done) ∧ st.cam.state ≠ .running))
  camrun : st.src.pc ≠ .done → st.cam.failed = false → st.cam.state = .running
  camrun8 : stage cl.pc s = 8 → st.cam.state = .running ∧ st.cam.failed = false
  /-- while the source holds a region a write is pending (after a failed `camera_get_frame` the region stays mapped for good:
  the next `channel_write_map` simply replaces it) -/
  pend : srcHold st.src.pc = true → (cv st.sinkCh).pending = true ∨ (st.src.pc = .commitLock ∧ st.src.cur = none)
  wlen : srcHold st.src.pc = true → (cv st.sinkCh).wlen = st.F
  rd0 : (cv st.sinkCh).m0 = true → snkHold st.snk.pc = true ∨ clHolds0 cl.pc s = true
  rd0pos : snkHold st.snk.pc = true → (cv st.sinkCh).i0 = st.snk.idx ∧ (cv st.sinkCh).l0 = st.snk.len
  mon : (cl.pc = .mapLock s ∨ clFlush1Free cl.pc s = true) → st.monReg = true → (cv st.sinkCh).m1 = false
  mon1 : clFlush1 cl.pc s = true → st.monReg = true
  fl0 : clHolds0 cl.pc s = true → (cv st.sinkCh).m0 = decide (0 < cl.flushLen)
  /-- after the source has aborted the write of an empty frame nothing of a write is in flight: its `channel_write_unmap`
  (the source unmaps unconditionally) changes nothing -/
  idle : st.src.pc = .commitLock → st.src.cur = none → Idle st.sinkCh

@[simp] theorem cv_pending (s : Sys) : (cv s).pending = s.pending := rfl
@[simp] theorem cv_wlen (s : Sys) : (cv s).wlen = s.wlen := rfl
@[simp] theorem cv_total (s : Sys) : (cv s).total = s.total := rfl
@[simp] theorem cv_nrd (s : Sys) : (cv s).nrd = s.rds.length := rfl
@[simp] theorem cv_acc (s : Sys) : (cv s).acc = s.c.accepting := rfl

/-- a premise that is always true (`rfl`) and mentions a field of the stream record that no action changes: the proof scripts
of the client families use it to tell which stream an instance of the invariant is about -/
def Here (st : Stream) : Prop := st.cam.emptyEvery = st.cam.emptyEvery
theorem Here.intro (st : Stream) : Here st := rfl

/-- the invariant, with its premise: the client has not broken a usage rule -/
def DUseP (s : Nat) (st : Stream) (cl : Client) : Prop :=
  Here st → cl.misused = false → DUse s st cl

end AcqVerif.Runtime
