import AcqVerif.Runtime.Data.StopDef
/-! # M1 — `DStop` is kept by every action of the worker threads -/
namespace AcqVerif.Runtime
open AcqVerif.Channel

set_option maxHeartbeats 8000000 in
theorem DStop.src (s : Nat) (cl : Client) (rs : DevState) : ∀ a ∈ srcActs s, ∀ st, a.guard st = true → TInv s st cl rs → DUse s st cl →
    DStop s st cl → DStop s (a.upd st) cl := by
  intro a ha st hg ht hu h
  obtain ⟨k1, k2, k3, k4, k5, k6, k7, k8, k9, k10, k11, k12, k13, k14⟩ := hu
  obtain ⟨c1, c2, c3, c4, c7, c7a, c8, y, yq, yqs, yqx, yqe, yend⟩ := h
  have tS := ht.start_src; have hs8 := stage_le cl.pc s
  have hwf := cv_wmap_fail st.sinkCh st.F
  have hwo := fun b => cv_wmap_ok k1 st.F b
  have hcm := cv_wcommit k1
  unfold srcActs at ha
  each_action ha
  all_goals (simp only [setSrcPc, atWmap, wmapOut, wmapSys, chanOp, Bool.and_eq_true, Bool.or_eq_true, decide_eq_true_eq, Bool.not_eq_true', ne_eq] at hg ⊢)
  case inr.inr.inr.inr.inr.inr.inr.inr.inl =>
    obtain ⟨b, hb⟩ := (isWok_iff _).mp hg.2
    obtain ⟨hok, hcv⟩ := hwo b hb
    constructor
    all_goals (try simp only [hcv])
    all_goals (first | assumption | ((try simp only [srcFin, snkErrLate] at *) <;> grind))
  case inr.inr.inr.inr.inr.inr.inr.inr.inr.inl =>
    have hs : (step st.sinkCh (Op.wmap st.F)).1 = st.sinkCh := by
      apply hwf; intro b hb; have := hg.2; rw [hb] at this; simp [isWok] at this
    constructor
    all_goals (try simp only [hs])
    all_goals (first | assumption | ((try simp only [srcFin, snkErrLate] at *) <;> grind))
  -- src.abort
  case inr.inr.inr.inr.inr.inr.inr.inr.inr.inr.inr.inr.inr.inr.inr.inr.inr.inl =>
    have hsh : srcHold st.src.pc = true := by (have := hg.1; simp_all [srcHold])
    have hp : (cv st.sinkCh).pending = true := by
      rcases k7 hsh with h | h
      · exact h
      · have := hg.1; rw [h.1] at this; cases this
    obtain ⟨hok, hcv⟩ := cv_wabort k1 hp
    constructor
    all_goals (try simp only [hcv, logpos])
    all_goals (first | assumption | ((try simp only [srcFin, snkErrLate] at *) <;> grind))
  case inr.inr.inr.inr.inr.inr.inr.inr.inr.inr.inr.inr.inr.inr.inr.inr.inr.inr.inl =>
    have hsh : srcHold st.src.pc = true := by (have := hg.1; simp_all [srcHold])
    by_cases hcn : st.src.cur = none
    · -- the unmap after an aborted write (empty frame): nothing in flight, nothing changes
      have hs : (step st.sinkCh Op.wcommit).1 = st.sinkCh := wcommit_idle (k14 hg.1 hcn)
      constructor
      all_goals (try simp only [hs, hcn, addFrame, Option.isSome_none, Bool.false_and, Bool.or_false, ite_false, Nat.add_zero, logpos])
      all_goals (first | assumption | ((try simp only [srcFin, snkErrLate] at *) <;> grind))
    have hp : (cv st.sinkCh).pending = true := by
      rcases k7 hsh with h | h
      · exact h
      · exact absurd h.2 hcn
    obtain ⟨hok, hcv⟩ := hcm hp
    constructor
    all_goals (try simp only [hcv])
    all_goals (first | assumption | ((try simp only [srcFin, snkErrLate] at *) <;> grind))
  all_goals (first | (constructor <;> (first | assumption | ((try simp only [srcFin, snkErrLate] at *) <;> grind))))

set_option maxHeartbeats 8000000 in
theorem DStop.flt (s : Nat) (cl : Client) (rs : DevState) : ∀ a ∈ fltActs, ∀ st, a.guard st = true → TInv s st cl rs → DUse s st cl → DStop s st cl → DStop s (a.upd st) cl := by
  intro a ha st hg ht hu h
  obtain ⟨k1, k2, k3, k4, k5, k6, k7, k8, k9, k10, k11, k12, k13, k14⟩ := hu
  obtain ⟨c1, c2, c3, c4, c7, c7a, c8, y, yq, yqs, yqx, yqe, yend⟩ := h
  have tF := ht.start_flt; have hs8 := stage_le cl.pc s
  have hf : (step st.filtCh (.rmap 0)).1 = st.filtCh := filt_rmap k2
  unfold fltActs at ha
  each_action ha
  all_goals (simp only [setFltPc, fltRead, chanOp, hf, Bool.and_eq_true, Bool.or_eq_true, decide_eq_true_eq, Bool.not_eq_true', ne_eq] at hg ⊢)
  all_goals (first | (constructor <;> (first | assumption | ((try simp only [srcFin, snkErrLate] at *) <;> grind))))

set_option maxHeartbeats 8000000 in
theorem DStop.snk (s : Nat) (cl : Client) (rs : DevState) : ∀ a ∈ snkActs s, ∀ st, a.guard st = true → TInv s st cl rs → DUse s st cl → DEnd s st cl →
    DStop s st cl → DStop s (a.upd st) cl := by
  intro a ha st hg ht hu he h
  have t1 := ht.start_snk; have t3 := ht.joined_snk; have hs8 := stage_le cl.pc s
  have hch := clHolds0_stop cl.pc s
  obtain ⟨k1, k2, k3, k4, k5, k6, k7, k8, k9, k10, k11, k12, k13, k14⟩ := hu
  have e8 := he.snk_flush; have e10b := he.drained_pc; have e10a := he.err_disturbed
  obtain ⟨c1, c2, c3, c4, c7, c7a, c8, y, yq, yqs, yqx, yqe, yend⟩ := h
  have hn1 := nrd_pos k3
  have hrm := cv_rmap0 k1 hn1
  have hru := fun k => cv_runmap0 k1 k hn1
  have hac := cv_accept k1 false
  unfold snkActs at ha
  each_action ha
  all_goals (simp only [setSnkPc, snkRead, snkFrames, notifySink, chanOp, outLen_eq, getD0_eq, getD_idx0, Bool.and_eq_true, Bool.or_eq_true, decide_eq_true_eq, Bool.not_eq_true', ne_eq] at hg ⊢)
  all_goals (first | (constructor <;> (first | assumption | ((try simp only [snkHold, snkErr, snkErrLate, srcFin] at *) <;> grind))))

/-- what each client family has to establish -/
def DStop.Kept (a : Act RT) : Prop :=
  ∀ rt, TInvAll rt → (∀ s, DUseP s (getS rt s) rt.client) → (∀ s, DEndP s (getS rt s) rt.client) →
    a.guard rt = true → (∀ s, DStopP s (getS rt s) rt.client) → ∀ s, DStopP s (getS (a.upd rt) s) (a.upd rt).client

end AcqVerif.Runtime
