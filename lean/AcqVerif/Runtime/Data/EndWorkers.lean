import AcqVerif.Runtime.Data.EndDef
/-! # M1 — `DEnd` is kept by every action of the worker threads -/
namespace AcqVerif.Runtime
open AcqVerif.Channel

set_option maxHeartbeats 8000000 in
theorem DEnd.src (s : Nat) (cl : Client) (rs : DevState) : ∀ a ∈ srcActs s, ∀ st, a.guard st = true → TInv s st cl rs → DUse s st cl → DLog s st cl →
    DId s st cl → 0 < st.F → DEnd s st cl → DEnd s (a.upd st) cl := by
  intro a ha st hg ht hu hl hi hF h
  obtain ⟨k1, k2, k3, k4, k5, k6, k7, k8, k9, k10, k11, k12, k13, k14⟩ := hu
  obtain ⟨d1, d2, d3, d4⟩ := hl
  obtain ⟨i1, i2, i3, i3', i4, i4', i5, i6, i7⟩ := hi
  obtain ⟨e1, e2, e2a, e3, e3a, e3b, e4, e5, e6, e7, e8, w2, w4, w5, w6, w8, wa, e10, e10a, e10b, e11, e12⟩ := h
  have tS := ht.start_src; have hs8 := stage_le cl.pc s
  have hwf := cv_wmap_fail st.sinkCh st.F
  have hwo := fun b => cv_wmap_ok k1 st.F b
  have hcm := cv_wcommit k1
  unfold srcActs at ha
  each_action ha
  all_goals (simp only [setSrcPc, atWmap, wmapOut, wmapSys, chanOp, srcCont, Bool.and_eq_true, Bool.or_eq_true, decide_eq_true_eq, Bool.not_eq_true', ne_eq] at hg ⊢)
  -- src.wmap.ok
  case inr.inr.inr.inr.inr.inr.inr.inr.inl =>
    obtain ⟨b, hb⟩ := (isWok_iff _).mp hg.2
    obtain ⟨hok, hcv⟩ := hwo b hb
    constructor
    all_goals (try simp only [hcv, srcComplete])
    all_goals (first | assumption | ((try simp only [srcFin, srcInLoop, snkErr, srcComplete] at *) <;> grind))
  -- src.wmap.refused
  case inr.inr.inr.inr.inr.inr.inr.inr.inr.inl =>
    have hs : (step st.sinkCh (Op.wmap st.F)).1 = st.sinkCh := by
      apply hwf; intro b hb; have := hg.2; rw [hb] at this; simp [isWok] at this
    constructor
    all_goals (try simp only [hs, srcComplete])
    all_goals (first | assumption | ((try simp only [srcFin, srcInLoop, snkErr, srcComplete] at *) <;> grind))
  -- src.abort
  case inr.inr.inr.inr.inr.inr.inr.inr.inr.inr.inr.inr.inr.inr.inr.inr.inr.inl =>
    have hsh : srcHold st.src.pc = true := by (have := hg.1; simp_all [srcHold])
    have hp : (cv st.sinkCh).pending = true := by
      rcases k7 hsh with h | h
      · exact h
      · have := hg.1; rw [h.1] at this; cases this
    obtain ⟨hok, hcv⟩ := cv_wabort k1 hp
    constructor
    all_goals (try simp only [hcv, logpos])
    all_goals (first | assumption | ((try simp only [srcFin, srcInLoop, snkErr, srcComplete] at *) <;> grind))
  -- src.commit
  case inr.inr.inr.inr.inr.inr.inr.inr.inr.inr.inr.inr.inr.inr.inr.inr.inr.inr.inl =>
    have hsh : srcHold st.src.pc = true := by (have := hg.1; simp_all [srcHold])
    by_cases hcn : st.src.cur = none
    · -- the unmap after an aborted write (empty frame): nothing in flight, nothing changes
      have hs : (step st.sinkCh Op.wcommit).1 = st.sinkCh := wcommit_idle (k14 hg.1 hcn)
      constructor
      all_goals (try simp only [hs, hcn, addFrame, Option.isSome_none, Bool.false_and, Bool.or_false, ite_false, Nat.add_zero, logpos])
      all_goals (first | assumption | ((try simp only [srcFin, srcInLoop, snkErr, srcComplete] at *) <;> grind))
    have hp : (cv st.sinkCh).pending = true := by
      rcases k7 hsh with h | h
      · exact h
      · exact absurd h.2 hcn
    obtain ⟨hok, hcv⟩ := hcm hp
    have hpc : st.src.pc ≠ .done := by rw [hg.1]; simp
    have hst : ¬ (1 ≤ stage cl.pc s) := by intro h1; exact hpc (tS h1 hs8)
    have ht : (step st.sinkCh Op.wcommit).1.total = (cv (step st.sinkCh Op.wcommit).1).total := rfl
    have ht0 : st.sinkCh.total = (cv st.sinkCh).total := rfl
    have hw := k8 hsh
    constructor
    all_goals (try simp only [ht, ht0, hcv, srcComplete])
    case dropped =>
      intro hd
      cases hacc : (cv st.sinkCh).acc with
      | false => rcases e2a hacc with h1 | h1
                 · exact h1
                 · exact absurd h1.1 hst
      | true =>
        simp only [hacc, ite_true, hw, show (cv st.sinkCh).total + st.F > (cv st.sinkCh).total from by omega, decide_true, Bool.not_true, Bool.and_false, Bool.or_false] at hd
        exact e2 hd
    all_goals (first | assumption | ((try simp only [srcFin, srcInLoop, snkErr, srcComplete] at *) <;> grind))
  all_goals (first | (constructor <;> (first | assumption | ((try simp only [srcFin, srcInLoop, snkErr, srcComplete] at *) <;> grind))))
set_option maxHeartbeats 8000000 in
theorem DEnd.flt (s : Nat) (cl : Client) (rs : DevState) : ∀ a ∈ fltActs, ∀ st, a.guard st = true → TInv s st cl rs → DUse s st cl → DEnd s st cl → DEnd s (a.upd st) cl := by
  intro a ha st hg ht hu h
  obtain ⟨k1, k2, k3, k4, k5, k6, k7, k8, k9, k10, k11, k12, k13, k14⟩ := hu
  obtain ⟨e1, e2, e2a, e3, e3a, e3b, e4, e5, e6, e7, e8, w2, w4, w5, w6, w8, wa, e10, e10a, e10b, e11, e12⟩ := h
  have tF := ht.start_flt; have hs8 := stage_le cl.pc s
  have hf : (step st.filtCh (.rmap 0)).1 = st.filtCh := filt_rmap k2
  unfold fltActs at ha
  each_action ha
  all_goals (simp only [setFltPc, fltRead, chanOp, hf, Bool.and_eq_true, Bool.or_eq_true, decide_eq_true_eq, Bool.not_eq_true', ne_eq] at hg ⊢)
  all_goals (first | (constructor <;> (first | assumption | ((try simp only [srcFin, srcInLoop, snkErr, srcComplete] at *) <;> grind))))

set_option maxHeartbeats 8000000 in
theorem DEnd.snk (s : Nat) (cl : Client) (rs : DevState) : ∀ a ∈ snkActs s, ∀ st, a.guard st = true → TInv s st cl rs → DUse s st cl → DLog s st cl →
    DId s st cl → DEnd s st cl → DEnd s (a.upd st) cl := by
  intro a ha st hg ht hu hl hi h
  have i4 := hi.cur
  have t1 := ht.start_snk; have t3 := ht.joined_snk; have hs8 := stage_le cl.pc s
  have hch := clHolds0_stop cl.pc s
  obtain ⟨k1, k2, k3, k4, k5, k6, k7, k8, k9, k10, k11, k12, k13, k14⟩ := hu
  obtain ⟨d1, d2, d3, d4⟩ := hl
  obtain ⟨e1, e2, e2a, e3, e3a, e3b, e4, e5, e6, e7, e8, w2, w4, w5, w6, w8, wa, e10, e10a, e10b, e11, e12⟩ := h
  have hn1 := nrd_pos k3
  have hrm := cv_rmap0 k1 hn1
  have hru := fun k => cv_runmap0 k1 k hn1
  have hac := cv_accept k1 false
  have hml := mapped_pos0 k1 hn1
  unfold snkActs at ha
  each_action ha
  all_goals (simp only [setSnkPc, snkRead, snkFrames, notifySink, chanOp, outLen_eq, getD0_eq, getD_idx0, Bool.and_eq_true, Bool.or_eq_true, decide_eq_true_eq, Bool.not_eq_true', ne_eq] at hg ⊢)
  case inr.inr.inr.inr.inr.inr.inr.inr.inr.inr.inl =>
    constructor
    case drained =>
      intro _ hnd hc
      dsimp only at hnd hc ⊢
      have hpc : st.snk.pc ≠ .done := by rw [hg.1.1.1]; simp
      have hnr : st.snk.pc ≠ .runmapLock := by rw [hg.1.1.1]; simp
      have h0 := e10 hg.2 hg.1.1.2 (Or.inr hg.1.1.1) hg.1.2 hnd
      have hal := d3 hc hpc
      simp only [logpos, if_neg hnr] at hal
      have hss := e8 hg.2 hpc hg.1.1.2
      have hcomp : srcComplete st := by
        rcases e7 hss with h1 | ⟨_, h2⟩
        · have := t1 h1.1 (by omega); exact absurd this hpc
        · rcases h2 with h3 | h3
          · rw [hnd] at h3; cases h3
          · exact h3
      refine ⟨by rw [← hal, h0], hcomp, ?_⟩
      cases hcur : st.src.cur with
      | none => rfl
      | some f => have := (i4 f hcur).1; have hf := hcomp.1; rw [this] at hf; simp [srcFin] at hf
    all_goals (first | assumption | ((try simp only [snkHold, snkErr, srcFin, srcInLoop, srcComplete, logpos] at *) <;> grind))
  all_goals (first | (constructor <;> (first | assumption | ((try simp only [snkHold, snkErr, srcFin, srcInLoop, srcComplete, logpos] at *) <;> grind))))

theorem valid_in_range (rt : RT) (i : Nat) (h : (rt.streams.getD i {}).valid = true) : i < rt.streams.length := by
  by_cases hl : i < rt.streams.length
  · exact hl
  · exfalso
    have : rt.streams.getD i {} = {} := by simp [List.getD, List.getElem?_eq_none (Nat.le_of_not_lt hl)]
    rw [this] at h; cases h

/-- what each client family has to establish -/
def DEnd.Kept (a : Act RT) : Prop :=
  ∀ rt, TInvAll rt → (∀ s, DUseP s (getS rt s) rt.client) → (∀ s, DLogP s (getS rt s) rt.client) → (∀ s, DIdP s (getS rt s) rt.client) →
    a.guard rt = true → (∀ s, DEndP s (getS rt s) rt.client) → ∀ s, DEndP s (getS (a.upd rt) s) (a.upd rt).client

end AcqVerif.Runtime
