import AcqVerif.Runtime.Data.Reach
/-!
# M1 — the frames committed to `sink.in`, and which of them a byte range selects
-/
namespace AcqVerif.Runtime
open AcqVerif.Channel

/-- the committed frames lie one after the other in the stream, each `F` bytes long, all below `total` -/
def FramesOk (fs : List (Nat × Frame)) (F total : Nat) : Prop :=
  fs.Pairwise (fun p q => p.1 + F ≤ q.1) ∧ ∀ p ∈ fs, p.1 + F ≤ total

theorem framesIn_zero (fs : List (Nat × Frame)) (i : Nat) : framesIn fs i 0 = [] := by
  unfold framesIn
  simp only [List.map_eq_nil_iff, List.filter_eq_nil_iff]
  intro p _; simp

theorem framesIn_nil (i l : Nat) : framesIn [] i l = [] := rfl

/-- a frame committed at or beyond the end of the range is not selected -/
theorem framesIn_snoc_out (fs : List (Nat × Frame)) (p : Nat × Frame) (i l : Nat) (h : i + l ≤ p.1) :
    framesIn (fs ++ [p]) i l = framesIn fs i l := by
  unfold framesIn
  rw [List.filter_append]
  have : List.filter (fun q : Nat × Frame => decide (i ≤ q.1 ∧ q.1 < i + l)) [p] = [] := by
    simp; omega
  rw [this]; simp

theorem framesIn_cons (p : Nat × Frame) (fs : List (Nat × Frame)) (i l : Nat) :
    framesIn (p :: fs) i l = (if i ≤ p.1 ∧ p.1 < i + l then [p.2] else []) ++ framesIn fs i l := by
  unfold framesIn
  simp only [List.filter_cons]
  split <;> simp_all

/-- in a list sorted by start byte, nothing after an element starts below it -/
theorem framesIn_empty_of_sorted (fs : List (Nat × Frame)) (F a l b : Nat)
    (h : ∀ q ∈ fs, b ≤ q.1) (hb : a + l ≤ b) : framesIn fs a l = [] := by
  unfold framesIn
  simp only [List.map_eq_nil_iff, List.filter_eq_nil_iff]
  intro q hq; have := h q hq; simp; omega

/-- **consecutive ranges select consecutive frames**: for frames sorted by start byte, the frames starting in
`[a, a+l₁)` followed by those starting in `[a+l₁, a+l₁+l₂)` are the frames starting in `[a, a+l₁+l₂)` -/
theorem framesIn_split (fs : List (Nat × Frame)) (F a l1 l2 : Nat) (hs : fs.Pairwise (fun p q => p.1 + F ≤ q.1)) :
    framesIn fs a l1 ++ framesIn fs (a + l1) l2 = framesIn fs a (l1 + l2) := by
  induction fs with
  | nil => rfl
  | cons p rest ih =>
    have hrest := (List.pairwise_cons.mp hs).2
    have hp := (List.pairwise_cons.mp hs).1
    rw [framesIn_cons, framesIn_cons, framesIn_cons]
    have ih' := ih hrest
    by_cases h1 : a ≤ p.1 ∧ p.1 < a + l1
    · -- p is in the first range
      rw [if_pos h1, if_neg (by omega), if_pos (by omega)]
      simp only [List.nil_append, List.cons_append]
      rw [ih']
    · by_cases h2 : a + l1 ≤ p.1 ∧ p.1 < a + l1 + l2
      · -- p is in the second range: nothing of the rest is in the first
        rw [if_neg h1, if_pos h2, if_pos (by omega)]
        have he : framesIn rest a l1 = [] :=
          framesIn_empty_of_sorted rest F a l1 p.1 (fun q hq => by have := hp q hq; omega) (by omega)
        rw [he] at ih' ⊢
        simp only [List.nil_append] at ih' ⊢
        rw [← ih']
      · rw [if_neg h1, if_neg h2, if_neg (by omega)]
        simp only [List.nil_append]
        exact ih'

/-- committing one more frame at `total` keeps the list well formed -/
theorem FramesOk.snoc {fs : List (Nat × Frame)} {F total : Nat} (h : FramesOk fs F total) (fr : Frame) :
    FramesOk (fs ++ [(total, fr)]) F (total + F) := by
  constructor
  · rw [List.pairwise_append]
    refine ⟨h.1, List.pairwise_singleton _ _, ?_⟩
    intro p hp q hq
    simp only [List.mem_singleton] at hq; subst hq
    exact h.2 p hp
  · intro p hp
    rcases List.mem_append.mp hp with hp | hp
    · have := h.2 p hp; omega
    · simp only [List.mem_singleton] at hp; subst hp; simp

theorem FramesOk.mono {fs : List (Nat × Frame)} {F total total' : Nat} (h : FramesOk fs F total) (hle : total ≤ total') :
    FramesOk fs F total' :=
  ⟨h.1, fun p hp => by have := h.2 p hp; omega⟩

end AcqVerif.Runtime
