import AcqVerif.Runtime.Data.IA
import AcqVerif.Runtime.Data.IB
import AcqVerif.Runtime.Data.IC
import AcqVerif.Runtime.Data.ID
import AcqVerif.Runtime.Data.IE
import AcqVerif.Runtime.Data.IF
import AcqVerif.Runtime.Data.IG0
import AcqVerif.Runtime.Data.IG1
import AcqVerif.Runtime.Data.IG2
/-! # M1 — `DId` holds in every state any schedule reaches -/
namespace AcqVerif.Runtime
open AcqVerif.Channel

theorem DId.client_flush (s0 r0 : Nat) (hr : r0 ∈ ([2, 0, 1] : List Nat)) : ∀ a ∈ clientFlush s0 r0, DId.Kept a := by
  simp only [List.mem_cons, List.mem_nil_iff, or_false] at hr
  rcases hr with rfl | rfl | rfl
  · exact DId.client_flush2 s0
  · exact DId.client_flush0 s0
  · exact DId.client_flush1 s0

theorem DId.init (ring : Nat) (c : Option StreamCfg) (prog : List COp) (s : Nat) : DId s (initStream ring c) { prog := prog } := by
  cases c <;> (constructor <;> simp [initStream, stage, expected, since])
  all_goals (simp [cv, freshChan, step, Sys.init, readMap, readerInit, readMapAt, readMapCore, nth])

theorem DId.default (prog : List COp) (s : Nat) : DId s {} { prog := prog } := by
  constructor <;> simp [stage, expected, since]
  all_goals (simp [cv, step, Sys.init, readMap, readerInit, readMapAt, readMapCore, nth])

theorem src_keeps_F (s : Nat) : ∀ a ∈ srcActs s, ∀ st, (a.upd st).F = st.F := by
  intro a ha st; unfold srcActs at ha; each_action ha <;> rfl
theorem flt_keeps_F : ∀ a ∈ fltActs, ∀ st, (a.upd st).F = st.F := by
  intro a ha st; unfold fltActs at ha; each_action ha <;> rfl
theorem snk_keeps_F (s : Nat) : ∀ a ∈ snkActs s, ∀ st, (a.upd st).F = st.F := by
  intro a ha st; unfold snkActs at ha; each_action ha <;> rfl

/-- **the frames committed in a run are the camera's frames 0, 1, 2, … in order — in every state of every schedule** -/
theorem DId.micro : ∀ rt, MReach rt → ∀ s, DIdP s (getS rt s) rt.client := by
  apply MReach.inv' (fun rt => ∀ s, DIdP s (getS rt s) rt.client)
  · intro ring cfgs prog s _ _ _
    rw [getS_initRT]
    split
    · exact DId.init ring _ prog s
    · exact DId.default prog s
  · intro s a ha rt hr hg h
    refine all_setS_cl DIdP rt s _ ?_ h
    intro he hm hF
    rw [src_keeps_F s a ha] at hF
    exact DId.src s rt.client rt.state a ha _ hg (TInvAll.micro rt hr s) (DUse.micro rt hr s (Here.intro _) hm) (DLog.micro rt hr s (Here.intro _) hm) hF (h s (Here.intro _) hm hF)
  · intro s a ha rt _ hg h
    refine all_setS_cl DIdP rt s _ ?_ h
    intro he hm hF
    rw [flt_keeps_F a ha] at hF
    exact DId.flt s rt.client a ha _ hg (h s (Here.intro _) hm hF)
  · intro s a ha rt hr hg h
    refine all_setS_cl DIdP rt s _ ?_ h
    intro he hm hF
    rw [snk_keeps_F s a ha] at hF
    exact DId.snk s rt.client rt.state a ha _ hg (TInvAll.micro rt hr s) (DUse.micro rt hr s (Here.intro _) hm) (h s (Here.intro _) hm hF)
  · intro a ha rt hr hg h
    exact client_families DId.Kept DId.client_base DId.client_mon DId.client_cfg DId.client_start DId.client_err
      DId.client_stop DId.client_acc DId.client_flush a ha rt (TInvAll.micro rt hr) (DUse.micro rt hr) (DLog.micro rt hr) hg h

end AcqVerif.Runtime
