import AcqVerif.Runtime.Data.IdWorkers
/-! # M1 — `DId` is kept by the client actions (clCfg, clErr) -/
namespace AcqVerif.Runtime
open AcqVerif.Channel

set_option maxHeartbeats 16000000 in
theorem DId.client_cfg (s0 : Nat) : ∀ a ∈ clCfg s0, DId.Kept a := by
  intro a ha rt hT hU hL hg h s'
  have tS := (hT s').start_src; have tK := (hT s').start_snk; have tJ := (hT s').joined_snk; have tE := (hT s').after_err_stop; have tV := (hT s').start_valid
  have tJs := (hT s').joined_src; have tP := (hT s').pending
  have hs8 := stage_le rt.client.pc s'
  have hch := clHolds0_stop rt.client.pc s'
  have hdef : ¬ s' < rt.streams.length → rt.streams.getD s' {} = {} := by
    intro hl; simp [List.getD, List.getElem?_eq_none (Nat.le_of_not_lt hl)]
  unfold DIdP at h ⊢
  unfold DLogP at hL
  unfold DUseP at hU
  unfold clCfg at ha
  each_action ha
  client_expose
  all_goals (try (simp only [isOp, atPc, notifySink, setReaderChan, readerChan, readerIdx, flushRead, mapRead, mapMoved, chanOp, lockOk, monMapped, outLen_eq, getS, getD0_eq, getD_idx0, getD1_eq, getD_idx1, Bool.and_eq_true, Bool.or_eq_true, decide_eq_true_eq, Bool.not_eq_true', ne_eq] at hg ⊢))
  all_goals (try (simp at hg; done))
  all_goals (repeat' split)
  all_goals (intro he hm hF)
  all_goals (first | (cases hm; done) | (obtain ⟨k1, k2, k3, k4, k5, k6, k7, k8, k9, k10, k11, k12, k13, k14⟩ := hU _ he hm))
  all_goals (first | (obtain ⟨d1, d2, d3, d4⟩ := hL _ he hm))
  all_goals (first | (obtain ⟨i1, i2, i3, i3', i4, i4', i5, i6, i7⟩ := h _ he hm hF))
  all_goals (
    have hn1 := nrd_pos k3
    have hrm0 := cv_rmap0 k1 hn1
    have hru0 := fun k => cv_runmap0 k1 k hn1
    have hrm1 := cv_rmap1 k1
    have hru1 := fun k => cv_runmap1 k1 k
    have hac := fun b => cv_accept k1 b
    have hj := cv_join1 k1
    have hbad := fun k => runmap1_bad k1 k)
  all_goals constructor
  all_goals (try dsimp only)
  all_goals (repeat' split)
  all_goals (first | assumption | ((try simp only [snkHold, srcHold, clHolds0, clFlush1, clFlush1Free, AllDone] at *) <;> (try simp only [stage, stopStage] at ⊢) <;> grind [stage, stopStage, afterErrStop, expected, since]))

set_option maxHeartbeats 16000000 in
theorem DId.client_err (s0 : Nat) : ∀ a ∈ clErr s0, DId.Kept a := by
  intro a ha rt hT hU hL hg h s'
  have tS := (hT s').start_src; have tK := (hT s').start_snk; have tJ := (hT s').joined_snk; have tE := (hT s').after_err_stop; have tV := (hT s').start_valid
  have tJs := (hT s').joined_src; have tP := (hT s').pending
  have hs8 := stage_le rt.client.pc s'
  have hch := clHolds0_stop rt.client.pc s'
  have hdef : ¬ s' < rt.streams.length → rt.streams.getD s' {} = {} := by
    intro hl; simp [List.getD, List.getElem?_eq_none (Nat.le_of_not_lt hl)]
  unfold DIdP at h ⊢
  unfold DLogP at hL
  unfold DUseP at hU
  unfold clErr at ha
  each_action ha
  client_expose
  all_goals (try (simp only [isOp, atPc, notifySink, setReaderChan, readerChan, readerIdx, flushRead, mapRead, mapMoved, chanOp, lockOk, monMapped, outLen_eq, getS, getD0_eq, getD_idx0, getD1_eq, getD_idx1, Bool.and_eq_true, Bool.or_eq_true, decide_eq_true_eq, Bool.not_eq_true', ne_eq] at hg ⊢))
  all_goals (try (simp at hg; done))
  all_goals (repeat' split)
  all_goals (intro he hm hF)
  all_goals (first | (cases hm; done) | (obtain ⟨k1, k2, k3, k4, k5, k6, k7, k8, k9, k10, k11, k12, k13, k14⟩ := hU _ he hm))
  all_goals (first | (obtain ⟨d1, d2, d3, d4⟩ := hL _ he hm))
  all_goals (first | (obtain ⟨i1, i2, i3, i3', i4, i4', i5, i6, i7⟩ := h _ he hm hF))
  all_goals (
    have hn1 := nrd_pos k3
    have hrm0 := cv_rmap0 k1 hn1
    have hru0 := fun k => cv_runmap0 k1 k hn1
    have hrm1 := cv_rmap1 k1
    have hru1 := fun k => cv_runmap1 k1 k
    have hac := fun b => cv_accept k1 b
    have hj := cv_join1 k1
    have hbad := fun k => runmap1_bad k1 k)
  all_goals constructor
  all_goals (try dsimp only)
  all_goals (repeat' split)
  all_goals (first | assumption | ((try simp only [snkHold, srcHold, clHolds0, clFlush1, clFlush1Free, AllDone] at *) <;> (try simp only [stage, stopStage] at ⊢) <;> grind [stage, stopStage, afterErrStop, expected, since]))

end AcqVerif.Runtime
