import AcqVerif.Runtime.Data.Workers
/-! # M1 — `DUse` is kept by the client actions (clCfg, clErr) -/
namespace AcqVerif.Runtime
open AcqVerif.Channel

set_option maxHeartbeats 16000000 in
theorem DUse.client_cfg (s0 : Nat) : ∀ a ∈ clCfg s0, DUse.Kept a := by
  intro a ha rt hT hg h s'
  have tS := (hT s').start_src; have tK := (hT s').start_snk; have tJ := (hT s').joined_snk; have tE := (hT s').after_err_stop; have tV := (hT s').start_valid
  have hs8 := stage_le rt.client.pc s'
  have hch := clHolds0_stop rt.client.pc s'
  have hdef : ¬ s' < rt.streams.length → rt.streams.getD s' {} = {} := by
    intro hl; simp [List.getD, List.getElem?_eq_none (Nat.le_of_not_lt hl)]
  have hm0def : (cv ({} : Stream).sinkCh).m0 = false := rfl
  unfold DUseP at h ⊢
  unfold clCfg at ha
  each_action ha
  client_expose
  all_goals (try (simp only [isOp, atPc, notifySink, setReaderChan, readerChan, readerIdx, flushRead, mapRead, mapMoved, chanOp, lockOk, monMapped, outLen_eq, getS, getD0_eq, getD_idx0, getD1_eq, getD_idx1, Bool.and_eq_true, Bool.or_eq_true, decide_eq_true_eq, Bool.not_eq_true', ne_eq] at hg ⊢))
  all_goals (try (simp at hg; done))
  all_goals (repeat' split)
  all_goals (intro he hm)
  all_goals (first | (cases hm; done) | (obtain ⟨k1, k2, k3, k4, k5, k6, k7, k8, k9, k10, k11, k12, k13, k14⟩ := h _ he hm))
  all_goals (
    have hn1 := nrd_pos k3
    have hrm0 := cv_rmap0 k1 hn1
    have hru0 := fun k => cv_runmap0 k1 k hn1
    have hrm1 := cv_rmap1 k1
    have hru1 := fun k => cv_runmap1 k1 k
    have hac := fun b => cv_accept k1 b
    have hj := cv_join1 k1
    have hml := mapped_pos0 k1 hn1
    have hbad := fun k => runmap1_bad k1 k
    have hI1 := fun a b (i : Nat) => idle_rmap (k14 a b) i; have hI2 := fun a b (i k : Nat) => idle_runmap (k14 a b) i k
    have hI3 := fun a b => idle_refuse (k14 a b); have hI4 := fun a b => idle_join (k14 a b))
  all_goals constructor
  all_goals (try dsimp only)
  all_goals (repeat' split)
  all_goals (first | assumption | ((try simp only [snkHold, srcHold, clHolds0, clFlush1, clFlush1Free, AllDone] at *) <;> (try simp only [stage, stopStage] at ⊢) <;> grind [stage, stopStage, afterErrStop]))

set_option maxHeartbeats 16000000 in
theorem DUse.client_err (s0 : Nat) : ∀ a ∈ clErr s0, DUse.Kept a := by
  intro a ha rt hT hg h s'
  have tS := (hT s').start_src; have tK := (hT s').start_snk; have tJ := (hT s').joined_snk; have tE := (hT s').after_err_stop; have tV := (hT s').start_valid
  have hs8 := stage_le rt.client.pc s'
  have hch := clHolds0_stop rt.client.pc s'
  unfold DUseP at h ⊢
  unfold clErr at ha
  each_action ha
  client_expose
  all_goals (try (simp only [isOp, atPc, notifySink, setReaderChan, readerChan, readerIdx, flushRead, mapRead, mapMoved, chanOp, lockOk, monMapped, outLen_eq, getS, getD0_eq, getD_idx0, getD1_eq, getD_idx1, Bool.and_eq_true, Bool.or_eq_true, decide_eq_true_eq, Bool.not_eq_true', ne_eq] at hg ⊢))
  all_goals (try (simp at hg; done))
  all_goals (repeat' split)
  all_goals (intro he hm)
  all_goals (first | (cases hm; done) | (obtain ⟨k1, k2, k3, k4, k5, k6, k7, k8, k9, k10, k11, k12, k13, k14⟩ := h _ he hm))
  all_goals (
    have hn1 := nrd_pos k3
    have hrm0 := cv_rmap0 k1 hn1
    have hru0 := fun k => cv_runmap0 k1 k hn1
    have hrm1 := cv_rmap1 k1
    have hru1 := fun k => cv_runmap1 k1 k
    have hac := fun b => cv_accept k1 b
    have hj := cv_join1 k1
    have hml := mapped_pos0 k1 hn1
    have hbad := fun k => runmap1_bad k1 k
    have hI1 := fun a b (i : Nat) => idle_rmap (k14 a b) i; have hI2 := fun a b (i k : Nat) => idle_runmap (k14 a b) i k
    have hI3 := fun a b => idle_refuse (k14 a b); have hI4 := fun a b => idle_join (k14 a b))
  all_goals constructor
  all_goals (try dsimp only)
  all_goals (repeat' split)
  all_goals (first | assumption | ((try simp only [snkHold, srcHold, clHolds0, clFlush1, clFlush1Free, AllDone] at *) <;> (try simp only [stage, stopStage] at ⊢) <;> grind [stage, stopStage, afterErrStop]))

end AcqVerif.Runtime
