import AcqVerif.Runtime.Data.FinReach
/-!
# M1 — refusing writes wakes a source that sleeps on a full ring (no lost wake-up at pipeline level)

`channel_write_map` decides to sleep only while the channel accepts writes, and holds the channel's lock from that decision
until it is asleep; whoever refuses writes afterwards (`acquire_abort`, the sink's error path) has a notification pending
until it has woken the source. So a source is never asleep on a channel that refuses writes without a notifier on its way.
-/
namespace AcqVerif.Runtime
open AcqVerif.Channel

theorem wmap_block_acc (c : Sys) (n : Nat) (h : (step c (.wmap n)).2 = .wblock) : (cv c).acc = true := by
  simp only [step] at h
  split at h
  · cases h
  · rename_i hw
    unfold writeMap at hw
    show c.c.accepting = true
    cases ha : c.c.accepting with
    | true => rfl
    | false =>
      simp only [ha] at hw
      (repeat' split at hw) <;> simp_all
  · cases h

structure DWake (s : Nat) (st : Stream) (cl : Client) : Prop where
  held : st.src.pc = .wmapWait → (cv st.sinkCh).acc = true
  refused_wakes : st.src.pc = .wmapAsleep → (cv st.sinkCh).acc = false → st.snk.pc = .errAccNotify ∨ cl.pc = .accNotify s 1

def DWakeP (s : Nat) (st : Stream) (cl : Client) : Prop :=
  Here st → cl.misused = false → DWake s st cl

set_option maxHeartbeats 4000000 in
theorem DWake.src (s : Nat) (cl : Client) : ∀ a ∈ srcActs s, ∀ st, a.guard st = true → DUse s st cl → DWake s st cl → DWake s (a.upd st) cl := by
  intro a ha st hg hu h
  obtain ⟨k1, k2, k3, k4, k5, k6, k7, k8, k9, k10, k11, k12, k13, k14⟩ := hu
  obtain ⟨w1, w2⟩ := h
  have hwf := cv_wmap_fail st.sinkCh st.F
  have hwo := fun b => cv_wmap_ok k1 st.F b
  have hcm := cv_wcommit k1
  have hbl := wmap_block_acc st.sinkCh st.F
  unfold srcActs at ha
  each_action ha
  all_goals (simp only [setSrcPc, atWmap, wmapOut, wmapSys, chanOp, Bool.and_eq_true, Bool.or_eq_true, decide_eq_true_eq, Bool.not_eq_true', ne_eq] at hg ⊢)
  -- src.wmap.ok
  case inr.inr.inr.inr.inr.inr.inr.inr.inl =>
    obtain ⟨b, hb⟩ := (isWok_iff _).mp hg.2
    obtain ⟨hok, hcv⟩ := hwo b hb
    constructor
    all_goals (try simp only [hcv])
    all_goals (first | assumption | grind)
  -- src.wmap.refused
  case inr.inr.inr.inr.inr.inr.inr.inr.inr.inl =>
    have hs : (step st.sinkCh (Op.wmap st.F)).1 = st.sinkCh := by
      apply hwf; intro b hb; have := hg.2; rw [hb] at this; simp [isWok] at this
    constructor
    all_goals (try simp only [hs])
    all_goals (first | assumption | grind)
  -- src.abort
  case inr.inr.inr.inr.inr.inr.inr.inr.inr.inr.inr.inr.inr.inr.inr.inr.inr.inl =>
    have hsh : srcHold st.src.pc = true := by (have := hg.1; simp_all [srcHold])
    have hp : (cv st.sinkCh).pending = true := by
      rcases k7 hsh with h | h
      · exact h
      · have := hg.1; rw [h.1] at this; cases this
    obtain ⟨hok, hcv⟩ := cv_wabort k1 hp
    constructor
    all_goals (try simp only [hcv, logpos])
    all_goals (first | assumption | grind)
  -- src.commit
  case inr.inr.inr.inr.inr.inr.inr.inr.inr.inr.inr.inr.inr.inr.inr.inr.inr.inr.inl =>
    have hsh : srcHold st.src.pc = true := by (have := hg.1; simp_all [srcHold])
    by_cases hcn : st.src.cur = none
    · -- the unmap after an aborted write (empty frame): nothing in flight, nothing changes
      have hs : (step st.sinkCh Op.wcommit).1 = st.sinkCh := wcommit_idle (k14 hg.1 hcn)
      constructor
      all_goals (try simp only [hs, hcn, addFrame, Option.isSome_none, Bool.false_and, Bool.or_false, ite_false, Nat.add_zero, logpos])
      all_goals (first | assumption | grind)
    have hp : (cv st.sinkCh).pending = true := by
      rcases k7 hsh with h | h
      · exact h
      · exact absurd h.2 hcn
    obtain ⟨hok, hcv⟩ := hcm hp
    constructor
    all_goals (try simp only [hcv])
    all_goals (first | assumption | grind)
  all_goals (first | (constructor <;> (first | assumption | grind)))

theorem DWake.flt (s : Nat) (cl : Client) : ∀ a ∈ fltActs, ∀ st, a.guard st = true → DWake s st cl → DWake s (a.upd st) cl := by
  intro a ha st hg h
  obtain ⟨w1, w2⟩ := h
  unfold fltActs at ha
  each_action ha
  all_goals (exact ⟨w1, w2⟩)

set_option maxHeartbeats 4000000 in
theorem DWake.snk (s : Nat) (cl : Client) (rs : DevState) : ∀ a ∈ snkActs s, ∀ st, a.guard st = true → TInv s st cl rs → DUse s st cl → DWake s st cl → DWake s (a.upd st) cl := by
  intro a ha st hg ht hu h
  have t1 := ht.start_snk; have t3 := ht.joined_snk; have hs8 := stage_le cl.pc s
  have hch := clHolds0_stop cl.pc s
  obtain ⟨k1, k2, k3, k4, k5, k6, k7, k8, k9, k10, k11, k12, k13, k14⟩ := hu
  obtain ⟨w1, w2⟩ := h
  have hn1 := nrd_pos k3
  have hrm := cv_rmap0 k1 hn1
  have hru := fun k => cv_runmap0 k1 k hn1
  have hac := cv_accept k1 false
  unfold snkActs at ha
  each_action ha
  all_goals (simp only [setSnkPc, snkRead, snkFrames, notifySink, sinkLockFree, chanOp, outLen_eq, getD0_eq, getD_idx0, Bool.and_eq_true, Bool.or_eq_true, decide_eq_true_eq, Bool.not_eq_true', ne_eq] at hg ⊢)
  all_goals (first | (constructor <;> (first | assumption | ((try simp only [snkHold] at *) <;> grind))))

/-- what each client family has to establish -/
def DWake.Kept (a : Act RT) : Prop :=
  ∀ rt, TInvAll rt → (∀ s, DUseP s (getS rt s) rt.client) → a.guard rt = true →
    (∀ s, DWakeP s (getS rt s) rt.client) → ∀ s, DWakeP s (getS (a.upd rt) s) (a.upd rt).client

end AcqVerif.Runtime
